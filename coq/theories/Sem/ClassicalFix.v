(* The classical clauses of C08 as a decidable check on a state, the
   refutation of `classical_finish` for cpl.Model.finish as coded, and the
   model of the repaired completion (fix 08fe120, = the current code):

     _close_identity(w): the true identity pairs are closed to an equivalence
       relation over self.constants with the package's own GlobalAccess
       routine (reflexive / transitive / symmetric closure), then
     _agument_extension_with_identicals(pred, w): every true tuple is replaced
       by the product of the identity classes of its members (one pass). *)
From Coq Require Import List Bool Arith Lia.
From PT Require Import Sem.Values Sem.MSyntax Sem.LimitBest Sem.Access Sem.PyModel Sem.Classical.
Import ListNotations.

(* ---- the clauses, decidable ------------------------------------------------- *)
Definition isT (st : state) (w : nat) (p : pred) (ps : list param) : bool :=
  match get_pred (s_preds st) w p ps with Some VT => true | _ => false end.

Definition replace_nth (i : nat) (x : param) (ps : list param) : list param :=
  firstn i ps ++ match skipn i ps with [] => [] | _ :: r => x :: r end.

Definition frame_classical_okb (st : state) (w : nat) : bool :=
  let cs := s_consts st in
  forallb (fun a => isT st w PIdentity [PC a; PC a] && isT st w PExistence [PC a]) cs &&
  forallb (fun a => forallb (fun b =>
     implb (isT st w PIdentity [PC a; PC b]) (isT st w PIdentity [PC b; PC a]) &&
     forallb (fun d => implb (isT st w PIdentity [PC a; PC b] && isT st w PIdentity [PC b; PC d])
                             (isT st w PIdentity [PC a; PC d])) cs) cs) cs &&
  forallb (fun e => match e with
     | (w', p, ps, v) =>
         negb (Nat.eqb w w' && val_eqb v VT) ||
         forallb (fun i => forallb (fun b =>
            match nth_error ps i with
            | Some (PC a) => implb (isT st w PIdentity [PC a; PC b]) (isT st w p (replace_nth i (PC b) ps))
            | _ => true
            end) cs) (seq 0 (length ps))
     end) (s_preds st).

Definition classical_okb (st : state) : bool := forallb (frame_classical_okb st) (s_fkeys st).

(* ---- the repaired completion -------------------------------------------------- *)
Definition acc_empty : access := {| aw := []; ap := [] |}.

Definition pair_of (ps : list param) : option (nat * nat) :=
  match ps with [PC a; PC b] => Some (a, b) | _ => None end.
Definition id_pairs (st : state) (w : nat) : list (nat * nat) :=
  flat_map (fun ps => match pair_of ps with Some p => [p] | None => [] end) (having_T st w PIdentity).

(* rel = GlobalAccess(); for c in self.constants: rel[c]; rel.addall(interp.having('T')) *)
Definition id_rel (cord : list nat) (st : state) (w : nat) : access :=
  fold_left acc_add (id_pairs st w) (fold_left acc_touch cord acc_empty).

Definition close_identity (cord : list nat) (w : nat) (st : state) : option state :=
  match cord with
  | [] => Some st
  | _ =>
      let st := with_preds st (addpk (w, PIdentity) (s_pkeys st)) (s_preds st) in
      match global_enforce (id_rel cord st w) with
      | None => None
      | Some r => set_T_all st w PIdentity (map (fun p => [PC (fst p); PC (snd p)]) (ap r))
      end
  end.

Definition class_of (st : state) (w : nat) (p : param) : list param :=
  match p with PC c => PC c :: identicals st w c | PV _ => [p] end.

Fixpoint tuples_product (l : list (list param)) : list (list param) :=
  match l with
  | [] => [[]]
  | cs :: r => flat_map (fun x => map (cons x) (tuples_product r)) cs
  end.

Definition augment_fixed (w : nat) (st : state) (p : pred) : option state :=
  match having_T st w p with
  | [] => Some st
  | ts =>
      let st := with_preds st (addpk (w, PIdentity) (s_pkeys st)) (s_preds st) in
      set_T_all st w p (flat_map (fun ps => tuples_product (map (class_of st w) ps)) ts)
  end.

Definition cl_frame_fixed (cord : list nat) (pord : nat -> list pred) (st : state) (w : nat)
  : option state :=
  match close_identity cord w st with
  | None => None
  | Some st =>
      let snapshot := filter (fun p => existsb (pred_eqb p) (pkeys_of st w)) (pord w) in
      match fold_opt (augment_fixed w) st snapshot with
      | None => None
      | Some st => ensure_self cord w st
      end
  end.

Definition cl_complete_fixed (cord : list nat) (pord : nat -> list pred) (st : state) : option state :=
  fold_opt (cl_frame_fixed cord pord) st (s_fkeys st).

(* Model.finish of every logic, as coded at /repo HEAD.  cpl.Model.finish:
     _complete_frames(); R.enforce(); _is_frame_complete = False; _complete_frames();
     for w, frame in frames.items(): _close_identity; augment each predicate;
                                     _ensure_self_identity; _ensure_self_existence
     return super().finish()        (BaseModel.finish = PyModel.base_finish) *)
Definition finish (L : mlogic) (cord : list nat) (pord : nat -> list pred) (st : state)
  : option state :=
  if ml_classical L then
    match pre_complete L st with
    | None => None
    | Some st2 =>
        match cl_complete_fixed cord pord st2 with
        | None => None
        | Some st3 => base_finish L st3
        end
    end
  else base_finish L st.

Definition run (L : mlogic) (cord : list nat) (pord : nat -> list pred) (os : list op)
  : option state :=
  match apply_ops L init_state os with
  | None => None
  | Some st => finish L cord pord st
  end.

(* ---- a hand written classical logic for the in-theory witnesses -------------- *)
Definition cl_neg (a : val) : val := match a with VT => VF | _ => VT end.
Definition cl_tables : tables :=
  {| t_vals := [VF; VT];
     t_des := fun v => val_eqb v VT;
     t_un := fun o a => match o with Assertion => a | Negation => cl_neg a end;
     t_bin := fun o a b =>
       match o with
       | Conjunction => vmin a b
       | Disjunction => vmax a b
       | MaterialConditional | Conditional => vmax (cl_neg a) b
       | MaterialBiconditional | Biconditional => vmin (vmax (cl_neg a) b) (vmax (cl_neg b) a)
       end |}.
Definition g_best : gen := {| g_crunch := false; g_comb := CBest |}.
Definition ML_cfol : mlogic :=
  {| ml_tab := cl_tables; ml_unass := VF; ml_min := VF; ml_max := VT; ml_first := VF; ml_last := VT;
     ml_modal := false; ml_quant := true; ml_many := false; ml_classical := true;
     ml_access := AKAny; ml_genq := fun _ => g_best; ml_genm := fun _ => g_best |}.

(* a = b set true, then finish() *)
Definition wit_sym : list op := [OPredicated 0 PIdentity [PC 0; PC 1] VT].
(* a = b, b = c, Fa set true, then finish() *)
Definition wit_chain : list op :=
  [OPredicated 0 PIdentity [PC 0; PC 1] VT; OPredicated 0 PIdentity [PC 1; PC 2] VT;
   OPredicated 0 (PUser 0 1) [PC 0] VT].

Definition all_pord (w : nat) : list pred := [PUser 0 1; PIdentity; PExistence].

(* `classical_finish` (for every order and history, after finish the classical
   clauses hold) is FALSE of cpl.Model.finish as it was coded before fix 08fe120 (run_old): for the history
   [a = b := T] EVERY iteration order of the two constants gives a model in
   which a = b is true and b = a is not. *)
Theorem classical_finish_refuted :
  exists os, forall cord, In cord [[0; 1]; [1; 0]] ->
    exists st, run_old ML_cfol cord all_pord os = Some st /\
               classical_okb st = false /\
               value_of ML_cfol st (SPred PIdentity [PC 0; PC 1]) 0 = Val VT /\
               value_of ML_cfol st (SPred PIdentity [PC 1; PC 0]) 0 = Val VF.
Proof.
  exists wit_sym. intros cord [<-|[<-|[]]]; eexists; (split; [vm_compute; reflexivity|]);
    repeat split; vm_compute; reflexivity.
Qed.

(* the witness of the design (a=b, b=c, Fa): c=a and c=b stay false in the
   insertion order *)
Example classical_finish_chain :
  exists st, run_old ML_cfol [0; 1; 2] all_pord wit_chain = Some st /\
    map (fun s => value_of ML_cfol st s 0)
        [SPred (PUser 0 1) [PC 0]; SPred (PUser 0 1) [PC 1]; SPred (PUser 0 1) [PC 2];
         SPred PIdentity [PC 0; PC 2]; SPred PIdentity [PC 2; PC 0];
         SPred PIdentity [PC 1; PC 0]; SPred PIdentity [PC 2; PC 1]]
    = [Val VT; Val VT; Val VT; Val VT; Val VF; Val VT; Val VF].
Proof. eexists. split; vm_compute; reflexivity. Qed.

(* the result depends on the iteration order of the set of constants *)
Example classical_finish_order_dependent :
  exists os c1 c2 st1 st2,
    run_old ML_cfol c1 all_pord os = Some st1 /\ run_old ML_cfol c2 all_pord os = Some st2 /\
    value_of ML_cfol st1 (SPred (PUser 0 1) [PC 2]) 0 <> value_of ML_cfol st2 (SPred (PUser 0 1) [PC 2]) 0.
Proof.
  exists [OPredicated 0 (PUser 0 1) [PC 0] VT; OPredicated 0 PIdentity [PC 0; PC 1] VT;
          OPredicated 0 PIdentity [PC 1; PC 2] VT], [0; 1; 2], [2; 1; 0].
  eexists. eexists. split; [vm_compute; reflexivity|]. split; [vm_compute; reflexivity|].
  vm_compute. discriminate.
Qed.

(* the repaired completion on the same witnesses *)
Example classical_fixed_witnesses :
  (exists st, run ML_cfol [1; 0] all_pord wit_sym = Some st /\ classical_okb st = true) /\
  (exists st, run ML_cfol [2; 0; 1] all_pord wit_chain = Some st /\ classical_okb st = true).
Proof. split; eexists; split; vm_compute; reflexivity. Qed.
