(* The value of a sentence does not depend on the iteration order of the
   Python sets self.constants and self.R[w] (for the generalisers that are
   min / max / set based; the reduce-based ones of K3WQ/KK3WQ rely on the
   kernel-checked associativity-commutativity of the folded operator). *)
From Coq Require Import List Bool Arith Lia Permutation.
From PT Require Import Sem.Values Sem.MSyntax Sem.LimitBest Sem.Access Sem.PyModel Sem.ModelRun
  Sem.PyModelProofs.
Import ListNotations.

Lemma fold_left_perm {A B} (f : A -> B -> A) :
  (forall a x y, f (f a x) y = f (f a y) x) ->
  forall l l', Permutation l l' -> forall a, fold_left f l a = fold_left f l' a.
Proof.
  intros C l l' P. induction P as [|x l l' P IH|x y l|l l' l'' P1 IH1 P2 IH2]; intro a; simpl.
  - reflexivity.
  - apply IH.
  - rewrite C. reflexivity.
  - rewrite IH1. apply IH2.
Qed.

Lemma vlist_max_alt l d : vlist_max l d = match l with [] => d | _ => fold_left vmax l VF end.
Proof. destruct l as [|x r]; [reflexivity|]. simpl. destruct x; reflexivity. Qed.
Lemma vlist_min_alt l d : vlist_min l d = match l with [] => d | _ => fold_left vmin l VT end.
Proof. destruct l as [|x r]; [reflexivity|]. simpl. destruct x; reflexivity. Qed.

Lemma vlist_max_perm l l' d : Permutation l l' -> vlist_max l d = vlist_max l' d.
Proof.
  intro P. rewrite !vlist_max_alt. destruct l as [|x r].
  - apply Permutation_nil in P. subst. reflexivity.
  - destruct l' as [|y t]; [apply Permutation_sym, Permutation_nil in P; discriminate|].
    apply fold_left_perm; [|exact P]. intros a u v. destruct a, u, v; reflexivity.
Qed.
Lemma vlist_min_perm l l' d : Permutation l l' -> vlist_min l d = vlist_min l' d.
Proof.
  intro P. rewrite !vlist_min_alt. destruct l as [|x r].
  - apply Permutation_nil in P. subst. reflexivity.
  - destruct l' as [|y t]; [apply Permutation_sym, Permutation_nil in P; discriminate|].
    apply fold_left_perm; [|exact P]. intros a u v. destruct a, u, v; reflexivity.
Qed.

Lemma vmem_perm v l l' : Permutation l l' -> vmem v l = vmem v l'.
Proof.
  intro P. destruct (vmem v l) eqn:E.
  - symmetry. apply vmem_In. apply (Permutation_in _ P). apply vmem_In. exact E.
  - destruct (vmem v l') eqn:E'; [|reflexivity].
    apply vmem_In in E'. apply (Permutation_in _ (Permutation_sym P)) in E'.
    apply vmem_In in E'. congruence.
Qed.
Lemma distinct_perm l l' : Permutation l l' -> distinct l = distinct l'.
Proof.
  intro P. unfold distinct. apply Permutation_length. apply NoDup_Permutation.
  - apply NoDup_nodup.
  - apply NoDup_nodup.
  - intro x. rewrite !nodup_In. split; apply Permutation_in; [exact P|apply Permutation_sym; exact P].
Qed.

Definition no_fold (g : gen) : Prop := g_comb g <> CFold.

Lemma gen_spec_perm L g side l l' :
  no_fold g -> Permutation l l' -> gen_spec L g side l = gen_spec L g side l'.
Proof.
  intros NF P. unfold gen_spec.
  assert (PC : Permutation (crunch L g l) (crunch L g l')).
  { unfold crunch. destruct (g_crunch g); [apply Permutation_map; exact P|exact P]. }
  destruct (g_comb g) eqn:C.
  - destruct side; [apply vlist_max_perm|apply vlist_min_perm]; exact PC.
  - exfalso. apply NF. exact C.
  - unfold set_mh. rewrite (vmem_perm _ _ _ PC), (distinct_perm _ _ PC). reflexivity.
  - unfold set_nh. rewrite (vmem_perm _ _ _ PC), (distinct_perm _ _ PC). reflexivity.
Qed.

(* two states that differ only in the ORDER of self.constants and of each R[w] *)
Definition same_up_to_order (st st' : state) : Prop :=
  s_atoms st = s_atoms st' /\ s_opaqs st = s_opaqs st' /\ s_preds st = s_preds st' /\
  Permutation (s_consts st) (s_consts st') /\
  forall w, Permutation (succs (s_R st) w) (succs (s_R st') w).

Theorem eval_order_independent L st st' :
  (forall q, no_fold (ml_genq L q)) -> (forall o, no_fold (ml_genm L o)) ->
  same_up_to_order st st' ->
  forall s env w, eval L st env s w = eval L st' env s w.
Proof.
  intros NQ NM [HA [HO [HP [PC PR]]]].
  induction s as [a|p ps|q v b IH|o a IH|o a IHa b IHb|o a IH]; intros env w; simpl.
  - unfold atom_val. rewrite HA. reflexivity.
  - unfold pred_val. rewrite HP. reflexivity.
  - destruct (ml_quant L).
    + rewrite (gen_spec_perm L _ _ _ (map (fun c => eval L st ((v, c) :: env) b w) (s_consts st')) (NQ q)).
      * f_equal. apply map_ext. intro c. apply IH.
      * apply Permutation_map. exact PC.
    + unfold opaq_val. rewrite HO. reflexivity.
  - rewrite IH. reflexivity.
  - rewrite IHa, IHb. reflexivity.
  - destruct (ml_modal L).
    + rewrite (gen_spec_perm L _ _ _ (map (fun w2 => eval L st env a w2) (succs (s_R st') w)) (NM o)).
      * f_equal. apply map_ext. intro w2. apply IH.
      * apply Permutation_map. apply PR.
    + unfold opaq_val. rewrite HO. reflexivity.
Qed.

(* ... hence value_of as coded (whose early exit inspects the elements in
   iteration order) is order independent too *)
Theorem value_of_order_independent L st st' s w :
  bounds_ok L = true ->
  (forall q, no_fold (ml_genq L q)) -> (forall o, no_fold (ml_genm L o)) ->
  same_up_to_order st st' ->
  s_finished st = true -> s_finished st' = true -> frame_ok L w = true ->
  denotes st [] s = true -> norebind s = true ->
  value_of L st s w = value_of L st' s w.
Proof.
  intros HB NQ NM S F F' Hw Hd Hn.
  rewrite (value_of_spec L st s w HB F Hw Hd Hn).
  assert (Hd' : denotes st' [] s = true).
  { destruct S as [_ [_ [_ [PC _]]]]. clear - Hd PC.
    revert Hd. generalize (@nil nat). induction s; intros bound Hd; simpl in *; auto.
    - rewrite forallb_forall in *. intros x Hx. specialize (Hd x Hx). destruct x; [|exact Hd].
      rewrite existsb_exists in *. destruct Hd as [y [Hy E]]. exists y. split; [|exact E].
      apply (Permutation_in _ PC). exact Hy.
    - apply andb_true_iff in Hd. destruct Hd as [H1 H2]. rewrite IHs1, IHs2; auto. }
  rewrite (value_of_spec L st' s w HB F' Hw Hd' Hn).
  f_equal. apply eval_order_independent; assumption.
Qed.
