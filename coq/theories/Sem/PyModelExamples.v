(* Non-vacuity examples and the rebinding counterexample for value_of_spec. *)
From Coq Require Import List Bool Arith.
From PT Require Import Sem.Values Sem.MSyntax Sem.LimitBest Sem.Access Sem.PyModel Sem.Classical
  Sem.ClassicalFix Sem.ModelRun Sem.PyModelProofs.
Import ListNotations.

Definition F_ := PUser 0 1.
Definition G_ := PUser 1 1.
Definition ex_ops : list op :=
  [OPredicated 0 F_ [PC 0] VT; OPredicated 0 F_ [PC 1] VF;
   OPredicated 0 G_ [PC 0] VT; OPredicated 0 G_ [PC 1] VF; OAtomic 0 0 VT].

Definition ex_state : state :=
  match run ML_cfol [0; 1] (fun _ => [F_; G_; PIdentity; PExistence]) ex_ops with
  | Some st => st
  | None => init_state
  end.

(* exists x (Fx & forall y Gy): hypotheses of value_of_spec hold, both sides F *)
Definition ex_sent : sent :=
  SQuant Existential 0 (SBin Conjunction (SPred F_ [PV 0]) (SQuant Universal 1 (SPred G_ [PV 1]))).

Example value_of_spec_nonvacuous :
  bounds_ok ML_cfol = true /\ s_finished ex_state = true /\ frame_ok ML_cfol 0 = true /\
  denotes ex_state [] ex_sent = true /\ norebind ex_sent = true /\
  value_of ML_cfol ex_state ex_sent 0 = Val VF /\
  value_of ML_cfol ex_state (SQuant Existential 0 (SPred F_ [PV 0])) 0 = Val VT.
Proof. repeat split; vm_compute; reflexivity. Qed.

(* exists x (Fx & forall x Gx): the inner quantifier rebinds x.  Sentence.substitute
   replaces x blindly, also below the inner quantifier, so the instance for a is
   Fa & forall x Ga.  value_of gives T, the recursive semantics (innermost binding
   wins) gives F: the hypothesis `norebind` of value_of_spec cannot be dropped. *)
Definition ex_rebind : sent :=
  SQuant Existential 0 (SBin Conjunction (SPred F_ [PV 0]) (SQuant Universal 0 (SPred G_ [PV 0]))).

Theorem value_of_rebind_refuted :
  exists L st s w,
    bounds_ok L = true /\ s_finished st = true /\ frame_ok L w = true /\ denotes st [] s = true /\
    norebind s = false /\
    value_of L st s w <> Val (eval L st [] s w).
Proof.
  exists ML_cfol, ex_state, ex_rebind, 0.
  repeat split; try (vm_compute; reflexivity). vm_compute. discriminate.
Qed.
