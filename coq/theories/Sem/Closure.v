(* C05: closure patterns over the literal constraints on one sentence, and the
   value the model builder reads off an open literal set. *)
From Coq Require Import List Bool.
From PT Require Import Util.Finite Sem.Values.
Import ListNotations.

(* Which of (S,+) (S,-) (~S,+) (~S,-) are on the branch (one world). For logics
   without designation markers only lpp (S) and lnp (~S) are used. *)
Record lits := { lpp : bool; lpm : bool; lnp : bool; lnm : bool }.

Inductive ckind := KDesignation | KGlut | KGap | KContradiction.

Definition closes1 (k : ckind) (l : lits) : bool :=
  match k with
  | KDesignation => (lpp l && lpm l) || (lnp l && lnm l)
  | KGlut => lpp l && lnp l
  | KGap => lpm l && lnm l
  | KContradiction => lpp l && lnp l
  end.
Definition closes (ks : list ckind) (l : lits) : bool := existsb (fun k => closes1 k l) ks.

Definition lit_sat (t : tables) (l : lits) (x : val) : bool :=
  implb (lpp l) (t_des t x) && implb (lpm l) (negb (t_des t x)) &&
  implb (lnp l) (t_des t (t_un t Negation x)) && implb (lnm l) (negb (t_des t (t_un t Negation x))).

Definition all_lits (has_des : bool) : list lits :=
  if has_des then
    flat_map (fun a => flat_map (fun b => flat_map (fun c => map (fun d =>
      {| lpp := a; lpm := b; lnp := c; lnm := d |}) [false; true]) [false; true]) [false; true]) [false; true]
  else
    flat_map (fun a => map (fun c => {| lpp := a; lpm := false; lnp := c; lnm := false |}) [false; true]) [false; true].

Lemma all_lits_complete_des l : In l (all_lits true).
Proof. destruct l as [[|] [|] [|] [|]]; simpl; auto 20. Qed.
Lemma all_lits_complete_nodes l : lpm l = false -> lnm l = false -> In l (all_lits false).
Proof. destruct l as [[|] [|] [|] [|]]; simpl; intros; try discriminate; auto 20. Qed.

(* BaseModel._read_node: the value set for S by each literal node present. *)
Definition read_vals (has_des : bool) (l : lits) : list val :=
  if has_des then
    (if lpp l then [if lnp l then VB else VT] else []) ++
    (if lpm l then [if lnm l then VN else VF] else []) ++
    (if lnp l then [if lpp l then VB else VF] else []) ++
    (if lnm l then [if lpm l then VN else VT] else [])
  else
    (if lpp l then [VT] else []) ++ (if lnp l then [VF] else []).

Definition all_same (x : val) (l : list val) : bool := forallb (val_eqb x) l.

(* Soundness: a closing literal set has no satisfying value. *)
Definition closure_sound (t : tables) (has_des : bool) (ks : list ckind) : option (lits * val) :=
  find_some (fun l => if closes ks l
      then find_some (fun x => guard (negb (lit_sat t l x)) (l, x)) (t_vals t)
      else None) (all_lits has_des).

(* Completeness: an open literal set is satisfied by some value; and a non-empty one
   is read off as one single value of the logic that satisfies it. *)
Definition closure_complete (t : tables) (has_des : bool) (ks : list ckind) : option lits :=
  find_some (fun l => if closes ks l then None else
      guard (existsb (lit_sat t l) (t_vals t) &&
             match read_vals has_des l with
             | [] => true
             | x :: r => all_same x r && vmem x (t_vals t) && lit_sat t l x
             end) l) (all_lits has_des).

Lemma closure_sound_spec t hd ks : closure_sound t hd ks = None ->
  forall l x, In l (all_lits hd) -> closes ks l = true -> In x (t_vals t) -> lit_sat t l x = false.
Proof.
  intros H l x Hl Hc Hx. pose proof (find_some_none _ _ H l Hl) as G. cbv beta in G.
  rewrite Hc in G. pose proof (find_some_none _ _ G x Hx) as G2. apply guard_none in G2.
  destruct (lit_sat t l x); [discriminate|reflexivity].
Qed.

Lemma closure_complete_spec t hd ks : closure_complete t hd ks = None ->
  forall l, In l (all_lits hd) -> closes ks l = false ->
    (exists x, In x (t_vals t) /\ lit_sat t l x = true) /\
    (forall x r, read_vals hd l = x :: r ->
       (forall y, In y r -> y = x) /\ In x (t_vals t) /\ lit_sat t l x = true).
Proof.
  intros H l Hl Hc. pose proof (find_some_none _ _ H l Hl) as G. cbv beta in G.
  rewrite Hc in G. apply guard_none in G. apply andb_true_iff in G. destruct G as [G1 G2]. split.
  - apply existsb_exists in G1. destruct G1 as [x [Hx Hs]]. exists x. auto.
  - intros x r E. rewrite E in G2. rewrite !andb_true_iff in G2. destruct G2 as [[Ga Gb] Gc].
    split; [|split].
    + intros y Hy. unfold all_same in Ga. rewrite forallb_forall in Ga. specialize (Ga y Hy).
      apply val_eqb_eq in Ga. auto.
    + apply vmem_In. exact Gb.
    + exact Gc.
Qed.

(* Classical identity / existence literals: ~a=a and ~E!a are unsatisfiable when
   a=a and E!a are true, which needs: negation of T is undesignated. *)
Definition neg_true_undesignated (t : tables) : bool :=
  negb (t_des t (t_un t Negation VT)) && t_des t VT.
