(* Entry points of the C20 correspondence: compare the model's export with the
   canonicalised get_data() of the implementation inside Coq. *)
From Coq Require Import List Bool Arith.
From PT Require Import Sem.Values Sem.MSyntax Sem.LimitBest Sem.Access Sem.PyModel Sem.Classical
  Sem.ClassicalFix Sem.ModelRun Sem.Export Sem.ExportProofs.
Import ListNotations.

Fixpoint list_eqb {A} (eqb : A -> A -> bool) (a b : list A) : bool :=
  match a, b with
  | [], [] => true
  | x :: r, y :: t => eqb x y && list_eqb eqb r t
  | _, _ => false
  end.

Definition xframe_diff (a b : xframe) : nat :=
  if negb (list_eqb (fun x y => Nat.eqb (fst x) (fst y) && val_eqb (snd x) (snd y)) (x_atoms a) (x_atoms b)) then 4
  else if negb (list_eqb (fun x y => sent_eqb (fst x) (fst y) && val_eqb (snd x) (snd y)) (x_opaqs a) (x_opaqs b)) then 5
  else if negb (list_eqb (fun x y => pred_eqb (fst (fst x)) (fst (fst y)) && Bool.eqb (snd (fst x)) (snd (fst y)) &&
                                     list_eqb params_eqb (snd x) (snd y)) (x_preds a) (x_preds b)) then 6
  else 0.

(* 0 = identical; 1 worlds, 2 access, 3 frame keys, 4 atomics, 5 opaques, 6 predicates *)
Definition xdata_diff (a b : xdata) : nat :=
  if negb (list_eqb Nat.eqb (x_worlds a) (x_worlds b)) then 1
  else if negb (list_eqb pair_eqb (x_access a) (x_access b)) then 2
  else if negb (list_eqb Nat.eqb (map fst (x_frames a)) (map fst (x_frames b))) then 3
  else fold_left (fun acc p => if Nat.eqb acc 0 then xframe_diff (snd (fst p)) (snd (snd p)) else acc)
                 (combine (x_frames a) (x_frames b)) 0.

(* the state as dumped from the implementation after finish() *)
Definition state_of_dump fkeys atoms opaqs pkeys preds aw_ ap_ consts : state :=
  {| s_fkeys := fkeys; s_atoms := atoms; s_opaqs := opaqs; s_pkeys := pkeys; s_preds := preds;
     s_R := {| aw := aw_; ap := ap_ |}; s_consts := consts; s_sents := [];
     s_complete := true; s_finished := true |}.

(* (wf, export of the dumped state vs impl, export of the state built by the model from the
   ops vs impl [99 = the model raised; 98 = not applicable]) *)
Definition export_case (L : mlogic) (st : state) (d : xdata) :=
  (state_wfb L st, xdata_diff (export L st) d).

Definition export_case_ops (L : mlogic) (os : list op) (cord : list nat)
           (pordl : list (nat * list pred)) (d : xdata) : nat :=
  match run L cord (pord_of pordl) os with
  | None => 99
  | Some st => xdata_diff (export L st) d
  end.
