(* Literature / documented truth tables, written by formula and independently
   of the implementation.  Sources: Belnap's four-valued lattice (FDE) and its
   restrictions (K3, LP, classical); weak Kleene (K3W) and Bochvar's external
   connectives (B3E); Lukasiewicz (L3); Goedel (G3); RM3; Caret's MH and NH;
   Cook's GO (the package documentation defines * and the conditional by
   formula); Post's cyclic negation (P3).  The derived operators follow the
   definitions printed in every logic's documentation page:
     A > B := ~A V B        A < B := (A > B) & (B > A)      A % B := (A $ B) & (B $ A) *)
From Coq Require Import List Bool String.
From PT Require Import Sem.Values.
Import ListNotations.
Open Scope string_scope.

(* Belnap: a value is a pair (told true, told false). *)
Definition tpart v := match v with VT | VB => true | _ => false end.
Definition fpart v := match v with VF | VB => true | _ => false end.
Definition mk (t f : bool) : val :=
  match t, f with
  | true, false => VT | false, true => VF | true, true => VB | false, false => VN
  end.
Definition b_neg a := mk (fpart a) (tpart a).
Definition b_and a b := mk (tpart a && tpart b) (fpart a || fpart b).
Definition b_or a b := mk (tpart a || tpart b) (fpart a && fpart b).

(* Primitive connectives of a logic; everything else is derived. *)
Record prims := {
  p_vals : list val;
  p_des : val -> bool;
  p_assert : val -> val;
  p_neg : val -> val;
  p_and : val -> val -> val;
  p_or : val -> val -> val;
  p_cond : (val -> val -> val) -> val -> val -> val
  (* receives the derived material conditional *) }.

Definition derive (p : prims) : tables :=
  let mc a b := p_or p (p_neg p a) b in
  let cond := p_cond p mc in
  {| t_vals := p_vals p;
     t_des := p_des p;
     t_un := fun o a => match o with Assertion => p_assert p a | Negation => p_neg p a end;
     t_bin := fun o a b =>
       match o with
       | Conjunction => p_and p a b
       | Disjunction => p_or p a b
       | MaterialConditional => mc a b
       | MaterialBiconditional => p_and p (mc a b) (mc b a)
       | Conditional => cond a b
       | Biconditional => p_and p (cond a b) (cond b a)
       end |}.

Definition des_T v := match v with VT => true | _ => false end.
Definition des_BT v := match v with VT | VB => true | _ => false end.
Definition ident (a : val) := a.
Definition material (mc : val -> val -> val) := mc.

Definition P_FDE := {| p_vals := [VF; VN; VB; VT]; p_des := des_BT; p_assert := ident;
  p_neg := b_neg; p_and := b_and; p_or := b_or; p_cond := material |}.
Definition P_K3 := {| p_vals := [VF; VN; VT]; p_des := des_T; p_assert := ident;
  p_neg := b_neg; p_and := b_and; p_or := b_or; p_cond := material |}.
Definition P_LP := {| p_vals := [VF; VB; VT]; p_des := des_BT; p_assert := ident;
  p_neg := b_neg; p_and := b_and; p_or := b_or; p_cond := material |}.
Definition P_CPL := {| p_vals := [VF; VT]; p_des := des_T; p_assert := ident;
  p_neg := b_neg; p_and := b_and; p_or := b_or; p_cond := material |}.

(* Weak Kleene: N is infectious. *)
Definition isN v := match v with VN => true | _ => false end.
Definition wk (f : val -> val -> val) a b := if isN a || isN b then VN else f a b.
Definition P_K3W := {| p_vals := [VF; VN; VT]; p_des := des_T; p_assert := ident;
  p_neg := b_neg; p_and := wk b_and; p_or := wk b_or; p_cond := material |}.

(* Bochvar external: assertion maps to {T,F}; A $ B := *A > *B. *)
Definition crunch v := match v with VT => VT | _ => VF end.
Definition P_B3E := {| p_vals := [VF; VN; VT]; p_des := des_T; p_assert := crunch;
  p_neg := b_neg; p_and := wk b_and; p_or := wk b_or;
  p_cond := fun mc a b => mc (crunch a) (crunch b) |}.

(* Lukasiewicz: a -> b = min(1, 1 - a + b) on F=0, N=1/2, T=1. *)
Definition l3n v := match v with VF => 0 | VN => 1 | _ => 2 end.
Definition l3v n := match n with 0 => VF | 1 => VN | _ => VT end.
Definition luk_cond a b := l3v (Nat.min 2 (2 - l3n a + l3n b)).
Definition P_L3 := {| p_vals := [VF; VN; VT]; p_des := des_T; p_assert := ident;
  p_neg := b_neg; p_and := b_and; p_or := b_or; p_cond := fun _ => luk_cond |}.

(* Goedel: ~a = T iff a = F; a -> b = T if a <= b, else b. *)
Definition g_neg a := match a with VF => VT | _ => VF end.
Definition g_cond a b := if Nat.leb (l3n a) (l3n b) then VT else b.
Definition P_G3 := {| p_vals := [VF; VN; VT]; p_des := des_T; p_assert := ident;
  p_neg := g_neg; p_and := b_and; p_or := b_or; p_cond := fun _ => g_cond |}.

(* RM3: a -> b = F if a > b, B if a = b = B, T otherwise (order F < B < T). *)
Definition rmn v := match v with VF => 0 | VB => 1 | _ => 2 end.
Definition rm_cond a b :=
  if Nat.ltb (rmn b) (rmn a) then VF
  else match a, b with VB, VB => VB | _, _ => VT end.
Definition P_RM3 := {| p_vals := [VF; VB; VT]; p_des := des_BT; p_assert := ident;
  p_neg := b_neg; p_and := b_and; p_or := b_or; p_cond := fun _ => rm_cond |}.

(* Caret's MH: K3 except N V N = F; A $ B = F iff A = T and B <> T, else T. *)
Definition mh_or a b := match a, b with VN, VN => VF | _, _ => b_or a b end.
Definition mh_cond a b := match a, b with VT, VT => VT | VT, _ => VF | _, _ => VT end.
Definition P_MH := {| p_vals := [VF; VN; VT]; p_des := des_T; p_assert := ident;
  p_neg := b_neg; p_and := b_and; p_or := mh_or; p_cond := fun _ => mh_cond |}.

(* Caret's NH: LP except B & B = T; A $ B = F iff A <> F and B = F, else T. *)
Definition nh_and a b := match a, b with VB, VB => VT | _, _ => b_and a b end.
Definition nh_cond a b := match a, b with VF, _ => VT | _, VF => VF | _, _ => VT end.
Definition P_NH := {| p_vals := [VF; VB; VT]; p_des := des_BT; p_assert := ident;
  p_neg := b_neg; p_and := nh_and; p_or := b_or; p_cond := fun _ => nh_cond |}.

(* Cook's GO: & and V are classical on crunched values; *A := A & A;
   A $ B := (A > B) V (~(A V ~A) & ~(B V ~B)). *)
Definition go_and a b := b_and (crunch a) (crunch b).
Definition go_or a b := b_or (crunch a) (crunch b).
Definition go_cond (mc : val -> val -> val) a b :=
  go_or (mc a b) (go_and (b_neg (go_or a (b_neg a))) (b_neg (go_or b (b_neg b)))).
Definition P_GO := {| p_vals := [VF; VN; VT]; p_des := des_T;
  p_assert := fun a => go_and a a;
  p_neg := b_neg; p_and := go_and; p_or := go_or; p_cond := go_cond |}.

(* Post: cyclic negation T -> N -> F -> T; V is max; A & B := ~(~A V ~B). *)
Definition p3_neg a := match a with VT => VN | VN => VF | _ => VT end.
Definition P_P3 := {| p_vals := [VF; VN; VT]; p_des := des_T; p_assert := ident;
  p_neg := p3_neg; p_and := fun a b => p3_neg (b_or (p3_neg a) (p3_neg b));
  p_or := b_or; p_cond := material |}.

(* Which documented semantics each registered logic name has.  A modal
   extension (K-, T-, S4-, S5- prefixed, and the classical modal systems) has
   the tables of its base. *)
Definition lit_prims (name : string) : option prims :=
  if existsb (String.eqb name) ["FDE"; "KFDE"; "TFDE"; "S4FDE"; "S5FDE"] then Some P_FDE
  else if existsb (String.eqb name) ["K3"; "KK3"; "TK3"; "S4K3"; "S5K3"] then Some P_K3
  else if existsb (String.eqb name) ["LP"; "KLP"; "TLP"; "S4LP"; "S5LP"] then Some P_LP
  else if existsb (String.eqb name) ["CPL"; "CFOL"; "K"; "D"; "T"; "S4"; "S5"] then Some P_CPL
  else if existsb (String.eqb name) ["K3W"; "KK3W"; "TK3W"; "S4K3W"; "S5K3W";
                                     "K3WQ"; "KK3WQ"; "TK3WQ"; "S4K3WQ"; "S5K3WQ"] then Some P_K3W
  else if existsb (String.eqb name) ["B3E"; "KB3E"; "TB3E"; "S4B3E"; "S5B3E"] then Some P_B3E
  else if existsb (String.eqb name) ["L3"; "KL3"; "TL3"; "S4L3"; "S5L3"] then Some P_L3
  else if existsb (String.eqb name) ["G3"; "KG3"; "TG3"; "S4G3"; "S5G3"] then Some P_G3
  else if existsb (String.eqb name) ["RM3"; "KRM3"; "TRM3"; "S4RM3"; "S5RM3"] then Some P_RM3
  else if String.eqb name "MH" then Some P_MH
  else if String.eqb name "NH" then Some P_NH
  else if existsb (String.eqb name) ["GO"; "S4GO"] then Some P_GO
  else if String.eqb name "P3" then Some P_P3
  else None.

Definition lit (name : string) : option tables := option_map derive (lit_prims name).

(* The definitional identities of the property, stated on any table:
   material conditional as not-or, the biconditionals as conjunctions of
   conditionals, assertion transparent where it is not native. *)
Definition defs_ok (assertion_native : bool) (c : tables) : bool :=
  let vs := t_vals c in
  forallb (fun a => forallb (fun b =>
    val_eqb (t_bin c MaterialConditional a b)
            (t_bin c Disjunction (t_un c Negation a) b) &&
    val_eqb (t_bin c MaterialBiconditional a b)
            (t_bin c Conjunction (t_bin c MaterialConditional a b)
                                 (t_bin c MaterialConditional b a)) &&
    val_eqb (t_bin c Biconditional a b)
            (t_bin c Conjunction (t_bin c Conditional a b) (t_bin c Conditional b a))) vs) vs &&
  (assertion_native || forallb (fun a => val_eqb (t_un c Assertion a) a) vs).

(* Closure of the value set under every operator. *)
Definition closed_ok (c : tables) : bool :=
  let vs := t_vals c in
  forallb (fun a => forallb (fun o => vmem (t_un c o a) vs) all_uops &&
    forallb (fun b => forallb (fun o => vmem (t_bin c o a b) vs) all_bops) vs) vs.

Lemma defs_ok_spec n c : defs_ok n c = true ->
  forall a b, In a (t_vals c) -> In b (t_vals c) ->
    t_bin c MaterialConditional a b = t_bin c Disjunction (t_un c Negation a) b /\
    t_bin c MaterialBiconditional a b =
      t_bin c Conjunction (t_bin c MaterialConditional a b) (t_bin c MaterialConditional b a) /\
    t_bin c Biconditional a b =
      t_bin c Conjunction (t_bin c Conditional a b) (t_bin c Conditional b a).
Proof.
  unfold defs_ok. rewrite andb_true_iff. intros [H _] a b Ha Hb.
  rewrite forallb_forall in H. specialize (H a Ha).
  rewrite forallb_forall in H. specialize (H b Hb).
  rewrite !andb_true_iff in H. destruct H as [[H1 H2] H3].
  apply val_eqb_eq in H1, H2, H3. auto.
Qed.

Lemma defs_ok_assert c : defs_ok false c = true ->
  forall a, In a (t_vals c) -> t_un c Assertion a = a.
Proof.
  unfold defs_ok. rewrite andb_true_iff. simpl. intros [_ H] a Ha.
  rewrite forallb_forall in H. apply val_eqb_eq. apply H. exact Ha.
Qed.

(* Sanity: every literature table is closed on its value set, satisfies the
   definitional identities, and the listed names are all interpreted. *)
Definition all_prims := [P_FDE; P_K3; P_LP; P_CPL; P_K3W; P_B3E; P_L3; P_G3;
                         P_RM3; P_MH; P_NH; P_GO; P_P3].
Lemma lit_closed : forallb (fun p => closed_ok (derive p)) all_prims = true.
Proof. vm_compute. reflexivity. Qed.
Lemma lit_defs : forallb (fun p => defs_ok true (derive p)) all_prims = true.
Proof. vm_compute. reflexivity. Qed.
