(* State-machine model of pytableaux.models.BaseModel (models/__init__.py),
   written as the code is:
     set_atomic_value / set_opaque_value / set_predicated_value /
     set_literal_value, R.add, R[w], _complete_frames, finish (generic part;
     the classical identity/existence completion is in Classical.v / ClassicalFix.v),
     value_of (type dispatch, opaque sentences, the unassigned value,
     truth-functional operators through the table, quantifiers by
     substitution `c >> s` over the model's constants, modal operators over
     R[world], minfloor/maxceil with the early exit, and the per-logic
     overrides of K3WQ / KK3WQ (reduce from an initial value), MH / NH
     (set based), GO / S4GO ("crunch": values mapped through Assertion)).

   The nested dicts frames[w].atomics / .opaques / .predicates[p] are kept as
   flat association lists keyed by the world; every map is write-once (the
   code raises ModelValueError on a conflicting value).  A raised exception is
   the result [None] of an operation / [Raise] of an evaluation. *)
From Coq Require Import List Bool Arith Lia.
From PT Require Import Sem.Values Sem.MSyntax Sem.LimitBest Sem.Access.
Import ListNotations.

(* ---- per-logic parameters (regenerated from /repo on every run) -------- *)
Inductive comb := CBest | CFold | CSetMH | CSetNH.
Record gen := { g_crunch : bool; g_comb : comb }.

Record mlogic := {
  ml_tab : tables;
  ml_unass : val;            (* Meta.unassigned_value *)
  ml_min : val;              (* Model.minval *)
  ml_max : val;              (* Model.maxval *)
  ml_first : val;            (* Model.valseq[0] *)
  ml_last : val;             (* Model.valseq[-1] *)
  ml_modal : bool;
  ml_quant : bool;
  ml_many : bool;            (* Meta.many_valued (used by the export) *)
  ml_classical : bool;       (* cpl.Model.finish in the MRO *)
  ml_access : akind;
  ml_genq : quant -> gen;
  ml_genm : mop -> gen }.

(* ---- state --------------------------------------------------------------- *)
Record state := {
  s_fkeys : list nat;                              (* keys of self.frames *)
  s_atoms : list (nat * nat * val);                (* frames[w].atomics[a] *)
  s_opaqs : list (nat * sent * val);               (* frames[w].opaques[s] *)
  s_pkeys : list (nat * pred);                     (* keys of frames[w].predicates *)
  s_preds : list (nat * pred * list param * val);  (* frames[w].predicates[p][params] *)
  s_R : access;
  s_consts : list nat;                             (* self.constants *)
  s_sents : list sent;                             (* self.sentences *)
  s_complete : bool;                               (* _is_frame_complete *)
  s_finished : bool }.

(* BaseModel.__init__ : frames[0], R[0] *)
Definition init_state : state :=
  {| s_fkeys := [0]; s_atoms := []; s_opaqs := []; s_pkeys := []; s_preds := [];
     s_R := acc_init; s_consts := []; s_sents := [];
     s_complete := false; s_finished := false |}.

Definition addsent (x : sent) (l : list sent) : list sent :=
  if existsb (sent_eqb x) l then l else l ++ [x].
Definition addpk (x : nat * pred) (l : list (nat * pred)) : list (nat * pred) :=
  if existsb (fun y => Nat.eqb (fst x) (fst y) && pred_eqb (snd x) (snd y)) l then l else l ++ [x].

Fixpoint get_atom (l : list (nat * nat * val)) (w a : nat) : option val :=
  match l with
  | [] => None
  | (w', a', v) :: r => if Nat.eqb w w' && Nat.eqb a a' then Some v else get_atom r w a
  end.
Fixpoint get_opaq (l : list (nat * sent * val)) (w : nat) (s : sent) : option val :=
  match l with
  | [] => None
  | (w', s', v) :: r => if Nat.eqb w w' && sent_eqb s s' then Some v else get_opaq r w s
  end.
Fixpoint get_pred (l : list (nat * pred * list param * val)) (w : nat) (p : pred)
         (ps : list param) : option val :=
  match l with
  | [] => None
  | (w', p', ps', v) :: r =>
      if Nat.eqb w w' && pred_eqb p p' && params_eqb ps ps' then Some v else get_pred r w p ps
  end.

Definition dflt (d : val) (o : option val) : val := match o with Some v => v | None => d end.

(* frames[world]: a defaultdict in modal logics, MapProxy({0: ...}) otherwise *)
Definition frame_ok (L : mlogic) (w : nat) : bool := ml_modal L || Nat.eqb w 0.
Definition val_ok (L : mlogic) (v : val) : bool := vmem v (t_vals (ml_tab L)).

(* is_sentence_opaque *)
Definition is_opaque (L : mlogic) (s : sent) : bool :=
  match s with
  | SQuant _ _ _ => negb (ml_quant L)
  | SMod _ _ => negb (ml_modal L)
  | _ => false
  end.

Definition upd_consts (st : state) (cs : list nat) : list nat :=
  fold_left (fun l c => addn c l) cs (s_consts st).

(* ---- the setters ----------------------------------------------------------- *)
Definition set_atomic (L : mlogic) (st : state) (w a : nat) (v : val) : option state :=
  if s_finished st then None else
  if negb (val_ok L v) then None else
  if negb (frame_ok L w) then None else
  match get_atom (s_atoms st) w a with
  | Some v' =>
      if val_eqb v' v then
        Some {| s_fkeys := addn w (s_fkeys st); s_atoms := s_atoms st; s_opaqs := s_opaqs st;
                s_pkeys := s_pkeys st; s_preds := s_preds st; s_R := s_R st;
                s_consts := s_consts st; s_sents := addsent (SAtom a) (s_sents st);
                s_complete := s_complete st; s_finished := s_finished st |}
      else None
  | None =>
      Some {| s_fkeys := addn w (s_fkeys st); s_atoms := s_atoms st ++ [(w, a, v)];
              s_opaqs := s_opaqs st; s_pkeys := s_pkeys st; s_preds := s_preds st;
              s_R := s_R st; s_consts := s_consts st;
              s_sents := addsent (SAtom a) (s_sents st);
              s_complete := s_complete st; s_finished := s_finished st |}
  end.

Definition set_opaque (L : mlogic) (st : state) (w : nat) (s : sent) (v : val) : option state :=
  if s_finished st then None else
  if negb (val_ok L v) then None else
  if negb (frame_ok L w) then None else
  let ok := match get_opaq (s_opaqs st) w s with Some v' => val_eqb v' v | None => true end in
  if negb ok then None else
  Some {| s_fkeys := addn w (s_fkeys st); s_atoms := s_atoms st;
          s_opaqs := match get_opaq (s_opaqs st) w s with
                     | Some _ => s_opaqs st | None => s_opaqs st ++ [(w, s, v)] end;
          s_pkeys := fold_left (fun l p => addpk (w, p) l) (preds_of s) (s_pkeys st);
          s_preds := s_preds st; s_R := s_R st;
          s_consts := upd_consts st (consts_of s);
          s_sents := addsent s (s_sents st);
          s_complete := s_complete st; s_finished := s_finished st |}.

Definition set_predicated (L : mlogic) (st : state) (w : nat) (p : pred) (ps : list param)
           (v : val) : option state :=
  if s_finished st then None else
  if negb (val_ok L v) then None else
  if negb (frame_ok L w) then None else
  if has_var ps then None else
  let ok := match get_pred (s_preds st) w p ps with Some v' => val_eqb v' v | None => true end in
  if negb ok then None else
  Some {| s_fkeys := addn w (s_fkeys st); s_atoms := s_atoms st; s_opaqs := s_opaqs st;
          s_pkeys := addpk (w, p) (s_pkeys st);
          s_preds := match get_pred (s_preds st) w p ps with
                     | Some _ => s_preds st | None => s_preds st ++ [(w, p, ps, v)] end;
          s_R := s_R st;
          s_consts := upd_consts st (param_consts ps);
          s_sents := addsent (SPred p ps) (s_sents st);
          s_complete := s_complete st; s_finished := s_finished st |}.

(* set_literal_value *)
Fixpoint set_literal (L : mlogic) (st : state) (w : nat) (s : sent) (v : val) : option state :=
  if s_finished st then None else
  if negb (val_ok L v) then None else
  if is_opaque L s then set_opaque L st w s v else
  match s with
  | SUn Negation a => set_literal L st w a (t_un (ml_tab L) Negation v)
  | SAtom a => set_atomic L st w a v
  | SPred p ps => set_predicated L st w p ps v
  | _ => None
  end.

Definition with_R (st : state) (r : access) : state :=
  {| s_fkeys := s_fkeys st; s_atoms := s_atoms st; s_opaqs := s_opaqs st;
     s_pkeys := s_pkeys st; s_preds := s_preds st; s_R := r;
     s_consts := s_consts st; s_sents := s_sents st;
     s_complete := s_complete st; s_finished := s_finished st |}.

(* model.R.add((w1, w2)) and model.R[w]: plain dict operations, no state check *)
Definition add_access (st : state) (w1 w2 : nat) : state := with_R st (acc_add (s_R st) (w1, w2)).
Definition touch_world (st : state) (w : nat) : state := with_R st (acc_touch (s_R st) w).

Inductive op :=
| OAtomic (w a : nat) (v : val)
| OOpaque (w : nat) (s : sent) (v : val)
| OPredicated (w : nat) (p : pred) (ps : list param) (v : val)
| OLiteral (w : nat) (s : sent) (v : val)
| OAccess (w1 w2 : nat)
| OWorld (w : nat).

Definition apply_op (L : mlogic) (st : state) (o : op) : option state :=
  match o with
  | OAtomic w a v => set_atomic L st w a v
  | OOpaque w s v => set_opaque L st w s v
  | OPredicated w p ps v => set_predicated L st w p ps v
  | OLiteral w s v => set_literal L st w s v
  | OAccess w1 w2 => Some (add_access st w1 w2)
  | OWorld w => Some (touch_world st w)
  end.

Fixpoint apply_ops (L : mlogic) (st : state) (os : list op) : option state :=
  match os with
  | [] => Some st
  | o :: r => match apply_op L st o with Some st' => apply_ops L st' r | None => None end
  end.

(* ---- _complete_frames ------------------------------------------------------ *)
Definition known_atoms (st : state) : list nat :=
  fold_left (fun l e => addn (snd (fst e)) l) (s_atoms st)
            (fold_left (fun l s => atoms_acc s l) (s_sents st) []).
Definition known_opaques (st : state) : list sent :=
  fold_left (fun l e => addsent (snd (fst e)) l) (s_opaqs st) [].
Definition known_preds (st : state) : list pred :=
  fold_left (fun l e => addpred (snd e) l) (s_pkeys st)
            (fold_left (fun l s => preds_acc s l) (s_sents st) []).

Definition fill_atoms (un : val) (ws as_ : list nat) (l : list (nat * nat * val)) :=
  fold_left (fun l w => fold_left (fun l a =>
     match get_atom l w a with Some _ => l | None => l ++ [(w, a, un)] end) as_ l) ws l.
Definition fill_opaqs (un : val) (ws : list nat) (ss : list sent) (l : list (nat * sent * val)) :=
  fold_left (fun l w => fold_left (fun l s =>
     match get_opaq l w s with Some _ => l | None => l ++ [(w, s, un)] end) ss l) ws l.
Definition fill_pkeys (ws : list nat) (ps : list pred) (l : list (nat * pred)) :=
  fold_left (fun l w => fold_left (fun l p => addpk (w, p) l) ps l) ws l.

Definition complete_frames (L : mlogic) (st : state) : option state :=
  if s_finished st then None else
  if s_complete st then Some st else
  let fk := fold_left (fun l w => addn w l) (aw (s_R st)) (s_fkeys st) in
  if negb (forallb (frame_ok L) fk) then None else
  let r := fold_left acc_touch fk (s_R st) in
  Some {| s_fkeys := fk;
          s_atoms := fill_atoms (ml_unass L) fk (known_atoms st) (s_atoms st);
          s_opaqs := fill_opaqs (ml_unass L) fk (known_opaques st) (s_opaqs st);
          s_pkeys := fill_pkeys fk (known_preds st) (s_pkeys st);
          s_preds := s_preds st; s_R := r;
          s_consts := s_consts st; s_sents := s_sents st;
          s_complete := true; s_finished := false |}.

Definition set_flags (st : state) (c f : bool) : state :=
  {| s_fkeys := s_fkeys st; s_atoms := s_atoms st; s_opaqs := s_opaqs st;
     s_pkeys := s_pkeys st; s_preds := s_preds st; s_R := s_R st;
     s_consts := s_consts st; s_sents := s_sents st;
     s_complete := c; s_finished := f |}.

(* the common prefix of BaseModel.finish and cpl.Model.finish (fix 422cec3 / a424a77):
     self._complete_frames(); self.R.enforce();
     self._is_frame_complete = False; self._complete_frames()
   so that the worlds enforce() adds (SerialAccess) get frames too *)
Definition pre_complete (L : mlogic) (st : state) : option state :=
  match complete_frames L st with
  | None => None
  | Some st1 =>
      match enforce (ml_access L) (s_R st1) with
      | None => None
      | Some r => complete_frames L (set_flags (with_R st1 r) false (s_finished st1))
      end
  end.

(* BaseModel.finish (the generic one) *)
Definition base_finish (L : mlogic) (st : state) : option state :=
  match pre_complete L st with
  | None => None
  | Some st2 => Some (set_flags st2 true true)
  end.

(* BaseModel.finish BEFORE fix 422cec3: _complete_frames; R.enforce() *)
Definition base_finish_old (L : mlogic) (st : state) : option state :=
  match complete_frames L st with
  | None => None
  | Some st1 =>
      match enforce (ml_access L) (s_R st1) with
      | None => None
      | Some r =>
          Some {| s_fkeys := s_fkeys st1; s_atoms := s_atoms st1; s_opaqs := s_opaqs st1;
                  s_pkeys := s_pkeys st1; s_preds := s_preds st1; s_R := r;
                  s_consts := s_consts st1; s_sents := s_sents st1;
                  s_complete := true; s_finished := true |}
      end
  end.

(* ---- value_of ---------------------------------------------------------------- *)
Inductive res := Val (v : val) | Raise | OutOfFuel.

(* the loop of _limit_best over a lazily evaluated iterator: an exception in
   an element that is reached propagates, elements after the early exit are
   never evaluated *)
Fixpoint lb_loop_r (better : val -> val -> bool) (limit best : val) (rs : list res) : res :=
  match rs with
  | [] => Val best
  | Val v :: r =>
      if val_eqb v limit || better v limit then Val v
      else lb_loop_r better limit (if better v best then v else best) r
  | e :: _ => e
  end.
Definition limit_best_r better (limit : val) (rs : list res) (default : val) : res :=
  match rs with
  | [] => Val default
  | Val x :: r => lb_loop_r better limit x r
  | e :: _ => e
  end.

(* consume the whole iterator (set(...), reduce(...)) *)
Fixpoint all_vals_r (rs : list res) : res + list val :=
  match rs with
  | [] => inr []
  | Val v :: r => match all_vals_r r with inr l => inr (v :: l) | e => e end
  | e :: _ => inl e
  end.

Definition distinct (vs : list val) : nat := length (nodup val_eq_dec vs).

Definition set_mh (vs : list val) : val :=
  if vmem VT vs then VT else if Nat.ltb 1 (distinct vs) then VN else VF.
Definition set_nh (vs : list val) : val :=
  if vmem VF vs then VF else if Nat.ltb 1 (distinct vs) then VB else VT.

Definition crunch_r (L : mlogic) (g : gen) (rs : list res) : list res :=
  if g_crunch g then
    map (fun r => match r with Val v => Val (t_un (ml_tab L) Assertion v) | e => e end) rs
  else rs.

(* side = true: Existential / Possibility; false: Universal / Necessity *)
Definition gen_code_r (L : mlogic) (g : gen) (side : bool) (rs : list res) : res :=
  let rs := crunch_r L g rs in
  match g_comb g with
  | CBest =>
      if side then limit_best_r vgtb (ml_max L) rs (ml_min L)
      else limit_best_r vltb (ml_min L) rs (ml_max L)
  | CFold =>
      match all_vals_r rs with
      | inl e => e
      | inr vs => Val (fold_left (t_bin (ml_tab L) (if side then Disjunction else Conjunction)) vs
                                 (if side then ml_first L else ml_last L))
      end
  | CSetMH => match all_vals_r rs with inl e => e | inr vs => Val (set_mh vs) end
  | CSetNH => match all_vals_r rs with inl e => e | inr vs => Val (set_nh vs) end
  end.

Definition is_exist (q : quant) : bool := match q with Existential => true | Universal => false end.
Definition is_poss (o : mop) : bool := match o with Possibility => true | Necessity => false end.

Definition is_const (st : state) (p : param) : bool :=
  match p with PC c => existsb (Nat.eqb c) (s_consts st) | PV _ => false end.

Definition atom_val (L : mlogic) (st : state) (w a : nat) : val :=
  dflt (ml_unass L) (get_atom (s_atoms st) w a).
Definition opaq_val (L : mlogic) (st : state) (w : nat) (s : sent) : val :=
  dflt (ml_unass L) (get_opaq (s_opaqs st) w s).
Definition pred_val (L : mlogic) (st : state) (w : nat) (p : pred) (ps : list param) : val :=
  dflt (ml_unass L) (get_pred (s_preds st) w p ps).

Fixpoint vo (L : mlogic) (st : state) (n : nat) (s : sent) (w : nat) : res :=
  match n with
  | 0 => OutOfFuel
  | S n =>
      if is_opaque L s then
        (if frame_ok L w then Val (opaq_val L st w s) else Raise)
      else
      match s with
      | SAtom a => if frame_ok L w then Val (atom_val L st w a) else Raise
      | SPred p ps =>
          if forallb (is_const st) ps then
            (if frame_ok L w then Val (pred_val L st w p ps) else Raise)
          else Raise
      | SQuant q v b =>
          gen_code_r L (ml_genq L q) (is_exist q)
                     (map (fun c => vo L st n (subst c v b) w) (s_consts st))
      | SUn o a =>
          match vo L st n a w with
          | Val x => Val (t_un (ml_tab L) o x)
          | e => e
          end
      | SBin o a b =>
          match vo L st n a w with
          | Val x => match vo L st n b w with
                     | Val y => Val (t_bin (ml_tab L) o x y)
                     | e => e
                     end
          | e => e
          end
      | SMod o a =>
          gen_code_r L (ml_genm L o) (is_poss o)
                     (map (fun w2 => vo L st n a w2) (succs (s_R st) w))
      end
  end.

Definition value_of (L : mlogic) (st : state) (s : sent) (w : nat) : res :=
  if s_finished st then vo L st (S (depth s)) s w else Raise.

(* ---- the documented recursive semantics (the specification) ------------- *)
(* generalised disjunction / conjunction: plain maximum / minimum on the
   linear order (or the logic's own combination), no early exit, no laziness *)
Definition crunch (L : mlogic) (g : gen) (vs : list val) : list val :=
  if g_crunch g then map (t_un (ml_tab L) Assertion) vs else vs.

Definition gen_spec (L : mlogic) (g : gen) (side : bool) (vs : list val) : val :=
  let vs := crunch L g vs in
  match g_comb g with
  | CBest => if side then vlist_max vs (ml_min L) else vlist_min vs (ml_max L)
  | CFold => fold_left (t_bin (ml_tab L) (if side then Disjunction else Conjunction)) vs
                       (if side then ml_first L else ml_last L)
  | CSetMH => set_mh vs
  | CSetNH => set_nh vs
  end.

(* environment: innermost binding first *)
Fixpoint env_get (env : list (nat * nat)) (v : nat) : option nat :=
  match env with
  | [] => None
  | (u, c) :: r => if Nat.eqb u v then Some c else env_get r v
  end.
Definition env_param (env : list (nat * nat)) (p : param) : param :=
  match p with
  | PV v => match env_get env v with Some c => PC c | None => p end
  | PC _ => p
  end.
(* simultaneous instantiation of the free variables bound by env *)
Fixpoint env_sent (env : list (nat * nat)) (s : sent) : sent :=
  match s with
  | SAtom n => SAtom n
  | SPred p ps => SPred p (map (env_param env) ps)
  | SQuant q u b => SQuant q u (env_sent env b)
  | SUn o a => SUn o (env_sent env a)
  | SBin o a b => SBin o (env_sent env a) (env_sent env b)
  | SMod o a => SMod o (env_sent env a)
  end.

Fixpoint eval (L : mlogic) (st : state) (env : list (nat * nat)) (s : sent) (w : nat) : val :=
  match s with
  | SAtom a => atom_val L st w a
  | SPred p ps => pred_val L st w p (map (env_param env) ps)
  | SQuant q v b =>
      if ml_quant L then
        gen_spec L (ml_genq L q) (is_exist q)
                 (map (fun c => eval L st ((v, c) :: env) b w) (s_consts st))
      else opaq_val L st w (env_sent env s)
  | SUn o a => t_un (ml_tab L) o (eval L st env a w)
  | SBin o a b => t_bin (ml_tab L) o (eval L st env a w) (eval L st env b w)
  | SMod o a =>
      if ml_modal L then
        gen_spec L (ml_genm L o) (is_poss o)
                 (map (fun w2 => eval L st env a w2) (succs (s_R st) w))
      else opaq_val L st w (env_sent env s)
  end.

(* every parameter is a constant of the model or a variable bound by env *)
Fixpoint denotes (st : state) (bound : list nat) (s : sent) : bool :=
  match s with
  | SAtom _ => true
  | SPred _ ps =>
      forallb (fun p => match p with
                        | PC c => existsb (Nat.eqb c) (s_consts st)
                        | PV v => existsb (Nat.eqb v) bound
                        end) ps
  | SQuant _ v b => denotes st (v :: bound) b
  | SUn _ a => denotes st bound a
  | SBin _ a b => denotes st bound a && denotes st bound b
  | SMod _ a => denotes st bound a
  end.

(* ---- helpers for the correspondence run ----------------------------------- *)
Definition res_code (r : res) : nat :=
  match r with
  | Val VF => 0 | Val VN => 1 | Val VB => 2 | Val VT => 3
  | Raise => 8 | OutOfFuel => 9
  end.
