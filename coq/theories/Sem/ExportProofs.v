(* C20: the exported description (Export.v) against what the model evaluates. *)
From Coq Require Import List Bool Arith ZArith Lia Permutation Sorted.
From PT Require Import Sem.Values Sem.MSyntax Sem.LimitBest Sem.Access Sem.PyModel Sem.Classical
  Sem.ClassicalFix Sem.Export.
Import ListNotations.

(* ---- insertion sort ----------------------------------------------------------- *)
Section SortFacts.
  Context {A : Type} (leb : A -> A -> bool).
  Let R := fun a b => leb a b = true.

  Lemma insert_perm x l : Permutation (x :: l) (insert leb x l).
  Proof.
    induction l as [|y r IH]; simpl; [apply Permutation_refl|].
    destruct (leb x y); [apply Permutation_refl|].
    eapply Permutation_trans; [apply perm_swap|]. apply perm_skip. exact IH.
  Qed.
  Lemma isort_perm l : Permutation l (isort leb l).
  Proof.
    induction l as [|x r IH]; simpl; [apply perm_nil|].
    eapply Permutation_trans; [apply perm_skip; exact IH|]. apply insert_perm.
  Qed.
  Lemma isort_in x l : In x (isort leb l) <-> In x l.
  Proof.
    split; apply Permutation_in; [apply Permutation_sym|]; apply isort_perm.
  Qed.

  Hypothesis total : forall a b, leb a b = false -> leb b a = true.

  Lemma insert_sorted x l : Sorted R l -> Sorted R (insert leb x l).
  Proof.
    induction l as [|y r IH]; intro S; simpl.
    - constructor; constructor.
    - destruct (leb x y) eqn:E.
      + constructor; [exact S|]. constructor. exact E.
      + inversion S as [|? ? S' H]; subst. constructor; [apply IH; exact S'|].
        destruct r as [|z t]; simpl.
        * constructor. apply total. exact E.
        * destruct (leb x z) eqn:E2.
          -- constructor. apply total. exact E.
          -- constructor. inversion H; subst. assumption.
  Qed.
  Lemma isort_sorted l : Sorted R (isort leb l).
  Proof. induction l as [|x r IH]; simpl; [constructor|]. apply insert_sorted. exact IH. Qed.
End SortFacts.

(* ---- totality of the modelled lexical order ------------------------------------- *)
Open Scope Z_scope.
Lemma le0_ge0 l : le0 l = false -> ge0 l = true.
Proof.
  induction l as [|x r IH]; simpl; [discriminate|].
  destruct (x =? 0) eqn:E; [exact IH|]. intro H. apply Z.ltb_ge in H. apply Z.eqb_neq in E.
  apply Z.ltb_lt. lia.
Qed.
Lemma ge0_le0 l : ge0 l = false -> le0 l = true.
Proof.
  induction l as [|x r IH]; simpl; [discriminate|].
  destruct (x =? 0) eqn:E; [exact IH|]. intro H. apply Z.ltb_ge in H. apply Z.eqb_neq in E.
  apply Z.ltb_lt. lia.
Qed.
Lemma key_leb_total a : forall b, key_leb a b = false -> key_leb b a = true.
Proof.
  induction a as [|x r IH]; intros [|y t].
  - simpl. discriminate.
  - cbn [key_leb]. apply le0_ge0.
  - cbn [key_leb]. apply ge0_le0.
  - cbn [key_leb]. destruct (x =? y) eqn:E.
    + rewrite Z.eqb_sym, E. apply IH.
    + rewrite Z.eqb_sym, E. intro H. apply Z.ltb_ge in H. apply Z.eqb_neq in E. apply Z.ltb_lt. lia.
Qed.
Close Scope Z_scope.

Lemma nat_leb_total a b : Nat.leb a b = false -> Nat.leb b a = true.
Proof. intro H. apply Nat.leb_gt in H. apply Nat.leb_le. lia. Qed.

Lemma param_eqb_sym x y : param_eqb x y = param_eqb y x.
Proof. destruct x, y; simpl; try reflexivity; apply Nat.eqb_sym. Qed.
Lemma tuple_leb_total a : forall b, tuple_leb a b = false -> tuple_leb b a = true.
Proof.
  induction a as [|x r IH]; intros [|y t]; simpl; try discriminate; try reflexivity.
  rewrite (param_eqb_sym y x). destruct (param_eqb x y); [apply IH|apply key_leb_total].
Qed.

(* ---- membership in the exported lists --------------------------------------------- *)
Lemma succs_in a x y : In y (succs a x) <-> In (x, y) (ap a).
Proof.
  unfold succs. rewrite in_map_iff. split.
  - intros [[u v] [E H]]. apply filter_In in H. destruct H as [H F]. simpl in *.
    apply Nat.eqb_eq in F. subst. exact H.
  - intro H. exists (x, y). split; [reflexivity|]. apply filter_In. split; [exact H|]. simpl.
    apply Nat.eqb_refl.
Qed.

Theorem export_worlds L st :
  ml_modal L = true ->
  x_worlds (export L st) = sort_nat (s_fkeys st) /\
  Sorted (fun a b => Nat.leb a b = true) (x_worlds (export L st)) /\
  (forall w, In w (x_worlds (export L st)) <-> In w (s_fkeys st)).
Proof.
  intro M. unfold export. rewrite M. cbn [x_worlds]. split; [reflexivity|]. split.
  - apply isort_sorted. exact nat_leb_total.
  - intro w. apply isort_in.
Qed.

(* exported access = the pairs of R whose source world has a frame *)
Theorem export_access L st :
  ml_modal L = true ->
  forall a b, In (a, b) (x_access (export L st)) <-> In a (s_fkeys st) /\ In (a, b) (ap (s_R st)).
Proof.
  intros M a b. unfold export. rewrite M. cbn [x_access]. rewrite in_flat_map. split.
  - intros [w [Hw H]]. apply in_map_iff in H. destruct H as [y [E Hy]]. injection E as -> ->.
    unfold sort_nat in *. rewrite isort_in in Hw, Hy. split; [exact Hw|]. apply succs_in. exact Hy.
  - intros [Ha Hab]. exists a. unfold sort_nat. split; [apply isort_in; exact Ha|].
    apply in_map_iff. exists b. split; [reflexivity|]. apply isort_in. apply succs_in. exact Hab.
Qed.

(* ... which is all of R exactly when every world of R has a frame *)
Corollary export_access_exact L st :
  ml_modal L = true -> acc_wf (s_R st) -> (forall w, In w (aw (s_R st)) -> In w (s_fkeys st)) ->
  forall a b, In (a, b) (x_access (export L st)) <-> In (a, b) (ap (s_R st)).
Proof.
  intros M WF Sub a b. rewrite (export_access L st M). split; [tauto|].
  intro H. split; [|exact H]. apply Sub. apply (WF a b H).
Qed.

Lemma export_frame_at L st w :
  In w (x_worlds (export L st)) ->
  In (w, export_frame L st w) (x_frames (export L st)).
Proof.
  unfold export. destruct (ml_modal L); cbn [x_worlds x_frames].
  - intro H. apply in_map_iff. exists w. split; [reflexivity|exact H].
  - intros [<-|[]]. left; reflexivity.
Qed.

(* ---- well-formed states (invariants of the setters, decidable) -------------------- *)
Definition state_wfb (L : mlogic) (st : state) : bool :=
  forallb (fun e => match e with (w, a, v) =>
     match get_atom (s_atoms st) w a with Some v' => val_eqb v v' | None => false end end) (s_atoms st) &&
  forallb (fun e => match e with (w, s, v) =>
     is_opaque L s &&
     match get_opaq (s_opaqs st) w s with Some v' => val_eqb v v' | None => false end end) (s_opaqs st) &&
  forallb (fun e => match e with (w, p, ps, v) =>
     val_ok L v && forallb (is_const st) ps &&
     existsb (fun k => Nat.eqb (fst k) w && pred_eqb (snd k) p) (s_pkeys st) &&
     match get_pred (s_preds st) w p ps with Some v' => val_eqb v v' | None => false end end) (s_preds st).

Lemma state_wf_atom L st w a v :
  state_wfb L st = true -> In (w, a, v) (s_atoms st) -> get_atom (s_atoms st) w a = Some v.
Proof.
  unfold state_wfb. rewrite !andb_true_iff. intros [[H _] _] Hin.
  rewrite forallb_forall in H. specialize (H _ Hin). simpl in H.
  destruct (get_atom (s_atoms st) w a) as [v'|]; [|discriminate].
  apply val_eqb_eq in H. subst. reflexivity.
Qed.
Lemma state_wf_opaq L st w s v :
  state_wfb L st = true -> In (w, s, v) (s_opaqs st) ->
  get_opaq (s_opaqs st) w s = Some v /\ is_opaque L s = true.
Proof.
  unfold state_wfb. rewrite !andb_true_iff. intros [[_ H] _] Hin.
  rewrite forallb_forall in H. specialize (H _ Hin). simpl in H.
  apply andb_true_iff in H. destruct H as [HO H].
  destruct (get_opaq (s_opaqs st) w s) as [v'|]; [|discriminate].
  apply val_eqb_eq in H. subst. auto.
Qed.
Lemma state_wf_pred L st w p ps v :
  state_wfb L st = true -> In (w, p, ps, v) (s_preds st) ->
  get_pred (s_preds st) w p ps = Some v /\ val_ok L v = true /\ forallb (is_const st) ps = true.
Proof.
  unfold state_wfb. rewrite !andb_true_iff. intros [_ H] Hin.
  rewrite forallb_forall in H. specialize (H _ Hin). simpl in H.
  rewrite !andb_true_iff in H. destruct H as [[[HV HC] _] H].
  destruct (get_pred (s_preds st) w p ps) as [v'|]; [|discriminate].
  apply val_eqb_eq in H. subst. auto.
Qed.

Lemma get_atom_in l w a v : get_atom l w a = Some v -> In (w, a, v) l.
Proof.
  induction l as [|[[w' a'] v'] r IH]; simpl; [discriminate|].
  destruct (Nat.eqb w w' && Nat.eqb a a') eqn:E.
  - apply andb_true_iff in E. destruct E as [E1 E2]. apply Nat.eqb_eq in E1, E2. subst.
    intro H; injection H as ->. left; reflexivity.
  - intro H. right. apply IH. exact H.
Qed.
Lemma get_opaq_in l w s v : get_opaq l w s = Some v -> In (w, s, v) l.
Proof.
  induction l as [|[[w' s'] v'] r IH]; simpl; [discriminate|].
  destruct (Nat.eqb w w' && sent_eqb s s') eqn:E.
  - apply andb_true_iff in E. destruct E as [E1 E2]. apply Nat.eqb_eq in E1. apply sent_eqb_eq in E2.
    subst. intro H; injection H as ->. left; reflexivity.
  - intro H. right. apply IH. exact H.
Qed.
Lemma get_pred_in l w p ps v : get_pred l w p ps = Some v -> In (w, p, ps, v) l.
Proof.
  induction l as [|[[[w' p'] ps'] v'] r IH]; simpl; [discriminate|].
  destruct (Nat.eqb w w' && pred_eqb p p' && params_eqb ps ps') eqn:E.
  - rewrite !andb_true_iff in E. destruct E as [[E1 E2] E3]. apply Nat.eqb_eq in E1.
    apply pred_eqb_eq in E2. apply params_eqb_eq in E3. subst.
    intro H; injection H as ->. left; reflexivity.
  - intro H. right. apply IH. exact H.
Qed.

(* ---- atoms and opaques: exported value = value_of ---------------------------------- *)
Lemma frame_atoms_in st w a v : In (a, v) (frame_atoms st w) <-> In (w, a, v) (s_atoms st).
Proof.
  unfold frame_atoms. rewrite in_map_iff. split.
  - intros [[[w' a'] v'] [E H]]. apply filter_In in H. destruct H as [H F]. simpl in *.
    apply Nat.eqb_eq in F. injection E as -> ->. subst. exact H.
  - intro H. exists (w, a, v). split; [reflexivity|]. apply filter_In. split; [exact H|]. simpl.
    apply Nat.eqb_refl.
Qed.
Lemma frame_opaqs_in st w s v : In (s, v) (frame_opaqs st w) <-> In (w, s, v) (s_opaqs st).
Proof.
  unfold frame_opaqs. rewrite in_map_iff. split.
  - intros [[[w' s'] v'] [E H]]. apply filter_In in H. destruct H as [H F]. simpl in *.
    apply Nat.eqb_eq in F. injection E as -> ->. subst. exact H.
  - intro H. exists (w, s, v). split; [reflexivity|]. apply filter_In. split; [exact H|]. simpl.
    apply Nat.eqb_refl.
Qed.

Theorem export_atoms L st w :
  state_wfb L st = true -> s_finished st = true -> frame_ok L w = true ->
  (forall a v, In (a, v) (x_atoms (export_frame L st w)) ->
     value_of L st (SAtom a) w = Val v) /\
  (forall a, (exists v, In (w, a, v) (s_atoms st)) <-> exists v, In (a, v) (x_atoms (export_frame L st w))) /\
  Sorted (fun x y => Nat.leb (fst x) (fst y) = true) (x_atoms (export_frame L st w)).
Proof.
  intros WF F FO. cbn [export_frame x_atoms]. split; [|split].
  - intros a v H. apply isort_in in H. apply frame_atoms_in in H.
    unfold value_of. rewrite F. cbn [depth vo is_opaque]. rewrite FO.
    unfold atom_val. rewrite (state_wf_atom L st w a v WF H). reflexivity.
  - intro a. split; intros [v H]; exists v; [apply isort_in, frame_atoms_in|apply isort_in in H; apply frame_atoms_in in H]; exact H.
  - apply isort_sorted. intros x y. apply nat_leb_total.
Qed.

Theorem export_opaques L st w :
  state_wfb L st = true -> s_finished st = true -> frame_ok L w = true ->
  (forall s v, In (s, v) (x_opaqs (export_frame L st w)) ->
     value_of L st s w = Val v) /\
  (forall s, (exists v, In (w, s, v) (s_opaqs st)) <-> exists v, In (s, v) (x_opaqs (export_frame L st w))) /\
  Sorted (fun x y => key_leb (sent_key (fst x)) (sent_key (fst y)) = true) (x_opaqs (export_frame L st w)).
Proof.
  intros WF F FO. cbn [export_frame x_opaqs]. split; [|split].
  - intros s v H. apply isort_in in H. apply frame_opaqs_in in H.
    destruct (state_wf_opaq L st w s v WF H) as [G O].
    unfold value_of. rewrite F. cbn [vo]. rewrite O, FO. unfold opaq_val. rewrite G. reflexivity.
  - intro s. split; intros [v H]; exists v; [apply isort_in, frame_opaqs_in|apply isort_in in H; apply frame_opaqs_in in H]; exact H.
  - apply isort_sorted. intros x y. apply key_leb_total.
Qed.

(* ---- predicates ------------------------------------------------------------------------ *)
Lemma having_in L st w p vs ps :
  In ps (having L st w p vs) <->
  exists v, In (w, p, ps, v) (s_preds st) /\ In v vs /\ val_ok L v = true.
Proof.
  unfold having. rewrite in_map_iff. split.
  - intros [[[[w' p'] ps'] v] [E H]]. simpl in E. subst ps'. apply filter_In in H. destruct H as [H F].
    rewrite !andb_true_iff in F. destruct F as [[F1 F2] F3]. apply Nat.eqb_eq in F1.
    apply pred_eqb_eq in F2. subst. apply vmem_In in F3. apply filter_In in F3. exists v. tauto.
  - intros [v [H [Hv Ho]]]. exists (w, p, ps, v). split; [reflexivity|]. apply filter_In. split; [exact H|].
    rewrite Nat.eqb_refl, pred_eqb_refl. simpl. apply vmem_In. apply filter_In. auto.
Qed.

Definition pred_value_of (L : mlogic) (st : state) (w : nat) (p : pred) (ps : list param) : res :=
  value_of L st (SPred p ps) w.

Lemma value_of_pred L st w p ps :
  s_finished st = true -> frame_ok L w = true -> forallb (is_const st) ps = true ->
  value_of L st (SPred p ps) w = Val (pred_val L st w p ps).
Proof.
  intros F FO C. unfold value_of. rewrite F. cbn [depth vo is_opaque]. rewrite C, FO. reflexivity.
Qed.

(* The extension P+ (P when the logic is two valued): a tuple is exported iff the
   predication evaluates to T or B.  Holds in every logic whose unassigned value
   is F or N (all 57). *)
Theorem export_extension L st w p ps :
  state_wfb L st = true -> s_finished st = true -> frame_ok L w = true ->
  forallb (is_const st) ps = true -> (ml_unass L = VF \/ ml_unass L = VN) ->
  (In ps (having L st w p [VT; VB]) <->
   value_of L st (SPred p ps) w = Val VT \/ value_of L st (SPred p ps) w = Val VB).
Proof.
  intros WF F FO C U. rewrite (value_of_pred L st w p ps F FO C). rewrite having_in. split.
  - intros [v [H [Hv _]]]. destruct (state_wf_pred L st w p ps v WF H) as [G _].
    unfold pred_val. rewrite G. simpl. destruct Hv as [<-|[<-|[]]]; auto.
  - intro H. unfold pred_val in H. destruct (get_pred (s_preds st) w p ps) as [v|] eqn:G.
    + simpl in H. exists v. apply get_pred_in in G. split; [exact G|].
      destruct (state_wf_pred L st w p ps v WF G) as [_ [HV _]]. split; [|exact HV].
      destruct H as [H|H]; injection H as ->; simpl; auto.
    + simpl in H. exfalso. destruct U as [U|U]; rewrite U in H; destruct H as [H|H]; discriminate.
Qed.

(* The anti-extension P-: a tuple is exported iff the predication evaluates to F
   or B — in the logics whose unassigned value is N. *)
Theorem export_anti_extension L st w p ps :
  state_wfb L st = true -> s_finished st = true -> frame_ok L w = true ->
  forallb (is_const st) ps = true -> ml_unass L = VN ->
  (In ps (having L st w p [VB; VF]) <->
   value_of L st (SPred p ps) w = Val VF \/ value_of L st (SPred p ps) w = Val VB).
Proof.
  intros WF F FO C U. rewrite (value_of_pred L st w p ps F FO C). rewrite having_in. split.
  - intros [v [H [Hv _]]]. destruct (state_wf_pred L st w p ps v WF H) as [G _].
    unfold pred_val. rewrite G. simpl. destruct Hv as [<-|[<-|[]]]; auto.
  - intro H. unfold pred_val in H. destruct (get_pred (s_preds st) w p ps) as [v|] eqn:G.
    + simpl in H. exists v. apply get_pred_in in G. split; [exact G|].
      destruct (state_wf_pred L st w p ps v WF G) as [_ [HV _]]. split; [|exact HV].
      destruct H as [H|H]; injection H as ->; simpl; auto.
    + simpl in H. exfalso. rewrite U in H. destruct H as [H|H]; discriminate.
Qed.

(* the soundness half of P- holds in every logic: an exported tuple does evaluate to F or B *)
Theorem export_anti_extension_sound L st w p ps :
  state_wfb L st = true -> s_finished st = true -> frame_ok L w = true ->
  In ps (having L st w p [VB; VF]) ->
  value_of L st (SPred p ps) w = Val VF \/ value_of L st (SPred p ps) w = Val VB.
Proof.
  intros WF F FO H. apply having_in in H. destruct H as [v [H [Hv _]]].
  destruct (state_wf_pred L st w p ps v WF H) as [G [_ C]].
  rewrite (value_of_pred L st w p ps F FO C). unfold pred_val. rewrite G. simpl.
  destruct Hv as [<-|[<-|[]]]; auto.
Qed.

(* what the exported frame lists for a registered predicate *)
Theorem export_preds_listed L st w p :
  In p (pkeys_of st w) ->
  In (p, true, isort tuple_leb (having L st w p [VT; VB])) (x_preds (export_frame L st w)) /\
  (ml_many L = true ->
   In (p, false, isort tuple_leb (having L st w p [VB; VF])) (x_preds (export_frame L st w))) /\
  Sorted (fun a b => tuple_leb a b = true) (isort tuple_leb (having L st w p [VT; VB])).
Proof.
  intro H. cbn [export_frame x_preds]. split; [|split].
  - apply in_flat_map. exists p. split; [apply isort_in; exact H|]. left; reflexivity.
  - intro M. apply in_flat_map. exists p. split; [apply isort_in; exact H|]. rewrite M. right; left; reflexivity.
  - apply isort_sorted. exact tuple_leb_total.
Qed.

(* ---- the refutations ------------------------------------------------------------------- *)
(* a hand written LP: three values F < B < T, unassigned value F, many valued *)
Definition lp_neg (a : val) : val := match a with VT => VF | VF => VT | x => x end.
Definition lp_tables : tables :=
  {| t_vals := [VF; VB; VT];
     t_des := fun v => negb (val_eqb v VF);
     t_un := fun o a => match o with Assertion => a | Negation => lp_neg a end;
     t_bin := fun o a b =>
       match o with
       | Conjunction => vmin a b
       | Disjunction => vmax a b
       | MaterialConditional | Conditional => vmax (lp_neg a) b
       | MaterialBiconditional | Biconditional => vmin (vmax (lp_neg a) b) (vmax (lp_neg b) a)
       end |}.
Definition ML_lp : mlogic :=
  {| ml_tab := lp_tables; ml_unass := VF; ml_min := VF; ml_max := VT; ml_first := VF; ml_last := VT;
     ml_modal := false; ml_quant := true; ml_many := true; ml_classical := false;
     ml_access := AKAny; ml_genq := fun _ => g_best; ml_genm := fun _ => g_best |}.

(* LP model with Fa = T, Gb = B: Fb evaluates to F (unassigned) but F- is empty *)
Definition lp_ops : list op :=
  [OPredicated 0 (PUser 0 1) [PC 0] VT; OPredicated 0 (PUser 1 1) [PC 1] VB].

Theorem export_faithful_refuted :
  exists L st w p ps,
    run L [] (fun _ => []) lp_ops = Some st /\
    state_wfb L st = true /\ s_finished st = true /\ frame_ok L w = true /\
    forallb (is_const st) ps = true /\ In p (pkeys_of st w) /\ ml_many L = true /\
    value_of L st (SPred p ps) w = Val VF /\
    ~ In ps (having L st w p [VB; VF]).
Proof.
  exists ML_lp. eexists. exists 0, (PUser 0 1), [PC 1].
  split; [vm_compute; reflexivity|].
  repeat split; try (vm_compute; reflexivity).
  - vm_compute. auto.
  - vm_compute. intros [].
Qed.

(* a hand written D: classical tables, SerialAccess *)
Definition ML_d : mlogic :=
  {| ml_tab := cl_tables; ml_unass := VF; ml_min := VF; ml_max := VT; ml_first := VF; ml_last := VT;
     ml_modal := true; ml_quant := true; ml_many := false; ml_classical := true;
     ml_access := AKSerial; ml_genq := fun _ => g_best; ml_genm := fun _ => g_best |}.

(* D BEFORE fix 422cec3 (run_old): finish() adds the world 1 and the pairs 0R1, 1R1 to R, but
   no frame: the export lists neither the world 1 nor the pair (1,1) although value_of uses both *)
Theorem export_access_old_refuted :
  exists L st,
    run_old L [] (fun _ => []) [OAtomic 0 0 VT] = Some st /\ ml_modal L = true /\
    In (1, 1) (ap (s_R st)) /\ In 1 (aw (s_R st)) /\
    ~ In (1, 1) (x_access (export L st)) /\ ~ In 1 (x_worlds (export L st)) /\
    value_of L st (SMod Possibility (SMod Possibility (SAtom 0))) 0 = Val VF.
Proof.
  exists ML_d. eexists. split; [vm_compute; reflexivity|].
  repeat split; try (vm_compute; reflexivity); vm_compute; intuition congruence.
Qed.

(* the same history with finish() as coded now: the successor world has a frame, is exported
   together with its reflexive pair, and the atom known at world 0 is assigned there *)
Example export_access_serial_now :
  exists st,
    run ML_d [] (fun _ => []) [OAtomic 0 0 VT] = Some st /\
    x_worlds (export ML_d st) = [0; 1] /\ x_access (export ML_d st) = [(0, 1); (1, 1)] /\
    get_atom (s_atoms st) 1 0 = Some VF.
Proof. eexists. split; [vm_compute; reflexivity|]. repeat split; vm_compute; reflexivity. Qed.
