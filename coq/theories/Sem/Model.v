(* Finite constant-domain many-valued Kripke models and the recursive
   evaluation: operators by the tables, quantifiers by the logic's generalised
   disjunction / conjunction over the domain, modal operators likewise over the
   accessible worlds, uninterpreted sentences as atoms.  This is the model class
   the library itself builds (BaseModel); "countermodel" below ranges over all
   such models of any finite size. *)
From Coq Require Import List Bool Arith Lia.
From PT Require Import Util.Finite Sem.Values Sem.Lit Sem.Syntax Sem.Gen.
Import ListNotations.

Record sem := {
  s_t : tables;
  s_ge : gen4;             (* existential / possibility *)
  s_gu : gen4;             (* universal / necessity *)
  s_modal : bool;          (* modal operators are interpreted (else opaque) *)
  s_quant : bool }.        (* quantifiers are interpreted (else opaque) *)

Record model := {
  m_worlds : list nat;
  m_R : nat -> nat -> bool;
  m_dom : list nat;
  m_const : nat -> nat;
  m_atom : nat -> nat -> val;                 (* world, letter *)
  m_pred : nat -> nat -> list nat -> val;     (* world, predicate, arguments *)
  m_opq : nat -> sent -> val }.               (* world, uninterpreted sentence *)

Definition upd (env : nat -> nat) (x d : nat) : nat -> nat :=
  fun y => if Nat.eqb y x then d else env y.

Definition tval (M : model) (env : nat -> nat) (t : term) : nat :=
  match t with TC c => m_const M c | TV x => env x end.

Definition acc (M : model) (w : nat) : list nat := filter (m_R M w) (m_worlds M).

Section Eval.
  Variable S : sem.
  Variable M : model.

  Fixpoint eval (w : nat) (env : nat -> nat) (s : sent) {struct s} : val :=
    match s with
    | Atom n => m_atom M w n
    | Pred p ts => m_pred M w p (map (tval M env) ts)
    | Un o a => t_un (s_t S) o (eval w env a)
    | Bin o a b => t_bin (s_t S) o (eval w env a) (eval w env b)
    | Mod o a =>
        if s_modal S then
          gapp (match o with Possibility => s_ge S | Necessity => s_gu S end)
               (mem_of (map (fun u => eval u env a) (acc M w)))
        else m_opq M w s
    | Qu q x a =>
        if s_quant S then
          gapp (match q with Existential => s_ge S | Universal => s_gu S end)
               (mem_of (map (fun d => eval w (upd env x d) a) (m_dom M)))
        else m_opq M w s
    end.
End Eval.

(* Well-formed models: values within the logic's value set, non-empty domain,
   constants denote, worlds closed under access. *)
Record model_wf (S : sem) (M : model) : Prop := {
  wf_dom : m_dom M <> [];
  wf_const : forall c, In (m_const M c) (m_dom M);
  wf_atom : forall w n, In (m_atom M w n) (t_vals (s_t S));
  wf_pred : forall w p ds, In (m_pred M w p ds) (t_vals (s_t S));
  wf_opq : forall w s, In (m_opq M w s) (t_vals (s_t S)) }.

(* vfun contexts as sentence contexts *)
Fixpoint finst (f : vfun) (a : sent) : sent :=
  match f with
  | FId => a
  | FUn o f => Un o (finst f a)
  | FBin o f g => Bin o (finst f a) (finst g a)
  end.

Lemma eval_finst S M w env f a : eval S M w env (finst f a) = fval (s_t S) f (eval S M w env a).
Proof. induction f as [|o f IH|o f IHf g IHg]; simpl; congruence. Qed.

(* ---- substitution of a constant for a variable ---- *)
Definition subst_term (x c : nat) (t : term) : term :=
  match t with TV y => if Nat.eqb y x then TC c else t | _ => t end.

Fixpoint subst (x c : nat) (s : sent) : sent :=
  match s with
  | Atom n => s
  | Pred p ts => Pred p (map (subst_term x c) ts)
  | Un o a => Un o (subst x c a)
  | Bin o a b => Bin o (subst x c a) (subst x c b)
  | Mod o a => Mod o (subst x c a)
  | Qu q y a => Qu q y (subst x c a)      (* as Quantified.substitute: no shadowing check *)
  end.

(* sentences in which x is not re-bound *)
Fixpoint nobind (x : nat) (s : sent) : bool :=
  match s with
  | Atom _ | Pred _ _ => true
  | Un _ a | Mod _ a => nobind x a
  | Bin _ a b => nobind x a && nobind x b
  | Qu _ y a => negb (Nat.eqb y x) && nobind x a
  end.

(* sentences all of whose modal / quantified subsentences are interpreted by the logic
   (no opaque clause is used when evaluating them) *)
Fixpoint interp (S : sem) (s : sent) : bool :=
  match s with
  | Atom _ | Pred _ _ => true
  | Un _ a => interp S a
  | Bin _ a b => interp S a && interp S b
  | Mod _ a => s_modal S && interp S a
  | Qu _ _ a => s_quant S && interp S a
  end.

Lemma upd_comm env x y d e : x <> y -> forall z, upd (upd env x d) y e z = upd (upd env y e) x d z.
Proof.
  intros H z. unfold upd. destruct (Nat.eqb z y) eqn:E1, (Nat.eqb z x) eqn:E2; try reflexivity.
  apply Nat.eqb_eq in E1, E2. congruence.
Qed.

Lemma eval_env_ext S M s : forall w env env', (forall z, env z = env' z) ->
  eval S M w env s = eval S M w env' s.
Proof.
  induction s as [n|p ts|o a IH|o a IHa b IHb|o a IH|q x a IH]; intros w env env' H; simpl.
  - reflexivity.
  - f_equal. apply map_ext. intros [c|y]; simpl; auto.
  - rewrite (IH w env env' H). reflexivity.
  - rewrite (IHa w env env' H), (IHb w env env' H). reflexivity.
  - destruct (s_modal S); [|reflexivity]. f_equal. f_equal. apply map_ext. intro u. apply IH. exact H.
  - destruct (s_quant S); [|reflexivity]. f_equal. f_equal. apply map_ext. intro d. apply IH.
    intro z. unfold upd. destruct (Nat.eqb z x); auto.
Qed.

Lemma subst_eval S M x c s : interp S s = true -> nobind x s = true ->
  forall w env, eval S M w env (subst x c s) = eval S M w (upd env x (m_const M c)) s.
Proof.
  induction s as [n|p ts|o a IH|o a IHa b IHb|o a IH|q y a IH]; intros Hi Hn w env; simpl in *.
  - reflexivity.
  - f_equal. rewrite map_map. apply map_ext. intros [k|z]; simpl; [reflexivity|].
    unfold upd. destruct (Nat.eqb z x); reflexivity.
  - rewrite IH by assumption. reflexivity.
  - apply andb_true_iff in Hn. destruct Hn as [H1 H2]. apply andb_true_iff in Hi. destruct Hi as [I1 I2].
    rewrite IHa, IHb by assumption. reflexivity.
  - apply andb_true_iff in Hi. destruct Hi as [Hm Hi]. rewrite Hm.
    f_equal. f_equal. apply map_ext. intro u. apply IH; assumption.
  - apply andb_true_iff in Hi. destruct Hi as [Hq Hi]. rewrite Hq.
    apply andb_true_iff in Hn. destruct Hn as [Hyx Hn]. apply negb_true_iff in Hyx.
    apply Nat.eqb_neq in Hyx. f_equal. f_equal. apply map_ext. intro d.
    rewrite IH by assumption. apply eval_env_ext. intro z. apply upd_comm. congruence.
Qed.

Lemma interp_subst S x c s : interp S (subst x c s) = interp S s.
Proof. induction s; simpl; congruence. Qed.

(* ---- constants that do not occur ---- *)
Definition term_has (c : nat) (t : term) : bool := match t with TC k => Nat.eqb k c | _ => false end.
Fixpoint has_const (c : nat) (s : sent) : bool :=
  match s with
  | Atom _ => false
  | Pred _ ts => existsb (term_has c) ts
  | Un _ a | Mod _ a | Qu _ _ a => has_const c a
  | Bin _ a b => has_const c a || has_const c b
  end.

Definition set_const (M : model) (c d : nat) : model :=
  {| m_worlds := m_worlds M; m_R := m_R M; m_dom := m_dom M;
     m_const := fun k => if Nat.eqb k c then d else m_const M k;
     m_atom := m_atom M; m_pred := m_pred M; m_opq := m_opq M |}.

Lemma eval_set_const S M c d s : has_const c s = false ->
  forall w env, eval S (set_const M c d) w env s = eval S M w env s.
Proof.
  induction s as [n|p ts|o a IH|o a IHa b IHb|o a IH|q y a IH]; intros Hn w env; simpl in *.
  - reflexivity.
  - f_equal. apply map_ext_in. intros [k|z] Hin; simpl; [|reflexivity].
    destruct (Nat.eqb k c) eqn:E; [|reflexivity].
    exfalso. assert (existsb (term_has c) ts = true).
    { apply existsb_exists. exists (TC k). split; [exact Hin|exact E]. }
    congruence.
  - rewrite IH by exact Hn. reflexivity.
  - apply orb_false_iff in Hn. destruct Hn as [H1 H2]. rewrite IHa, IHb by assumption. reflexivity.
  - destruct (s_modal S); [|reflexivity]. f_equal. f_equal. apply map_ext. intro u. apply IH. exact Hn.
  - destruct (s_quant S); [|reflexivity]. f_equal. f_equal. apply map_ext. intro d0. apply IH. exact Hn.
Qed.

Lemma set_const_wf S M c d : model_wf S M -> In d (m_dom M) -> model_wf S (set_const M c d).
Proof.
  intros [H1 H2 H3 H4 H5] Hd. constructor; simpl; auto.
  intro k. destruct (Nat.eqb k c); auto.
Qed.


(* ---- evaluation stays within the value set ---- *)
Definition gen_closed (S : sem) : bool :=
  forallb (fun sub => vmem (gapp (s_ge S) (mem_of sub)) (t_vals (s_t S)) &&
                      vmem (gapp (s_gu S) (mem_of sub)) (t_vals (s_t S)))
          (sublists (t_vals (s_t S))).

Lemma gen_closed_spec S g vs : gen_closed S = true -> (g = s_ge S \/ g = s_gu S) ->
  (forall v, In v vs -> In v (t_vals (s_t S))) -> In (gapp g (mem_of vs)) (t_vals (s_t S)).
Proof.
  intros H Hg Hin. unfold gen_closed in H. rewrite forallb_forall in H.
  specialize (H _ (canon_in_sublists (t_vals (s_t S)) vs)). apply andb_true_iff in H.
  rewrite (gapp_ext g _ _ (canon_mem _ _ Hin)).
  destruct H as [H1 H2]. destruct Hg as [->| ->]; apply vmem_In; assumption.
Qed.

Lemma eval_vals S M : closed_ok (s_t S) = true -> gen_closed S = true -> model_wf S M ->
  forall s w env, In (eval S M w env s) (t_vals (s_t S)).
Proof.
  intros Hc Hg Hwf.
  assert (Hu : forall o a, In a (t_vals (s_t S)) -> In (t_un (s_t S) o a) (t_vals (s_t S))).
  { unfold closed_ok in Hc. rewrite forallb_forall in Hc. intros o a Ha. specialize (Hc a Ha).
    apply andb_true_iff in Hc. destruct Hc as [Hc _]. rewrite forallb_forall in Hc.
    apply vmem_In. apply Hc. apply all_uops_complete. }
  assert (Hb : forall o a b, In a (t_vals (s_t S)) -> In b (t_vals (s_t S)) ->
                             In (t_bin (s_t S) o a b) (t_vals (s_t S))).
  { unfold closed_ok in Hc. rewrite forallb_forall in Hc. intros o a b Ha Hb. specialize (Hc a Ha).
    apply andb_true_iff in Hc. destruct Hc as [_ Hc]. rewrite forallb_forall in Hc.
    specialize (Hc b Hb). rewrite forallb_forall in Hc. apply vmem_In. apply Hc. apply all_bops_complete. }
  induction s as [n|p ts|o a IH|o a IHa b IHb|o a IH|q x a IH]; intros w env; simpl.
  - apply (wf_atom _ _ Hwf).
  - apply (wf_pred _ _ Hwf).
  - apply Hu. apply IH.
  - apply Hb; [apply IHa|apply IHb].
  - destruct (s_modal S); [|apply (wf_opq _ _ Hwf)].
    apply gen_closed_spec; [exact Hg| destruct o; auto |].
    intros v Hv. apply in_map_iff in Hv. destruct Hv as [u [<- _]]. apply IH.
  - destruct (s_quant S); [|apply (wf_opq _ _ Hwf)].
    apply gen_closed_spec; [exact Hg| destruct q; auto |].
    intros v Hv. apply in_map_iff in Hv. destruct Hv as [d [<- _]]. apply IH.
Qed.

(* evaluation stays within the value set: only the three value conditions are needed *)
Lemma eval_vals3 S M : closed_ok (s_t S) = true -> gen_closed S = true ->
  (forall w n, In (m_atom M w n) (t_vals (s_t S))) ->
  (forall w p ds, In (m_pred M w p ds) (t_vals (s_t S))) ->
  (forall w s, In (m_opq M w s) (t_vals (s_t S))) ->
  forall s w env, In (eval S M w env s) (t_vals (s_t S)).
Proof.
  intros Hc Hg Ha Hp Ho.
  assert (Hu : forall o a, In a (t_vals (s_t S)) -> In (t_un (s_t S) o a) (t_vals (s_t S))).
  { unfold closed_ok in Hc. rewrite forallb_forall in Hc. intros o a Hin. specialize (Hc a Hin).
    apply andb_true_iff in Hc. destruct Hc as [Hc _]. rewrite forallb_forall in Hc.
    apply vmem_In. apply Hc. apply all_uops_complete. }
  assert (Hb : forall o a b, In a (t_vals (s_t S)) -> In b (t_vals (s_t S)) ->
                             In (t_bin (s_t S) o a b) (t_vals (s_t S))).
  { unfold closed_ok in Hc. rewrite forallb_forall in Hc. intros o a b Hin Hinb. specialize (Hc a Hin).
    apply andb_true_iff in Hc. destruct Hc as [_ Hc]. rewrite forallb_forall in Hc.
    specialize (Hc b Hinb). rewrite forallb_forall in Hc. apply vmem_In. apply Hc. apply all_bops_complete. }
  induction s as [n|p ts|o a IH|o a IHa b IHb|o a IH|q x a IH]; intros w env; simpl; auto.
  - destruct (s_modal S); [|apply Ho].
    apply gen_closed_spec; [exact Hg| destruct o; auto |].
    intros v Hv. apply in_map_iff in Hv. destruct Hv as [u [<- _]]. apply IH.
  - destruct (s_quant S); [|apply Ho].
    apply gen_closed_spec; [exact Hg| destruct q; auto |].
    intros v Hv. apply in_map_iff in Hv. destruct Hv as [d [<- _]]. apply IH.
Qed.

(* well-formed quantification: no variable is re-bound inside its own scope *)
Fixpoint wfq (s : sent) : bool :=
  match s with
  | Atom _ | Pred _ _ => true
  | Un _ a | Mod _ a => wfq a
  | Bin _ a b => wfq a && wfq b
  | Qu _ x a => nobind x a && wfq a
  end.

(* closed terms / sentences *)
Definition term_closed (bound : list nat) (t : term) : bool :=
  match t with TC _ => true | TV x => existsb (Nat.eqb x) bound end.
Fixpoint closedb (bound : list nat) (s : sent) : bool :=
  match s with
  | Atom _ => true
  | Pred _ ts => forallb (term_closed bound) ts
  | Un _ a | Mod _ a => closedb bound a
  | Bin _ a b => closedb bound a && closedb bound b
  | Qu _ x a => closedb (x :: bound) a
  end.
