(* Well-formedness of every state reachable through the model API
   (set_atomic / set_opaque / set_predicated / set_literal / R.add / R[w]),
   and of the state produced by finish / finish_fixed: the hypotheses
   [state_wfb], [tuples_ok], [preds_fun], [id_binary], [acc_wf] of the property
   theorems are discharged for every history of calls.

   Needs CompleteProofs.vo (coqc theories/Sem/CompleteProofs.v) besides the
   chain of build.sh. *)
From Coq Require Import List Bool Arith Lia.
From PT Require Import Sem.Values Sem.MSyntax Sem.LimitBest Sem.Access Sem.AccessProofs
  Sem.PyModel Sem.Classical Sem.ClassicalFix Sem.ClassicalFixProofs Sem.ModelRun
  Sem.Export Sem.ExportProofs Sem.CompleteProofs.
Import ListNotations.

(* ---- the invariant ------------------------------------------------------------ *)
Definition atoms_fun (l : list (nat * nat * val)) : Prop :=
  forall w a v, In (w, a, v) l -> get_atom l w a = Some v.
Definition opaqs_fun (L : mlogic) (l : list (nat * sent * val)) : Prop :=
  forall w s v, In (w, s, v) l -> get_opaq l w s = Some v /\ is_opaque L s = true.
Definition allc (cs : list nat) (ps : list param) : Prop :=
  forall x, In x ps -> exists c, x = PC c /\ In c cs.
Definition pinv (L : mlogic) (st : state) : Prop :=
  forall w p ps v, In (w, p, ps, v) (s_preds st) ->
    val_ok L v = true /\ In (w, p) (s_pkeys st) /\ allc (s_consts st) ps /\
    get_pred (s_preds st) w p ps = Some v.

Definition inv (L : mlogic) (st : state) : Prop :=
  atoms_fun (s_atoms st) /\ opaqs_fun L (s_opaqs st) /\ pinv L st /\ id_binary st /\
  acc_wf (s_R st) /\ s_finished st = false /\ s_complete st = false.

(* ---- what the invariant gives -------------------------------------------------- *)
Lemma wfb_of L st :
  atoms_fun (s_atoms st) -> opaqs_fun L (s_opaqs st) -> pinv L st -> state_wfb L st = true.
Proof.
  intros A O P. unfold state_wfb. rewrite !andb_true_iff. split; [split|]; apply forallb_forall.
  - intros [[w a] v] Hin. rewrite (A _ _ _ Hin). apply val_eqb_eq; reflexivity.
  - intros [[w s] v] Hin. destruct (O _ _ _ Hin) as [G Op]. rewrite G, Op.
    cbn [andb]. apply val_eqb_eq; reflexivity.
  - intros [[[w p] ps] v] Hin. destruct (P _ _ _ _ Hin) as (V & K & Cs & G). rewrite V, G.
    assert (E1 : forallb (is_const st) ps = true).
    { apply forallb_forall. intros x Hx. destruct (Cs x Hx) as (c & -> & Hc).
      cbn [is_const]. apply existsb_exists. exists c. split; [exact Hc|apply Nat.eqb_refl]. }
    assert (E2 : existsb (fun k => Nat.eqb (fst k) w && pred_eqb (snd k) p) (s_pkeys st) = true).
    { apply existsb_exists. exists (w, p). split; [exact K|]. cbn [fst snd].
      rewrite Nat.eqb_refl, pred_eqb_refl. reflexivity. }
    rewrite E1, E2. cbn [andb]. apply val_eqb_eq; reflexivity.
Qed.

Lemma pinv_tuples_ok L st : pinv L st -> tuples_ok st.
Proof. intros P w p ps v Hin. destruct (P _ _ _ _ Hin) as (_ & K & Cs & _). split; [exact K|exact Cs]. Qed.
Lemma pinv_preds_fun L st : pinv L st -> preds_fun st.
Proof. intros P w p ps v Hin. destruct (P _ _ _ _ Hin) as (_ & _ & _ & G). exact G. Qed.

(* ---- append-only association lists ---------------------------------------------- *)
Lemma atoms_fun_snoc l w a v : atoms_fun l -> get_atom l w a = None -> atoms_fun (l ++ [(w, a, v)]).
Proof.
  intros F G w' a' v' Hin. rewrite get_atom_app. apply in_app_iff in Hin. destruct Hin as [Hin|[E|[]]].
  - rewrite (F _ _ _ Hin). reflexivity.
  - injection E as <- <- <-. rewrite G. cbn [get_atom]. rewrite !Nat.eqb_refl. reflexivity.
Qed.
Lemma opaqs_fun_snoc L l w s v :
  opaqs_fun L l -> get_opaq l w s = None -> is_opaque L s = true -> opaqs_fun L (l ++ [(w, s, v)]).
Proof.
  intros F G Op w' s' v' Hin. rewrite get_opaq_app. apply in_app_iff in Hin. destruct Hin as [Hin|[E|[]]].
  - destruct (F _ _ _ Hin) as [G' Op']. rewrite G'. auto.
  - injection E as <- <- <-. rewrite G. cbn [get_opaq]. rewrite Nat.eqb_refl, sent_eqb_refl. auto.
Qed.

Lemma pinv_grow L st st' :
  pinv L st ->
  (forall k, In k (s_pkeys st) -> In k (s_pkeys st')) ->
  (forall c, In c (s_consts st) -> In c (s_consts st')) ->
  s_preds st' = s_preds st -> pinv L st'.
Proof.
  intros P HK HC E w p ps v Hin. rewrite E in *. destruct (P _ _ _ _ Hin) as (V & K & Cs & G).
  split; [exact V|]. split; [apply HK; exact K|]. split; [|exact G].
  intros x Hx. destruct (Cs x Hx) as (c & -> & Hc). exists c. split; [reflexivity|apply HC; exact Hc].
Qed.

Lemma pinv_snoc L st st' w p ps v :
  pinv L st ->
  (forall k, In k (s_pkeys st) -> In k (s_pkeys st')) ->
  (forall c, In c (s_consts st) -> In c (s_consts st')) ->
  s_preds st' = s_preds st ++ [(w, p, ps, v)] ->
  get_pred (s_preds st) w p ps = None ->
  val_ok L v = true -> In (w, p) (s_pkeys st') -> allc (s_consts st') ps -> pinv L st'.
Proof.
  intros P HK HC E G V K Cs w' p' ps' v' Hin. rewrite E in *. rewrite get_pred_app.
  apply in_app_iff in Hin. destruct Hin as [Hin|[Hin|[]]].
  - destruct (P _ _ _ _ Hin) as (V' & K' & Cs' & G'). rewrite G'.
    split; [exact V'|]. split; [apply HK; exact K'|]. split; [|reflexivity].
    intros x Hx. destruct (Cs' x Hx) as (c & -> & Hc). exists c. split; [reflexivity|apply HC; exact Hc].
  - injection Hin as <- <- <- <-. rewrite G.
    split; [exact V|]. split; [exact K|]. split; [exact Cs|].
    destruct (get_pred_single w p ps v w p ps) as [[H _]|[_ H]]; [exact H|exfalso; apply H; auto].
Qed.

Lemma id_binary_same st st' : s_preds st' = s_preds st -> id_binary st -> id_binary st'.
Proof. intros E B w ps Hin. rewrite E in Hin. eapply B; exact Hin. Qed.

(* ---- constants and predicate keys only grow -------------------------------------- *)
Lemma upd_consts_in st cs c : In c (upd_consts st cs) <-> In c (s_consts st) \/ In c cs.
Proof. unfold upd_consts. apply fold_addn_in. Qed.

Lemma fold_param_consts_in ps : forall l c,
  In c (fold_left (fun l p => match p with PC c => addn c l | PV _ => l end) ps l) <->
  In c l \/ In (PC c) ps.
Proof.
  induction ps as [|p r IH]; intros l c; cbn [fold_left In]; [tauto|].
  rewrite IH. destruct p as [n|n].
  - rewrite addn_in. split.
    + intros [[H|H]|H]; [auto|subst; auto|auto].
    + intros [H|[H|H]]; [auto|injection H as ->; auto|auto].
  - split; [intros [H|H]; auto|intros [H|[H|H]]; [auto|discriminate|auto]].
Qed.
Lemma param_consts_in ps c : In c (param_consts ps) <-> In (PC c) ps.
Proof. unfold param_consts. rewrite fold_param_consts_in. cbn [In]. tauto. Qed.

Lemma has_var_false ps : has_var ps = false -> forall x, In x ps -> exists c, x = PC c.
Proof.
  unfold has_var. intros H x Hx. destruct x as [c|n]; [eauto|].
  assert (E : existsb (fun p => match p with PV _ => true | PC _ => false end) ps = true).
  { apply existsb_exists. exists (PV n). auto. }
  congruence.
Qed.

Lemma fold_addpk_mono w ps : forall l k, In k l -> In k (fold_left (fun l p => addpk (w, p) l) ps l).
Proof.
  induction ps as [|p r IH]; intros l k H; cbn [fold_left]; [exact H|].
  apply IH. apply In_addpk. left; exact H.
Qed.

(* ---- the setters preserve the invariant ------------------------------------------- *)
Lemma set_atomic_inv L st w a v st' : inv L st -> set_atomic L st w a v = Some st' -> inv L st'.
Proof.
  intros (A & O & P & B & R & F & C). unfold set_atomic. rewrite F.
  destruct (negb (val_ok L v)); [discriminate|]. destruct (negb (frame_ok L w)); [discriminate|].
  destruct (get_atom (s_atoms st) w a) as [v'|] eqn:G.
  - destruct (val_eqb v' v); [|discriminate]. intro H. injection H as <-.
    unfold inv. cbn [s_atoms s_opaqs s_R s_finished s_complete].
    split; [exact A|]. split; [exact O|]. split; [apply (pinv_grow L st); auto|].
    split; [apply (id_binary_same st); auto|]. auto.
  - intro H. injection H as <-.
    unfold inv. cbn [s_atoms s_opaqs s_R s_finished s_complete].
    split; [apply atoms_fun_snoc; assumption|]. split; [exact O|].
    split; [apply (pinv_grow L st); auto|].
    split; [apply (id_binary_same st); auto|]. auto.
Qed.

Lemma set_opaque_inv L st w s v st' :
  is_opaque L s = true -> inv L st -> set_opaque L st w s v = Some st' -> inv L st'.
Proof.
  intros Op (A & O & P & B & R & F & C). unfold set_opaque. rewrite F.
  destruct (negb (val_ok L v)); [discriminate|]. destruct (negb (frame_ok L w)); [discriminate|].
  cbv zeta.
  destruct (get_opaq (s_opaqs st) w s) as [v'|] eqn:G.
  - destruct (negb (val_eqb v' v)); [discriminate|]. intro H. injection H as <-.
    unfold inv. cbn [s_atoms s_opaqs s_R s_finished s_complete].
    split; [exact A|]. split; [exact O|].
    split; [apply (pinv_grow L st); cbn [s_pkeys s_consts s_preds]; auto|].
    + intros k Hk. apply fold_addpk_mono. exact Hk.
    + intros c Hc. apply upd_consts_in. left; exact Hc.
    + split; [apply (id_binary_same st); auto|]. auto.
  - cbn [negb]. intro H. injection H as <-.
    unfold inv. cbn [s_atoms s_opaqs s_R s_finished s_complete].
    split; [exact A|]. split; [apply opaqs_fun_snoc; assumption|].
    split; [apply (pinv_grow L st); cbn [s_pkeys s_consts s_preds]; auto|].
    + intros k Hk. apply fold_addpk_mono. exact Hk.
    + intros c Hc. apply upd_consts_in. left; exact Hc.
    + split; [apply (id_binary_same st); auto|]. auto.
Qed.

Lemma set_predicated_inv L st w p ps v st' :
  (p = PIdentity -> length ps = 2) ->
  inv L st -> set_predicated L st w p ps v = Some st' -> inv L st'.
Proof.
  intros Len (A & O & P & B & R & F & C). unfold set_predicated. rewrite F.
  destruct (negb (val_ok L v)) eqn:V; [discriminate|]. apply negb_false_iff in V.
  destruct (negb (frame_ok L w)); [discriminate|].
  destruct (has_var ps) eqn:HV; [discriminate|].
  cbv zeta.
  destruct (get_pred (s_preds st) w p ps) as [v'|] eqn:G.
  - destruct (negb (val_eqb v' v)); [discriminate|]. intro H. injection H as <-.
    unfold inv. cbn [s_atoms s_opaqs s_R s_finished s_complete].
    split; [exact A|]. split; [exact O|].
    split; [apply (pinv_grow L st); cbn [s_pkeys s_consts s_preds]; auto|].
    + intros k Hk. apply In_addpk. left; exact Hk.
    + intros c Hc. apply upd_consts_in. left; exact Hc.
    + split; [apply (id_binary_same st); auto|]. auto.
  - cbn [negb]. intro H. injection H as <-.
    unfold inv. cbn [s_atoms s_opaqs s_R s_finished s_complete].
    split; [exact A|]. split; [exact O|].
    split; [eapply (pinv_snoc L st); cbn [s_pkeys s_consts s_preds]; try reflexivity; try eassumption|].
    + intros k Hk. apply In_addpk. left; exact Hk.
    + intros c Hc. apply upd_consts_in. left; exact Hc.
    + apply In_addpk. right; reflexivity.
    + intros x Hx. destruct (has_var_false ps HV x Hx) as [c ->]. exists c. split; [reflexivity|].
      apply upd_consts_in. right. apply param_consts_in. exact Hx.
    + split; [|auto].
      intros w' ps' Hin. cbn [s_preds] in Hin. apply in_app_iff in Hin. destruct Hin as [Hin|[Hin|[]]].
      * eapply B; exact Hin.
      * injection Hin as E1 E2 E3 E4. rewrite <- E3. apply Len. exact E2.
Qed.

(* every Identity predication reached by set_literal's recursion (through
   negations) has two parameters *)
Fixpoint literal_id_ok (s : sent) : bool :=
  match s with
  | SUn Negation a => literal_id_ok a
  | SPred PIdentity ps => Nat.eqb (length ps) 2
  | _ => true
  end.

Lemma set_literal_unfold L st w s v :
  set_literal L st w s v =
  if s_finished st then None else
  if negb (val_ok L v) then None else
  if is_opaque L s then set_opaque L st w s v else
  match s with
  | SUn Negation a => set_literal L st w a (t_un (ml_tab L) Negation v)
  | SAtom a => set_atomic L st w a v
  | SPred p ps => set_predicated L st w p ps v
  | _ => None
  end.
Proof. destruct s; reflexivity. Qed.

Lemma set_literal_inv L s : forall st w v st',
  literal_id_ok s = true -> inv L st -> set_literal L st w s v = Some st' -> inv L st'.
Proof.
  induction s as [a|p ps|q x b IH|o b IH|o b1 IH1 b2 IH2|o b IH]; intros st w v st' OK I H;
    rewrite set_literal_unfold in H;
    (destruct (s_finished st); [discriminate|]);
    (destruct (negb (val_ok L v)); [discriminate|]).
  - cbn [is_opaque] in H. eapply set_atomic_inv; eassumption.
  - cbn [is_opaque] in H. eapply set_predicated_inv; [|exact I|exact H].
    intros ->. cbn [literal_id_ok] in OK. apply Nat.eqb_eq. exact OK.
  - destruct (is_opaque L (SQuant q x b)) eqn:E; [|discriminate].
    eapply set_opaque_inv; eassumption.
  - cbn [is_opaque] in H. destruct o; [discriminate|].
    eapply IH; [|exact I|exact H]. exact OK.
  - cbn [is_opaque] in H. discriminate.
  - destruct (is_opaque L (SMod o b)) eqn:E; [|discriminate].
    eapply set_opaque_inv; eassumption.
Qed.

Lemma with_R_inv L st r : acc_wf r -> inv L st -> inv L (with_R st r).
Proof.
  intros W (A & O & P & B & R & F & C). unfold inv, with_R.
  cbn [s_atoms s_opaqs s_R s_finished s_complete].
  split; [exact A|]. split; [exact O|]. split; [apply (pinv_grow L st); auto|].
  split; [apply (id_binary_same st); auto|]. auto.
Qed.

(* a direct set_opaque_value call is only meaningful on a sentence the logic
   treats as opaque; Identity predications have two parameters *)
Definition op_ok (L : mlogic) (o : op) : bool :=
  match o with
  | OOpaque _ s _ => is_opaque L s
  | OPredicated _ PIdentity ps _ => Nat.eqb (length ps) 2
  | OLiteral _ s _ => literal_id_ok s
  | _ => true
  end.

Lemma init_inv L : inv L init_state.
Proof.
  unfold inv, init_state. cbn [s_atoms s_opaqs s_R s_finished s_complete].
  split; [intros w a v []|]. split; [intros w s v []|]. split; [intros w p ps v []|].
  split; [intros w ps []|]. split; [apply acc_init_wf|auto].
Qed.

Lemma apply_op_inv L st o st' : op_ok L o = true -> inv L st -> apply_op L st o = Some st' -> inv L st'.
Proof.
  intros OK I H. destruct o as [w a v|w s v|w p ps v|w s v|w1 w2|w]; cbn [apply_op op_ok] in *.
  - eapply set_atomic_inv; eassumption.
  - eapply set_opaque_inv; eassumption.
  - eapply set_predicated_inv; [|exact I|exact H]. intros ->. apply Nat.eqb_eq. exact OK.
  - eapply set_literal_inv; eassumption.
  - injection H as <-. unfold add_access. apply with_R_inv; [|exact I].
    apply acc_add_wf. apply I.
  - injection H as <-. unfold touch_world. apply with_R_inv; [|exact I].
    apply acc_touch_wf. apply I.
Qed.

Lemma apply_ops_inv L os : forall st st',
  forallb (op_ok L) os = true -> inv L st -> apply_ops L st os = Some st' -> inv L st'.
Proof.
  induction os as [|o r IH]; intros st st' OK I H; cbn [apply_ops] in H.
  - injection H as <-. exact I.
  - cbn [forallb] in OK. apply andb_true_iff in OK. destruct OK as [OK1 OK2].
    destruct (apply_op L st o) as [st1|] eqn:E; [|discriminate].
    eapply IH; [exact OK2| |exact H]. eapply apply_op_inv; eassumption.
Qed.

(* the invariant holds after every history of calls (no hypothesis on the logic) *)
Theorem reachable_inv L os st :
  forallb (op_ok L) os = true -> apply_ops L init_state os = Some st -> inv L st.
Proof. intros OK H. eapply apply_ops_inv; [exact OK|apply init_inv|exact H]. Qed.

Lemma inv_wf L st : inv L st ->
  state_wfb L st = true /\ tuples_ok st /\ preds_fun st /\ id_binary st /\ acc_wf (s_R st) /\
  s_finished st = false /\ s_complete st = false.
Proof.
  intros (A & O & P & B & R & F & C).
  split; [apply wfb_of; assumption|]. split; [eapply pinv_tuples_ok; exact P|].
  split; [eapply pinv_preds_fun; exact P|]. auto.
Qed.

Theorem reachable_wf L os st :
  vals_closed L = true ->
  forallb (op_ok L) os = true ->
  apply_ops L init_state os = Some st ->
  state_wfb L st = true /\ tuples_ok st /\ preds_fun st /\ id_binary st /\ acc_wf (s_R st) /\
  s_finished st = false /\ s_complete st = false.
Proof. intros _ OK H. apply inv_wf. eapply reachable_inv; eassumption. Qed.
Print Assumptions reachable_wf.

(* ---- _complete_frames ------------------------------------------------------------- *)
(* the invariant between _complete_frames and R.enforce() *)
Definition cinv (L : mlogic) (st : state) : Prop :=
  atoms_fun (s_atoms st) /\ opaqs_fun L (s_opaqs st) /\ pinv L st /\ acc_wf (s_R st) /\
  s_complete st = true /\ s_finished st = false /\
  (forall w, In w (aw (s_R st)) -> In w (s_fkeys st)).

Lemma fill_atoms_fun un ws as_ : forall l, atoms_fun l -> atoms_fun (fill_atoms un ws as_ l).
Proof.
  unfold fill_atoms. induction ws as [|w r IH]; intros l F; cbn [fold_left]; [exact F|].
  apply IH. clear IH. revert l F.
  induction as_ as [|a t IHa]; intros l F; cbn [fold_left]; [exact F|].
  apply IHa. destruct (get_atom l w a) eqn:G; [exact F|]. apply atoms_fun_snoc; assumption.
Qed.

Lemma fill_opaqs_fun L un ws ss :
  (forall s, In s ss -> is_opaque L s = true) ->
  forall l, opaqs_fun L l -> opaqs_fun L (fill_opaqs un ws ss l).
Proof.
  intro Hop. unfold fill_opaqs. induction ws as [|w r IH]; intros l F; cbn [fold_left]; [exact F|].
  apply IH. clear IH. revert l F Hop.
  induction ss as [|s t IHs]; intros l F Hop; cbn [fold_left]; [exact F|].
  apply IHs.
  - destruct (get_opaq l w s) eqn:G; [exact F|]. apply opaqs_fun_snoc; [assumption|assumption|].
    apply Hop. left; reflexivity.
  - intros s' Hs'. apply Hop. right; exact Hs'.
Qed.

Lemma known_opaques_in st s : In s (known_opaques st) -> exists w v, In (w, s, v) (s_opaqs st).
Proof.
  unfold known_opaques.
  assert (G : forall (l : list (nat * sent * val)) acc,
    In s (fold_left (fun l e => addsent (snd (fst e)) l) l acc) ->
    In s acc \/ exists w v, In (w, s, v) l).
  { induction l as [|[[w s'] v] r IH]; intros acc H; cbn [fold_left] in H; [left; exact H|].
    destruct (IH _ H) as [H1|(w1 & v1 & H1)].
    - cbn [fst snd] in H1. apply addsent_in in H1. destruct H1 as [H1| ->]; [left; exact H1|].
      right. exists w, v. left; reflexivity.
    - right. exists w1, v1. right; exact H1. }
  intro H. destruct (G _ _ H) as [[]|H1]. exact H1.
Qed.

Lemma complete_frames_cinv L st st1 :
  inv L st -> complete_frames L st = Some st1 ->
  cinv L st1 /\ s_consts st1 = s_consts st /\ s_preds st1 = s_preds st.
Proof.
  intros (A & O & P & B & R & F & C). unfold complete_frames. rewrite F, C.
  set (fk := fold_left (fun l w => addn w l) (aw (s_R st)) (s_fkeys st)).
  destruct (negb (forallb (frame_ok L) fk)); [discriminate|].
  cbv zeta. intro H. injection H as <-.
  unfold cinv. cbn [s_atoms s_opaqs s_R s_finished s_complete s_fkeys s_consts s_preds].
  destruct (fold_touch_spec fk (s_R st) R) as (W1 & _ & W3).
  split; [|auto]. split; [apply fill_atoms_fun; exact A|].
  split.
  { apply fill_opaqs_fun; [|exact O]. intros s Hs. apply known_opaques_in in Hs.
    destruct Hs as (w & v & Hin). apply (O _ _ _ Hin). }
  split.
  { apply (pinv_grow L st); cbn [s_pkeys s_consts s_preds]; auto.
    intros k Hk. apply fill_pkeys_in. left; exact Hk. }
  split; [exact W1|]. split; [reflexivity|]. split; [reflexivity|].
  intros w Hw. apply W3 in Hw. destruct Hw as [Hw|Hw]; [|exact Hw].
  unfold fk. apply fold_addn_in. right; exact Hw.
Qed.

(* ---- the classical completion: only predicate tuples of constants are appended ----- *)
Definition same_frame (st st' : state) : Prop :=
  s_fkeys st' = s_fkeys st /\ s_atoms st' = s_atoms st /\ s_opaqs st' = s_opaqs st /\
  s_R st' = s_R st /\ s_consts st' = s_consts st /\
  s_complete st' = s_complete st /\ s_finished st' = s_finished st.

Lemma same_frame_refl st : same_frame st st.
Proof. unfold same_frame. repeat split; reflexivity. Qed.
Lemma same_frame_trans a b c : same_frame a b -> same_frame b c -> same_frame a c.
Proof.
  intros (H1 & H2 & H3 & H4 & H5 & H6 & H7) (G1 & G2 & G3 & G4 & G5 & G6 & G7).
  unfold same_frame. repeat split; congruence.
Qed.
Lemma same_frame_with_preds st pk pr : same_frame st (with_preds st pk pr).
Proof. unfold same_frame, with_preds. repeat split; reflexivity. Qed.

Lemma Forall2_In_l {A B} (R : A -> B -> Prop) l1 l2 x :
  Forall2 R l1 l2 -> In x l1 -> exists y, In y l2 /\ R x y.
Proof.
  induction 1 as [|x' y' l1 l2 HR HF IH]; [intros []|].
  intros [<-|Hin]; [exists y'; split; [left; reflexivity|exact HR]|].
  destruct (IH Hin) as (y & H1 & H2). exists y. split; [right; exact H1|exact H2].
Qed.

Section Completion.
  Variable L : mlogic.
  Variable cs : list nat.
  Variable cord : list nat.
  Hypothesis HVT : val_ok L VT = true.
  Hypothesis Hcord : forall c, In c cord -> In c cs.

  Definition good (st : state) : Prop := pinv L st /\ s_consts st = cs.
  Definition step (st st' : state) : Prop := good st' /\ same_frame st st'.

  Lemma step_trans a b c : step a b -> step b c -> step a c.
  Proof. intros [_ S1] [G S2]. split; [exact G|eapply same_frame_trans; eassumption]. Qed.

  Lemma addpk_step st k : good st -> step st (with_preds st (addpk k (s_pkeys st)) (s_preds st)).
  Proof.
    intros [P E]. split; [|apply same_frame_with_preds]. split; [|exact E].
    apply (pinv_grow L st); cbn [with_preds s_pkeys s_consts s_preds]; auto.
    intros k' Hk. apply In_addpk. left; exact Hk.
  Qed.

  Lemma set_T_step st w p ps st' : allc cs ps -> good st -> set_T st w p ps = Some st' -> step st st'.
  Proof.
    intros Cs [P E]. unfold set_T. destruct (get_pred (s_preds st) w p ps) as [v|] eqn:G.
    - destruct (val_eqb v VT); [|discriminate]. intro H. injection H as <-.
      split; [split; assumption|apply same_frame_refl].
    - intro H. injection H as <-. split; [|apply same_frame_with_preds]. split; [|exact E].
      eapply (pinv_snoc L st); cbn [with_preds s_pkeys s_consts s_preds]; try reflexivity; try eassumption.
      + intros k Hk. apply In_addpk. left; exact Hk.
      + auto.
      + apply In_addpk. right; reflexivity.
      + rewrite E. exact Cs.
  Qed.

  Lemma set_T_all_step w p l : forall st st',
    (forall ps, In ps l -> allc cs ps) -> good st -> set_T_all st w p l = Some st' -> step st st'.
  Proof.
    induction l as [|ps r IH]; intros st st' Hl G H; cbn [set_T_all] in H.
    - injection H as <-. split; [exact G|apply same_frame_refl].
    - destruct (set_T st w p ps) as [st1|] eqn:E; [|discriminate].
      assert (S1 : step st st1).
      { eapply set_T_step; [|exact G|exact E]. apply Hl. left; reflexivity. }
      eapply step_trans; [exact S1|]. eapply IH; [|apply S1|exact H].
      intros ps' Hin. apply Hl. right; exact Hin.
  Qed.

  Lemma fold_opt_step {B} (f : state -> B -> option state) l :
    (forall x st st', In x l -> good st -> f st x = Some st' -> step st st') ->
    forall st st', good st -> fold_opt f st l = Some st' -> step st st'.
  Proof.
    induction l as [|x r IH]; intros Hf st st' G H; cbn [fold_opt] in H.
    - injection H as <-. split; [exact G|apply same_frame_refl].
    - destruct (f st x) as [st1|] eqn:E; [|discriminate].
      assert (S1 : step st st1) by (eapply Hf; [left; reflexivity|exact G|exact E]).
      eapply step_trans; [exact S1|]. eapply IH; [|apply S1|exact H].
      intros y s s' Hy. apply Hf. right; exact Hy.
  Qed.

  Lemma having_allc st w p ps : good st -> In ps (having_T st w p) -> allc cs ps.
  Proof.
    intros [P E] H. apply having_T_In in H. destruct (P _ _ _ _ H) as (_ & _ & Cs & _).
    rewrite E in Cs. exact Cs.
  Qed.

  Lemma identicals_allc st w c : good st -> allc cs (identicals st w c).
  Proof.
    intros G x Hx. unfold identicals in Hx. apply filter_In in Hx. destruct Hx as [Hx _].
    apply ident_fold_In in Hx. destruct Hx as [[]|(ps & Hps & _ & Hin)].
    exact (having_allc _ _ _ _ G Hps x Hin).
  Qed.

  Lemma subst_tuple_allc c n ps : (exists b, n = PC b /\ In b cs) -> allc cs ps -> allc cs (subst_tuple c n ps).
  Proof.
    intros Hn Cs x Hx. unfold subst_tuple in Hx. apply in_map_iff in Hx. destruct Hx as (y & <- & Hy).
    destruct (param_eqb y (PC c)); [exact Hn|apply Cs; exact Hy].
  Qed.

  Lemma augment_step_step w p st c st' : good st -> augment_step w p st c = Some st' -> step st st'.
  Proof.
    intros G. unfold augment_step.
    set (st0 := with_preds st (addpk (w, PIdentity) (s_pkeys st)) (s_preds st)).
    intro H. pose proof (addpk_step st (w, PIdentity) G) as S0. fold st0 in S0.
    eapply step_trans; [exact S0|]. eapply set_T_all_step; [|apply S0|exact H].
    intros qs Hqs. apply in_flat_map in Hqs. destruct Hqs as (ps & Hps & Hqs).
    destruct (pmem c ps); [|destruct Hqs].
    apply in_map_iff in Hqs. destruct Hqs as (n & <- & Hn).
    apply subst_tuple_allc.
    - exact (identicals_allc st0 w c (proj1 S0) n Hn).
    - exact (having_allc _ _ _ _ (proj1 S0) Hps).
  Qed.

  Lemma augment_stepf w st p st' : good st -> augment cord w st p = Some st' -> step st st'.
  Proof.
    intros G H. unfold augment in H. eapply fold_opt_step; [|exact G|exact H].
    intros c s s' _ Gs Hs. eapply augment_step_step; eassumption.
  Qed.

  Lemma ensure_self_step w st st' : good st -> ensure_self cord w st = Some st' -> step st st'.
  Proof.
    intros G. unfold ensure_self. destruct cord as [|c0 cr] eqn:Ec.
    - intro H. injection H as <-. split; [exact G|apply same_frame_refl].
    - rewrite <- Ec in Hcord |- *. rewrite fold_opt_set_T.
      set (st0 := with_preds st (addpk (w, PIdentity) (s_pkeys st)) (s_preds st)).
      pose proof (addpk_step st (w, PIdentity) G) as S0. fold st0 in S0.
      destruct (set_T_all st0 w PIdentity (map (fun c => [PC c; PC c]) cord)) as [st1|] eqn:E1; [|discriminate].
      rewrite fold_opt_set_T. intro E2.
      assert (S1 : step st0 st1).
      { eapply set_T_all_step; [|apply S0|exact E1]. intros ps Hps.
        apply in_map_iff in Hps. destruct Hps as (c & <- & Hc).
        intros x [<-|[<-|[]]]; exists c; (split; [reflexivity|apply Hcord; exact Hc]). }
      pose proof (addpk_step st1 (w, PExistence) (proj1 S1)) as S2.
      eapply step_trans; [exact S0|]. eapply step_trans; [exact S1|].
      eapply step_trans; [exact S2|]. eapply set_T_all_step; [|apply S2|exact E2].
      intros ps Hps. apply in_map_iff in Hps. destruct Hps as (c & <- & Hc).
      intros x [<-|[]]; exists c; (split; [reflexivity|apply Hcord; exact Hc]).
  Qed.

  Lemma cl_frame_step pord st w st' : good st -> cl_frame cord pord st w = Some st' -> step st st'.
  Proof.
    intros G. unfold cl_frame.
    destruct (fold_opt (augment cord w) st _) as [st1|] eqn:E1; [|discriminate]. intro E2.
    assert (S1 : step st st1).
    { eapply fold_opt_step; [|exact G|exact E1]. intros p s s' _ Gs Hs. eapply augment_stepf; eassumption. }
    eapply step_trans; [exact S1|]. eapply ensure_self_step; [apply S1|exact E2].
  Qed.

  Lemma cl_complete_step pord st st' : good st -> cl_complete cord pord st = Some st' -> step st st'.
  Proof.
    intros G H. unfold cl_complete in H. eapply fold_opt_step; [|exact G|exact H].
    intros w s s' _ Gs Hs. eapply cl_frame_step; eassumption.
  Qed.

  (* the repaired completion *)
  Lemma close_identity_step w st st' : good st -> close_identity cord w st = Some st' -> step st st'.
  Proof.
    intros G. unfold close_identity. destruct cord as [|c0 cr] eqn:Ec.
    - intro H. injection H as <-. split; [exact G|apply same_frame_refl].
    - rewrite <- Ec in Hcord |- *.
      set (st0 := with_preds st (addpk (w, PIdentity) (s_pkeys st)) (s_preds st)).
      pose proof (addpk_step st (w, PIdentity) G) as S0. fold st0 in S0.
      set (a0 := id_rel cord st0 w).
      destruct (global_enforce a0) as [r|] eqn:Eg; [|discriminate]. intro H.
      eapply step_trans; [exact S0|]. eapply set_T_all_step; [|apply S0|exact H].
      destruct (fold_touch_spec cord acc_empty acc_empty_wf) as (Hw1 & Hp1 & Ha1).
      assert (Hwf : acc_wf a0) by (apply fold_add_wf; exact Hw1).
      assert (Haw : forall x, In x (aw a0) -> In x cs).
      { intros x Hx. unfold a0, id_rel in Hx. apply fold_add_aw in Hx.
        destruct Hx as [Hx|([a b] & Hp & Hx)].
        - apply Ha1 in Hx. destruct Hx as [[]|Hx]. apply Hcord; exact Hx.
        - apply id_pairs_In in Hp. pose proof (having_allc _ _ _ _ (proj1 S0) Hp) as Cs.
          cbn [fst snd] in Hx. destruct Hx as [->| ->].
          + destruct (Cs (PC a)) as (c & He & Hin); [left; reflexivity|]. injection He as ->; exact Hin.
          + destruct (Cs (PC b)) as (c & He & Hin); [right; left; reflexivity|]. injection He as ->; exact Hin. }
      destruct (global_enforce_spec_eq a0 Hwf) as (r' & Er & Hwfr & Hawr & _).
      rewrite Eg in Er. injection Er as <-.
      intros ps Hps. apply in_map_iff in Hps. destruct Hps as ([a b] & <- & Hin). cbn [fst snd].
      destruct (Hwfr _ _ Hin) as [Hx Hy]. rewrite Hawr in Hx, Hy.
      intros x [<-|[<-|[]]]; [exists a|exists b]; (split; [reflexivity|apply Haw; assumption]).
  Qed.

  Lemma class_of_allc st w x : good st -> (exists c, x = PC c /\ In c cs) -> allc cs (class_of st w x).
  Proof.
    intros G (c & -> & Hc) y Hy. cbn [class_of] in Hy. destruct Hy as [<-|Hy]; [eauto|].
    exact (identicals_allc st w c G y Hy).
  Qed.

  Lemma augment_fixed_step w st p st' : good st -> augment_fixed w st p = Some st' -> step st st'.
  Proof.
    intros G. unfold augment_fixed. destruct (having_T st w p) as [|t0 tr] eqn:Eh.
    - intro H. injection H as <-. split; [exact G|apply same_frame_refl].
    - rewrite <- Eh.
      set (st0 := with_preds st (addpk (w, PIdentity) (s_pkeys st)) (s_preds st)).
      pose proof (addpk_step st (w, PIdentity) G) as S0. fold st0 in S0. intro H.
      eapply step_trans; [exact S0|]. eapply set_T_all_step; [|apply S0|exact H].
      intros qs Hqs. apply in_flat_map in Hqs. destruct Hqs as (ps & Hps & Hqs).
      apply tuples_product_In in Hqs. intros q Hq.
      destruct (Forall2_In_l _ _ _ _ Hqs Hq) as (l & Hl & Hql).
      apply in_map_iff in Hl. destruct Hl as (x & <- & Hx).
      apply (class_of_allc st0 w x (proj1 S0)); [|exact Hql].
      exact (having_allc _ _ _ _ G Hps x Hx).
  Qed.

  Lemma cl_frame_fixed_step pord st w st' : good st -> cl_frame_fixed cord pord st w = Some st' -> step st st'.
  Proof.
    intros G. unfold cl_frame_fixed.
    destruct (close_identity cord w st) as [st1|] eqn:E1; [|discriminate].
    destruct (fold_opt (augment_fixed w) st1 _) as [st2|] eqn:E2; [|discriminate]. intro E3.
    pose proof (close_identity_step _ _ _ G E1) as S1.
    assert (S2 : step st1 st2).
    { eapply fold_opt_step; [|apply S1|exact E2]. intros p s s' _ Gs Hs. eapply augment_fixed_step; eassumption. }
    eapply step_trans; [exact S1|]. eapply step_trans; [exact S2|].
    eapply ensure_self_step; [apply S2|exact E3].
  Qed.

  Lemma cl_complete_fixed_step pord st st' : good st -> cl_complete_fixed cord pord st = Some st' -> step st st'.
  Proof.
    intros G H. unfold cl_complete_fixed in H. eapply fold_opt_step; [|exact G|exact H].
    intros w s s' _ Gs Hs. eapply cl_frame_fixed_step; eassumption.
  Qed.
End Completion.

(* ---- finish (the code BEFORE fix 422cec3: finish_old / run_old) ---------------------------- *)
Lemma enforce_aw_eq k a r : k <> AKSerial -> acc_wf a -> enforce k a = Some r -> aw r = aw a.
Proof.
  intros NS W E. destruct k; cbn [enforce] in E.
  - injection E as <-. reflexivity.
  - exfalso. apply NS. reflexivity.
  - injection E as <-. apply refl_enforce_aw.
  - destruct (rt_enforce_spec_rt a W) as (r' & E' & _ & Ar & _).
    rewrite E in E'. injection E' as <-. exact Ar.
  - destruct (global_enforce_spec_eq a W) as (r' & E' & _ & Ar & _).
    rewrite E in E'. injection E' as <-. exact Ar.
Qed.

Definition finished_wf_old (L : mlogic) (st' : state) : Prop :=
  state_wfb L st' = true /\ acc_wf (s_R st') /\ s_finished st' = true /\
  (ml_access L <> AKSerial -> forall w, In w (aw (s_R st')) -> In w (s_fkeys st')).

Lemma base_finish_old_cinv L st st1 st' :
  complete_frames L st = Some st1 -> cinv L st1 -> base_finish_old L st = Some st' ->
  finished_wf_old L st' /\ s_consts st' = s_consts st1 /\ pinv L st'.
Proof.
  intros CF (A & O & P & R & C & F & Sub). unfold base_finish_old. rewrite CF.
  destruct (enforce (ml_access L) (s_R st1)) as [r|] eqn:E; [|discriminate].
  intro H. injection H as <-.
  match goal with |- finished_wf_old L ?s /\ _ => assert (P' : pinv L s) end.
  { apply (pinv_grow L st1); cbn [s_pkeys s_consts s_preds]; auto. }
  split; [|split; [reflexivity|exact P']].
  unfold finished_wf_old. cbn [s_R s_finished s_fkeys].
  split.
  { apply wfb_of; cbn [s_atoms s_opaqs]; [exact A|exact O|exact P']. }
  split; [eapply enforce_wf; eassumption|]. split; [reflexivity|].
  intros NS w Hw. rewrite (enforce_aw_eq _ _ _ NS R E) in Hw. apply Sub; exact Hw.
Qed.

Lemma step_cinv L cs st1 st2 : cinv L st1 -> step L cs st1 st2 -> cinv L st2.
Proof.
  intros (A & O & _ & R & C & F & Sub) [[P _] (E1 & E2 & E3 & E4 & E5 & E6 & E7)].
  unfold cinv. rewrite E1, E2, E3, E4, E6, E7. auto 10.
Qed.

Lemma finish_old_all L cord pord st st' :
  (ml_classical L = true -> val_ok L VT = true) ->
  inv L st -> (forall c, In c cord -> In c (s_consts st)) ->
  finish_old L cord pord st = Some st' ->
  finished_wf_old L st' /\ s_consts st' = s_consts st /\ pinv L st'.
Proof.
  intros HVT I Hcord. unfold finish_old. destruct (ml_classical L) eqn:Cl.
  - destruct (complete_frames L st) as [st1|] eqn:CF; [|discriminate].
    destruct (cl_complete cord pord st1) as [st2|] eqn:CC; [|discriminate]. intro BF.
    destruct (complete_frames_cinv L st st1 I CF) as (CI & Ec & _).
    assert (G1 : good L (s_consts st) st1) by (split; [apply CI|exact Ec]).
    pose proof (cl_complete_step L (s_consts st) cord (HVT eq_refl) Hcord pord st1 st2 G1 CC) as S.
    pose proof (step_cinv _ _ _ _ CI S) as CI2.
    assert (CF2 : complete_frames L st2 = Some st2).
    { apply complete_frames_idem; apply CI2. }
    destruct (base_finish_old_cinv L st2 st2 st' CF2 CI2 BF) as (W & Ec' & P').
    split; [exact W|]. split; [|exact P']. rewrite Ec'. apply S.
  - intro BF. pose proof BF as BF'. unfold base_finish_old in BF.
    destruct (complete_frames L st) as [st1|] eqn:CF; [|discriminate].
    destruct (complete_frames_cinv L st st1 I CF) as (CI & Ec & _).
    destruct (base_finish_old_cinv L st st1 st' CF CI BF') as (W & Ec' & P').
    split; [exact W|]. split; [congruence|exact P'].
Qed.

Theorem finish_old_wf L cord pord st st' :
  vals_closed L = true -> (ml_classical L = true -> val_ok L VT = true) ->
  inv L st -> s_finished st = false ->
  (forall c, In c cord -> In c (s_consts st)) ->
  finish_old L cord pord st = Some st' ->
  state_wfb L st' = true /\ acc_wf (s_R st') /\ s_finished st' = true /\
  (ml_access L <> AKSerial -> forall w, In w (aw (s_R st')) -> In w (s_fkeys st')).
Proof. intros _ HVT I _ Hcord H. apply (finish_old_all L cord pord st st' HVT I Hcord H). Qed.
Print Assumptions finish_old_wf.

Theorem finish_old_wf_ext L cord pord st st' :
  (ml_classical L = true -> val_ok L VT = true) ->
  inv L st -> (forall c, In c cord -> In c (s_consts st)) ->
  finish_old L cord pord st = Some st' ->
  tuples_ok st' /\ preds_fun st' /\ s_consts st' = s_consts st.
Proof.
  intros HVT I Hcord H. destruct (finish_old_all L cord pord st st' HVT I Hcord H) as (_ & Ec & P).
  split; [eapply pinv_tuples_ok; exact P|]. split; [eapply pinv_preds_fun; exact P|exact Ec].
Qed.

Corollary run_old_wf L cord pord os st' :
  vals_closed L = true -> (ml_classical L = true -> val_ok L VT = true) ->
  forallb (op_ok L) os = true ->
  (forall st, apply_ops L init_state os = Some st -> forall c, In c cord -> In c (s_consts st)) ->
  run_old L cord pord os = Some st' ->
  state_wfb L st' = true /\ acc_wf (s_R st') /\ s_finished st' = true /\
  (ml_access L <> AKSerial -> forall w, In w (aw (s_R st')) -> In w (s_fkeys st')).
Proof.
  intros VC HVT OK Hcord H. unfold run_old in H.
  destruct (apply_ops L init_state os) as [st|] eqn:E; [|discriminate].
  pose proof (reachable_inv L os st OK E) as I.
  eapply finish_old_wf; [exact VC|exact HVT|exact I|apply I|apply Hcord; reflexivity|exact H].
Qed.
Print Assumptions run_old_wf.

(* the hypotheses of the classical theorems on the completed state *)
Theorem complete_frames_wf L st st1 :
  inv L st -> complete_frames L st = Some st1 ->
  tuples_ok st1 /\ id_binary st1 /\ preds_fun st1 /\ s_consts st1 = s_consts st /\
  acc_wf (s_R st1) /\ (forall w, In w (aw (s_R st1)) -> In w (s_fkeys st1)).
Proof.
  intros I CF. destruct (complete_frames_cinv L st st1 I CF) as ((A & O & P & R & C & F & Sub) & Ec & Ep).
  split; [eapply pinv_tuples_ok; exact P|].
  split; [apply (id_binary_same st); [exact Ep|apply I]|].
  split; [eapply pinv_preds_fun; exact P|]. auto.
Qed.

(* ---- finish (current code: pre_complete / base_finish / ClassicalFix.finish) ----------------- *)
(* what a forced _complete_frames needs (weaker than inv) and what it gives *)
Definition winv (L : mlogic) (st : state) : Prop :=
  atoms_fun (s_atoms st) /\ opaqs_fun L (s_opaqs st) /\ pinv L st /\ acc_wf (s_R st) /\
  s_finished st = false /\ s_complete st = false.
Definition cinv2 (L : mlogic) (st : state) : Prop :=
  atoms_fun (s_atoms st) /\ opaqs_fun L (s_opaqs st) /\ pinv L st /\ acc_wf (s_R st) /\
  s_complete st = true /\ s_finished st = false /\
  (forall w, In w (aw (s_R st)) <-> In w (s_fkeys st)).

Lemma inv_winv L st : inv L st -> winv L st.
Proof. intros (A & O & P & B & R & F & C). unfold winv. auto 10. Qed.

Lemma complete_frames_gen L st st1 :
  winv L st -> complete_frames L st = Some st1 ->
  cinv2 L st1 /\ s_consts st1 = s_consts st /\ s_preds st1 = s_preds st /\
  ap (s_R st1) = ap (s_R st) /\
  (forall w, In w (s_fkeys st1) <-> In w (s_fkeys st) \/ In w (aw (s_R st))) /\
  s_R st1 = fold_left acc_touch (s_fkeys st1) (s_R st).
Proof.
  intros (A & O & P & R & F & C). unfold complete_frames. rewrite F, C.
  set (fk := fold_left (fun l w => addn w l) (aw (s_R st)) (s_fkeys st)).
  destruct (negb (forallb (frame_ok L) fk)); [discriminate|].
  cbv zeta. intro H. injection H as <-.
  unfold cinv2. cbn [s_atoms s_opaqs s_R s_finished s_complete s_fkeys s_consts s_preds].
  destruct (fold_touch_spec fk (s_R st) R) as (W1 & W2 & W3).
  assert (Hfk : forall w, In w fk <-> In w (s_fkeys st) \/ In w (aw (s_R st))).
  { intro w. unfold fk. apply fold_addn_in. }
  split; [|auto 10]. split; [apply fill_atoms_fun; exact A|].
  split.
  { apply fill_opaqs_fun; [|exact O]. intros s Hs. apply known_opaques_in in Hs.
    destruct Hs as (w & v & Hin). apply (O _ _ _ Hin). }
  split.
  { apply (pinv_grow L st); cbn [s_pkeys s_consts s_preds]; auto.
    intros k Hk. apply fill_pkeys_in. left; exact Hk. }
  split; [exact W1|]. split; [reflexivity|]. split; [reflexivity|].
  intros w. rewrite W3, Hfk. tauto.
Qed.

Lemma fold_touch_id l : forall a, (forall x, In x l -> In x (aw a)) -> fold_left acc_touch l a = a.
Proof.
  induction l as [|x r IH]; intros a H; cbn [fold_left]; [reflexivity|].
  assert (E : acc_touch a x = a).
  { unfold acc_touch. rewrite addw_id by (apply H; left; reflexivity). destruct a; reflexivity. }
  rewrite E. apply IH. intros y Hy. apply H. right; exact Hy.
Qed.

(* the relation was produced by enforce() *)
Definition enforced (k : akind) (r : access) : Prop := exists a, acc_wf a /\ enforce k a = Some r.

(* R.enforce(); _is_frame_complete = False; _complete_frames() on a completed state *)
Lemma second_half L st1 r st2 :
  cinv2 L st1 -> enforce (ml_access L) (s_R st1) = Some r ->
  complete_frames L (set_flags (with_R st1 r) false (s_finished st1)) = Some st2 ->
  cinv2 L st2 /\ s_consts st2 = s_consts st1 /\ s_preds st2 = s_preds st1 /\ s_R st2 = r /\
  (forall w, In w (s_fkeys st2) <-> In w (aw r)).
Proof.
  intros (A & O & P & R & C & F & Iff) E CF.
  assert (Wr : acc_wf r) by (eapply enforce_wf; eassumption).
  assert (WI : winv L (set_flags (with_R st1 r) false (s_finished st1))).
  { unfold winv, set_flags, with_R. cbn [s_atoms s_opaqs s_R s_finished s_complete].
    split; [exact A|]. split; [exact O|]. split; [apply (pinv_grow L st1); auto|]. auto. }
  destruct (complete_frames_gen _ _ _ WI CF) as (CI & Ec & Ep & _ & Hfk & ER).
  cbn [set_flags with_R s_consts s_preds s_fkeys s_R] in Ec, Ep, Hfk, ER.
  assert (Hfk' : forall w, In w (s_fkeys st2) <-> In w (aw r)).
  { intro w. rewrite Hfk. split; [|auto]. intros [H|H]; [|exact H].
    eapply enforce_worlds_mono; [exact R|exact E|]. apply Iff. exact H. }
  split; [exact CI|]. split; [exact Ec|]. split; [exact Ep|]. split; [|exact Hfk'].
  rewrite ER. apply fold_touch_id. intros x Hx. apply Hfk'. exact Hx.
Qed.

Lemma pre_complete_winv L st st2 :
  winv L st -> pre_complete L st = Some st2 ->
  cinv2 L st2 /\ s_consts st2 = s_consts st /\ s_preds st2 = s_preds st /\
  exists st1, complete_frames L st = Some st1 /\ enforce (ml_access L) (s_R st1) = Some (s_R st2) /\
              acc_wf (s_R st1) /\ ap (s_R st1) = ap (s_R st) /\
              (forall w, In w (aw (s_R st1)) <-> In w (s_fkeys st) \/ In w (aw (s_R st))).
Proof.
  intros WI. unfold pre_complete.
  destruct (complete_frames L st) as [st1|] eqn:CF; [|discriminate].
  destruct (enforce (ml_access L) (s_R st1)) as [r|] eqn:E; [|discriminate]. intro CF2.
  destruct (complete_frames_gen _ _ _ WI CF) as (CI & Ec & Ep & Eap & Hfk & _).
  destruct (second_half L st1 r st2 CI E CF2) as (CI2 & Ec2 & Ep2 & ER & _).
  split; [exact CI2|]. split; [congruence|]. split; [congruence|].
  exists st1. split; [reflexivity|]. split; [rewrite ER; exact E|].
  destruct CI as (_ & _ & _ & R1 & _ & _ & Iff1).
  split; [exact R1|]. split; [exact Eap|]. intro w. rewrite Iff1. apply Hfk.
Qed.

Lemma pre_complete_cinv2 L st st2 :
  cinv2 L st -> pre_complete L st = Some st2 ->
  cinv2 L st2 /\ s_consts st2 = s_consts st /\ s_preds st2 = s_preds st /\
  enforce (ml_access L) (s_R st) = Some (s_R st2) /\
  (forall w, In w (s_fkeys st2) <-> In w (aw (s_R st2))).
Proof.
  intros CI. unfold pre_complete.
  assert (CF : complete_frames L st = Some st) by (apply complete_frames_idem; apply CI).
  rewrite CF.
  destruct (enforce (ml_access L) (s_R st)) as [r|] eqn:E; [|discriminate]. intro CF2.
  destruct (second_half L st r st2 CI E CF2) as (CI2 & Ec2 & Ep2 & ER & Hfk).
  split; [exact CI2|]. split; [exact Ec2|]. split; [exact Ep2|].
  rewrite ER. split; [reflexivity|exact Hfk].
Qed.

(* a second enforce() on an enforced relation adds no world *)
Lemma enforce_again_aw k a r r' :
  acc_wf a -> enforce k a = Some r -> enforce k r = Some r' -> forall w, In w (aw r') -> In w (aw r).
Proof.
  intros W E E' w Hw. assert (Wr : acc_wf r) by (eapply enforce_wf; eassumption).
  destruct k.
  - cbn [enforce] in E'. injection E' as <-. exact Hw.
  - cbn [enforce] in E, E'. injection E as <-. injection E' as <-.
    destruct (serial_enforce_spec a W) as (_ & Hs & _).
    rewrite serial_enforce_id in Hw; [exact Hw|].
    intros x Hx. destruct (dead_end (serial_enforce a) x) eqn:D; [|reflexivity].
    destruct (Hs x Hx) as [v Hv]. exfalso. exact (proj1 (dead_end_true _ _) D v Hv).
  - rewrite (enforce_aw_eq AKRefl r r') in Hw; [exact Hw|discriminate|exact Wr|exact E'].
  - rewrite (enforce_aw_eq AKReflTrans r r') in Hw; [exact Hw|discriminate|exact Wr|exact E'].
  - rewrite (enforce_aw_eq AKGlobal r r') in Hw; [exact Hw|discriminate|exact Wr|exact E'].
Qed.

Definition finished_wf (L : mlogic) (st' : state) : Prop :=
  state_wfb L st' = true /\ acc_wf (s_R st') /\ s_finished st' = true /\
  (forall w, In w (aw (s_R st')) <-> In w (s_fkeys st')).

Lemma set_flags_finished L st2 :
  cinv2 L st2 -> finished_wf L (set_flags st2 true true) /\ pinv L (set_flags st2 true true).
Proof.
  intros (A & O & P & R & C & F & Iff).
  assert (P' : pinv L (set_flags st2 true true)) by (apply (pinv_grow L st2); auto).
  split; [|exact P']. unfold finished_wf. cbn [set_flags s_R s_finished s_fkeys].
  split; [apply wfb_of; [exact A|exact O|exact P']|]. auto.
Qed.

Lemma step_cinv2 L cs st1 st2 : cinv2 L st1 -> step L cs st1 st2 -> cinv2 L st2.
Proof.
  intros (A & O & _ & R & C & F & Iff) [[P _] (E1 & E2 & E3 & E4 & E5 & E6 & E7)].
  unfold cinv2. rewrite E1, E2, E3, E4, E6, E7. auto 10.
Qed.

(* everything the later theorems use about finish, in one place *)
Lemma finish_all L cord pord st st' :
  (ml_classical L = true -> val_ok L VT = true) -> inv L st ->
  (forall c, In c cord -> In c (s_consts st)) ->
  finish L cord pord st = Some st' ->
  finished_wf L st' /\ s_consts st' = s_consts st /\ pinv L st' /\
  (ml_classical L = false ->
     exists st2, pre_complete L st = Some st2 /\ st' = set_flags st2 true true) /\
  (ml_classical L = true ->
     exists st2 st3 st4, pre_complete L st = Some st2 /\ cl_complete_fixed cord pord st2 = Some st3 /\
       pre_complete L st3 = Some st4 /\ st' = set_flags st4 true true /\
       cinv2 L st2 /\ s_preds st2 = s_preds st /\ s_consts st2 = s_consts st /\
       s_R st3 = s_R st2 /\ s_fkeys st3 = s_fkeys st2 /\
       s_preds st4 = s_preds st3 /\ s_consts st4 = s_consts st3 /\
       enforce (ml_access L) (s_R st3) = Some (s_R st4) /\
       (forall w, In w (s_fkeys st4) <-> In w (s_fkeys st2))).
Proof.
  intros HVT I Hcord. unfold finish. destruct (ml_classical L) eqn:Cl.
  - destruct (pre_complete L st) as [st2|] eqn:PC; [|discriminate].
    destruct (cl_complete_fixed cord pord st2) as [st3|] eqn:CC; [|discriminate].
    unfold base_finish. destruct (pre_complete L st3) as [st4|] eqn:PC2; [|discriminate].
    intro H. injection H as <-.
    destruct (pre_complete_winv L st st2 (inv_winv L st I) PC) as (CI2 & Ec2 & Ep2 & st1 & CF1 & E1 & W1 & _).
    assert (G2 : good L (s_consts st) st2) by (split; [apply CI2|exact Ec2]).
    pose proof (cl_complete_fixed_step L (s_consts st) cord (HVT eq_refl) Hcord pord st2 st3 G2 CC) as S.
    pose proof (step_cinv2 _ _ _ _ CI2 S) as CI3.
    destruct (pre_complete_cinv2 L st3 st4 CI3 PC2) as (CI4 & Ec4 & Ep4 & E3 & Hfk4).
    destruct (set_flags_finished L st4 CI4) as (FW & P').
    destruct S as [[_ Ec3] (F1 & _ & _ & F4 & _)].
    split; [exact FW|]. split; [cbn [set_flags s_consts]; congruence|]. split; [exact P'|].
    split; [discriminate|]. intros _. exists st2, st3, st4.
    repeat (split; [first [reflexivity|assumption]|]).
    intro w. rewrite Hfk4.
    destruct CI2 as (_ & _ & _ & _ & _ & _ & Iff2). rewrite <- Iff2, <- F4. split.
    + apply (enforce_again_aw _ _ _ _ W1 (eq_trans E1 (f_equal Some (eq_sym F4))) E3).
    + destruct CI3 as (_ & _ & _ & R3 & _). apply (enforce_worlds_mono _ _ _ R3 E3).
  - unfold base_finish. destruct (pre_complete L st) as [st2|] eqn:PC; [|discriminate].
    intro H. injection H as <-.
    destruct (pre_complete_winv L st st2 (inv_winv L st I) PC) as (CI2 & Ec2 & Ep2 & _).
    destruct (set_flags_finished L st2 CI2) as (FW & P').
    split; [exact FW|]. split; [exact Ec2|]. split; [exact P'|].
    split; [|discriminate]. intros _. exists st2. auto.
Qed.

Theorem finish_wf L cord pord st st' :
  (ml_classical L = true -> val_ok L VT = true) -> inv L st ->
  (forall c, In c cord -> In c (s_consts st)) ->
  finish L cord pord st = Some st' ->
  finished_wf L st' /\ s_consts st' = s_consts st /\ tuples_ok st' /\ preds_fun st'.
Proof.
  intros HVT I Hcord H. destruct (finish_all L cord pord st st' HVT I Hcord H) as (FW & Ec & P & _).
  split; [exact FW|]. split; [exact Ec|].
  split; [eapply pinv_tuples_ok; exact P|eapply pinv_preds_fun; exact P].
Qed.
Print Assumptions finish_wf.

Corollary run_wf L cord pord os st' :
  (ml_classical L = true -> val_ok L VT = true) ->
  forallb (op_ok L) os = true ->
  (forall st, apply_ops L init_state os = Some st -> forall c, In c cord -> In c (s_consts st)) ->
  run L cord pord os = Some st' ->
  finished_wf L st' /\ tuples_ok st' /\ preds_fun st'.
Proof.
  intros HVT OK Hcord H. unfold run in H.
  destruct (apply_ops L init_state os) as [st|] eqn:E; [|discriminate].
  pose proof (reachable_inv L os st OK E) as I.
  destruct (finish_wf L cord pord st st' HVT I (Hcord st eq_refl) H) as (FW & _ & T & PF). auto.
Qed.
Print Assumptions run_wf.

(* ---- the classical completion at the level of finish ------------------------------------- *)
Lemma frame_classical_same st st' w :
  s_preds st' = s_preds st -> s_consts st' = s_consts st -> frame_classical st w -> frame_classical st' w.
Proof. intros Ep Ec H. unfold frame_classical, idT, predT in *. rewrite Ep, Ec. exact H. Qed.

Theorem finish_classical L cord pord st st2 st' :
  ml_classical L = true -> val_ok L VT = true -> inv L st ->
  pre_complete L st = Some st2 ->
  (forall c, In c cord <-> In c (s_consts st)) -> pord_covers pord st2 ->
  finish L cord pord st = Some st' ->
  (forall w, In w (s_fkeys st') -> frame_classical st' w) /\ classical_okb st' = true /\
  finished_wf L st'.
Proof.
  intros Cl HVT I PC Hcord Hpc H.
  assert (Hsub : forall c, In c cord -> In c (s_consts st)) by (intros c Hc; apply Hcord; exact Hc).
  destruct (finish_all L cord pord st st' (fun _ => HVT) I Hsub H) as (FW & Ec & P & _ & HC).
  destruct (HC Cl) as (st2' & st3 & st4 & PC' & CC & PC2 & Est & CI2 & Ep2 & Ec2 & ER3 & Ef3 & Ep4 & Ec4 & E3 & Hfk).
  rewrite PC in PC'. injection PC' as <-.
  assert (T2 : tuples_ok st2) by (eapply pinv_tuples_ok; apply CI2).
  assert (B2 : id_binary st2) by (apply (id_binary_same st); [exact Ep2|apply I]).
  assert (Hcord2 : forall c, In c cord <-> In c (s_consts st2)) by (intro c; rewrite Ec2; apply Hcord).
  destruct (classical_finish_repaired cord pord st2 st3 T2 B2 Hcord2 Hpc CC) as (FC & _).
  assert (FC' : forall w, In w (s_fkeys st') -> frame_classical st' w).
  { intros w Hw. subst st'. cbn [set_flags s_fkeys] in Hw.
    apply (frame_classical_same st3); [exact Ep4|exact Ec4|]. apply FC. apply Hfk. exact Hw. }
  split; [exact FC'|]. split; [|exact FW].
  apply classical_okb_of_frame_classical;
    [eapply pinv_tuples_ok; exact P|eapply pinv_preds_fun; exact P|exact FC'].
Qed.
Print Assumptions finish_classical.

Corollary run_classical_wf L cord pord os st st2 st' :
  ml_classical L = true -> val_ok L VT = true -> forallb (op_ok L) os = true ->
  apply_ops L init_state os = Some st -> pre_complete L st = Some st2 ->
  (forall c, In c cord <-> In c (s_consts st)) -> pord_covers pord st2 ->
  run L cord pord os = Some st' ->
  (forall w, In w (s_fkeys st') -> frame_classical st' w) /\ classical_okb st' = true /\
  finished_wf L st'.
Proof.
  intros Cl HVT OK E PC Hcord Hpc H. unfold run in H. rewrite E in H.
  exact (finish_classical L cord pord st st2 st' Cl HVT (reachable_inv L os st OK E) PC Hcord Hpc H).
Qed.
Print Assumptions run_classical_wf.

(* non-vacuity: the hypotheses hold of the witness history of ClassicalFix.v *)
Example reach_nonvacuous :
  val_ok ML_cfol VT = true /\ forallb (op_ok ML_cfol) wit_chain = true /\
  exists st st2 st', apply_ops ML_cfol init_state wit_chain = Some st /\
                 pre_complete ML_cfol st = Some st2 /\
                 (forall c, In c [2; 0; 1] <-> In c (s_consts st)) /\
                 pord_covers all_pord st2 /\
                 run ML_cfol [2; 0; 1] all_pord wit_chain = Some st'.
Proof.
  split; [vm_compute; reflexivity|]. split; [vm_compute; reflexivity|].
  eexists. eexists. eexists.
  split; [vm_compute; reflexivity|]. split; [vm_compute; reflexivity|].
  split; [intro c; cbn; intuition|]. split; [|vm_compute; reflexivity].
  intros w p Hin. cbn in Hin. unfold all_pord. cbn.
  repeat (destruct Hin as [Hin|Hin]; [injection Hin as <- <-; auto|]). destruct Hin.
Qed.

(* ---- the final access relation is exactly the closure of the initial one ------------------ *)
From Coq Require Import Relations.

Definition enf_spec (k : akind) (W : nat -> Prop) (R : nat -> nat -> Prop) (x y : nat) : Prop :=
  match k with
  | AKAny => R x y
  | AKRefl => R x y \/ (x = y /\ W x)
  | AKReflTrans => W x /\ clos_refl_trans nat R x y
  | AKGlobal => W x /\ clos_refl_sym_trans nat R x y
  | AKSerial => True
  end.

Lemma enf_spec_ext k (W W' : nat -> Prop) R x y :
  (forall z, W z <-> W' z) -> enf_spec k W R x y <-> enf_spec k W' R x y.
Proof. intro H. destruct k; cbn [enf_spec]; try tauto; rewrite (H x); tauto. Qed.

Lemma enforce_pairs k a r : k <> AKSerial -> acc_wf a -> enforce k a = Some r ->
  forall x y, In (x, y) (ap r) <-> enf_spec k (fun z => In z (aw a)) (accR a) x y.
Proof.
  intros NS W E x y. destruct k; cbn [enforce enf_spec] in *.
  - injection E as <-. unfold accR. tauto.
  - exfalso. apply NS. reflexivity.
  - injection E as <-. apply refl_enforce_ap.
  - destruct (rt_enforce_spec_rt a W) as (r' & E' & _ & _ & Hr).
    rewrite E in E'. injection E' as <-. apply Hr.
  - destruct (global_enforce_spec_eq a W) as (r' & E' & _ & _ & Hr).
    rewrite E in E'. injection E' as <-. apply Hr.
Qed.

(* enforce is idempotent as a relation *)
Lemma enforce_twice_pairs k a r r' : k <> AKSerial -> acc_wf a ->
  enforce k a = Some r -> enforce k r = Some r' ->
  forall x y, In (x, y) (ap r') <-> In (x, y) (ap r).
Proof.
  intros NS W E E' x y. assert (Wr : acc_wf r) by (eapply enforce_wf; eassumption).
  pose proof (enforce_aw_eq k a r NS W E) as Ea.
  pose proof (enforce_pairs k a r NS W E) as S1.
  rewrite (enforce_pairs k r r' NS Wr E'). rewrite Ea.
  destruct k; cbn [enf_spec] in *.
  - unfold accR. tauto.
  - tauto.
  - unfold accR at 1. split; [|auto]. intros [H|[<- H]]; [exact H|]. apply S1. right. auto.
  - rewrite (S1 x y).
    rewrite (clos_rt_sandwich (accR a) (accR r)); [tauto| |].
    + intros u v H. apply S1. split; [apply (W _ _ H)|apply rt_step; exact H].
    + intros u v H. apply S1 in H. apply H.
  - rewrite (S1 x y).
    rewrite (clos_rst_sandwich (accR a) (accR r)); [tauto| |].
    + intros u v H. apply S1. split; [apply (W _ _ H)|apply rst_step; exact H].
    + intros u v H. apply S1 in H. apply H.
Qed.

Lemma serial_enforce_again a : acc_wf a -> serial_enforce (serial_enforce a) = serial_enforce a.
Proof.
  intro W. destruct (serial_enforce_spec a W) as (_ & Hs & _).
  apply serial_enforce_id. intros x Hx.
  destruct (dead_end (serial_enforce a) x) eqn:D; [|reflexivity].
  destruct (Hs x Hx) as [v Hv]. exfalso. exact (proj1 (dead_end_true _ _) D v Hv).
Qed.

(* R after finish = enforce (twice for the classical family) of the relation with the
   pairs of the initial R over the worlds W0 = worlds of R or of frames *)
Lemma finish_R L cord pord st st' :
  (ml_classical L = true -> val_ok L VT = true) -> inv L st ->
  (forall c, In c cord -> In c (s_consts st)) ->
  finish L cord pord st = Some st' ->
  exists a1 r1, acc_wf a1 /\ ap a1 = ap (s_R st) /\
    (forall w, In w (aw a1) <-> In w (s_fkeys st) \/ In w (aw (s_R st))) /\
    enforce (ml_access L) a1 = Some r1 /\
    (s_R st' = r1 \/ enforce (ml_access L) r1 = Some (s_R st')).
Proof.
  intros HVT I Hcord H.
  destruct (finish_all L cord pord st st' HVT I Hcord H) as (_ & _ & _ & HN & HC).
  destruct (ml_classical L) eqn:Cl.
  - destruct (HC eq_refl) as (st2 & st3 & st4 & PC & _ & _ & -> & _ & _ & _ & ER3 & _ & _ & _ & E3 & _).
    destruct (pre_complete_winv L st st2 (inv_winv L st I) PC) as (_ & _ & _ & st1 & _ & E1 & W1 & Eap & Haw).
    exists (s_R st1), (s_R st2). repeat (split; [assumption|]).
    right. cbn [set_flags s_R]. rewrite <- ER3. exact E3.
  - destruct (HN eq_refl) as (st2 & PC & ->).
    destruct (pre_complete_winv L st st2 (inv_winv L st I) PC) as (_ & _ & _ & st1 & _ & E1 & W1 & Eap & Haw).
    exists (s_R st1), (s_R st2). repeat (split; [assumption|]).
    left. reflexivity.
Qed.

Definition W0 (st : state) (x : nat) : Prop := In x (aw (s_R st)) \/ In x (s_fkeys st).

Theorem finish_access_spec L cord pord st st' :
  (ml_classical L = true -> val_ok L VT = true) -> inv L st ->
  (forall c, In c cord -> In c (s_consts st)) ->
  finish L cord pord st = Some st' -> ml_access L <> AKSerial ->
  forall x y, In (x, y) (ap (s_R st')) <-> enf_spec (ml_access L) (W0 st) (accR (s_R st)) x y.
Proof.
  intros HVT I Hcord H NS x y.
  destruct (finish_R L cord pord st st' HVT I Hcord H) as (a1 & r1 & W1 & Eap & Haw & E1 & Hfin).
  assert (S1 : In (x, y) (ap r1) <-> enf_spec (ml_access L) (W0 st) (accR (s_R st)) x y).
  { rewrite (enforce_pairs _ a1 r1 NS W1 E1). unfold accR. rewrite Eap.
    apply enf_spec_ext. intro z. rewrite Haw. unfold W0. tauto. }
  destruct Hfin as [->|E2]; [exact S1|].
  rewrite (enforce_twice_pairs _ a1 r1 (s_R st') NS W1 E1 E2). exact S1.
Qed.

Theorem finish_access_exact L cord pord st st' :
  (ml_classical L = true -> val_ok L VT = true) -> inv L st ->
  (forall c, In c cord -> In c (s_consts st)) ->
  finish L cord pord st = Some st' ->
  (ml_access L = AKAny -> forall x y, In (x, y) (ap (s_R st')) <-> In (x, y) (ap (s_R st))) /\
  (ml_access L = AKRefl -> forall x y,
     In (x, y) (ap (s_R st')) <-> In (x, y) (ap (s_R st)) \/ (x = y /\ W0 st x)) /\
  (ml_access L = AKReflTrans -> forall x y,
     In (x, y) (ap (s_R st')) <-> W0 st x /\ clos_refl_trans nat (accR (s_R st)) x y) /\
  (ml_access L = AKGlobal -> forall x y,
     In (x, y) (ap (s_R st')) <-> W0 st x /\ clos_refl_sym_trans nat (accR (s_R st)) x y).
Proof.
  intros HVT I Hcord H.
  pose proof (finish_access_spec L cord pord st st' HVT I Hcord H) as S.
  (split; [|split; [|split]]); intros E x y; (rewrite S; [|rewrite E; discriminate]); rewrite E; cbn [enf_spec];
    unfold accR; tauto.
Qed.
Print Assumptions finish_access_exact.

(* SerialAccess: after finish every world has a frame and a successor; at most one
   world (S (max W0)) was added *)
Theorem finish_serial_total L cord pord st st' :
  (ml_classical L = true -> val_ok L VT = true) -> inv L st ->
  (forall c, In c cord -> In c (s_consts st)) ->
  finish L cord pord st = Some st' -> ml_access L = AKSerial ->
  (forall w, In w (s_fkeys st') -> exists v, In (w, v) (ap (s_R st')) /\ In v (s_fkeys st')) /\
  (forall w, W0 st w -> In w (s_fkeys st')) /\
  (exists n, (forall w, W0 st w -> w < n) /\ forall w, In w (s_fkeys st') -> W0 st w \/ w = n) /\
  (forall x y, In (x, y) (ap (s_R st)) -> In (x, y) (ap (s_R st'))).
Proof.
  intros HVT I Hcord H ES.
  destruct (finish_all L cord pord st st' HVT I Hcord H) as ((_ & WR & _ & Iff) & _).
  destruct (finish_R L cord pord st st' HVT I Hcord H) as (a1 & r1 & W1 & Eap & Haw & E1 & Hfin).
  rewrite ES in E1, Hfin. cbn [enforce] in E1, Hfin. injection E1 as <-.
  assert (ER : s_R st' = serial_enforce a1).
  { destruct Hfin as [E|E]; [exact E|]. injection E as <-. apply serial_enforce_again. exact W1. }
  destruct (serial_enforce_spec a1 W1) as (_ & Hs & Hw & Hp).
  split; [|split; [|split]].
  - intros w Hw'. apply Iff in Hw'. rewrite ER in Hw'. destruct (Hs w Hw') as [v Hv].
    exists v. rewrite ER. split; [exact Hv|]. apply Iff. rewrite ER.
    destruct (serial_enforce_spec a1 W1) as (Wr & _). apply (Wr _ _ Hv).
  - intros w Hw0. apply Iff. rewrite ER. apply Hw. left. apply Haw. unfold W0 in Hw0. tauto.
  - exists (S (list_max (aw a1))). split.
    + intros w Hw0. assert (Hin : In w (aw a1)) by (apply Haw; unfold W0 in Hw0; tauto).
      pose proof (proj1 (list_max_le (aw a1) (list_max (aw a1))) (le_n _)) as HF.
      rewrite Forall_forall in HF. specialize (HF w Hin). lia.
    + intros w Hw'. apply Iff in Hw'. rewrite ER in Hw'. apply Hw in Hw'.
      destruct Hw' as [Hw'|[-> _]]; [left|right; reflexivity].
      apply Haw in Hw'. unfold W0. tauto.
  - intros x y Hxy. rewrite ER. apply Hp. left. rewrite Eap. exact Hxy.
Qed.
Print Assumptions finish_serial_total.
