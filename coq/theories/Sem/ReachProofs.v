(* Well-formedness of every state reachable through the model API
   (set_atomic / set_opaque / set_predicated / set_literal / R.add / R[w]),
   and of the state produced by finish / finish_fixed: the hypotheses
   [state_wfb], [tuples_ok], [preds_fun], [id_binary], [acc_wf] of the property
   theorems are discharged for every history of calls.

   Needs CompleteProofs.vo (coqc theories/Sem/CompleteProofs.v) besides the
   chain of build.sh. *)
From Coq Require Import List Bool Arith Lia.
From PT Require Import Sem.Values Sem.MSyntax Sem.LimitBest Sem.Access Sem.AccessProofs
  Sem.PyModel Sem.Classical Sem.ClassicalFix Sem.ClassicalFixProofs Sem.ModelRun
  Sem.Export Sem.ExportProofs Sem.CompleteProofs.
Import ListNotations.

(* ---- the invariant ------------------------------------------------------------ *)
Definition atoms_fun (l : list (nat * nat * val)) : Prop :=
  forall w a v, In (w, a, v) l -> get_atom l w a = Some v.
Definition opaqs_fun (L : mlogic) (l : list (nat * sent * val)) : Prop :=
  forall w s v, In (w, s, v) l -> get_opaq l w s = Some v /\ is_opaque L s = true.
Definition allc (cs : list nat) (ps : list param) : Prop :=
  forall x, In x ps -> exists c, x = PC c /\ In c cs.
Definition pinv (L : mlogic) (st : state) : Prop :=
  forall w p ps v, In (w, p, ps, v) (s_preds st) ->
    val_ok L v = true /\ In (w, p) (s_pkeys st) /\ allc (s_consts st) ps /\
    get_pred (s_preds st) w p ps = Some v.

Definition inv (L : mlogic) (st : state) : Prop :=
  atoms_fun (s_atoms st) /\ opaqs_fun L (s_opaqs st) /\ pinv L st /\ id_binary st /\
  acc_wf (s_R st) /\ s_finished st = false /\ s_complete st = false.

(* ---- what the invariant gives -------------------------------------------------- *)
Lemma wfb_of L st :
  atoms_fun (s_atoms st) -> opaqs_fun L (s_opaqs st) -> pinv L st -> state_wfb L st = true.
Proof.
  intros A O P. unfold state_wfb. rewrite !andb_true_iff. split; [split|]; apply forallb_forall.
  - intros [[w a] v] Hin. rewrite (A _ _ _ Hin). apply val_eqb_eq; reflexivity.
  - intros [[w s] v] Hin. destruct (O _ _ _ Hin) as [G Op]. rewrite G, Op.
    cbn [andb]. apply val_eqb_eq; reflexivity.
  - intros [[[w p] ps] v] Hin. destruct (P _ _ _ _ Hin) as (V & K & Cs & G). rewrite V, G.
    assert (E1 : forallb (is_const st) ps = true).
    { apply forallb_forall. intros x Hx. destruct (Cs x Hx) as (c & -> & Hc).
      cbn [is_const]. apply existsb_exists. exists c. split; [exact Hc|apply Nat.eqb_refl]. }
    assert (E2 : existsb (fun k => Nat.eqb (fst k) w && pred_eqb (snd k) p) (s_pkeys st) = true).
    { apply existsb_exists. exists (w, p). split; [exact K|]. cbn [fst snd].
      rewrite Nat.eqb_refl, pred_eqb_refl. reflexivity. }
    rewrite E1, E2. cbn [andb]. apply val_eqb_eq; reflexivity.
Qed.

Lemma pinv_tuples_ok L st : pinv L st -> tuples_ok st.
Proof. intros P w p ps v Hin. destruct (P _ _ _ _ Hin) as (_ & K & Cs & _). split; [exact K|exact Cs]. Qed.
Lemma pinv_preds_fun L st : pinv L st -> preds_fun st.
Proof. intros P w p ps v Hin. destruct (P _ _ _ _ Hin) as (_ & _ & _ & G). exact G. Qed.

(* ---- append-only association lists ---------------------------------------------- *)
Lemma atoms_fun_snoc l w a v : atoms_fun l -> get_atom l w a = None -> atoms_fun (l ++ [(w, a, v)]).
Proof.
  intros F G w' a' v' Hin. rewrite get_atom_app. apply in_app_iff in Hin. destruct Hin as [Hin|[E|[]]].
  - rewrite (F _ _ _ Hin). reflexivity.
  - injection E as <- <- <-. rewrite G. cbn [get_atom]. rewrite !Nat.eqb_refl. reflexivity.
Qed.
Lemma opaqs_fun_snoc L l w s v :
  opaqs_fun L l -> get_opaq l w s = None -> is_opaque L s = true -> opaqs_fun L (l ++ [(w, s, v)]).
Proof.
  intros F G Op w' s' v' Hin. rewrite get_opaq_app. apply in_app_iff in Hin. destruct Hin as [Hin|[E|[]]].
  - destruct (F _ _ _ Hin) as [G' Op']. rewrite G'. auto.
  - injection E as <- <- <-. rewrite G. cbn [get_opaq]. rewrite Nat.eqb_refl, sent_eqb_refl. auto.
Qed.

Lemma pinv_grow L st st' :
  pinv L st ->
  (forall k, In k (s_pkeys st) -> In k (s_pkeys st')) ->
  (forall c, In c (s_consts st) -> In c (s_consts st')) ->
  s_preds st' = s_preds st -> pinv L st'.
Proof.
  intros P HK HC E w p ps v Hin. rewrite E in *. destruct (P _ _ _ _ Hin) as (V & K & Cs & G).
  split; [exact V|]. split; [apply HK; exact K|]. split; [|exact G].
  intros x Hx. destruct (Cs x Hx) as (c & -> & Hc). exists c. split; [reflexivity|apply HC; exact Hc].
Qed.

Lemma pinv_snoc L st st' w p ps v :
  pinv L st ->
  (forall k, In k (s_pkeys st) -> In k (s_pkeys st')) ->
  (forall c, In c (s_consts st) -> In c (s_consts st')) ->
  s_preds st' = s_preds st ++ [(w, p, ps, v)] ->
  get_pred (s_preds st) w p ps = None ->
  val_ok L v = true -> In (w, p) (s_pkeys st') -> allc (s_consts st') ps -> pinv L st'.
Proof.
  intros P HK HC E G V K Cs w' p' ps' v' Hin. rewrite E in *. rewrite get_pred_app.
  apply in_app_iff in Hin. destruct Hin as [Hin|[Hin|[]]].
  - destruct (P _ _ _ _ Hin) as (V' & K' & Cs' & G'). rewrite G'.
    split; [exact V'|]. split; [apply HK; exact K'|]. split; [|reflexivity].
    intros x Hx. destruct (Cs' x Hx) as (c & -> & Hc). exists c. split; [reflexivity|apply HC; exact Hc].
  - injection Hin as <- <- <- <-. rewrite G.
    split; [exact V|]. split; [exact K|]. split; [exact Cs|].
    destruct (get_pred_single w p ps v w p ps) as [[H _]|[_ H]]; [exact H|exfalso; apply H; auto].
Qed.

Lemma id_binary_same st st' : s_preds st' = s_preds st -> id_binary st -> id_binary st'.
Proof. intros E B w ps Hin. rewrite E in Hin. eapply B; exact Hin. Qed.

(* ---- constants and predicate keys only grow -------------------------------------- *)
Lemma upd_consts_in st cs c : In c (upd_consts st cs) <-> In c (s_consts st) \/ In c cs.
Proof. unfold upd_consts. apply fold_addn_in. Qed.

Lemma fold_param_consts_in ps : forall l c,
  In c (fold_left (fun l p => match p with PC c => addn c l | PV _ => l end) ps l) <->
  In c l \/ In (PC c) ps.
Proof.
  induction ps as [|p r IH]; intros l c; cbn [fold_left In]; [tauto|].
  rewrite IH. destruct p as [n|n].
  - rewrite addn_in. split.
    + intros [[H|H]|H]; [auto|subst; auto|auto].
    + intros [H|[H|H]]; [auto|injection H as ->; auto|auto].
  - split; [intros [H|H]; auto|intros [H|[H|H]]; [auto|discriminate|auto]].
Qed.
Lemma param_consts_in ps c : In c (param_consts ps) <-> In (PC c) ps.
Proof. unfold param_consts. rewrite fold_param_consts_in. cbn [In]. tauto. Qed.

Lemma has_var_false ps : has_var ps = false -> forall x, In x ps -> exists c, x = PC c.
Proof.
  unfold has_var. intros H x Hx. destruct x as [c|n]; [eauto|].
  assert (E : existsb (fun p => match p with PV _ => true | PC _ => false end) ps = true).
  { apply existsb_exists. exists (PV n). auto. }
  congruence.
Qed.

Lemma fold_addpk_mono w ps : forall l k, In k l -> In k (fold_left (fun l p => addpk (w, p) l) ps l).
Proof.
  induction ps as [|p r IH]; intros l k H; cbn [fold_left]; [exact H|].
  apply IH. apply In_addpk. left; exact H.
Qed.

(* ---- the setters preserve the invariant ------------------------------------------- *)
Lemma set_atomic_inv L st w a v st' : inv L st -> set_atomic L st w a v = Some st' -> inv L st'.
Proof.
  intros (A & O & P & B & R & F & C). unfold set_atomic. rewrite F.
  destruct (negb (val_ok L v)); [discriminate|]. destruct (negb (frame_ok L w)); [discriminate|].
  destruct (get_atom (s_atoms st) w a) as [v'|] eqn:G.
  - destruct (val_eqb v' v); [|discriminate]. intro H. injection H as <-.
    unfold inv. cbn [s_atoms s_opaqs s_R s_finished s_complete].
    split; [exact A|]. split; [exact O|]. split; [apply (pinv_grow L st); auto|].
    split; [apply (id_binary_same st); auto|]. auto.
  - intro H. injection H as <-.
    unfold inv. cbn [s_atoms s_opaqs s_R s_finished s_complete].
    split; [apply atoms_fun_snoc; assumption|]. split; [exact O|].
    split; [apply (pinv_grow L st); auto|].
    split; [apply (id_binary_same st); auto|]. auto.
Qed.

Lemma set_opaque_inv L st w s v st' :
  is_opaque L s = true -> inv L st -> set_opaque L st w s v = Some st' -> inv L st'.
Proof.
  intros Op (A & O & P & B & R & F & C). unfold set_opaque. rewrite F.
  destruct (negb (val_ok L v)); [discriminate|]. destruct (negb (frame_ok L w)); [discriminate|].
  cbv zeta.
  destruct (get_opaq (s_opaqs st) w s) as [v'|] eqn:G.
  - destruct (negb (val_eqb v' v)); [discriminate|]. intro H. injection H as <-.
    unfold inv. cbn [s_atoms s_opaqs s_R s_finished s_complete].
    split; [exact A|]. split; [exact O|].
    split; [apply (pinv_grow L st); cbn [s_pkeys s_consts s_preds]; auto|].
    + intros k Hk. apply fold_addpk_mono. exact Hk.
    + intros c Hc. apply upd_consts_in. left; exact Hc.
    + split; [apply (id_binary_same st); auto|]. auto.
  - cbn [negb]. intro H. injection H as <-.
    unfold inv. cbn [s_atoms s_opaqs s_R s_finished s_complete].
    split; [exact A|]. split; [apply opaqs_fun_snoc; assumption|].
    split; [apply (pinv_grow L st); cbn [s_pkeys s_consts s_preds]; auto|].
    + intros k Hk. apply fold_addpk_mono. exact Hk.
    + intros c Hc. apply upd_consts_in. left; exact Hc.
    + split; [apply (id_binary_same st); auto|]. auto.
Qed.

Lemma set_predicated_inv L st w p ps v st' :
  (p = PIdentity -> length ps = 2) ->
  inv L st -> set_predicated L st w p ps v = Some st' -> inv L st'.
Proof.
  intros Len (A & O & P & B & R & F & C). unfold set_predicated. rewrite F.
  destruct (negb (val_ok L v)) eqn:V; [discriminate|]. apply negb_false_iff in V.
  destruct (negb (frame_ok L w)); [discriminate|].
  destruct (has_var ps) eqn:HV; [discriminate|].
  cbv zeta.
  destruct (get_pred (s_preds st) w p ps) as [v'|] eqn:G.
  - destruct (negb (val_eqb v' v)); [discriminate|]. intro H. injection H as <-.
    unfold inv. cbn [s_atoms s_opaqs s_R s_finished s_complete].
    split; [exact A|]. split; [exact O|].
    split; [apply (pinv_grow L st); cbn [s_pkeys s_consts s_preds]; auto|].
    + intros k Hk. apply In_addpk. left; exact Hk.
    + intros c Hc. apply upd_consts_in. left; exact Hc.
    + split; [apply (id_binary_same st); auto|]. auto.
  - cbn [negb]. intro H. injection H as <-.
    unfold inv. cbn [s_atoms s_opaqs s_R s_finished s_complete].
    split; [exact A|]. split; [exact O|].
    split; [eapply (pinv_snoc L st); cbn [s_pkeys s_consts s_preds]; try reflexivity; try eassumption|].
    + intros k Hk. apply In_addpk. left; exact Hk.
    + intros c Hc. apply upd_consts_in. left; exact Hc.
    + apply In_addpk. right; reflexivity.
    + intros x Hx. destruct (has_var_false ps HV x Hx) as [c ->]. exists c. split; [reflexivity|].
      apply upd_consts_in. right. apply param_consts_in. exact Hx.
    + split; [|auto].
      intros w' ps' Hin. cbn [s_preds] in Hin. apply in_app_iff in Hin. destruct Hin as [Hin|[Hin|[]]].
      * eapply B; exact Hin.
      * injection Hin as E1 E2 E3 E4. rewrite <- E3. apply Len. exact E2.
Qed.

(* every Identity predication reached by set_literal's recursion (through
   negations) has two parameters *)
Fixpoint literal_id_ok (s : sent) : bool :=
  match s with
  | SUn Negation a => literal_id_ok a
  | SPred PIdentity ps => Nat.eqb (length ps) 2
  | _ => true
  end.

Lemma set_literal_unfold L st w s v :
  set_literal L st w s v =
  if s_finished st then None else
  if negb (val_ok L v) then None else
  if is_opaque L s then set_opaque L st w s v else
  match s with
  | SUn Negation a => set_literal L st w a (t_un (ml_tab L) Negation v)
  | SAtom a => set_atomic L st w a v
  | SPred p ps => set_predicated L st w p ps v
  | _ => None
  end.
Proof. destruct s; reflexivity. Qed.

Lemma set_literal_inv L s : forall st w v st',
  literal_id_ok s = true -> inv L st -> set_literal L st w s v = Some st' -> inv L st'.
Proof.
  induction s as [a|p ps|q x b IH|o b IH|o b1 IH1 b2 IH2|o b IH]; intros st w v st' OK I H;
    rewrite set_literal_unfold in H;
    (destruct (s_finished st); [discriminate|]);
    (destruct (negb (val_ok L v)); [discriminate|]).
  - cbn [is_opaque] in H. eapply set_atomic_inv; eassumption.
  - cbn [is_opaque] in H. eapply set_predicated_inv; [|exact I|exact H].
    intros ->. cbn [literal_id_ok] in OK. apply Nat.eqb_eq. exact OK.
  - destruct (is_opaque L (SQuant q x b)) eqn:E; [|discriminate].
    eapply set_opaque_inv; eassumption.
  - cbn [is_opaque] in H. destruct o; [discriminate|].
    eapply IH; [|exact I|exact H]. exact OK.
  - cbn [is_opaque] in H. discriminate.
  - destruct (is_opaque L (SMod o b)) eqn:E; [|discriminate].
    eapply set_opaque_inv; eassumption.
Qed.

Lemma with_R_inv L st r : acc_wf r -> inv L st -> inv L (with_R st r).
Proof.
  intros W (A & O & P & B & R & F & C). unfold inv, with_R.
  cbn [s_atoms s_opaqs s_R s_finished s_complete].
  split; [exact A|]. split; [exact O|]. split; [apply (pinv_grow L st); auto|].
  split; [apply (id_binary_same st); auto|]. auto.
Qed.

(* a direct set_opaque_value call is only meaningful on a sentence the logic
   treats as opaque; Identity predications have two parameters *)
Definition op_ok (L : mlogic) (o : op) : bool :=
  match o with
  | OOpaque _ s _ => is_opaque L s
  | OPredicated _ PIdentity ps _ => Nat.eqb (length ps) 2
  | OLiteral _ s _ => literal_id_ok s
  | _ => true
  end.

Lemma init_inv L : inv L init_state.
Proof.
  unfold inv, init_state. cbn [s_atoms s_opaqs s_R s_finished s_complete].
  split; [intros w a v []|]. split; [intros w s v []|]. split; [intros w p ps v []|].
  split; [intros w ps []|]. split; [apply acc_init_wf|auto].
Qed.

Lemma apply_op_inv L st o st' : op_ok L o = true -> inv L st -> apply_op L st o = Some st' -> inv L st'.
Proof.
  intros OK I H. destruct o as [w a v|w s v|w p ps v|w s v|w1 w2|w]; cbn [apply_op op_ok] in *.
  - eapply set_atomic_inv; eassumption.
  - eapply set_opaque_inv; eassumption.
  - eapply set_predicated_inv; [|exact I|exact H]. intros ->. apply Nat.eqb_eq. exact OK.
  - eapply set_literal_inv; eassumption.
  - injection H as <-. unfold add_access. apply with_R_inv; [|exact I].
    apply acc_add_wf. apply I.
  - injection H as <-. unfold touch_world. apply with_R_inv; [|exact I].
    apply acc_touch_wf. apply I.
Qed.

Lemma apply_ops_inv L os : forall st st',
  forallb (op_ok L) os = true -> inv L st -> apply_ops L st os = Some st' -> inv L st'.
Proof.
  induction os as [|o r IH]; intros st st' OK I H; cbn [apply_ops] in H.
  - injection H as <-. exact I.
  - cbn [forallb] in OK. apply andb_true_iff in OK. destruct OK as [OK1 OK2].
    destruct (apply_op L st o) as [st1|] eqn:E; [|discriminate].
    eapply IH; [exact OK2| |exact H]. eapply apply_op_inv; eassumption.
Qed.

(* the invariant holds after every history of calls (no hypothesis on the logic) *)
Theorem reachable_inv L os st :
  forallb (op_ok L) os = true -> apply_ops L init_state os = Some st -> inv L st.
Proof. intros OK H. eapply apply_ops_inv; [exact OK|apply init_inv|exact H]. Qed.

Lemma inv_wf L st : inv L st ->
  state_wfb L st = true /\ tuples_ok st /\ preds_fun st /\ id_binary st /\ acc_wf (s_R st) /\
  s_finished st = false /\ s_complete st = false.
Proof.
  intros (A & O & P & B & R & F & C).
  split; [apply wfb_of; assumption|]. split; [eapply pinv_tuples_ok; exact P|].
  split; [eapply pinv_preds_fun; exact P|]. auto.
Qed.

Theorem reachable_wf L os st :
  vals_closed L = true ->
  forallb (op_ok L) os = true ->
  apply_ops L init_state os = Some st ->
  state_wfb L st = true /\ tuples_ok st /\ preds_fun st /\ id_binary st /\ acc_wf (s_R st) /\
  s_finished st = false /\ s_complete st = false.
Proof. intros _ OK H. apply inv_wf. eapply reachable_inv; eassumption. Qed.
Print Assumptions reachable_wf.

(* ---- _complete_frames ------------------------------------------------------------- *)
(* the invariant between _complete_frames and R.enforce() *)
Definition cinv (L : mlogic) (st : state) : Prop :=
  atoms_fun (s_atoms st) /\ opaqs_fun L (s_opaqs st) /\ pinv L st /\ acc_wf (s_R st) /\
  s_complete st = true /\ s_finished st = false /\
  (forall w, In w (aw (s_R st)) -> In w (s_fkeys st)).

Lemma fill_atoms_fun un ws as_ : forall l, atoms_fun l -> atoms_fun (fill_atoms un ws as_ l).
Proof.
  unfold fill_atoms. induction ws as [|w r IH]; intros l F; cbn [fold_left]; [exact F|].
  apply IH. clear IH. revert l F.
  induction as_ as [|a t IHa]; intros l F; cbn [fold_left]; [exact F|].
  apply IHa. destruct (get_atom l w a) eqn:G; [exact F|]. apply atoms_fun_snoc; assumption.
Qed.

Lemma fill_opaqs_fun L un ws ss :
  (forall s, In s ss -> is_opaque L s = true) ->
  forall l, opaqs_fun L l -> opaqs_fun L (fill_opaqs un ws ss l).
Proof.
  intro Hop. unfold fill_opaqs. induction ws as [|w r IH]; intros l F; cbn [fold_left]; [exact F|].
  apply IH. clear IH. revert l F Hop.
  induction ss as [|s t IHs]; intros l F Hop; cbn [fold_left]; [exact F|].
  apply IHs.
  - destruct (get_opaq l w s) eqn:G; [exact F|]. apply opaqs_fun_snoc; [assumption|assumption|].
    apply Hop. left; reflexivity.
  - intros s' Hs'. apply Hop. right; exact Hs'.
Qed.

Lemma known_opaques_in st s : In s (known_opaques st) -> exists w v, In (w, s, v) (s_opaqs st).
Proof.
  unfold known_opaques.
  assert (G : forall (l : list (nat * sent * val)) acc,
    In s (fold_left (fun l e => addsent (snd (fst e)) l) l acc) ->
    In s acc \/ exists w v, In (w, s, v) l).
  { induction l as [|[[w s'] v] r IH]; intros acc H; cbn [fold_left] in H; [left; exact H|].
    destruct (IH _ H) as [H1|(w1 & v1 & H1)].
    - cbn [fst snd] in H1. apply addsent_in in H1. destruct H1 as [H1| ->]; [left; exact H1|].
      right. exists w, v. left; reflexivity.
    - right. exists w1, v1. right; exact H1. }
  intro H. destruct (G _ _ H) as [[]|H1]. exact H1.
Qed.

Lemma complete_frames_cinv L st st1 :
  inv L st -> complete_frames L st = Some st1 ->
  cinv L st1 /\ s_consts st1 = s_consts st /\ s_preds st1 = s_preds st.
Proof.
  intros (A & O & P & B & R & F & C). unfold complete_frames. rewrite F, C.
  set (fk := fold_left (fun l w => addn w l) (aw (s_R st)) (s_fkeys st)).
  destruct (negb (forallb (frame_ok L) fk)); [discriminate|].
  cbv zeta. intro H. injection H as <-.
  unfold cinv. cbn [s_atoms s_opaqs s_R s_finished s_complete s_fkeys s_consts s_preds].
  destruct (fold_touch_spec fk (s_R st) R) as (W1 & _ & W3).
  split; [|auto]. split; [apply fill_atoms_fun; exact A|].
  split.
  { apply fill_opaqs_fun; [|exact O]. intros s Hs. apply known_opaques_in in Hs.
    destruct Hs as (w & v & Hin). apply (O _ _ _ Hin). }
  split.
  { apply (pinv_grow L st); cbn [s_pkeys s_consts s_preds]; auto.
    intros k Hk. apply fill_pkeys_in. left; exact Hk. }
  split; [exact W1|]. split; [reflexivity|]. split; [reflexivity|].
  intros w Hw. apply W3 in Hw. destruct Hw as [Hw|Hw]; [|exact Hw].
  unfold fk. apply fold_addn_in. right; exact Hw.
Qed.

(* ---- the classical completion: only predicate tuples of constants are appended ----- *)
Definition same_frame (st st' : state) : Prop :=
  s_fkeys st' = s_fkeys st /\ s_atoms st' = s_atoms st /\ s_opaqs st' = s_opaqs st /\
  s_R st' = s_R st /\ s_consts st' = s_consts st /\
  s_complete st' = s_complete st /\ s_finished st' = s_finished st.

Lemma same_frame_refl st : same_frame st st.
Proof. unfold same_frame. repeat split; reflexivity. Qed.
Lemma same_frame_trans a b c : same_frame a b -> same_frame b c -> same_frame a c.
Proof.
  intros (H1 & H2 & H3 & H4 & H5 & H6 & H7) (G1 & G2 & G3 & G4 & G5 & G6 & G7).
  unfold same_frame. repeat split; congruence.
Qed.
Lemma same_frame_with_preds st pk pr : same_frame st (with_preds st pk pr).
Proof. unfold same_frame, with_preds. repeat split; reflexivity. Qed.

Lemma Forall2_In_l {A B} (R : A -> B -> Prop) l1 l2 x :
  Forall2 R l1 l2 -> In x l1 -> exists y, In y l2 /\ R x y.
Proof.
  induction 1 as [|x' y' l1 l2 HR HF IH]; [intros []|].
  intros [<-|Hin]; [exists y'; split; [left; reflexivity|exact HR]|].
  destruct (IH Hin) as (y & H1 & H2). exists y. split; [right; exact H1|exact H2].
Qed.

Section Completion.
  Variable L : mlogic.
  Variable cs : list nat.
  Variable cord : list nat.
  Hypothesis HVT : val_ok L VT = true.
  Hypothesis Hcord : forall c, In c cord -> In c cs.

  Definition good (st : state) : Prop := pinv L st /\ s_consts st = cs.
  Definition step (st st' : state) : Prop := good st' /\ same_frame st st'.

  Lemma step_trans a b c : step a b -> step b c -> step a c.
  Proof. intros [_ S1] [G S2]. split; [exact G|eapply same_frame_trans; eassumption]. Qed.

  Lemma addpk_step st k : good st -> step st (with_preds st (addpk k (s_pkeys st)) (s_preds st)).
  Proof.
    intros [P E]. split; [|apply same_frame_with_preds]. split; [|exact E].
    apply (pinv_grow L st); cbn [with_preds s_pkeys s_consts s_preds]; auto.
    intros k' Hk. apply In_addpk. left; exact Hk.
  Qed.

  Lemma set_T_step st w p ps st' : allc cs ps -> good st -> set_T st w p ps = Some st' -> step st st'.
  Proof.
    intros Cs [P E]. unfold set_T. destruct (get_pred (s_preds st) w p ps) as [v|] eqn:G.
    - destruct (val_eqb v VT); [|discriminate]. intro H. injection H as <-.
      split; [split; assumption|apply same_frame_refl].
    - intro H. injection H as <-. split; [|apply same_frame_with_preds]. split; [|exact E].
      eapply (pinv_snoc L st); cbn [with_preds s_pkeys s_consts s_preds]; try reflexivity; try eassumption.
      + intros k Hk. apply In_addpk. left; exact Hk.
      + auto.
      + apply In_addpk. right; reflexivity.
      + rewrite E. exact Cs.
  Qed.

  Lemma set_T_all_step w p l : forall st st',
    (forall ps, In ps l -> allc cs ps) -> good st -> set_T_all st w p l = Some st' -> step st st'.
  Proof.
    induction l as [|ps r IH]; intros st st' Hl G H; cbn [set_T_all] in H.
    - injection H as <-. split; [exact G|apply same_frame_refl].
    - destruct (set_T st w p ps) as [st1|] eqn:E; [|discriminate].
      assert (S1 : step st st1).
      { eapply set_T_step; [|exact G|exact E]. apply Hl. left; reflexivity. }
      eapply step_trans; [exact S1|]. eapply IH; [|apply S1|exact H].
      intros ps' Hin. apply Hl. right; exact Hin.
  Qed.

  Lemma fold_opt_step {B} (f : state -> B -> option state) l :
    (forall x st st', In x l -> good st -> f st x = Some st' -> step st st') ->
    forall st st', good st -> fold_opt f st l = Some st' -> step st st'.
  Proof.
    induction l as [|x r IH]; intros Hf st st' G H; cbn [fold_opt] in H.
    - injection H as <-. split; [exact G|apply same_frame_refl].
    - destruct (f st x) as [st1|] eqn:E; [|discriminate].
      assert (S1 : step st st1) by (eapply Hf; [left; reflexivity|exact G|exact E]).
      eapply step_trans; [exact S1|]. eapply IH; [|apply S1|exact H].
      intros y s s' Hy. apply Hf. right; exact Hy.
  Qed.

  Lemma having_allc st w p ps : good st -> In ps (having_T st w p) -> allc cs ps.
  Proof.
    intros [P E] H. apply having_T_In in H. destruct (P _ _ _ _ H) as (_ & _ & Cs & _).
    rewrite E in Cs. exact Cs.
  Qed.

  Lemma identicals_allc st w c : good st -> allc cs (identicals st w c).
  Proof.
    intros G x Hx. unfold identicals in Hx. apply filter_In in Hx. destruct Hx as [Hx _].
    apply ident_fold_In in Hx. destruct Hx as [[]|(ps & Hps & _ & Hin)].
    exact (having_allc _ _ _ _ G Hps x Hin).
  Qed.

  Lemma subst_tuple_allc c n ps : (exists b, n = PC b /\ In b cs) -> allc cs ps -> allc cs (subst_tuple c n ps).
  Proof.
    intros Hn Cs x Hx. unfold subst_tuple in Hx. apply in_map_iff in Hx. destruct Hx as (y & <- & Hy).
    destruct (param_eqb y (PC c)); [exact Hn|apply Cs; exact Hy].
  Qed.

  Lemma augment_step_step w p st c st' : good st -> augment_step w p st c = Some st' -> step st st'.
  Proof.
    intros G. unfold augment_step.
    set (st0 := with_preds st (addpk (w, PIdentity) (s_pkeys st)) (s_preds st)).
    intro H. pose proof (addpk_step st (w, PIdentity) G) as S0. fold st0 in S0.
    eapply step_trans; [exact S0|]. eapply set_T_all_step; [|apply S0|exact H].
    intros qs Hqs. apply in_flat_map in Hqs. destruct Hqs as (ps & Hps & Hqs).
    destruct (pmem c ps); [|destruct Hqs].
    apply in_map_iff in Hqs. destruct Hqs as (n & <- & Hn).
    apply subst_tuple_allc.
    - exact (identicals_allc st0 w c (proj1 S0) n Hn).
    - exact (having_allc _ _ _ _ (proj1 S0) Hps).
  Qed.

  Lemma augment_stepf w st p st' : good st -> augment cord w st p = Some st' -> step st st'.
  Proof.
    intros G H. unfold augment in H. eapply fold_opt_step; [|exact G|exact H].
    intros c s s' _ Gs Hs. eapply augment_step_step; eassumption.
  Qed.

  Lemma ensure_self_step w st st' : good st -> ensure_self cord w st = Some st' -> step st st'.
  Proof.
    intros G. unfold ensure_self. destruct cord as [|c0 cr] eqn:Ec.
    - intro H. injection H as <-. split; [exact G|apply same_frame_refl].
    - rewrite <- Ec in Hcord |- *. rewrite fold_opt_set_T.
      set (st0 := with_preds st (addpk (w, PIdentity) (s_pkeys st)) (s_preds st)).
      pose proof (addpk_step st (w, PIdentity) G) as S0. fold st0 in S0.
      destruct (set_T_all st0 w PIdentity (map (fun c => [PC c; PC c]) cord)) as [st1|] eqn:E1; [|discriminate].
      rewrite fold_opt_set_T. intro E2.
      assert (S1 : step st0 st1).
      { eapply set_T_all_step; [|apply S0|exact E1]. intros ps Hps.
        apply in_map_iff in Hps. destruct Hps as (c & <- & Hc).
        intros x [<-|[<-|[]]]; exists c; (split; [reflexivity|apply Hcord; exact Hc]). }
      pose proof (addpk_step st1 (w, PExistence) (proj1 S1)) as S2.
      eapply step_trans; [exact S0|]. eapply step_trans; [exact S1|].
      eapply step_trans; [exact S2|]. eapply set_T_all_step; [|apply S2|exact E2].
      intros ps Hps. apply in_map_iff in Hps. destruct Hps as (c & <- & Hc).
      intros x [<-|[]]; exists c; (split; [reflexivity|apply Hcord; exact Hc]).
  Qed.

  Lemma cl_frame_step pord st w st' : good st -> cl_frame cord pord st w = Some st' -> step st st'.
  Proof.
    intros G. unfold cl_frame.
    destruct (fold_opt (augment cord w) st _) as [st1|] eqn:E1; [|discriminate]. intro E2.
    assert (S1 : step st st1).
    { eapply fold_opt_step; [|exact G|exact E1]. intros p s s' _ Gs Hs. eapply augment_stepf; eassumption. }
    eapply step_trans; [exact S1|]. eapply ensure_self_step; [apply S1|exact E2].
  Qed.

  Lemma cl_complete_step pord st st' : good st -> cl_complete cord pord st = Some st' -> step st st'.
  Proof.
    intros G H. unfold cl_complete in H. eapply fold_opt_step; [|exact G|exact H].
    intros w s s' _ Gs Hs. eapply cl_frame_step; eassumption.
  Qed.

  (* the repaired completion *)
  Lemma close_identity_step w st st' : good st -> close_identity cord w st = Some st' -> step st st'.
  Proof.
    intros G. unfold close_identity. destruct cord as [|c0 cr] eqn:Ec.
    - intro H. injection H as <-. split; [exact G|apply same_frame_refl].
    - rewrite <- Ec in Hcord |- *.
      set (st0 := with_preds st (addpk (w, PIdentity) (s_pkeys st)) (s_preds st)).
      pose proof (addpk_step st (w, PIdentity) G) as S0. fold st0 in S0.
      set (a0 := id_rel cord st0 w).
      destruct (global_enforce a0) as [r|] eqn:Eg; [|discriminate]. intro H.
      eapply step_trans; [exact S0|]. eapply set_T_all_step; [|apply S0|exact H].
      destruct (fold_touch_spec cord acc_empty acc_empty_wf) as (Hw1 & Hp1 & Ha1).
      assert (Hwf : acc_wf a0) by (apply fold_add_wf; exact Hw1).
      assert (Haw : forall x, In x (aw a0) -> In x cs).
      { intros x Hx. unfold a0, id_rel in Hx. apply fold_add_aw in Hx.
        destruct Hx as [Hx|([a b] & Hp & Hx)].
        - apply Ha1 in Hx. destruct Hx as [[]|Hx]. apply Hcord; exact Hx.
        - apply id_pairs_In in Hp. pose proof (having_allc _ _ _ _ (proj1 S0) Hp) as Cs.
          cbn [fst snd] in Hx. destruct Hx as [->| ->].
          + destruct (Cs (PC a)) as (c & He & Hin); [left; reflexivity|]. injection He as ->; exact Hin.
          + destruct (Cs (PC b)) as (c & He & Hin); [right; left; reflexivity|]. injection He as ->; exact Hin. }
      destruct (global_enforce_spec_eq a0 Hwf) as (r' & Er & Hwfr & Hawr & _).
      rewrite Eg in Er. injection Er as <-.
      intros ps Hps. apply in_map_iff in Hps. destruct Hps as ([a b] & <- & Hin). cbn [fst snd].
      destruct (Hwfr _ _ Hin) as [Hx Hy]. rewrite Hawr in Hx, Hy.
      intros x [<-|[<-|[]]]; [exists a|exists b]; (split; [reflexivity|apply Haw; assumption]).
  Qed.

  Lemma class_of_allc st w x : good st -> (exists c, x = PC c /\ In c cs) -> allc cs (class_of st w x).
  Proof.
    intros G (c & -> & Hc) y Hy. cbn [class_of] in Hy. destruct Hy as [<-|Hy]; [eauto|].
    exact (identicals_allc st w c G y Hy).
  Qed.

  Lemma augment_fixed_step w st p st' : good st -> augment_fixed w st p = Some st' -> step st st'.
  Proof.
    intros G. unfold augment_fixed. destruct (having_T st w p) as [|t0 tr] eqn:Eh.
    - intro H. injection H as <-. split; [exact G|apply same_frame_refl].
    - rewrite <- Eh.
      set (st0 := with_preds st (addpk (w, PIdentity) (s_pkeys st)) (s_preds st)).
      pose proof (addpk_step st (w, PIdentity) G) as S0. fold st0 in S0. intro H.
      eapply step_trans; [exact S0|]. eapply set_T_all_step; [|apply S0|exact H].
      intros qs Hqs. apply in_flat_map in Hqs. destruct Hqs as (ps & Hps & Hqs).
      apply tuples_product_In in Hqs. intros q Hq.
      destruct (Forall2_In_l _ _ _ _ Hqs Hq) as (l & Hl & Hql).
      apply in_map_iff in Hl. destruct Hl as (x & <- & Hx).
      apply (class_of_allc st0 w x (proj1 S0)); [|exact Hql].
      exact (having_allc _ _ _ _ G Hps x Hx).
  Qed.

  Lemma cl_frame_fixed_step pord st w st' : good st -> cl_frame_fixed cord pord st w = Some st' -> step st st'.
  Proof.
    intros G. unfold cl_frame_fixed.
    destruct (close_identity cord w st) as [st1|] eqn:E1; [|discriminate].
    destruct (fold_opt (augment_fixed w) st1 _) as [st2|] eqn:E2; [|discriminate]. intro E3.
    pose proof (close_identity_step _ _ _ G E1) as S1.
    assert (S2 : step st1 st2).
    { eapply fold_opt_step; [|apply S1|exact E2]. intros p s s' _ Gs Hs. eapply augment_fixed_step; eassumption. }
    eapply step_trans; [exact S1|]. eapply step_trans; [exact S2|].
    eapply ensure_self_step; [apply S2|exact E3].
  Qed.

  Lemma cl_complete_fixed_step pord st st' : good st -> cl_complete_fixed cord pord st = Some st' -> step st st'.
  Proof.
    intros G H. unfold cl_complete_fixed in H. eapply fold_opt_step; [|exact G|exact H].
    intros w s s' _ Gs Hs. eapply cl_frame_fixed_step; eassumption.
  Qed.
End Completion.

(* ---- finish ---------------------------------------------------------------------------- *)
Lemma enforce_aw_eq k a r : k <> AKSerial -> acc_wf a -> enforce k a = Some r -> aw r = aw a.
Proof.
  intros NS W E. destruct k; cbn [enforce] in E.
  - injection E as <-. reflexivity.
  - exfalso. apply NS. reflexivity.
  - injection E as <-. apply refl_enforce_aw.
  - destruct (rt_enforce_spec_rt a W) as (r' & E' & _ & Ar & _).
    rewrite E in E'. injection E' as <-. exact Ar.
  - destruct (global_enforce_spec_eq a W) as (r' & E' & _ & Ar & _).
    rewrite E in E'. injection E' as <-. exact Ar.
Qed.

Definition finished_wf (L : mlogic) (st' : state) : Prop :=
  state_wfb L st' = true /\ acc_wf (s_R st') /\ s_finished st' = true /\
  (ml_access L <> AKSerial -> forall w, In w (aw (s_R st')) -> In w (s_fkeys st')).

Lemma base_finish_cinv L st st1 st' :
  complete_frames L st = Some st1 -> cinv L st1 -> base_finish L st = Some st' ->
  finished_wf L st' /\ s_consts st' = s_consts st1 /\ pinv L st'.
Proof.
  intros CF (A & O & P & R & C & F & Sub). unfold base_finish. rewrite CF.
  destruct (enforce (ml_access L) (s_R st1)) as [r|] eqn:E; [|discriminate].
  intro H. injection H as <-.
  match goal with |- finished_wf L ?s /\ _ => assert (P' : pinv L s) end.
  { apply (pinv_grow L st1); cbn [s_pkeys s_consts s_preds]; auto. }
  split; [|split; [reflexivity|exact P']].
  unfold finished_wf. cbn [s_R s_finished s_fkeys].
  split.
  { apply wfb_of; cbn [s_atoms s_opaqs]; [exact A|exact O|exact P']. }
  split; [eapply enforce_wf; eassumption|]. split; [reflexivity|].
  intros NS w Hw. rewrite (enforce_aw_eq _ _ _ NS R E) in Hw. apply Sub; exact Hw.
Qed.

Lemma step_cinv L cs st1 st2 : cinv L st1 -> step L cs st1 st2 -> cinv L st2.
Proof.
  intros (A & O & _ & R & C & F & Sub) [[P _] (E1 & E2 & E3 & E4 & E5 & E6 & E7)].
  unfold cinv. rewrite E1, E2, E3, E4, E6, E7. auto 10.
Qed.

(* common part of finish / finish_fixed *)
Lemma finish_gen_wf L cord (compl : state -> option state) st st' :
  (ml_classical L = true -> val_ok L VT = true) ->
  (ml_classical L = true -> forall s1 s2, good L (s_consts st) s1 -> compl s1 = Some s2 ->
                                          step L (s_consts st) s1 s2) ->
  inv L st -> (forall c, In c cord -> In c (s_consts st)) ->
  (if ml_classical L then
     match complete_frames L st with
     | None => None
     | Some st1 => match compl st1 with None => None | Some st2 => base_finish L st2 end
     end
   else base_finish L st) = Some st' ->
  finished_wf L st' /\ s_consts st' = s_consts st /\ pinv L st'.
Proof.
  intros HVT Hcompl I Hcord. destruct (ml_classical L) eqn:Cl.
  - destruct (complete_frames L st) as [st1|] eqn:CF; [|discriminate].
    destruct (compl st1) as [st2|] eqn:CC; [|discriminate]. intro BF.
    destruct (complete_frames_cinv L st st1 I CF) as (CI & Ec & _).
    assert (G1 : good L (s_consts st) st1) by (split; [apply CI|exact Ec]).
    pose proof (Hcompl eq_refl st1 st2 G1 CC) as S.
    pose proof (step_cinv _ _ _ _ CI S) as CI2.
    assert (CF2 : complete_frames L st2 = Some st2).
    { apply complete_frames_idem; apply CI2. }
    destruct (base_finish_cinv L st2 st2 st' CF2 CI2 BF) as (W & Ec' & P').
    split; [exact W|]. split; [|exact P']. rewrite Ec'. apply S.
  - unfold base_finish at 1. destruct (complete_frames L st) as [st1|] eqn:CF; [|discriminate].
    intro BF.
    destruct (complete_frames_cinv L st st1 I CF) as (CI & Ec & _).
    assert (BF' : base_finish L st = Some st') by (unfold base_finish; rewrite CF; exact BF).
    destruct (base_finish_cinv L st st1 st' CF CI BF') as (W & Ec' & P').
    split; [exact W|]. split; [congruence|exact P'].
Qed.

Lemma finish_all L cord pord st st' :
  (ml_classical L = true -> val_ok L VT = true) ->
  inv L st -> (forall c, In c cord -> In c (s_consts st)) ->
  finish L cord pord st = Some st' ->
  finished_wf L st' /\ s_consts st' = s_consts st /\ pinv L st'.
Proof.
  intros HVT I Hcord H.
  apply (finish_gen_wf L cord (cl_complete cord pord) st st' HVT); [|exact I|exact Hcord|exact H].
  intros Cl s1 s2 G1 CC. eapply cl_complete_step; [apply HVT; exact Cl|exact Hcord|exact G1|exact CC].
Qed.

Lemma finish_fixed_all L cord pord st st' :
  (ml_classical L = true -> val_ok L VT = true) ->
  inv L st -> (forall c, In c cord -> In c (s_consts st)) ->
  finish_fixed L cord pord st = Some st' ->
  finished_wf L st' /\ s_consts st' = s_consts st /\ pinv L st'.
Proof.
  intros HVT I Hcord H.
  apply (finish_gen_wf L cord (cl_complete_fixed cord pord) st st' HVT); [|exact I|exact Hcord|exact H].
  intros Cl s1 s2 G1 CC. eapply cl_complete_fixed_step; [apply HVT; exact Cl|exact Hcord|exact G1|exact CC].
Qed.

Theorem finish_wf L cord pord st st' :
  vals_closed L = true -> (ml_classical L = true -> val_ok L VT = true) ->
  inv L st -> s_finished st = false ->
  (forall c, In c cord -> In c (s_consts st)) ->
  finish L cord pord st = Some st' ->
  state_wfb L st' = true /\ acc_wf (s_R st') /\ s_finished st' = true /\
  (ml_access L <> AKSerial -> forall w, In w (aw (s_R st')) -> In w (s_fkeys st')).
Proof. intros _ HVT I _ Hcord H. apply (finish_all L cord pord st st' HVT I Hcord H). Qed.
Print Assumptions finish_wf.

Theorem finish_fixed_wf L cord pord st st' :
  vals_closed L = true -> (ml_classical L = true -> val_ok L VT = true) ->
  inv L st -> s_finished st = false ->
  (forall c, In c cord -> In c (s_consts st)) ->
  finish_fixed L cord pord st = Some st' ->
  state_wfb L st' = true /\ acc_wf (s_R st') /\ s_finished st' = true /\
  (ml_access L <> AKSerial -> forall w, In w (aw (s_R st')) -> In w (s_fkeys st')).
Proof. intros _ HVT I _ Hcord H. apply (finish_fixed_all L cord pord st st' HVT I Hcord H). Qed.
Print Assumptions finish_fixed_wf.

(* the remaining hypotheses of classical_okb_of_frame_classical / the export theorems *)
Theorem finish_wf_ext L cord pord st st' :
  (ml_classical L = true -> val_ok L VT = true) ->
  inv L st -> (forall c, In c cord -> In c (s_consts st)) ->
  finish L cord pord st = Some st' ->
  tuples_ok st' /\ preds_fun st' /\ s_consts st' = s_consts st.
Proof.
  intros HVT I Hcord H. destruct (finish_all L cord pord st st' HVT I Hcord H) as (_ & Ec & P).
  split; [eapply pinv_tuples_ok; exact P|]. split; [eapply pinv_preds_fun; exact P|exact Ec].
Qed.
Theorem finish_fixed_wf_ext L cord pord st st' :
  (ml_classical L = true -> val_ok L VT = true) ->
  inv L st -> (forall c, In c cord -> In c (s_consts st)) ->
  finish_fixed L cord pord st = Some st' ->
  tuples_ok st' /\ preds_fun st' /\ s_consts st' = s_consts st.
Proof.
  intros HVT I Hcord H. destruct (finish_fixed_all L cord pord st st' HVT I Hcord H) as (_ & Ec & P).
  split; [eapply pinv_tuples_ok; exact P|]. split; [eapply pinv_preds_fun; exact P|exact Ec].
Qed.

(* the hypotheses of finish_fixed_classical on the completed state *)
Theorem complete_frames_wf L st st1 :
  inv L st -> complete_frames L st = Some st1 ->
  tuples_ok st1 /\ id_binary st1 /\ preds_fun st1 /\ s_consts st1 = s_consts st /\
  acc_wf (s_R st1) /\ (forall w, In w (aw (s_R st1)) -> In w (s_fkeys st1)).
Proof.
  intros I CF. destruct (complete_frames_cinv L st st1 I CF) as ((A & O & P & R & C & F & Sub) & Ec & Ep).
  split; [eapply pinv_tuples_ok; exact P|].
  split; [apply (id_binary_same st); [exact Ep|apply I]|].
  split; [eapply pinv_preds_fun; exact P|]. auto.
Qed.

(* ---- every history of calls followed by finish() ----------------------------------------- *)
Corollary run_wf L cord pord os st' :
  vals_closed L = true -> (ml_classical L = true -> val_ok L VT = true) ->
  forallb (op_ok L) os = true ->
  (forall st, apply_ops L init_state os = Some st -> forall c, In c cord -> In c (s_consts st)) ->
  run L cord pord os = Some st' ->
  state_wfb L st' = true /\ acc_wf (s_R st') /\ s_finished st' = true /\
  (ml_access L <> AKSerial -> forall w, In w (aw (s_R st')) -> In w (s_fkeys st')).
Proof.
  intros VC HVT OK Hcord H. unfold run in H.
  destruct (apply_ops L init_state os) as [st|] eqn:E; [|discriminate].
  pose proof (reachable_inv L os st OK E) as I.
  eapply finish_wf; [exact VC|exact HVT|exact I|apply I|apply Hcord; reflexivity|exact H].
Qed.
Print Assumptions run_wf.

Corollary run_fixed_wf L cord pord os st' :
  vals_closed L = true -> (ml_classical L = true -> val_ok L VT = true) ->
  forallb (op_ok L) os = true ->
  (forall st, apply_ops L init_state os = Some st -> forall c, In c cord -> In c (s_consts st)) ->
  run_fixed L cord pord os = Some st' ->
  state_wfb L st' = true /\ acc_wf (s_R st') /\ s_finished st' = true /\
  (ml_access L <> AKSerial -> forall w, In w (aw (s_R st')) -> In w (s_fkeys st')).
Proof.
  intros VC HVT OK Hcord H. unfold run_fixed in H.
  destruct (apply_ops L init_state os) as [st|] eqn:E; [|discriminate].
  pose proof (reachable_inv L os st OK E) as I.
  eapply finish_fixed_wf; [exact VC|exact HVT|exact I|apply I|apply Hcord; reflexivity|exact H].
Qed.
Print Assumptions run_fixed_wf.

(* every history of calls followed by the repaired finish(): the model is well
   formed AND classical in every frame (iteration orders: cord enumerates the
   constants, pord covers the registered predicates) *)
Corollary run_fixed_classical_wf L cord pord os st st1 st' :
  ml_classical L = true -> val_ok L VT = true ->
  forallb (op_ok L) os = true ->
  apply_ops L init_state os = Some st -> complete_frames L st = Some st1 ->
  (forall c, In c cord <-> In c (s_consts st)) -> pord_covers pord st1 ->
  run_fixed L cord pord os = Some st' ->
  (forall w, In w (s_fkeys st') -> frame_classical st' w) /\ classical_okb st' = true /\
  state_wfb L st' = true /\ acc_wf (s_R st') /\ s_finished st' = true.
Proof.
  intros Cl HVT OK E CF Hcord Hpc H. unfold run_fixed in H. rewrite E in H.
  pose proof (reachable_inv L os st OK E) as I.
  destruct (complete_frames_wf L st st1 I CF) as (T1 & B1 & _ & Ec & _).
  assert (Hcord1 : forall c, In c cord <-> In c (s_consts st1)) by (intro c; rewrite Ec; apply Hcord).
  destruct (finish_fixed_classical L cord pord st st1 st' Cl CF T1 B1 Hcord1 Hpc H) as (FC & _).
  assert (Hsub : forall c, In c cord -> In c (s_consts st)) by (intros c Hc; apply Hcord; exact Hc).
  destruct (finish_fixed_all L cord pord st st' (fun _ => HVT) I Hsub H) as ((W & R & F & _) & _ & P).
  split; [exact FC|]. split; [|auto].
  apply classical_okb_of_frame_classical;
    [eapply pinv_tuples_ok; exact P|eapply pinv_preds_fun; exact P|exact FC].
Qed.
Print Assumptions run_fixed_classical_wf.

(* non-vacuity: the hypotheses hold of the witness history of ClassicalFix.v *)
Example reach_nonvacuous :
  vals_closed ML_cfol = true /\ val_ok ML_cfol VT = true /\
  forallb (op_ok ML_cfol) wit_chain = true /\
  exists st st', apply_ops ML_cfol init_state wit_chain = Some st /\
                 (forall c, In c [2; 0; 1] <-> In c (s_consts st)) /\
                 run_fixed ML_cfol [2; 0; 1] all_pord wit_chain = Some st'.
Proof.
  split; [vm_compute; reflexivity|]. split; [vm_compute; reflexivity|].
  split; [vm_compute; reflexivity|]. eexists. eexists.
  split; [vm_compute; reflexivity|]. split; [|vm_compute; reflexivity].
  intro c. cbn. intuition.
Qed.
