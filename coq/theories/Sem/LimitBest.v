(* pytableaux.tools.minfloor / maxceil / _limit_best (tools/__init__.py
   l.183-220) as coded, with the early exit, over the four-valued carrier and
   the numeric order F < N < B < T that Mval.__lt__ implements. *)
From Coq Require Import List Bool Arith Lia.
From PT Require Import Sem.Values.
Import ListNotations.

Definition vltb (a b : val) : bool := Nat.ltb (vrank a) (vrank b).
Definition vgtb (a b : val) : bool := Nat.ltb (vrank b) (vrank a).

(* the `for val in it` loop after `best = next(it)` *)
Fixpoint lb_loop (better : val -> val -> bool) (limit best : val) (xs : list val) : val :=
  match xs with
  | [] => best
  | v :: r =>
      if val_eqb v limit || better v limit then v
      else lb_loop better limit (if better v best then v else best) r
  end.

(* _limit_best with a non-None default *)
Definition limit_best (better : val -> val -> bool) (limit : val) (xs : list val)
           (default : val) : val :=
  match xs with
  | [] => default
  | x :: r => lb_loop better limit x r
  end.

Definition minfloor (floor : val) (xs : list val) (default : val) : val :=
  limit_best vltb floor xs default.
Definition maxceil (ceil : val) (xs : list val) (default : val) : val :=
  limit_best vgtb ceil xs default.

(* the specification: plain minimum / maximum on the linear order *)
Definition vlist_min (xs : list val) (default : val) : val :=
  match xs with [] => default | x :: r => fold_left vmin r x end.
Definition vlist_max (xs : list val) (default : val) : val :=
  match xs with [] => default | x :: r => fold_left vmax r x end.

Lemma vleb_refl a : vleb a a = true.
Proof. destruct a; reflexivity. Qed.
Lemma vleb_trans a b c : vleb a b = true -> vleb b c = true -> vleb a c = true.
Proof. destruct a, b, c; simpl; intros; try reflexivity; discriminate. Qed.
Lemma vleb_antisym a b : vleb a b = true -> vleb b a = true -> a = b.
Proof. destruct a, b; simpl; intros; try reflexivity; discriminate. Qed.
Lemma vleb_total a b : vleb a b = true \/ vleb b a = true.
Proof. destruct a, b; simpl; auto. Qed.
Lemma vltb_nle a b : vltb a b = negb (vleb b a).
Proof. destruct a, b; reflexivity. Qed.

Lemma vmin_comm a b : vmin a b = vmin b a. Proof. destruct a, b; reflexivity. Qed.
Lemma vmin_assoc a b c : vmin a (vmin b c) = vmin (vmin a b) c.
Proof. destruct a, b, c; reflexivity. Qed.
Lemma vmax_comm a b : vmax a b = vmax b a. Proof. destruct a, b; reflexivity. Qed.
Lemma vmax_assoc a b c : vmax a (vmax b c) = vmax (vmax a b) c.
Proof. destruct a, b, c; reflexivity. Qed.
Lemma vmin_idem a : vmin a a = a. Proof. destruct a; reflexivity. Qed.
Lemma vmax_idem a : vmax a a = a. Proof. destruct a; reflexivity. Qed.

(* --- characterisation of fold_left vmin / vmax ------------------------- *)
Lemma fold_min_le_init r : forall x, vleb (fold_left vmin r x) x = true.
Proof.
  induction r as [|v r IH]; intro x; simpl; [apply vleb_refl|].
  eapply vleb_trans; [apply IH|]. destruct x, v; reflexivity.
Qed.
Lemma fold_min_le_all r : forall x y, In y r -> vleb (fold_left vmin r x) y = true.
Proof.
  induction r as [|v r IH]; intros x y Hy; [contradiction|]. simpl.
  destruct Hy as [<-|Hy]; [|apply IH; exact Hy].
  eapply vleb_trans; [apply fold_min_le_init|]. destruct x, v; reflexivity.
Qed.
Lemma fold_min_in r : forall x, fold_left vmin r x = x \/ In (fold_left vmin r x) r.
Proof.
  induction r as [|v r IH]; intro x; simpl; [left; reflexivity|].
  destruct (IH (vmin x v)) as [E|E]; [|right; right; exact E].
  rewrite E. unfold vmin. destruct (vleb x v); [left; reflexivity|right; left; reflexivity].
Qed.
Lemma fold_max_ge_init r : forall x, vleb x (fold_left vmax r x) = true.
Proof.
  induction r as [|v r IH]; intro x; simpl; [apply vleb_refl|].
  eapply vleb_trans; [|apply IH]. destruct x, v; reflexivity.
Qed.
Lemma fold_max_ge_all r : forall x y, In y r -> vleb y (fold_left vmax r x) = true.
Proof.
  induction r as [|v r IH]; intros x y Hy; [contradiction|]. simpl.
  destruct Hy as [<-|Hy]; [|apply IH; exact Hy].
  eapply vleb_trans; [|apply fold_max_ge_init]. destruct x, v; reflexivity.
Qed.
Lemma fold_max_in r : forall x, fold_left vmax r x = x \/ In (fold_left vmax r x) r.
Proof.
  induction r as [|v r IH]; intro x; simpl; [left; reflexivity|].
  destruct (IH (vmax x v)) as [E|E]; [|right; right; exact E].
  rewrite E. unfold vmax. destruct (vleb x v); [right; left; reflexivity|left; reflexivity].
Qed.

(* vlist_min is THE minimum: a member below every member (so it is unique). *)
Theorem list_min_spec x r d :
  In (vlist_min (x :: r) d) (x :: r) /\
  forall y, In y (x :: r) -> vleb (vlist_min (x :: r) d) y = true.
Proof.
  simpl. split.
  - destruct (fold_min_in r x) as [E|E]; [left; symmetry; exact E|right; exact E].
  - intros y [<-|Hy]; [apply fold_min_le_init|apply fold_min_le_all; exact Hy].
Qed.
Theorem list_max_spec x r d :
  In (vlist_max (x :: r) d) (x :: r) /\
  forall y, In y (x :: r) -> vleb y (vlist_max (x :: r) d) = true.
Proof.
  simpl. split.
  - destruct (fold_max_in r x) as [E|E]; [left; symmetry; exact E|right; exact E].
  - intros y [<-|Hy]; [apply fold_max_ge_init|apply fold_max_ge_all; exact Hy].
Qed.

(* --- exact behaviour of the early exit, for EVERY list and limit -------- *)
Lemma lb_loop_min_general floor r : forall best,
  lb_loop vltb floor best r =
  match find (fun v => vleb v floor) r with
  | Some v => v
  | None => fold_left vmin r best
  end.
Proof.
  induction r as [|v r IH]; intro best; simpl; [reflexivity|].
  assert (E : val_eqb v floor || vltb v floor = vleb v floor) by (destruct v, floor; reflexivity).
  rewrite E. destruct (vleb v floor) eqn:L; [reflexivity|].
  rewrite IH. destruct (find _ r); [reflexivity|].
  f_equal. destruct v, best; reflexivity.
Qed.
Lemma lb_loop_max_general ceil r : forall best,
  lb_loop vgtb ceil best r =
  match find (fun v => vleb ceil v) r with
  | Some v => v
  | None => fold_left vmax r best
  end.
Proof.
  induction r as [|v r IH]; intro best; simpl; [reflexivity|].
  assert (E : val_eqb v ceil || vgtb v ceil = vleb ceil v) by (destruct v, ceil; reflexivity).
  rewrite E. destruct (vleb ceil v) eqn:L; [reflexivity|].
  rewrite IH. destruct (find _ r); [reflexivity|].
  f_equal. destruct v, best; reflexivity.
Qed.

Theorem minfloor_general floor x r d :
  minfloor floor (x :: r) d =
  match find (fun v => vleb v floor) r with Some v => v | None => vlist_min (x :: r) d end.
Proof. unfold minfloor, limit_best. apply lb_loop_min_general. Qed.
Theorem maxceil_general ceil x r d :
  maxceil ceil (x :: r) d =
  match find (fun v => vleb ceil v) r with Some v => v | None => vlist_max (x :: r) d end.
Proof. unfold maxceil, limit_best. apply lb_loop_max_general. Qed.

(* --- limit_best_is_fold -------------------------------------------------- *)
Theorem minfloor_is_min floor xs d :
  (forall x, In x xs -> vleb floor x = true) -> minfloor floor xs d = vlist_min xs d.
Proof.
  destruct xs as [|x r]; intro H; [reflexivity|].
  rewrite minfloor_general. destruct (find (fun v => vleb v floor) r) as [v|] eqn:F; [|reflexivity].
  apply find_some in F. destruct F as [Hv Lv].
  assert (v = floor) by (apply vleb_antisym; [exact Lv|apply H; right; exact Hv]). subst v.
  destruct (list_min_spec x r d) as [Hin Hle].
  apply vleb_antisym; [apply H; exact Hin|apply Hle; right; exact Hv].
Qed.
Theorem maxceil_is_max ceil xs d :
  (forall x, In x xs -> vleb x ceil = true) -> maxceil ceil xs d = vlist_max xs d.
Proof.
  destruct xs as [|x r]; intro H; [reflexivity|].
  rewrite maxceil_general. destruct (find (fun v => vleb ceil v) r) as [v|] eqn:F; [|reflexivity].
  apply find_some in F. destruct F as [Hv Lv].
  assert (v = ceil) by (apply vleb_antisym; [apply H; right; exact Hv|exact Lv]). subst v.
  destruct (list_max_spec x r d) as [Hin Hle].
  apply vleb_antisym; [apply Hle; right; exact Hv|apply H; exact Hin].
Qed.

(* When the limit is NOT a bound of the values the early exit returns a
   non-optimal element that depends on the iteration order. *)
Theorem minfloor_unbounded_refuted :
  exists floor xs d, minfloor floor xs d <> vlist_min xs d.
Proof. exists VN, [VT; VN; VF], VT. vm_compute. discriminate. Qed.
Theorem maxceil_unbounded_refuted :
  exists ceil xs d, maxceil ceil xs d <> vlist_max xs d.
Proof. exists VB, [VF; VB; VT], VF. vm_compute. discriminate. Qed.
Example minfloor_order_dependent :
  minfloor VN [VT; VN; VF] VT <> minfloor VN [VT; VF; VN] VT.
Proof. vm_compute. discriminate. Qed.

(* order independence of the specification *)
Lemma fold_min_perm_swap r : forall x a, fold_left vmin r (vmin x a) = vmin (fold_left vmin r x) a.
Proof.
  induction r as [|v r IH]; intros x a; simpl; [reflexivity|].
  rewrite <- IH. f_equal. destruct x, a, v; reflexivity.
Qed.
Lemma fold_max_perm_swap r : forall x a, fold_left vmax r (vmax x a) = vmax (fold_left vmax r x) a.
Proof.
  induction r as [|v r IH]; intros x a; simpl; [reflexivity|].
  rewrite <- IH. f_equal. destruct x, a, v; reflexivity.
Qed.

(* the per-logic facts: minval / maxval bound the value set *)
Definition is_min_of (m : val) (vs : list val) : bool := vmem m vs && forallb (vleb m) vs.
Definition is_max_of (m : val) (vs : list val) : bool := vmem m vs && forallb (fun v => vleb v m) vs.
Lemma is_min_of_spec m vs : is_min_of m vs = true -> forall x, In x vs -> vleb m x = true.
Proof. unfold is_min_of. rewrite andb_true_iff, forallb_forall. tauto. Qed.
Lemma is_max_of_spec m vs : is_max_of m vs = true -> forall x, In x vs -> vleb x m = true.
Proof. unfold is_max_of. rewrite andb_true_iff, forallb_forall. intros [_ H]; exact H. Qed.
