(* cpl.Model.finish BEFORE the fix commits 08fe120 / 422cec3 / a424a77 (kept as the
   documented old behaviour; the current code is modelled in ClassicalFix.v): the identity / existence
   completion of the classical family (CPL, CFOL, K, D, T, S4, S5).

   The code iterates over Python sets (self.constants) and dict keys
   (frame.predicates); both iteration orders are explicit parameters here:
   [cord] is the order in which `for c in self.constants` yields, [pord w] the
   order of `deque(frames[w].predicates)`.  Every theorem quantifies over
   them. *)
From Coq Require Import List Bool Arith Lia.
From PT Require Import Sem.Values Sem.MSyntax Sem.LimitBest Sem.Access Sem.PyModel.
Import ListNotations.

Definition with_preds (st : state) (pk : list (nat * pred))
           (pr : list (nat * pred * list param * val)) : state :=
  {| s_fkeys := s_fkeys st; s_atoms := s_atoms st; s_opaqs := s_opaqs st;
     s_pkeys := pk; s_preds := pr; s_R := s_R st;
     s_consts := s_consts st; s_sents := s_sents st;
     s_complete := s_complete st; s_finished := s_finished st |}.

(* interp.having('T') of frames[w].predicates[p], in insertion order *)
Definition having_T (st : state) (w : nat) (p : pred) : list (list param) :=
  map (fun e => snd (fst e))
      (filter (fun e => match e with
                        | (w', p', _, v) => Nat.eqb w w' && pred_eqb p p' && val_eqb v VT
                        end) (s_preds st)).

Definition pmem (c : nat) (ps : list param) : bool := existsb (param_eqb (PC c)) ps.

(* interp[params] = 'T' (PredicateInterpretation.__setitem__: write-once) *)
Definition set_T (st : state) (w : nat) (p : pred) (ps : list param) : option state :=
  match get_pred (s_preds st) w p ps with
  | Some v => if val_eqb v VT then Some st else None
  | None => Some (with_preds st (addpk (w, p) (s_pkeys st)) (s_preds st ++ [(w, p, ps, VT)]))
  end.

Fixpoint set_T_all (st : state) (w : nat) (p : pred) (l : list (list param)) : option state :=
  match l with
  | [] => Some st
  | ps :: r => match set_T st w p ps with Some st' => set_T_all st' w p r | None => None end
  end.

(* _get_identicals(c, w): constants occurring in a true identity tuple that
   contains c, except c itself (as a duplicate-free list) *)
Definition addparam (x : param) (l : list param) : list param :=
  if existsb (param_eqb x) l then l else l ++ [x].
Definition identicals (st : state) (w c : nat) : list param :=
  filter (fun p => negb (param_eqb p (PC c)))
         (fold_left (fun l ps => if pmem c ps then fold_left (fun l p => addparam p l) ps l else l)
                    (having_T st w PIdentity) []).

(* tools.substitute(params, c, new_c) *)
Definition subst_tuple (c : nat) (new_c : param) (ps : list param) : list param :=
  map (fun p => if param_eqb p (PC c) then new_c else p) ps.

(* one iteration of `for c in self.constants` in _agument_extension_with_identicals;
   _get_identicals touches frames[w].predicates[Identity] (registers the key) *)
Definition augment_step (w : nat) (p : pred) (st : state) (c : nat) : option state :=
  let st := with_preds st (addpk (w, PIdentity) (s_pkeys st)) (s_preds st) in
  let ids := identicals st w c in
  let to_add := flat_map (fun ps => if pmem c ps then map (fun n => subst_tuple c n ps) ids else [])
                         (having_T st w p) in
  set_T_all st w p to_add.

Fixpoint fold_opt {A B} (f : A -> B -> option A) (a : A) (l : list B) : option A :=
  match l with
  | [] => Some a
  | x :: r => match f a x with Some a' => fold_opt f a' r | None => None end
  end.

Definition augment (cord : list nat) (w : nat) (st : state) (p : pred) : option state :=
  fold_opt (augment_step w p) st cord.

(* _ensure_self_identity / _ensure_self_existence *)
Definition ensure_self (cord : list nat) (w : nat) (st : state) : option state :=
  match cord with
  | [] => Some st
  | _ =>
      let st := with_preds st (addpk (w, PIdentity) (s_pkeys st)) (s_preds st) in
      match fold_opt (fun st c => set_T st w PIdentity [PC c; PC c]) st cord with
      | None => None
      | Some st =>
          let st := with_preds st (addpk (w, PExistence) (s_pkeys st)) (s_preds st) in
          fold_opt (fun st c => set_T st w PExistence [PC c]) st cord
      end
  end.

Definition pkeys_of (st : state) (w : nat) : list pred :=
  map snd (filter (fun e => Nat.eqb (fst e) w) (s_pkeys st)).

(* the loop body of cpl.Model.finish for one frame; the snapshot
   deque(frame.predicates) is taken in the order [po] *)
Definition cl_frame (cord : list nat) (pord : nat -> list pred) (st : state) (w : nat)
  : option state :=
  let snapshot := filter (fun p => existsb (pred_eqb p) (pkeys_of st w)) (pord w) in
  match fold_opt (augment cord w) st snapshot with
  | None => None
  | Some st => ensure_self cord w st
  end.

Definition cl_complete (cord : list nat) (pord : nat -> list pred) (st : state) : option state :=
  fold_opt (cl_frame cord pord) st (s_fkeys st).

(* Model.finish for every logic: the classical family runs the completion
   between _complete_frames and the generic finish *)
Definition finish_old (L : mlogic) (cord : list nat) (pord : nat -> list pred) (st : state)
  : option state :=
  if ml_classical L then
    match complete_frames L st with
    | None => None
    | Some st1 =>
        match cl_complete cord pord st1 with
        | None => None
        | Some st2 => base_finish_old L st2
        end
    end
  else base_finish_old L st.

(* the natural orders: insertion order of the model's own lists *)
Definition nat_pord (st : state) (w : nat) : list pred := pkeys_of st w.

Definition run_old (L : mlogic) (cord : list nat) (pord : nat -> list pred) (os : list op)
  : option state :=
  match apply_ops L init_state os with
  | None => None
  | Some st => finish_old L cord pord st
  end.
