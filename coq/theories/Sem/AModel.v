(* Arbitrary (possibly infinite) many-valued Kripke structures with constant
   domain.  A structure comes with an evaluation function that satisfies the
   semantic clauses: operators by the tables; a quantified / modal sentence gets
   the logic's generalisation of the SET of values its instances / accessible
   worlds take (the set is given by a membership function m characterised by an
   iff, so no choice or excluded middle is needed; classically every structure
   has such an evaluation).  The finite models of Sem/Model.v are instances. *)
From Coq Require Import List Bool Arith.
From PT Require Import Util.Finite Sem.Values Sem.Lit Sem.Syntax Sem.Gen Sem.Model.
Import ListNotations.

Definition gsel_m (S : sem) (o : mop) : gen4 := match o with Possibility => s_ge S | Necessity => s_gu S end.
Definition gsel_q (S : sem) (q : quant) : gen4 := match q with Existential => s_ge S | Universal => s_gu S end.

Definition updg {A} (env : nat -> A) (x : nat) (d : A) : nat -> A :=
  fun y => if Nat.eqb y x then d else env y.

Section AM.
  Variable S : sem.

  Record amodel := {
    aW : Type;
    aD : Type;
    aR : aW -> aW -> Prop;
    aatom : aW -> nat -> val;
    apred : aW -> nat -> list aD -> val;
    aopq : aW -> sent -> val;
    aev : aW -> (nat -> aD) -> (nat -> aD) -> sent -> val;      (* world, constants, variables *)
    a_atom : forall w ce ve n, aev w ce ve (Atom n) = aatom w n;
    a_pred : forall w ce ve p ts,
        aev w ce ve (Pred p ts) = apred w p (map (fun t => match t with TC c => ce c | TV x => ve x end) ts);
    a_un : forall w ce ve o a, aev w ce ve (Un o a) = t_un (s_t S) o (aev w ce ve a);
    a_bin : forall w ce ve o a b, aev w ce ve (Bin o a b) = t_bin (s_t S) o (aev w ce ve a) (aev w ce ve b);
    a_mod : s_modal S = true -> forall w ce ve o a, exists m : vset,
        (forall x, m x = true <-> exists u, aR w u /\ aev u ce ve a = x) /\
        aev w ce ve (Mod o a) = gapp (gsel_m S o) m;
    a_qu : s_quant S = true -> forall w ce ve q x a, exists m : vset,
        (forall v, m v = true <-> exists d, aev w ce (updg ve x d) a = v) /\
        aev w ce ve (Qu q x a) = gapp (gsel_q S q) m;
    a_mod_opq : s_modal S = false -> forall w ce ve o a, aev w ce ve (Mod o a) = aopq w (Mod o a);
    a_qu_opq : s_quant S = false -> forall w ce ve q x a, aev w ce ve (Qu q x a) = aopq w (Qu q x a);
    a_vals : forall w ce ve s, In (aev w ce ve s) (t_vals (s_t S));
    a_inh : aD }.

  (* two membership functions characterising the same set give the same generalisation *)
  Lemma gapp_same g (m m' : vset) (P : val -> Prop) :
    (forall x, m x = true <-> P x) -> (forall x, m' x = true <-> P x) -> gapp g m = gapp g m'.
  Proof.
    intros H H'. apply gapp_ext. intro x. destruct (m x) eqn:E, (m' x) eqn:E'; try reflexivity.
    - apply H in E. apply H' in E. congruence.
    - apply H' in E'. apply H in E'. congruence.
  Qed.

  Lemma gapp_iff g (m m' : vset) (P P' : val -> Prop) :
    (forall x, m x = true <-> P x) -> (forall x, m' x = true <-> P' x) -> (forall x, P x <-> P' x) ->
    gapp g m = gapp g m'.
  Proof.
    intros H H' HP. apply (gapp_same g m m' P); [exact H|]. intro x. rewrite H'. symmetry. apply HP.
  Qed.

  Variable M : amodel.

  Definition atv (ce ve : nat -> aD M) (t : term) : aD M := match t with TC c => ce c | TV x => ve x end.

  (* extensionality in both environments *)
  Lemma aev_ext s : forall w ce ce' ve ve', (forall c, ce c = ce' c) -> (forall x, ve x = ve' x) ->
    aev M w ce ve s = aev M w ce' ve' s.
  Proof.
    induction s as [n|p ts|o a IH|o a IHa b IHb|o a IH|q x a IH]; intros w ce ce' ve ve' Hc Hv.
    - rewrite !a_atom. reflexivity.
    - rewrite !a_pred. f_equal. apply map_ext. intros [c|y]; auto.
    - rewrite !a_un. rewrite (IH w ce ce' ve ve' Hc Hv). reflexivity.
    - rewrite !a_bin. rewrite (IHa w ce ce' ve ve' Hc Hv), (IHb w ce ce' ve ve' Hc Hv). reflexivity.
    - destruct (s_modal S) eqn:Em.
      + destruct (a_mod M Em w ce ve o a) as [m [Hm E]]. destruct (a_mod M Em w ce' ve' o a) as [m' [Hm' E']].
        rewrite E, E'. eapply gapp_iff; [exact Hm|exact Hm'|].
        intro x. split; intros [u [Hu Hx]]; exists u; split; auto; rewrite <- Hx;
          [symmetry|]; apply IH; auto.
      + rewrite !(a_mod_opq M Em). reflexivity.
    - destruct (s_quant S) eqn:Eq.
      + destruct (a_qu M Eq w ce ve q x a) as [m [Hm E]]. destruct (a_qu M Eq w ce' ve' q x a) as [m' [Hm' E']].
        rewrite E, E'. eapply gapp_iff; [exact Hm|exact Hm'|].
        assert (Hup : forall d y, updg ve x d y = updg ve' x d y).
        { intros d y. unfold updg. destruct (Nat.eqb y x); auto. }
        intro v. split; intros [d Hd]; exists d; rewrite <- Hd; [symmetry|]; apply IH; auto.
      + rewrite !(a_qu_opq M Eq). reflexivity.
  Qed.

  Lemma aev_finst f a w ce ve : aev M w ce ve (finst f a) = fval (s_t S) f (aev M w ce ve a).
  Proof. induction f as [|o f IH|o f IHf g IHg]; simpl; rewrite ?a_un, ?a_bin; congruence. Qed.

  (* substitution of a constant for a variable *)
  Lemma asubst s x c : interp S s = true -> nobind x s = true -> forall w ce ve,
    aev M w ce ve (subst x c s) = aev M w ce (updg ve x (ce c)) s.
  Proof.
    induction s as [n|p ts|o a IH|o a IHa b IHb|o a IH|q y a IH]; intros Hi Hn w ce ve; simpl in *.
    - rewrite !a_atom. reflexivity.
    - rewrite !a_pred. f_equal. rewrite map_map. apply map_ext. intros [k|z]; simpl; [reflexivity|].
      unfold updg. destruct (Nat.eqb z x); reflexivity.
    - rewrite !a_un, IH by assumption. reflexivity.
    - apply andb_true_iff in Hn. destruct Hn as [H1 H2]. apply andb_true_iff in Hi. destruct Hi as [I1 I2].
      rewrite !a_bin, IHa, IHb by assumption. reflexivity.
    - apply andb_true_iff in Hi. destruct Hi as [Hm Hi].
      destruct (a_mod M Hm w ce ve o (subst x c a)) as [m [Hmm E]].
      destruct (a_mod M Hm w ce (updg ve x (ce c)) o a) as [m' [Hm' E']].
      rewrite E, E'. eapply gapp_iff; [exact Hmm|exact Hm'|].
      intro v. split; intros [u [Hu Hx]]; exists u; split; auto; rewrite <- Hx; [symmetry|]; apply IH; assumption.
    - apply andb_true_iff in Hi. destruct Hi as [Hq Hi].
      apply andb_true_iff in Hn. destruct Hn as [Hyx Hn]. apply negb_true_iff in Hyx. apply Nat.eqb_neq in Hyx.
      destruct (a_qu M Hq w ce ve q y (subst x c a)) as [m [Hmm E]].
      destruct (a_qu M Hq w ce (updg ve x (ce c)) q y a) as [m' [Hm' E']].
      rewrite E, E'. eapply gapp_iff; [exact Hmm|exact Hm'|].
      assert (Hcomm : forall d z, updg (updg ve y d) x (ce c) z = updg (updg ve x (ce c)) y d z).
      { intros d z. unfold updg. destruct (Nat.eqb z x) eqn:E1, (Nat.eqb z y) eqn:E2; try reflexivity.
        apply Nat.eqb_eq in E1, E2. congruence. }
      intro v. split; intros [d Hd]; exists d; rewrite <- Hd.
      + rewrite IH by assumption. symmetry. apply aev_ext; auto.
      + rewrite IH by assumption. apply aev_ext; auto.
  Qed.

  (* a constant that does not occur *)
  Lemma afresh s c d : has_const c s = false -> forall w ce ve,
    aev M w (updg ce c d) ve s = aev M w ce ve s.
  Proof.
    induction s as [n|p ts|o a IH|o a IHa b IHb|o a IH|q y a IH]; intros Hn w ce ve; simpl in *.
    - rewrite !a_atom. reflexivity.
    - rewrite !a_pred. f_equal. apply map_ext_in. intros [k|z] Hin; [|reflexivity].
      unfold updg. destruct (Nat.eqb k c) eqn:E; [|reflexivity].
      exfalso. assert (existsb (term_has c) ts = true) by (apply existsb_exists; exists (TC k); auto). congruence.
    - rewrite !a_un, IH by exact Hn. reflexivity.
    - apply orb_false_iff in Hn. destruct Hn as [H1 H2]. rewrite !a_bin, IHa, IHb by assumption. reflexivity.
    - destruct (s_modal S) eqn:Em.
      + destruct (a_mod M Em w (updg ce c d) ve o a) as [m [Hm E]]. destruct (a_mod M Em w ce ve o a) as [m' [Hm' E']].
        rewrite E, E'. eapply gapp_iff; [exact Hm|exact Hm'|].
        intro v. split; intros [u [Hu Hx]]; exists u; split; auto; rewrite <- Hx; [symmetry|]; apply IH; exact Hn.
      + rewrite !(a_mod_opq M Em). reflexivity.
    - destruct (s_quant S) eqn:Eq.
      + destruct (a_qu M Eq w (updg ce c d) ve q y a) as [m [Hm E]]. destruct (a_qu M Eq w ce ve q y a) as [m' [Hm' E']].
        rewrite E, E'. eapply gapp_iff; [exact Hm|exact Hm'|].
        intro v. split; intros [d0 Hd]; exists d0; rewrite <- Hd; [symmetry|]; apply IH; exact Hn.
      + rewrite !(a_qu_opq M Eq). reflexivity.
  Qed.

  (* the list of values present in a membership function *)
  Definition vlist (m : vset) : list val := filter m all_vals.
  Lemma vlist_mem m : vset_eq (mem_of (vlist m)) m.
  Proof.
    intro v. unfold mem_of, vlist. destruct (m v) eqn:E.
    - apply vmem_In. apply filter_In. split; [apply all_vals_complete|exact E].
    - destruct (vmem v (filter m all_vals)) eqn:E2; [|reflexivity].
      apply vmem_In in E2. apply filter_In in E2. destruct E2. congruence.
  Qed.
  Lemma vlist_In m v : In v (vlist m) <-> m v = true.
  Proof. unfold vlist. rewrite filter_In. split; [tauto|]. intro H. split; [apply all_vals_complete|exact H]. Qed.
End AM.
