(* Theorems about the model of BaseModel.value_of / _complete_frames. *)
From Coq Require Import List Bool Arith Lia.
From PT Require Import Sem.Values Sem.MSyntax Sem.LimitBest Sem.Access Sem.PyModel Sem.ModelRun.
Import ListNotations.

(* ---- the lazy generaliser on exception-free inputs ------------------------- *)
Lemma lb_loop_r_vals better limit vs : forall best,
  lb_loop_r better limit best (map Val vs) = Val (lb_loop better limit best vs).
Proof.
  induction vs as [|v r IH]; intro best; simpl; [reflexivity|].
  destruct (val_eqb v limit || better v limit); [reflexivity|]. apply IH.
Qed.

Lemma limit_best_r_vals better limit vs d :
  limit_best_r better limit (map Val vs) d = Val (limit_best better limit vs d).
Proof. destruct vs as [|x r]; simpl; [reflexivity|]. apply lb_loop_r_vals. Qed.

Lemma all_vals_r_vals vs : all_vals_r (map Val vs) = inr vs.
Proof. induction vs as [|v r IH]; simpl; [reflexivity|]. rewrite IH. reflexivity. Qed.

Lemma crunch_r_vals L g vs : crunch_r L g (map Val vs) = map Val (crunch L g vs).
Proof.
  unfold crunch_r, crunch. destruct (g_crunch g); [|reflexivity].
  rewrite !map_map. reflexivity.
Qed.

Lemma bounds_ok_min L : bounds_ok L = true -> ml_min L = VF.
Proof.
  unfold bounds_ok. rewrite !andb_true_iff. intros [[_ H] _]. apply val_eqb_eq; exact H.
Qed.
Lemma bounds_ok_max L : bounds_ok L = true -> ml_max L = VT.
Proof.
  unfold bounds_ok. rewrite !andb_true_iff. intros [_ H]. apply val_eqb_eq; exact H.
Qed.
Lemma vleb_F x : vleb VF x = true. Proof. destruct x; reflexivity. Qed.
Lemma vleb_T x : vleb x VT = true. Proof. destruct x; reflexivity. Qed.

(* on exception-free inputs the coded generaliser (early exit, laziness) is the
   documented generalised disjunction / conjunction *)
Theorem gen_code_r_spec L g side vs :
  bounds_ok L = true ->
  gen_code_r L g side (map Val vs) = Val (gen_spec L g side vs).
Proof.
  intro HB. unfold gen_code_r, gen_spec. rewrite crunch_r_vals.
  destruct (g_comb g).
  - destruct side; rewrite limit_best_r_vals; f_equal.
    + apply maxceil_is_max. intros x _. rewrite (bounds_ok_max L HB). apply vleb_T.
    + apply minfloor_is_min. intros x _. rewrite (bounds_ok_min L HB). apply vleb_F.
  - rewrite all_vals_r_vals. reflexivity.
  - rewrite all_vals_r_vals. reflexivity.
  - rewrite all_vals_r_vals. reflexivity.
Qed.

(* ---- substitution: blind sequential substitution = environment ------------- *)
Lemma env_sent_nil s : env_sent [] s = s.
Proof.
  induction s as [n|p ps|q v s IH|o s IH|o s IHs t IHt|o s IH]; simpl; try congruence.
  f_equal. induction ps as [|x r IHr]; simpl; [reflexivity|].
  rewrite IHr. destruct x; reflexivity.
Qed.

Lemma env_get_notin env v : ~ In v (map fst env) -> env_get env v = None.
Proof.
  induction env as [|[u c] r IH]; simpl; intro H; [reflexivity|].
  destruct (Nat.eqb u v) eqn:E.
  - apply Nat.eqb_eq in E. subst. exfalso. apply H. left; reflexivity.
  - apply IH. intro H'. apply H. right; exact H'.
Qed.

Lemma subst_env_param c v env p :
  ~ In v (map fst env) ->
  subst_param c v (env_param env p) = env_param ((v, c) :: env) p.
Proof.
  intro Hv. destruct p as [n|u]; simpl; [reflexivity|].
  destruct (Nat.eqb v u) eqn:E.
  - apply Nat.eqb_eq in E. subst u. rewrite (env_get_notin env v Hv). simpl.
    rewrite Nat.eqb_refl. reflexivity.
  - destruct (env_get env u) as [c'|]; simpl; [reflexivity|].
    rewrite Nat.eqb_sym, E. reflexivity.
Qed.

(* Sentence.substitute on an already instantiated sentence extends the environment *)
Lemma subst_env_sent c v env s :
  ~ In v (map fst env) ->
  subst c v (env_sent env s) = env_sent ((v, c) :: env) s.
Proof.
  intro Hv.
  induction s as [n|p ps|q u s IH|o s IH|o s IHs t IHt|o s IH]; simpl.
  - reflexivity.
  - f_equal. rewrite map_map. apply map_ext. intro x. apply subst_env_param; exact Hv.
  - f_equal. exact IH.
  - f_equal. exact IH.
  - f_equal; [exact IHs|exact IHt].
  - f_equal. exact IH.
Qed.

Lemma existsb_eqb_In x l : existsb (Nat.eqb x) l = true <-> In x l.
Proof.
  rewrite existsb_exists. split.
  - intros [y [Hy E]]. apply Nat.eqb_eq in E. subst. exact Hy.
  - intro H. exists x. split; [exact H|apply Nat.eqb_refl].
Qed.

Definition env_ok (st : state) (env : list (nat * nat)) : Prop :=
  forall v c, In (v, c) env -> In c (s_consts st).

Lemma env_get_some env v c : env_get env v = Some c -> In (v, c) env.
Proof.
  induction env as [|[u d] r IH]; simpl; intro H; [discriminate|].
  destruct (Nat.eqb u v) eqn:E.
  - apply Nat.eqb_eq in E. injection H as <-. subst. left; reflexivity.
  - right. apply IH; exact H.
Qed.
Lemma env_get_in env v : In v (map fst env) -> exists c, env_get env v = Some c.
Proof.
  induction env as [|[u d] r IH]; simpl; intro H; [contradiction|].
  destruct (Nat.eqb u v) eqn:E; [eexists; reflexivity|].
  destruct H as [H|H]; [subst; rewrite Nat.eqb_refl in E; discriminate|]. apply IH; exact H.
Qed.

Lemma denotes_params_const st env ps :
  env_ok st env ->
  forallb (fun p => match p with
                    | PC c => existsb (Nat.eqb c) (s_consts st)
                    | PV v => existsb (Nat.eqb v) (map fst env)
                    end) ps = true ->
  forallb (is_const st) (map (env_param env) ps) = true.
Proof.
  intros He H. rewrite forallb_forall in *. intros x Hx.
  apply in_map_iff in Hx. destruct Hx as [p [<- Hp]]. specialize (H p Hp).
  destruct p as [c|v]; simpl; [exact H|].
  apply existsb_eqb_In in H. destruct (env_get_in env v H) as [c Hc]. rewrite Hc. simpl.
  apply existsb_eqb_In. apply (He v c). apply env_get_some; exact Hc.
Qed.

(* ---- value_of_spec ------------------------------------------------------------ *)
Lemma vo_spec L st : bounds_ok L = true ->
  forall s env n w,
    depth s < n -> frame_ok L w = true -> env_ok st env ->
    denotes st (map fst env) s = true -> nb (map fst env) s = true ->
    vo L st n (env_sent env s) w = Val (eval L st env s w).
Proof.
  intro HB.
  induction s as [a|p ps|q v b IH|o a IH|o a IHa b IHb|o a IH];
    intros env n w Hd Hw He Hden Hnb; destruct n as [|n]; try (simpl in Hd; lia).
  - simpl. rewrite Hw. reflexivity.
  - simpl. simpl in Hden. rewrite (denotes_params_const st env ps He Hden), Hw. reflexivity.
  - cbn [env_sent vo is_opaque eval]. destruct (ml_quant L) eqn:Q; cbn [negb].
    + simpl in Hnb. apply andb_true_iff in Hnb. destruct Hnb as [Hv Hnb].
      assert (Hv' : ~ In v (map fst env)).
      { intro H. apply existsb_eqb_In in H. rewrite H in Hv. discriminate. }
      rewrite <- (gen_code_r_spec L _ _ _ HB). f_equal.
      rewrite map_map. apply map_ext_in. intros c Hc.
      rewrite (subst_env_sent c v env b Hv').
      apply IH.
      * simpl in Hd. lia.
      * exact Hw.
      * intros u d [E|Hin]; [injection E as <- <-; exact Hc|apply (He u d Hin)].
      * exact Hden.
      * exact Hnb.
    + rewrite Hw. reflexivity.
  - cbn [env_sent vo is_opaque eval]. rewrite (IH env n w); try assumption; [reflexivity|simpl in Hd; lia].
  - cbn [env_sent vo is_opaque eval]. simpl in Hden, Hnb.
    apply andb_true_iff in Hden. destruct Hden as [Hda Hdb].
    apply andb_true_iff in Hnb. destruct Hnb as [Hna Hnb].
    rewrite (IHa env n w); try assumption; [|simpl in Hd; lia].
    rewrite (IHb env n w); try assumption; [reflexivity|simpl in Hd; lia].
  - cbn [env_sent vo is_opaque eval]. destruct (ml_modal L) eqn:M; cbn [negb].
    + rewrite <- (gen_code_r_spec L _ _ _ HB). f_equal.
      rewrite map_map. apply map_ext. intro w2.
      apply IH; try assumption; [simpl in Hd; lia|].
      unfold frame_ok. rewrite M. reflexivity.
    + rewrite Hw. reflexivity.
Qed.

(* value_of as coded (type dispatch, substitution `c >> s`, lazy generalisers
   with the early exit, fuel) equals the documented recursive semantics, for
   every finished state, world and denoting sentence without rebinding. *)
Theorem value_of_spec L st s w :
  bounds_ok L = true -> s_finished st = true -> frame_ok L w = true ->
  denotes st [] s = true -> norebind s = true ->
  value_of L st s w = Val (eval L st [] s w).
Proof.
  intros HB HF Hw Hd Hn. unfold value_of. rewrite HF.
  rewrite <- (env_sent_nil s) at 2.
  apply vo_spec; try assumption; [lia|intros v c []].
Qed.

(* ---- fuel is never exhausted --------------------------------------------------- *)
Lemma lb_loop_r_nofuel better limit rs : forall best,
  (forall r, In r rs -> r <> OutOfFuel) -> lb_loop_r better limit best rs <> OutOfFuel.
Proof.
  induction rs as [|r t IH]; intros best H; simpl; [discriminate|].
  destruct r as [v| |].
  - destruct (val_eqb v limit || better v limit); [discriminate|].
    apply IH. intros x Hx. apply H. right; exact Hx.
  - discriminate.
  - exfalso. apply (H OutOfFuel); [left; reflexivity|reflexivity].
Qed.
Lemma limit_best_r_nofuel better limit rs d :
  (forall r, In r rs -> r <> OutOfFuel) -> limit_best_r better limit rs d <> OutOfFuel.
Proof.
  destruct rs as [|r t]; intro H; simpl; [discriminate|].
  destruct r as [v| |].
  - apply lb_loop_r_nofuel. intros x Hx. apply H. right; exact Hx.
  - discriminate.
  - exfalso. apply (H OutOfFuel); [left; reflexivity|reflexivity].
Qed.
Lemma all_vals_r_nofuel rs :
  (forall r, In r rs -> r <> OutOfFuel) -> all_vals_r rs <> inl OutOfFuel.
Proof.
  induction rs as [|r t IH]; intro H; simpl; [discriminate|].
  destruct r as [v| |].
  - assert (H' : all_vals_r t <> inl OutOfFuel) by (apply IH; intros x Hx; apply H; right; exact Hx).
    destruct (all_vals_r t) as [e|l]; [|discriminate]. intro E. apply H'. injection E as ->. reflexivity.
  - discriminate.
  - exfalso. apply (H OutOfFuel); [left; reflexivity|reflexivity].
Qed.
Lemma crunch_r_nofuel L g rs :
  (forall r, In r rs -> r <> OutOfFuel) -> forall r, In r (crunch_r L g rs) -> r <> OutOfFuel.
Proof.
  intros H r. unfold crunch_r. destruct (g_crunch g); [|apply H].
  intro Hr. apply in_map_iff in Hr. destruct Hr as [x [<- Hx]].
  specialize (H x Hx). destruct x; [discriminate|discriminate|exfalso; apply H; reflexivity].
Qed.
Lemma gen_code_r_nofuel L g side rs :
  (forall r, In r rs -> r <> OutOfFuel) -> gen_code_r L g side rs <> OutOfFuel.
Proof.
  intro H. unfold gen_code_r. pose proof (crunch_r_nofuel L g rs H) as H'.
  destruct (g_comb g).
  - destruct side; apply limit_best_r_nofuel; exact H'.
  - pose proof (all_vals_r_nofuel _ H') as N. destruct (all_vals_r (crunch_r L g rs)) as [e|l]; [|discriminate].
    intro E. apply N. rewrite E. reflexivity.
  - pose proof (all_vals_r_nofuel _ H') as N. destruct (all_vals_r (crunch_r L g rs)) as [e|l]; [|discriminate].
    intro E. apply N. rewrite E. reflexivity.
  - pose proof (all_vals_r_nofuel _ H') as N. destruct (all_vals_r (crunch_r L g rs)) as [e|l]; [|discriminate].
    intro E. apply N. rewrite E. reflexivity.
Qed.

Lemma vo_nofuel L st : forall n s w, depth s < n -> vo L st n s w <> OutOfFuel.
Proof.
  induction n as [|n IH]; intros s w Hd; [lia|].
  cbn [vo]. destruct (is_opaque L s); [destruct (frame_ok L w); discriminate|].
  destruct s as [a|p ps|q v b|o a|o a b|o a].
  - destruct (frame_ok L w); discriminate.
  - destruct (forallb (is_const st) ps); [destruct (frame_ok L w)|]; discriminate.
  - apply gen_code_r_nofuel. intros r Hr. apply in_map_iff in Hr. destruct Hr as [c [<- _]].
    apply IH. rewrite depth_subst. simpl in Hd. lia.
  - specialize (IH a w). simpl in Hd. destruct (vo L st n a w); [discriminate|discriminate|].
    exfalso. apply IH; [lia|reflexivity].
  - pose proof (IH a w) as Ha. pose proof (IH b w) as Hb. simpl in Hd.
    destruct (vo L st n a w); [|discriminate|exfalso; apply Ha; [lia|reflexivity]].
    destruct (vo L st n b w); [discriminate|discriminate|exfalso; apply Hb; [lia|reflexivity]].
  - apply gen_code_r_nofuel. intros r Hr. apply in_map_iff in Hr. destruct Hr as [w2 [<- _]].
    apply IH. simpl in Hd. lia.
Qed.

Theorem value_of_no_fuel_exhaustion L st s w : value_of L st s w <> OutOfFuel.
Proof.
  unfold value_of. destruct (s_finished st); [|discriminate]. apply vo_nofuel. lia.
Qed.
