(* C07: decidable comparison of a logic's truth tables (as extracted from the
   implementation) with the documented tables, one obligation per component,
   each returning a witness when it fails. *)
From Coq Require Import List Bool.
From PT Require Import Util.Finite Sem.Values.
Import ListNotations.

Inductive c07_ob :=
| ObVals | ObDes | ObUn (o : uop) | ObBin (o : bop)
| ObDefMC | ObDefMB | ObDefBC | ObDefAssert | ObClosed.

Definition c07_obs (assertion_native : bool) : list c07_ob :=
  [ObVals; ObDes] ++ map ObUn all_uops ++ map ObBin all_bops
  ++ [ObDefMC; ObDefMB; ObDefBC] ++ (if assertion_native then [] else [ObDefAssert])
  ++ [ObClosed].

Definition pairs (vs : list val) : list (val * val) :=
  flat_map (fun a => map (fun b => (a, b)) vs) vs.

Lemma in_pairs vs a b : In (a, b) (pairs vs) <-> In a vs /\ In b vs.
Proof.
  unfold pairs. rewrite in_flat_map. split.
  - intros [x [Hx H]]. apply in_map_iff in H. destruct H as [y [E Hy]].
    injection E as <- <-. auto.
  - intros [Ha Hb]. exists a. split; [exact Ha|]. apply in_map_iff. exists b. auto.
Qed.

(* Each component: the statement (Prop) and its checker. *)
Definition c07_holds (c l : tables) (ob : c07_ob) : Prop :=
  match ob with
  | ObVals => forall v, In v (t_vals c) <-> In v (t_vals l)
  | ObDes => forall a, In a (t_vals l) -> t_des c a = t_des l a
  | ObUn o => forall a, In a (t_vals l) -> t_un c o a = t_un l o a
  | ObBin o => forall a b, In a (t_vals l) -> In b (t_vals l) -> t_bin c o a b = t_bin l o a b
  | ObDefMC => forall a b, In a (t_vals c) -> In b (t_vals c) ->
      t_bin c MaterialConditional a b = t_bin c Disjunction (t_un c Negation a) b
  | ObDefMB => forall a b, In a (t_vals c) -> In b (t_vals c) ->
      t_bin c MaterialBiconditional a b =
      t_bin c Conjunction (t_bin c MaterialConditional a b) (t_bin c MaterialConditional b a)
  | ObDefBC => forall a b, In a (t_vals c) -> In b (t_vals c) ->
      t_bin c Biconditional a b =
      t_bin c Conjunction (t_bin c Conditional a b) (t_bin c Conditional b a)
  | ObDefAssert => forall a, In a (t_vals c) -> t_un c Assertion a = a
  | ObClosed => (forall o a, In a (t_vals c) -> In (t_un c o a) (t_vals c)) /\
      (forall o a b, In a (t_vals c) -> In b (t_vals c) -> In (t_bin c o a b) (t_vals c))
  end.

Definition chk1 (vs : list val) (f g : val -> val) : option (list val) :=
  find_some (fun a => guard (val_eqb (f a) (g a)) [a; f a; g a]) vs.
Definition chk2 (vs : list val) (f g : val -> val -> val) : option (list val) :=
  find_some (fun p => guard (val_eqb (f (fst p) (snd p)) (g (fst p) (snd p)))
     [fst p; snd p; f (fst p) (snd p); g (fst p) (snd p)]) (pairs vs).

Lemma chk1_none vs f g : chk1 vs f g = None <-> forall a, In a vs -> f a = g a.
Proof.
  unfold chk1. rewrite find_some_none_iff. split; intros H a Ha.
  - apply val_eqb_eq. apply guard_none with (w := [a; f a; g a]). apply H. exact Ha.
  - apply guard_none. apply val_eqb_eq. apply H. exact Ha.
Qed.

Lemma chk2_none vs f g : chk2 vs f g = None <-> forall a b, In a vs -> In b vs -> f a b = g a b.
Proof.
  unfold chk2. rewrite find_some_none_iff. split.
  - intros H a b Ha Hb. apply val_eqb_eq.
    specialize (H (a, b)). simpl in H. apply guard_none with (w := [a; b; f a b; g a b]).
    apply H. apply in_pairs. auto.
  - intros H [a b] Hp. apply in_pairs in Hp. destruct Hp as [Ha Hb]. simpl.
    apply guard_none. apply val_eqb_eq. apply H; assumption.
Qed.

Definition c07_check (c l : tables) (ob : c07_ob) : option (list val) :=
  match ob with
  | ObVals => find_some (fun v => guard (Bool.eqb (vmem v (t_vals c)) (vmem v (t_vals l))) [v]) all_vals
  | ObDes => find_some (fun a => guard (Bool.eqb (t_des c a) (t_des l a)) [a]) (t_vals l)
  | ObUn o => chk1 (t_vals l) (t_un c o) (t_un l o)
  | ObBin o => chk2 (t_vals l) (t_bin c o) (t_bin l o)
  | ObDefMC => chk2 (t_vals c) (t_bin c MaterialConditional)
                 (fun a b => t_bin c Disjunction (t_un c Negation a) b)
  | ObDefMB => chk2 (t_vals c) (t_bin c MaterialBiconditional)
                 (fun a b => t_bin c Conjunction (t_bin c MaterialConditional a b)
                                                 (t_bin c MaterialConditional b a))
  | ObDefBC => chk2 (t_vals c) (t_bin c Biconditional)
                 (fun a b => t_bin c Conjunction (t_bin c Conditional a b) (t_bin c Conditional b a))
  | ObDefAssert => chk1 (t_vals c) (t_un c Assertion) (fun a => a)
  | ObClosed =>
      orelse
        (find_some (fun o => find_some (fun a => guard (vmem (t_un c o a) (t_vals c)) [a]) (t_vals c)) all_uops)
        (find_some (fun o => find_some (fun p =>
             guard (vmem (t_bin c o (fst p) (snd p)) (t_vals c)) [fst p; snd p]) (pairs (t_vals c))) all_bops)
  end.

Theorem c07_check_iff c l ob : c07_check c l ob = None <-> c07_holds c l ob.
Proof.
  destruct ob; cbn [c07_check c07_holds].
  - rewrite find_some_none_iff. split.
    + intros H v. specialize (H v (all_vals_complete v)). apply guard_none in H.
      apply Bool.eqb_prop in H. rewrite <- !vmem_In, H. tauto.
    + intros H v _. apply guard_none. specialize (H v). rewrite <- !vmem_In in H.
      destruct (vmem v (t_vals c)), (vmem v (t_vals l)); simpl; try reflexivity;
        destruct H as [H1 H2]; try (specialize (H1 eq_refl)); try (specialize (H2 eq_refl)); discriminate.
  - rewrite find_some_none_iff. split; intros H a Ha.
    + apply Bool.eqb_prop. apply guard_none with (w := [a]). apply H. exact Ha.
    + apply guard_none. rewrite (H a Ha). apply Bool.eqb_reflx.
  - apply chk1_none.
  - apply chk2_none.
  - apply chk2_none.
  - apply chk2_none.
  - apply chk2_none.
  - apply chk1_none.
  - rewrite orelse_none, !find_some_none_iff. split.
    + intros [H1 H2]. split.
      * intros o a Ha. specialize (H1 o (all_uops_complete o)).
        rewrite find_some_none_iff in H1. apply vmem_In.
        apply guard_none with (w := [a]). apply H1. exact Ha.
      * intros o a b Ha Hb. specialize (H2 o (all_bops_complete o)).
        rewrite find_some_none_iff in H2. apply vmem_In.
        specialize (H2 (a, b)). simpl in H2. apply guard_none with (w := [a; b]).
        apply H2. apply in_pairs. auto.
    + intros [H1 H2]. split.
      * intros o _. apply find_some_none_iff. intros a Ha. apply guard_none.
        apply vmem_In. apply H1. exact Ha.
      * intros o _. apply find_some_none_iff. intros [a b] Hp. apply in_pairs in Hp.
        destruct Hp. simpl. apply guard_none. apply vmem_In. apply H2; assumption.
Qed.

Corollary c07_check_sound c l ob : c07_check c l ob = None -> c07_holds c l ob.
Proof. apply c07_check_iff. Qed.

Corollary c07_check_refutes c l ob w : c07_check c l ob = Some w -> ~ c07_holds c l ob.
Proof. intros H Hh. apply c07_check_iff in Hh. congruence. Qed.

Definition c07_all (c l : tables) (obs : list c07_ob) : bool :=
  forallb (fun ob => is_none (c07_check c l ob)) obs.

Theorem c07_all_sound c l obs : c07_all c l obs = true -> Forall (c07_holds c l) obs.
Proof.
  unfold c07_all. rewrite forallb_forall, Forall_forall. intros H ob Hob.
  apply c07_check_sound. apply is_none_true. apply H. exact Hob.
Qed.

(* Failing components with their witnesses, for the status report. *)
Definition c07_failures (c l : tables) (obs : list c07_ob) : list (c07_ob * list val) :=
  flat_map (fun ob => match c07_check c l ob with None => [] | Some w => [(ob, w)] end) obs.
