(* Truth values, operators and finite truth tables shared by every logic. *)
From Coq Require Import List Bool.
Import ListNotations.

Inductive val := VF | VN | VB | VT.

Definition val_eqb (a b : val) : bool :=
  match a, b with
  | VF, VF | VN, VN | VB, VB | VT, VT => true
  | _, _ => false
  end.

Lemma val_eqb_eq a b : val_eqb a b = true <-> a = b.
Proof. destruct a, b; simpl; split; intro H; try reflexivity; try discriminate. Qed.

Lemma val_eq_dec (a b : val) : {a = b} + {a <> b}.
Proof. decide equality. Defined.

Definition all_vals : list val := [VF; VN; VB; VT].

Lemma all_vals_complete v : In v all_vals.
Proof. destruct v; simpl; auto. Qed.

(* The linear order F < N < B < T that the implementation's min/max use
   (ValueFDE: 0, .25, .75, 1; the three-valued classes embed into it). *)
Definition vrank (v : val) : nat :=
  match v with VF => 0 | VN => 1 | VB => 2 | VT => 3 end.
Definition vleb (a b : val) : bool := Nat.leb (vrank a) (vrank b).
Definition vmin (a b : val) : val := if vleb a b then a else b.
Definition vmax (a b : val) : val := if vleb a b then b else a.

Definition vmem (v : val) (l : list val) : bool := existsb (val_eqb v) l.

Lemma vmem_In v l : vmem v l = true <-> In v l.
Proof.
  unfold vmem. rewrite existsb_exists. split.
  - intros [x [Hx He]]. apply val_eqb_eq in He. subst. exact Hx.
  - intro H. exists v. split; [exact H|]. apply val_eqb_eq. reflexivity.
Qed.

(* Operators.  The ten operators of the language, split by how they are
   interpreted: truth-functional unary, truth-functional binary, modal. *)
Inductive uop := Assertion | Negation.
Inductive bop := Conjunction | Disjunction | MaterialConditional
               | MaterialBiconditional | Conditional | Biconditional.
Inductive mop := Possibility | Necessity.
Inductive quant := Existential | Universal.

Definition all_uops := [Assertion; Negation].
Definition all_bops := [Conjunction; Disjunction; MaterialConditional;
                        MaterialBiconditional; Conditional; Biconditional].

Lemma all_uops_complete o : In o all_uops. Proof. destruct o; simpl; auto. Qed.
Lemma all_bops_complete o : In o all_bops. Proof. destruct o; simpl; auto 10. Qed.

Definition uop_eqb (a b : uop) : bool :=
  match a, b with Assertion, Assertion | Negation, Negation => true | _, _ => false end.
Definition bop_eqb (a b : bop) : bool :=
  match a, b with
  | Conjunction, Conjunction | Disjunction, Disjunction
  | MaterialConditional, MaterialConditional
  | MaterialBiconditional, MaterialBiconditional
  | Conditional, Conditional | Biconditional, Biconditional => true
  | _, _ => false
  end.
Definition mop_eqb (a b : mop) : bool :=
  match a, b with Possibility, Possibility | Necessity, Necessity => true | _, _ => false end.
Definition quant_eqb (a b : quant) : bool :=
  match a, b with Existential, Existential | Universal, Universal => true | _, _ => false end.

Lemma uop_eqb_eq a b : uop_eqb a b = true <-> a = b.
Proof. destruct a, b; simpl; split; intro H; try reflexivity; discriminate. Qed.
Lemma bop_eqb_eq a b : bop_eqb a b = true <-> a = b.
Proof. destruct a, b; simpl; split; intro H; try reflexivity; discriminate. Qed.
Lemma mop_eqb_eq a b : mop_eqb a b = true <-> a = b.
Proof. destruct a, b; simpl; split; intro H; try reflexivity; discriminate. Qed.
Lemma quant_eqb_eq a b : quant_eqb a b = true <-> a = b.
Proof. destruct a, b; simpl; split; intro H; try reflexivity; discriminate. Qed.

(* A logic's truth-functional part. *)
Record tables := {
  t_vals : list val;
  t_des  : val -> bool;
  t_un   : uop -> val -> val;
  t_bin  : bop -> val -> val -> val }.

(* Equality of two tables on a value set, as a decidable check. *)
Definition un_agree (vs : list val) (f g : uop -> val -> val) : bool :=
  forallb (fun o => forallb (fun a => val_eqb (f o a) (g o a)) vs) all_uops.
Definition bin_agree (vs : list val) (f g : bop -> val -> val -> val) : bool :=
  forallb (fun o => forallb (fun a => forallb (fun b =>
     val_eqb (f o a b) (g o a b)) vs) vs) all_bops.
Definition des_agree (vs : list val) (f g : val -> bool) : bool :=
  forallb (fun a => Bool.eqb (f a) (g a)) vs.
Definition vals_agree (a b : list val) : bool :=
  forallb (fun v => Bool.eqb (vmem v a) (vmem v b)) all_vals.

Definition tables_agree (c l : tables) : bool :=
  vals_agree (t_vals c) (t_vals l) &&
  des_agree (t_vals l) (t_des c) (t_des l) &&
  un_agree (t_vals l) (t_un c) (t_un l) &&
  bin_agree (t_vals l) (t_bin c) (t_bin l).

Lemma vals_agree_spec a b : vals_agree a b = true -> forall v, In v a <-> In v b.
Proof.
  unfold vals_agree. rewrite forallb_forall. intros H v.
  specialize (H v (all_vals_complete v)). apply Bool.eqb_prop in H.
  rewrite <- !vmem_In. rewrite H. tauto.
Qed.

Lemma un_agree_spec vs f g : un_agree vs f g = true ->
  forall o a, In a vs -> f o a = g o a.
Proof.
  unfold un_agree. rewrite forallb_forall. intros H o a Ha.
  specialize (H o (all_uops_complete o)). rewrite forallb_forall in H.
  apply val_eqb_eq. apply H. exact Ha.
Qed.

Lemma bin_agree_spec vs f g : bin_agree vs f g = true ->
  forall o a b, In a vs -> In b vs -> f o a b = g o a b.
Proof.
  unfold bin_agree. rewrite forallb_forall. intros H o a b Ha Hb.
  specialize (H o (all_bops_complete o)). rewrite forallb_forall in H.
  specialize (H a Ha). rewrite forallb_forall in H.
  apply val_eqb_eq. apply H. exact Hb.
Qed.

Lemma des_agree_spec vs f g : des_agree vs f g = true ->
  forall a, In a vs -> f a = g a.
Proof.
  unfold des_agree. rewrite forallb_forall. intros H a Ha.
  apply Bool.eqb_prop. apply H. exact Ha.
Qed.

Theorem tables_agree_spec c l : tables_agree c l = true ->
  (forall v, In v (t_vals c) <-> In v (t_vals l)) /\
  (forall a, In a (t_vals l) -> t_des c a = t_des l a) /\
  (forall o a, In a (t_vals l) -> t_un c o a = t_un l o a) /\
  (forall o a b, In a (t_vals l) -> In b (t_vals l) -> t_bin c o a b = t_bin l o a b).
Proof.
  unfold tables_agree. rewrite !andb_true_iff. intros [[[H1 H2] H3] H4].
  split; [|split; [|split]].
  - apply vals_agree_spec; exact H1.
  - apply des_agree_spec; exact H2.
  - apply un_agree_spec; exact H3.
  - apply bin_agree_spec; exact H4.
Qed.
