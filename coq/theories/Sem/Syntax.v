(* Sentences of the logic core: letters, predications, the eight
   truth-functional operators, the two modal operators, the two quantifiers.
   Parameters are named by naturals (the exporter numbers the implementation's
   (index, subscript) pairs injectively). *)
From Coq Require Import List Bool Arith.
From PT Require Import Sem.Values.
Import ListNotations.

Inductive term := TC (c : nat) | TV (x : nat).

Inductive sent :=
| Atom (n : nat)
| Pred (p : nat) (ts : list term)
| Un (o : uop) (a : sent)
| Bin (o : bop) (a b : sent)
| Mod (o : mop) (a : sent)
| Qu (q : quant) (x : nat) (a : sent).

Definition term_eqb (a b : term) : bool :=
  match a, b with
  | TC x, TC y | TV x, TV y => Nat.eqb x y
  | _, _ => false
  end.

Lemma term_eqb_eq a b : term_eqb a b = true <-> a = b.
Proof.
  destruct a, b; simpl; rewrite ?Nat.eqb_eq; split; intro H;
    try discriminate; try (injection H as ->); try subst; reflexivity.
Qed.

Fixpoint terms_eqb (a b : list term) : bool :=
  match a, b with
  | [], [] => true
  | x :: r, y :: s => term_eqb x y && terms_eqb r s
  | _, _ => false
  end.

Lemma terms_eqb_eq a b : terms_eqb a b = true <-> a = b.
Proof.
  revert b; induction a as [|x r IH]; intros [|y s]; simpl; try (split; intro H; [discriminate|discriminate]);
    try (split; reflexivity).
  rewrite andb_true_iff, term_eqb_eq, IH. split.
  - intros [-> ->]. reflexivity.
  - intro H. injection H as -> ->. auto.
Qed.

Fixpoint sent_eqb (a b : sent) : bool :=
  match a, b with
  | Atom n, Atom m => Nat.eqb n m
  | Pred p ts, Pred q us => Nat.eqb p q && terms_eqb ts us
  | Un o x, Un o' y => uop_eqb o o' && sent_eqb x y
  | Bin o x1 x2, Bin o' y1 y2 => bop_eqb o o' && sent_eqb x1 y1 && sent_eqb x2 y2
  | Mod o x, Mod o' y => mop_eqb o o' && sent_eqb x y
  | Qu q v x, Qu q' v' y => quant_eqb q q' && Nat.eqb v v' && sent_eqb x y
  | _, _ => false
  end.

Lemma sent_eqb_eq a : forall b, sent_eqb a b = true <-> a = b.
Proof.
  induction a as [n|p ts|o a IH|o a1 IH1 a2 IH2|o a IH|q v a IH]; intros b; destruct b; simpl;
    try (split; intro H; discriminate).
  - rewrite Nat.eqb_eq. split; [intros ->; reflexivity | intro H; injection H; auto].
  - rewrite andb_true_iff, Nat.eqb_eq, terms_eqb_eq. split.
    + intros [-> ->]; reflexivity.
    + intro H; injection H; auto.
  - rewrite andb_true_iff, uop_eqb_eq, IH. split.
    + intros [-> ->]; reflexivity.
    + intro H; injection H; auto.
  - rewrite !andb_true_iff, bop_eqb_eq, IH1, IH2. split.
    + intros [[-> ->] ->]; reflexivity.
    + intro H; injection H; auto.
  - rewrite andb_true_iff, mop_eqb_eq, IH. split.
    + intros [-> ->]; reflexivity.
    + intro H; injection H; auto.
  - rewrite !andb_true_iff, quant_eqb_eq, Nat.eqb_eq, IH. split.
    + intros [[-> ->] ->]; reflexivity.
    + intro H; injection H; auto.
Qed.

Lemma sent_eqb_refl a : sent_eqb a a = true.
Proof. apply sent_eqb_eq. reflexivity. Qed.

Definition neg (s : sent) : sent := Un Negation s.

(* Quantifier- and modality-free sentences. *)
Fixpoint propositional (s : sent) : bool :=
  match s with
  | Atom _ => true
  | Pred _ _ => false
  | Un _ a => propositional a
  | Bin _ a b => propositional a && propositional b
  | Mod _ _ => false
  | Qu _ _ _ => false
  end.

Fixpoint atoms (s : sent) : list nat :=
  match s with
  | Atom n => [n]
  | Pred _ _ => []
  | Un _ a => atoms a
  | Bin _ a b => atoms a ++ atoms b
  | Mod _ a => atoms a
  | Qu _ _ a => atoms a
  end.

Fixpoint size (s : sent) : nat :=
  match s with
  | Atom _ | Pred _ _ => 1
  | Un _ a | Mod _ a | Qu _ _ a => S (size a)
  | Bin _ a b => S (size a + size b)
  end.
