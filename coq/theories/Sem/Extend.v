(* C11: a logic L whose semantics is a sub-semantics of L' (same values on L's
   value set, same designation, same tables and generalisers there, frame class
   contained) has only models that are also L'-models with the same evaluation;
   hence every L'-valid argument has no L-countermodel. *)
From Coq Require Import List Bool Arith.
From PT Require Import Util.Finite Sem.Values Sem.Lit Sem.Syntax Sem.Gen Sem.Model.
Import ListNotations.

(* S is the extension (stronger logic), S' the logic it extends *)
Definition sub_sem (S S' : sem) : bool :=
  let vs := t_vals (s_t S) in
  forallb (fun v => vmem v (t_vals (s_t S'))) vs &&
  des_agree vs (t_des (s_t S)) (t_des (s_t S')) &&
  un_agree vs (t_un (s_t S)) (t_un (s_t S')) &&
  bin_agree vs (t_bin (s_t S)) (t_bin (s_t S')) &&
  forallb (fun sub => val_eqb (gapp (s_ge S) (mem_of sub)) (gapp (s_ge S') (mem_of sub)) &&
                      val_eqb (gapp (s_gu S) (mem_of sub)) (gapp (s_gu S') (mem_of sub)))
          (sublists vs) &&
  implb (s_modal S') (s_modal S) && implb (s_quant S') (s_quant S) &&
  closed_ok (s_t S) && gen_closed S.

Lemma gen_agree S S' vs : sub_sem S S' = true -> (forall v, In v vs -> In v (t_vals (s_t S))) ->
  gapp (s_ge S) (mem_of vs) = gapp (s_ge S') (mem_of vs) /\
  gapp (s_gu S) (mem_of vs) = gapp (s_gu S') (mem_of vs).
Proof.
  unfold sub_sem. rewrite !andb_true_iff. intros [[[[[[[[_ _] _] _] H] _] _] _] _] Hin.
  rewrite forallb_forall in H. specialize (H _ (canon_in_sublists (t_vals (s_t S)) vs)).
  apply andb_true_iff in H. destruct H as [H1 H2]. apply val_eqb_eq in H1, H2.
  pose proof (canon_mem _ _ Hin) as Hm.
  rewrite (gapp_ext (s_ge S) _ _ Hm), (gapp_ext (s_ge S') _ _ Hm).
  rewrite (gapp_ext (s_gu S) _ _ Hm), (gapp_ext (s_gu S') _ _ Hm). auto.
Qed.

Theorem eval_sub S S' M : sub_sem S S' = true -> model_wf S M ->
  forall s, interp S' s = true -> forall w env, eval S' M w env s = eval S M w env s.
Proof.
  intros Hs Hwf.
  pose proof Hs as Hs0. unfold sub_sem in Hs0. rewrite !andb_true_iff in Hs0.
  destruct Hs0 as [[[[[[[[Hv Hd] Hu] Hb] Hg] Hm] Hq] Hc] Hgc].
  assert (Hvals : forall s w env, In (eval S M w env s) (t_vals (s_t S))).
  { intros. apply eval_vals; assumption. }
  induction s as [n|p ts|o a IH|o a IHa b IHb|o a IH|q x a IH]; intros Hi w env; simpl in *.
  - reflexivity.
  - reflexivity.
  - rewrite IH by exact Hi. symmetry. apply (un_agree_spec _ _ _ Hu). apply Hvals.
  - apply andb_true_iff in Hi. destruct Hi as [I1 I2].
    rewrite IHa, IHb by assumption. symmetry. apply (bin_agree_spec _ _ _ Hb); apply Hvals.
  - apply andb_true_iff in Hi. destruct Hi as [Hm' Hi]. rewrite Hm'. rewrite Hm' in Hm. simpl in Hm. rewrite Hm.
    assert (E : map (fun u => eval S' M u env a) (acc M w) = map (fun u => eval S M u env a) (acc M w)).
    { apply map_ext. intro u. apply IH. exact Hi. }
    rewrite E.
    assert (Hin : forall v, In v (map (fun u => eval S M u env a) (acc M w)) -> In v (t_vals (s_t S))).
    { intros v Hv0. apply in_map_iff in Hv0. destruct Hv0 as [u [<- _]]. apply Hvals. }
    destruct (gen_agree S S' _ Hs Hin) as [G1 G2]. destruct o; [rewrite G1|rewrite G2]; reflexivity.
  - apply andb_true_iff in Hi. destruct Hi as [Hq' Hi]. rewrite Hq'. rewrite Hq' in Hq. simpl in Hq. rewrite Hq.
    assert (E : map (fun d => eval S' M w (upd env x d) a) (m_dom M) =
                map (fun d => eval S M w (upd env x d) a) (m_dom M)).
    { apply map_ext. intro d. apply IH. exact Hi. }
    rewrite E.
    assert (Hin : forall v, In v (map (fun d => eval S M w (upd env x d) a) (m_dom M)) -> In v (t_vals (s_t S))).
    { intros v Hv0. apply in_map_iff in Hv0. destruct Hv0 as [u [<- _]]. apply Hvals. }
    destruct (gen_agree S S' _ Hs Hin) as [G1 G2]. destruct q; [rewrite G1|rewrite G2]; reflexivity.
Qed.

Lemma sub_model_wf S S' M : sub_sem S S' = true -> model_wf S M -> model_wf S' M.
Proof.
  intros Hs [H1 H2 H3 H4 H5]. unfold sub_sem in Hs. rewrite !andb_true_iff in Hs.
  destruct Hs as [[[[[[[[Hv _] _] _] _] _] _] _] _]. rewrite forallb_forall in Hv.
  constructor; auto; intros; apply vmem_In; apply Hv; auto.
Qed.

Lemma sub_des S S' v : sub_sem S S' = true -> In v (t_vals (s_t S)) -> t_des (s_t S') v = t_des (s_t S) v.
Proof.
  intros Hs Hin. unfold sub_sem in Hs. rewrite !andb_true_iff in Hs.
  destruct Hs as [[[[[[[[_ Hd] _] _] _] _] _] _] _]. symmetry. apply (des_agree_spec _ _ _ Hd). exact Hin.
Qed.
