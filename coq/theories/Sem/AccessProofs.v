(* Proofs about the functional model of pytableaux Access closure loops
   (Sem/Access.v): well-formedness, exact characterisation of every enforce
   variant, and sufficiency of the stated fuel (the `while True` loops
   terminate). Stdlib only, no axioms. *)
From Coq Require Import List Bool Arith Lia.
From Coq Require Import Relations.Relation_Definitions Relations.Relation_Operators
  Relations.Operators_Properties.
From PT Require Import Sem.Access.
Import ListNotations.

(* the relation denoted by an access *)
Definition accR (a : access) : nat -> nat -> Prop := fun x y => In (x, y) (ap a).

(* ------------------------------------------------------------------ *)
(** * 0. Basics: membership tests, addw/addp *)

Lemma pair_eqb_eq p q : pair_eqb p q = true <-> p = q.
Proof.
  destruct p as [a b], q as [c d]; unfold pair_eqb; cbn [fst snd].
  rewrite andb_true_iff, !Nat.eqb_eq. split.
  - intros [E1 E2]; subst; reflexivity.
  - intros E; inversion E; auto.
Qed.

Lemma memn_In x l : memn x l = true <-> In x l.
Proof.
  unfold memn. rewrite existsb_exists. split.
  - intros [y [Hy E]]. apply Nat.eqb_eq in E. subst; exact Hy.
  - intros H; exists x; split; [exact H | apply Nat.eqb_refl].
Qed.

Lemma memp_In p l : memp p l = true <-> In p l.
Proof.
  unfold memp. rewrite existsb_exists. split.
  - intros [q [Hq E]]. apply pair_eqb_eq in E. subst; exact Hq.
  - intros H; exists p; split; [exact H | apply pair_eqb_eq; reflexivity].
Qed.

Lemma In_addw x w l : In x (addw w l) <-> In x l \/ x = w.
Proof.
  unfold addw. destruct (memn w l) eqn:E.
  - apply memn_In in E. split; [auto | intros [H|H]; subst; auto].
  - rewrite in_app_iff. cbn [In]. intuition congruence.
Qed.

Lemma In_addp q p l : In q (addp p l) <-> In q l \/ q = p.
Proof.
  unfold addp. destruct (memp p l) eqn:E.
  - apply memp_In in E. split; [auto | intros [H|H]; subst; auto].
  - rewrite in_app_iff. cbn [In]. intuition congruence.
Qed.

Lemma addw_id w l : In w l -> addw w l = l.
Proof. intros H. unfold addw. apply memn_In in H. rewrite H. reflexivity. Qed.

Lemma NoDup_snoc (w : nat) l : NoDup l -> ~ In w l -> NoDup (l ++ [w]).
Proof.
  induction 1 as [|x l Hx Hl IH]; intros Hw; cbn [app].
  - constructor; [intros [] | constructor].
  - constructor.
    + rewrite in_app_iff. cbn [In]. intros [H|[H|[]]]; [auto|].
      apply Hw. left. symmetry. exact H.
    + apply IH. intros H. apply Hw. right. exact H.
Qed.

Lemma addw_NoDup w l : NoDup l -> NoDup (addw w l).
Proof.
  intros H. unfold addw. destruct (memn w l) eqn:E; [exact H|].
  apply NoDup_snoc; [exact H|]. intros C. apply memn_In in C. congruence.
Qed.

(* ------------------------------------------------------------------ *)
(** * 1. acc_init / acc_touch / acc_add *)

Lemma acc_add_aw a p w :
  In w (aw (acc_add a p)) <-> In w (aw a) \/ w = fst p \/ w = snd p.
Proof. unfold acc_add; cbn [aw]. rewrite !In_addw. tauto. Qed.

Lemma acc_add_ap a p q : In q (ap (acc_add a p)) <-> In q (ap a) \/ q = p.
Proof. unfold acc_add; cbn [ap]. apply In_addp. Qed.

Lemma acc_touch_aw a v w : In w (aw (acc_touch a v)) <-> In w (aw a) \/ w = v.
Proof. unfold acc_touch; cbn [aw]. apply In_addw. Qed.

Lemma acc_touch_ap a v : ap (acc_touch a v) = ap a.
Proof. reflexivity. Qed.

Lemma acc_init_wf : acc_wf acc_init.
Proof. intros x y []. Qed.

Lemma acc_touch_wf a w : acc_wf a -> acc_wf (acc_touch a w).
Proof.
  intros W x y H. rewrite acc_touch_ap in H. rewrite !acc_touch_aw.
  destruct (W _ _ H). auto.
Qed.

Lemma acc_add_wf a p : acc_wf a -> acc_wf (acc_add a p).
Proof.
  intros W x y H. apply acc_add_ap in H. rewrite !acc_add_aw.
  destruct H as [H|H].
  - destruct (W _ _ H). auto.
  - subst p. cbn [fst snd]. auto.
Qed.

Lemma acc_add_aw_same a p :
  In (fst p) (aw a) -> In (snd p) (aw a) -> aw (acc_add a p) = aw a.
Proof.
  intros H1 H2. unfold acc_add; cbn [aw].
  rewrite (addw_id (fst p)) by assumption. apply addw_id; assumption.
Qed.

Lemma acc_init_NoDup : NoDup (aw acc_init).
Proof. cbn. constructor; [intros [] | constructor]. Qed.

Lemma acc_touch_NoDup a w : NoDup (aw a) -> NoDup (aw (acc_touch a w)).
Proof. intros H. unfold acc_touch; cbn [aw]. apply addw_NoDup; exact H. Qed.

Lemma acc_add_NoDup a p : NoDup (aw a) -> NoDup (aw (acc_add a p)).
Proof. intros H. unfold acc_add; cbn [aw]. apply addw_NoDup, addw_NoDup; exact H. Qed.

(** ** folds of acc_add *)

Lemma fold_add_map {A} (f : A -> nat * nat) l : forall a,
  fold_left (fun a w => acc_add a (f w)) l a = fold_left acc_add (map f l) a.
Proof.
  induction l as [|x l IH]; intros a; cbn [fold_left map]; [reflexivity | apply IH].
Qed.

Lemma fold_add_wf ps : forall a, acc_wf a -> acc_wf (fold_left acc_add ps a).
Proof.
  induction ps as [|p ps IH]; intros a W; cbn [fold_left]; [exact W|].
  apply IH, acc_add_wf, W.
Qed.

Lemma fold_add_ap ps : forall a q,
  In q (ap (fold_left acc_add ps a)) <-> In q (ap a) \/ In q ps.
Proof.
  induction ps as [|p ps IH]; intros a q; cbn [fold_left In].
  - tauto.
  - rewrite IH, acc_add_ap. intuition congruence.
Qed.

Lemma fold_add_aw ps : forall a w,
  In w (aw (fold_left acc_add ps a)) <->
  In w (aw a) \/ exists p, In p ps /\ (w = fst p \/ w = snd p).
Proof.
  induction ps as [|p ps IH]; intros a w; cbn [fold_left].
  - split; [auto | intros [H|[p [[] _]]]; exact H].
  - rewrite IH, acc_add_aw. split.
    + intros [[H|H]|[q [Hq H]]].
      * auto.
      * right. exists p. split; [left; reflexivity | exact H].
      * right. exists q. split; [right; exact Hq | exact H].
    + intros [H|[q [[E|Hq] H]]].
      * auto.
      * subst q. left. right. exact H.
      * right. exists q. auto.
Qed.

Lemma fold_add_aw_same ps : forall a,
  (forall p, In p ps -> In (fst p) (aw a) /\ In (snd p) (aw a)) ->
  aw (fold_left acc_add ps a) = aw a.
Proof.
  induction ps as [|p ps IH]; intros a H; cbn [fold_left]; [reflexivity|].
  assert (E : aw (acc_add a p) = aw a)
    by (apply acc_add_aw_same; apply H; left; reflexivity).
  rewrite IH; [exact E|]. intros q Hq. rewrite E. apply H. right; exact Hq.
Qed.

Lemma fold_add_NoDup ps : forall a, NoDup (aw a) -> NoDup (aw (fold_left acc_add ps a)).
Proof.
  induction ps as [|p ps IH]; intros a H; cbn [fold_left]; [exact H|].
  apply IH, acc_add_NoDup, H.
Qed.

(* ------------------------------------------------------------------ *)
(** * 2. refl_enforce *)

Lemma refl_enforce_unfold a :
  refl_enforce a = fold_left acc_add (map (fun w => (w, w)) (aw a)) a.
Proof. unfold refl_enforce. apply fold_add_map. Qed.

Lemma refl_enforce_wf a : acc_wf a -> acc_wf (refl_enforce a).
Proof. intros W. rewrite refl_enforce_unfold. apply fold_add_wf, W. Qed.

Lemma refl_enforce_aw a : aw (refl_enforce a) = aw a.
Proof.
  rewrite refl_enforce_unfold. apply fold_add_aw_same.
  intros p Hp. apply in_map_iff in Hp. destruct Hp as [w [E Hw]]. subst p.
  cbn [fst snd]. auto.
Qed.

Lemma refl_enforce_ap a x y :
  In (x, y) (ap (refl_enforce a)) <-> In (x, y) (ap a) \/ (x = y /\ In x (aw a)).
Proof.
  rewrite refl_enforce_unfold, fold_add_ap, in_map_iff. split.
  - intros [H|[w [E Hw]]]; [auto|]. inversion E; subst. auto.
  - intros [H|[E H]]; [auto|]. subst y. right. exists x. auto.
Qed.

Theorem refl_enforce_spec a : acc_wf a ->
  let r := refl_enforce a in
  acc_wf r /\
  (forall w, In w (aw r) <-> In w (aw a)) /\
  (forall x y, In (x, y) (ap r) <-> In (x, y) (ap a) \/ (x = y /\ In x (aw a))).
Proof.
  intros W r. subst r. split; [apply refl_enforce_wf, W|]. split.
  - intros w. rewrite refl_enforce_aw. tauto.
  - apply refl_enforce_ap.
Qed.

(* ------------------------------------------------------------------ *)
(** * 3. rt_enforce *)

(** ** generic filter / measure lemmas *)

Lemma filter_length_le' {A} (f : A -> bool) l : length (filter f l) <= length l.
Proof.
  induction l as [|x l IH]; cbn [filter length]; [lia|].
  destruct (f x); cbn [length]; lia.
Qed.

Lemma filter_len_le {A} (f g : A -> bool) l :
  (forall x, In x l -> g x = true -> f x = true) ->
  length (filter g l) <= length (filter f l).
Proof.
  induction l as [|x l IH]; intros H; cbn [filter]; [lia|].
  assert (IH' : length (filter g l) <= length (filter f l))
    by (apply IH; intros y Hy; apply H; right; exact Hy).
  destruct (g x) eqn:Eg.
  - rewrite (H x (or_introl eq_refl) Eg). cbn [length]. lia.
  - destruct (f x); cbn [length]; lia.
Qed.

Lemma filter_len_lt {A} (f g : A -> bool) l :
  (forall x, In x l -> g x = true -> f x = true) ->
  (exists x, In x l /\ f x = true /\ g x = false) ->
  length (filter g l) < length (filter f l).
Proof.
  induction l as [|x l IH]; intros H [z [Hz [Fz Gz]]]; [destruct Hz|].
  cbn [filter].
  assert (Hl : forall y, In y l -> g y = true -> f y = true)
    by (intros y Hy; apply H; right; exact Hy).
  pose proof (filter_len_le f g l Hl) as LE.
  destruct Hz as [Hz|Hz].
  - subst z. rewrite Fz, Gz. cbn [length]. lia.
  - assert (LT : length (filter g l) < length (filter f l))
      by (apply IH; [exact Hl | exists z; auto]).
    destruct (g x) eqn:Eg.
    + rewrite (H x (or_introl eq_refl) Eg). cbn [length]. lia.
    + destruct (f x); cbn [length]; lia.
Qed.

Lemma filter_nil_iff {A} (f : A -> bool) l :
  filter f l = [] <-> forall x, In x l -> f x = false.
Proof.
  split.
  - intros E x Hx. destruct (f x) eqn:F; [|reflexivity].
    assert (H : In x (filter f l)) by (apply filter_In; auto).
    rewrite E in H. destruct H.
  - induction l as [|x l IH]; intros H; cbn [filter]; [reflexivity|].
    rewrite (H x (or_introl eq_refl)). apply IH. intros y Hy. apply H. right; exact Hy.
Qed.

(* number of pairs of aw x aw (counted with the multiplicities of aw) not yet in ap *)
Definition missing (a : access) : nat :=
  length (filter (fun p => negb (memp p (ap a))) (list_prod (aw a) (aw a))).

Lemma missing_le a : missing a <= length (aw a) * length (aw a).
Proof. unfold missing. rewrite <- prod_length. apply filter_length_le'. Qed.

Lemma missing_mono a b :
  aw b = aw a -> (forall q, In q (ap a) -> In q (ap b)) -> missing b <= missing a.
Proof.
  intros E H. unfold missing. rewrite E. apply filter_len_le.
  intros q _ Hq. destruct (memp q (ap a)) eqn:M; [|reflexivity].
  apply memp_In in M. apply H in M. apply memp_In in M. rewrite M in Hq. discriminate.
Qed.

Lemma missing_lt a b p :
  aw b = aw a -> (forall q, In q (ap a) -> In q (ap b)) ->
  In (fst p) (aw a) -> In (snd p) (aw a) -> ~ In p (ap a) -> In p (ap b) ->
  missing b < missing a.
Proof.
  intros E H H1 H2 Hn Hb. unfold missing. rewrite E. apply filter_len_lt.
  - intros q _ Hq. destruct (memp q (ap a)) eqn:M; [|reflexivity].
    apply memp_In in M. apply H in M. apply memp_In in M. rewrite M in Hq. discriminate.
  - exists p. split; [|split].
    + destruct p as [x y]. apply in_prod; assumption.
    + destruct (memp p (ap a)) eqn:M; [|reflexivity].
      apply memp_In in M. contradiction.
    + apply memp_In in Hb. rewrite Hb. reflexivity.
Qed.

(** ** closure lemmas *)

Lemma clos_rt_sandwich (P Q : nat -> nat -> Prop) :
  (forall x y, P x y -> Q x y) ->
  (forall x y, Q x y -> clos_refl_trans nat P x y) ->
  forall x y, clos_refl_trans nat Q x y <-> clos_refl_trans nat P x y.
Proof.
  intros H1 H2 x y. split; intros H.
  - induction H as [x y H | x | x y z Hxy IHxy Hyz IHyz].
    + apply H2; exact H.
    + apply rt_refl.
    + apply rt_trans with y; assumption.
  - induction H as [x y H | x | x y z Hxy IHxy Hyz IHyz].
    + apply rt_step, H1; exact H.
    + apply rt_refl.
    + apply rt_trans with y; assumption.
Qed.

Lemma rt_least_gen a (Q : nat -> nat -> Prop) :
  acc_wf a ->
  (forall x y, accR a x y -> Q x y) ->
  (forall x, In x (aw a) -> Q x x) ->
  (forall x y z, Q x y -> Q y z -> Q x z) ->
  forall x y, clos_refl_trans nat (accR a) x y -> In x (aw a) -> Q x y.
Proof.
  intros W Hsub Hrefl Htr x y H. apply clos_rt_rt1n in H.
  induction H as [x | x y z Hxy Hyz IH]; intros Hx.
  - apply Hrefl; exact Hx.
  - apply Htr with y; [apply Hsub; exact Hxy | apply IH; apply (W _ _ Hxy)].
Qed.

(** ** succs / trans_missing *)

Lemma succs_In a w v : In v (succs a w) <-> In (w, v) (ap a).
Proof.
  unfold succs. rewrite in_map_iff. split.
  - intros [[x y] [E H]]. apply filter_In in H. destruct H as [H1 H2].
    cbn [fst snd] in *. apply Nat.eqb_eq in H2. subst. exact H1.
  - intros H. exists (w, v). split; [reflexivity|]. apply filter_In.
    split; [exact H|]. cbn [fst]. apply Nat.eqb_refl.
Qed.

Lemma trans_missing_In a x z :
  In (x, z) (trans_missing a) <->
  In x (aw a) /\ exists y, In (x, y) (ap a) /\ In (y, z) (ap a) /\ ~ In (x, z) (ap a).
Proof.
  unfold trans_missing. rewrite in_flat_map. split.
  - intros [w1 [H1 H]]. apply in_flat_map in H. destruct H as [w2 [H2 H]].
    apply in_flat_map in H. destruct H as [w3 [H3 H]].
    destruct (memn w3 (succs a w1)) eqn:M; [destruct H|].
    destruct H as [H|[]]. injection H as E1 E2. subst w1 w3.
    split; [exact H1|]. exists w2. rewrite <- !succs_In.
    split; [exact H2|]. split; [exact H3|]. intros C. apply memn_In in C. congruence.
  - intros [Hx [y [H1 [H2 H3]]]]. exists x. split; [exact Hx|].
    apply in_flat_map. exists y. split; [apply succs_In; exact H1|].
    apply in_flat_map. exists z. split; [apply succs_In; exact H2|].
    destruct (memn z (succs a x)) eqn:M.
    + exfalso. apply H3. apply succs_In, memn_In. exact M.
    + left; reflexivity.
Qed.

Lemma trans_missing_nil a : acc_wf a -> trans_missing a = [] ->
  forall x y z, In (x, y) (ap a) -> In (y, z) (ap a) -> In (x, z) (ap a).
Proof.
  intros W E x y z H1 H2.
  destruct (memp (x, z) (ap a)) eqn:M; [apply memp_In; exact M|].
  exfalso. assert (H : In (x, z) (trans_missing a)).
  { apply trans_missing_In. split; [apply (W _ _ H1)|]. exists y.
    split; [exact H1|]. split; [exact H2|]. intros C. apply memp_In in C. congruence. }
  rewrite E in H. exact H.
Qed.

Lemma trans_missing_inside a p : acc_wf a -> In p (trans_missing a) ->
  In (fst p) (aw a) /\ In (snd p) (aw a).
Proof.
  intros W H. destruct p as [x z]. apply trans_missing_In in H.
  destruct H as [Hx [y [H1 [H2 _]]]]. cbn [fst snd].
  split; [exact Hx | apply (W _ _ H2)].
Qed.

Lemma refl_sub_clos a x y : acc_wf a -> In (x, y) (ap (refl_enforce a)) ->
  In x (aw a) /\ clos_refl_trans nat (accR a) x y.
Proof.
  intros W H. apply refl_enforce_ap in H. destruct H as [H|[E H]].
  - split; [apply (W _ _ H) | apply rt_step; exact H].
  - subst y. split; [exact H | apply rt_refl].
Qed.

(** ** the loop: any fuel above the measure suffices *)

Lemma rt_loop_spec : forall fuel a, acc_wf a -> missing a < fuel ->
  exists r, rt_loop fuel a = Some r /\ acc_wf r /\ aw r = aw a /\
    (forall x y, In (x, y) (ap r) <-> In x (aw a) /\ clos_refl_trans nat (accR a) x y).
Proof.
  induction fuel as [|n IH]; intros a W Hm; [lia|].
  cbn [rt_loop].
  pose proof (refl_enforce_wf a W) as W1.
  pose proof (refl_enforce_aw a) as A1.
  assert (S1 : forall q, In q (ap a) -> In q (ap (refl_enforce a))).
  { intros [u v] H. apply refl_enforce_ap. left; exact H. }
  pose proof (refl_sub_clos a) as C1.
  assert (Rf1 : forall x, In x (aw a) -> In (x, x) (ap (refl_enforce a))).
  { intros x Hx. apply refl_enforce_ap. right. auto. }
  set (a1 := refl_enforce a) in *.
  destruct (trans_missing a1) as [|p ps] eqn:E.
  - exists a1. split; [reflexivity|]. split; [exact W1|]. split; [exact A1|].
    intros x y. split.
    + intros H. apply C1; assumption.
    + intros [Hx H]. apply (rt_least_gen a (accR a1) W); try assumption.
      * intros u v Huv. apply S1. exact Huv.
      * unfold accR. apply trans_missing_nil; assumption.
  - rewrite <- E. set (a2 := fold_left acc_add (trans_missing a1) a1).
    assert (W2 : acc_wf a2) by (apply fold_add_wf, W1).
    assert (A2 : aw a2 = aw a1).
    { apply fold_add_aw_same. intros q Hq. apply trans_missing_inside; assumption. }
    assert (P2 : forall q, In q (ap a2) <-> In q (ap a1) \/ In q (trans_missing a1))
      by (intros q; apply fold_add_ap).
    assert (Hp : In p (trans_missing a1)) by (rewrite E; left; reflexivity).
    assert (M2 : missing a2 < missing a1).
    { destruct (trans_missing_inside a1 p W1 Hp) as [I1 I2].
      apply (missing_lt a1 a2 p A2); try assumption.
      - intros q Hq. apply P2. left; exact Hq.
      - destruct p as [u v]. apply trans_missing_In in Hp.
        destruct Hp as [_ [m [_ [_ Hn]]]]. exact Hn.
      - apply P2. right; exact Hp. }
    assert (M1 : missing a1 <= missing a) by (apply missing_mono; assumption).
    destruct (IH a2 W2 ltac:(lia)) as [r [Er [Wr [Ar Hr]]]].
    exists r. split; [exact Er|]. split; [exact Wr|]. split; [congruence|].
    intros x y.
    assert (C : clos_refl_trans nat (accR a2) x y <-> clos_refl_trans nat (accR a) x y).
    { apply clos_rt_sandwich.
      - intros u v H. unfold accR in *. apply P2. left. apply S1. exact H.
      - intros u v H. unfold accR in H. apply P2 in H. destruct H as [H|H].
        + apply (C1 u v W H).
        + apply trans_missing_In in H. destruct H as [_ [m [H1 [H2 _]]]].
          apply rt_trans with m; [apply (C1 u m W H1) | apply (C1 m v W H2)]. }
    rewrite Hr, A2, A1, C. tauto.
Qed.

(* exact form with literal equality of the key list and clos_refl_trans *)
Theorem rt_enforce_spec_rt a : acc_wf a ->
  exists r, rt_enforce a = Some r /\ acc_wf r /\ aw r = aw a /\
    (forall x y, In (x, y) (ap r) <-> In x (aw a) /\ clos_refl_trans nat (accR a) x y).
Proof.
  intros W. apply rt_loop_spec; [exact W|]. unfold rt_fuel.
  pose proof (missing_le a). lia.
Qed.

Theorem rt_enforce_spec a : acc_wf a ->
  exists r, rt_enforce a = Some r /\ acc_wf r /\
    (forall w, In w (aw r) <-> In w (aw a)) /\
    (forall x y, In (x, y) (ap r) <-> In x (aw a) /\ clos_refl_trans_1n nat (accR a) x y).
Proof.
  intros W. destruct (rt_enforce_spec_rt a W) as [r [E [Wr [Ar Hr]]]].
  exists r. split; [exact E|]. split; [exact Wr|]. split.
  - intros w. rewrite Ar. tauto.
  - intros x y. rewrite <- clos_rt_rt1n_iff. apply Hr.
Qed.

Corollary rt_enforce_total a : acc_wf a -> rt_enforce a <> None.
Proof. intros W. destruct (rt_enforce_spec_rt a W) as [r [E _]]. congruence. Qed.

Corollary rt_enforce_closed a r : acc_wf a -> rt_enforce a = Some r ->
  (forall x, In x (aw r) -> In (x, x) (ap r)) /\
  (forall x y z, In (x, y) (ap r) -> In (y, z) (ap r) -> In (x, z) (ap r)).
Proof.
  intros W E. destruct (rt_enforce_spec_rt a W) as [r' [E' [Wr [Ar Hr]]]].
  rewrite E in E'. injection E' as E'. subst r'. split.
  - intros x Hx. apply Hr. rewrite <- Ar. split; [exact Hx | apply rt_refl].
  - intros x y z H1 H2. apply Hr in H1. apply Hr in H2. apply Hr.
    destruct H1 as [Hx H1]. destruct H2 as [_ H2].
    split; [exact Hx | apply rt_trans with y; assumption].
Qed.

Corollary rt_enforce_least a r (Q : nat -> nat -> Prop) : acc_wf a ->
  rt_enforce a = Some r ->
  (forall x y, accR a x y -> Q x y) ->
  (forall x, In x (aw a) -> Q x x) ->
  (forall x y z, Q x y -> Q y z -> Q x z) ->
  forall x y, In (x, y) (ap r) -> Q x y.
Proof.
  intros W E Hsub Hrefl Htr x y H.
  destruct (rt_enforce_spec_rt a W) as [r' [E' [Wr [Ar Hr]]]].
  rewrite E in E'. injection E' as E'. subst r'.
  apply Hr in H. destruct H as [Hx H].
  apply (rt_least_gen a Q W Hsub Hrefl Htr x y H Hx).
Qed.

Corollary rt_enforce_extends a r : acc_wf a -> rt_enforce a = Some r ->
  forall x y, In (x, y) (ap a) -> In (x, y) (ap r).
Proof.
  intros W E x y H. destruct (rt_enforce_spec_rt a W) as [r' [E' [Wr [Ar Hr]]]].
  rewrite E in E'. injection E' as E'. subst r'.
  apply Hr. split; [apply (W _ _ H) | apply rt_step; exact H].
Qed.

(* ------------------------------------------------------------------ *)
(** * 4. global_enforce *)

Lemma clos_rst_sandwich (P Q : nat -> nat -> Prop) :
  (forall x y, P x y -> Q x y) ->
  (forall x y, Q x y -> clos_refl_sym_trans nat P x y) ->
  forall x y, clos_refl_sym_trans nat Q x y <-> clos_refl_sym_trans nat P x y.
Proof.
  intros H1 H2 x y. split; intros H.
  - induction H as [x y H | x | x y Hxy IHxy | x y z Hxy IHxy Hyz IHyz].
    + apply H2; exact H.
    + apply rst_refl.
    + apply rst_sym; assumption.
    + apply rst_trans with y; assumption.
  - induction H as [x y H | x | x y Hxy IHxy | x y z Hxy IHxy Hyz IHyz].
    + apply rst_step, H1; exact H.
    + apply rst_refl.
    + apply rst_sym; assumption.
    + apply rst_trans with y; assumption.
Qed.

Lemma rst_aw a x y : acc_wf a -> clos_refl_sym_trans nat (accR a) x y ->
  (In x (aw a) <-> In y (aw a)).
Proof.
  intros W H.
  induction H as [x y H | x | x y Hxy IHxy | x y z Hxy IHxy Hyz IHyz].
  - destruct (W _ _ H). tauto.
  - tauto.
  - tauto.
  - tauto.
Qed.

Lemma rst_least_gen a (Q : nat -> nat -> Prop) :
  acc_wf a ->
  (forall x y, accR a x y -> Q x y) ->
  (forall x, In x (aw a) -> Q x x) ->
  (forall x y, Q x y -> Q y x) ->
  (forall x y z, Q x y -> Q y z -> Q x z) ->
  forall x y, clos_refl_sym_trans nat (accR a) x y -> In x (aw a) -> Q x y.
Proof.
  intros W Hsub Hrefl Hsym Htr x y H.
  induction H as [x y H | x | x y Hxy IHxy | x y z Hxy IHxy Hyz IHyz]; intros Hx.
  - apply Hsub; exact H.
  - apply Hrefl; exact Hx.
  - apply Hsym, IHxy. destruct (rst_aw a x y W Hxy) as [_ B]. apply B; exact Hx.
  - apply Htr with y; [apply IHxy; exact Hx|].
    apply IHyz. destruct (rst_aw a x y W Hxy) as [B _]. apply B; exact Hx.
Qed.

Lemma sym_missing_In a x y :
  In (y, x) (sym_missing a) <-> In x (aw a) /\ In (x, y) (ap a) /\ ~ In (y, x) (ap a).
Proof.
  unfold sym_missing. rewrite in_flat_map. split.
  - intros [w1 [H1 H]]. apply in_flat_map in H. destruct H as [w2 [H2 H]].
    destruct (memn w1 (succs a w2)) eqn:M; [destruct H|].
    destruct H as [H|[]]. injection H as E1 E2. subst w1 w2.
    split; [exact H1|]. split; [apply succs_In; exact H2|].
    intros C. apply succs_In, memn_In in C. congruence.
  - intros [Hx [H1 H2]]. exists x. split; [exact Hx|].
    apply in_flat_map. exists y. split; [apply succs_In; exact H1|].
    destruct (memn x (succs a y)) eqn:M.
    + exfalso. apply H2. apply succs_In, memn_In. exact M.
    + left; reflexivity.
Qed.

Lemma sym_missing_nil a : acc_wf a -> sym_missing a = [] ->
  forall x y, In (x, y) (ap a) -> In (y, x) (ap a).
Proof.
  intros W E x y H.
  destruct (memp (y, x) (ap a)) eqn:M; [apply memp_In; exact M|].
  exfalso. assert (H' : In (y, x) (sym_missing a)).
  { apply sym_missing_In. split; [apply (W _ _ H)|]. split; [exact H|].
    intros C. apply memp_In in C. congruence. }
  rewrite E in H'. exact H'.
Qed.

Lemma sym_missing_inside a p : acc_wf a -> In p (sym_missing a) ->
  In (fst p) (aw a) /\ In (snd p) (aw a).
Proof.
  intros W H. destruct p as [y x]. apply sym_missing_In in H.
  destruct H as [Hx [H1 _]]. cbn [fst snd]. split; [apply (W _ _ H1) | exact Hx].
Qed.

Lemma gl_loop_spec : forall fuel a, acc_wf a -> missing a < fuel ->
  exists r, gl_loop fuel a = Some r /\ acc_wf r /\ aw r = aw a /\
    (forall x y, In (x, y) (ap r) <-> In x (aw a) /\ clos_refl_sym_trans nat (accR a) x y).
Proof.
  induction fuel as [|n IH]; intros a W Hm; [lia|].
  cbn [gl_loop].
  destruct (rt_enforce_spec_rt a W) as [a1 [E1 [W1 [A1 P1]]]].
  rewrite E1.
  assert (S1 : forall u v, In (u, v) (ap a) -> In (u, v) (ap a1)).
  { intros u v H. apply P1. split; [apply (W _ _ H) | apply rt_step; exact H]. }
  assert (C1 : forall u v, In (u, v) (ap a1) -> clos_refl_sym_trans nat (accR a) u v).
  { intros u v H. apply P1 in H. destruct H as [_ H]. apply clos_rt_clos_rst; exact H. }
  destruct (sym_missing a1) as [|p ps] eqn:E.
  - exists a1. split; [reflexivity|]. split; [exact W1|]. split; [exact A1|].
    intros x y. split.
    + intros H. split; [|apply C1; exact H]. apply P1 in H. apply H.
    + intros [Hx H]. apply (rst_least_gen a (accR a1) W); try assumption.
      * intros u Hu. apply P1. split; [exact Hu | apply rt_refl].
      * unfold accR. apply sym_missing_nil; assumption.
      * unfold accR. intros u v w Huv Hvw. apply P1 in Huv. apply P1 in Hvw. apply P1.
        destruct Huv as [Hu Huv]. destruct Hvw as [_ Hvw].
        split; [exact Hu | apply rt_trans with v; assumption].
  - rewrite <- E. set (a2 := fold_left acc_add (sym_missing a1) a1).
    assert (W2 : acc_wf a2) by (apply fold_add_wf, W1).
    assert (A2 : aw a2 = aw a1).
    { apply fold_add_aw_same. intros q Hq. apply sym_missing_inside; assumption. }
    assert (P2 : forall q, In q (ap a2) <-> In q (ap a1) \/ In q (sym_missing a1))
      by (intros q; apply fold_add_ap).
    assert (Hp : In p (sym_missing a1)) by (rewrite E; left; reflexivity).
    assert (M2 : missing a2 < missing a1).
    { destruct (sym_missing_inside a1 p W1 Hp) as [I1 I2].
      apply (missing_lt a1 a2 p A2); try assumption.
      - intros q Hq. apply P2. left; exact Hq.
      - destruct p as [u v]. apply sym_missing_In in Hp.
        destruct Hp as [_ [_ Hn]]. exact Hn.
      - apply P2. right; exact Hp. }
    assert (M1 : missing a1 <= missing a).
    { apply missing_mono; [exact A1|]. intros [u v] H. apply S1; exact H. }
    destruct (IH a2 W2 ltac:(lia)) as [r [Er [Wr [Ar Hr]]]].
    exists r. split; [exact Er|]. split; [exact Wr|]. split; [congruence|].
    intros x y.
    assert (C : clos_refl_sym_trans nat (accR a2) x y <-> clos_refl_sym_trans nat (accR a) x y).
    { apply clos_rst_sandwich.
      - intros u v H. unfold accR in *. apply P2. left. apply S1. exact H.
      - intros u v H. unfold accR in H. apply P2 in H. destruct H as [H|H].
        + apply C1; exact H.
        + apply sym_missing_In in H. destruct H as [_ [H _]].
          apply rst_sym, C1. exact H. }
    rewrite Hr, A2, A1, C. tauto.
Qed.

Theorem global_enforce_spec_eq a : acc_wf a ->
  exists r, global_enforce a = Some r /\ acc_wf r /\ aw r = aw a /\
    (forall x y, In (x, y) (ap r) <-> In x (aw a) /\ clos_refl_sym_trans nat (accR a) x y).
Proof.
  intros W. apply gl_loop_spec; [exact W|]. unfold rt_fuel.
  pose proof (missing_le a). lia.
Qed.

Theorem global_enforce_spec a : acc_wf a ->
  exists r, global_enforce a = Some r /\ acc_wf r /\
    (forall w, In w (aw r) <-> In w (aw a)) /\
    (forall x y, In (x, y) (ap r) <-> In x (aw a) /\ clos_refl_sym_trans nat (accR a) x y).
Proof.
  intros W. destruct (global_enforce_spec_eq a W) as [r [E [Wr [Ar Hr]]]].
  exists r. split; [exact E|]. split; [exact Wr|]. split; [|exact Hr].
  intros w. rewrite Ar. tauto.
Qed.

Corollary global_enforce_total a : acc_wf a -> global_enforce a <> None.
Proof. intros W. destruct (global_enforce_spec_eq a W) as [r [E _]]. congruence. Qed.

Corollary global_enforce_equiv a r : acc_wf a -> global_enforce a = Some r ->
  (forall x, In x (aw r) -> In (x, x) (ap r)) /\
  (forall x y, In (x, y) (ap r) -> In (y, x) (ap r)) /\
  (forall x y z, In (x, y) (ap r) -> In (y, z) (ap r) -> In (x, z) (ap r)).
Proof.
  intros W E. destruct (global_enforce_spec_eq a W) as [r' [E' [Wr [Ar Hr]]]].
  rewrite E in E'. injection E' as E'. subst r'. split; [|split].
  - intros x Hx. apply Hr. rewrite <- Ar. split; [exact Hx | apply rst_refl].
  - intros x y H. pose proof (Wr _ _ H) as [_ Hy]. rewrite Ar in Hy.
    apply Hr in H. apply Hr. destruct H as [_ H].
    split; [exact Hy | apply rst_sym; exact H].
  - intros x y z H1 H2. apply Hr in H1. apply Hr in H2. apply Hr.
    destruct H1 as [Hx H1]. destruct H2 as [_ H2].
    split; [exact Hx | apply rst_trans with y; assumption].
Qed.

Corollary global_enforce_least a r (Q : nat -> nat -> Prop) : acc_wf a ->
  global_enforce a = Some r ->
  (forall x y, accR a x y -> Q x y) ->
  (forall x, In x (aw a) -> Q x x) ->
  (forall x y, Q x y -> Q y x) ->
  (forall x y z, Q x y -> Q y z -> Q x z) ->
  forall x y, In (x, y) (ap r) -> Q x y.
Proof.
  intros W E Hsub Hrefl Hsym Htr x y H.
  destruct (global_enforce_spec_eq a W) as [r' [E' [Wr [Ar Hr]]]].
  rewrite E in E'. injection E' as E'. subst r'.
  apply Hr in H. destruct H as [Hx H].
  apply (rst_least_gen a Q W Hsub Hrefl Hsym Htr x y H Hx).
Qed.

Corollary global_enforce_extends a r : acc_wf a -> global_enforce a = Some r ->
  forall x y, In (x, y) (ap a) -> In (x, y) (ap r).
Proof.
  intros W E x y H. destruct (global_enforce_spec_eq a W) as [r' [E' [Wr [Ar Hr]]]].
  rewrite E in E'. injection E' as E'. subst r'.
  apply Hr. split; [apply (W _ _ H) | apply rst_step; exact H].
Qed.

(* GlobalAccess.enforce does NOT produce the universal relation on the known
   worlds: two unrelated worlds stay unrelated. *)
Example global_not_universal :
  global_enforce (acc_touch acc_init 1) =
  Some {| aw := [0; 1]; ap := [(0, 0); (1, 1)] |}.
Proof. vm_compute. reflexivity. Qed.

(* ------------------------------------------------------------------ *)
(** * 5. serial_enforce *)

Lemma dead_end_false a w : dead_end a w = false -> exists v, In (w, v) (ap a).
Proof.
  unfold dead_end. destruct (succs a w) as [|v l] eqn:E; [discriminate|].
  intros _. exists v. apply succs_In. rewrite E. left; reflexivity.
Qed.

Lemma dead_end_true a w : dead_end a w = true <-> forall v, ~ In (w, v) (ap a).
Proof.
  unfold dead_end. destruct (succs a w) as [|v l] eqn:E.
  - split; [|reflexivity]. intros _ v H. apply succs_In in H. rewrite E in H. exact H.
  - split; [discriminate|]. intros H. exfalso. apply (H v), succs_In.
    rewrite E. left; reflexivity.
Qed.

Theorem serial_enforce_id a :
  (forall w, In w (aw a) -> dead_end a w = false) -> serial_enforce a = a.
Proof.
  intros H. apply filter_nil_iff in H. unfold serial_enforce. rewrite H. reflexivity.
Qed.

(* No non-emptiness hypothesis is needed: for aw a = [] wf forces ap a = [] and
   serial_enforce is the identity. *)
Theorem serial_enforce_spec a : acc_wf a ->
  let r := serial_enforce a in
  acc_wf r /\
  (forall w, In w (aw r) -> exists v, In (w, v) (ap r)) /\
  (forall w, In w (aw r) <->
     In w (aw a) \/
     (w = S (list_max (aw a)) /\ exists d, In d (aw a) /\ dead_end a d = true)) /\
  (forall x y, In (x, y) (ap r) <->
     In (x, y) (ap a) \/
     (exists d, In d (aw a) /\ dead_end a d = true) /\
     y = S (list_max (aw a)) /\
     ((In x (aw a) /\ dead_end a x = true) \/ x = y)).
Proof.
  intros W r. subst r. unfold serial_enforce.
  destruct (filter (dead_end a) (aw a)) as [|d0 ds] eqn:E.
  - assert (ND : forall d, In d (aw a) -> dead_end a d = false)
      by (apply filter_nil_iff; exact E).
    assert (NE : ~ exists d, In d (aw a) /\ dead_end a d = true).
    { intros [d [Hd Dd]]. rewrite (ND d Hd) in Dd. discriminate. }
    split; [exact W|]. split; [|split].
    + intros w Hw. apply dead_end_false, ND, Hw.
    + intros w. tauto.
    + intros x y. tauto.
  - rewrite <- E. cbv zeta. set (w2 := S (list_max (aw a))).
    set (needs := filter (dead_end a) (aw a)).
    assert (Hneeds : forall d, In d needs <-> In d (aw a) /\ dead_end a d = true)
      by (intros d; apply filter_In).
    assert (EX : exists d, In d (aw a) /\ dead_end a d = true).
    { exists d0. apply Hneeds. unfold needs. rewrite E. left; reflexivity. }
    rewrite fold_add_map.
    set (ps := map (fun w1 => (w1, w2)) needs).
    assert (Hps : forall x y, In (x, y) ps <->
                    y = w2 /\ In x (aw a) /\ dead_end a x = true).
    { intros x y. unfold ps. rewrite in_map_iff. split.
      - intros [d [Ed Hd]]. injection Ed as E1 E2. subst d y.
        split; [reflexivity | apply Hneeds; exact Hd].
      - intros [Ey Hx]. subst y. exists x. split; [reflexivity | apply Hneeds; exact Hx]. }
    set (a3 := fold_left acc_add ps a).
    assert (W3 : acc_wf a3) by (apply fold_add_wf, W).
    assert (P3 : forall q, In q (ap a3) <-> In q (ap a) \/ In q ps)
      by (intros q; apply fold_add_ap).
    assert (A3 : forall w, In w (aw a3) <->
               In w (aw a) \/ exists p, In p ps /\ (w = fst p \/ w = snd p))
      by (intros w; apply fold_add_aw).
    assert (Pr : forall x y, In (x, y) (ap (acc_add a3 (w2, w2))) <->
               In (x, y) (ap a) \/
               (y = w2 /\ ((In x (aw a) /\ dead_end a x = true) \/ x = y))).
    { intros x y. rewrite acc_add_ap, P3, Hps. split.
      - intros [[H|[Ey Hx]]|H].
        + left; exact H.
        + right. split; [exact Ey | left; exact Hx].
        + injection H as E1 E2. subst x y. right. split; [reflexivity | right; reflexivity].
      - intros [H|[Ey [Hx|Exy]]].
        + left; left; exact H.
        + left; right. split; assumption.
        + right. subst y. subst x. reflexivity. }
    assert (Ar : forall w, In w (aw (acc_add a3 (w2, w2))) <-> In w (aw a) \/ w = w2).
    { intros w. rewrite acc_add_aw, A3. cbn [fst snd]. split.
      - intros [[H|[[x y] [Hp H]]]|[H|H]]; auto.
        apply Hps in Hp. destruct Hp as [Ey [Hx _]]. cbn [fst snd] in H.
        destruct H as [H|H]; subst; auto.
      - intros [H|H]; auto. }
    split; [apply acc_add_wf, W3|]. split; [|split].
    + intros w Hw. apply Ar in Hw. destruct Hw as [Hw|Hw].
      * destruct (dead_end a w) eqn:D.
        -- exists w2. apply Pr. right. split; [reflexivity | left; auto].
        -- destruct (dead_end_false a w D) as [v Hv]. exists v. apply Pr. left; exact Hv.
      * subst w. exists w2. apply Pr. right. split; [reflexivity | right; reflexivity].
    + intros w. rewrite Ar. tauto.
    + intros x y. rewrite Pr. tauto.
Qed.

(* the statement with the (unused) non-emptiness hypothesis *)
Corollary serial_enforce_spec_ne a : acc_wf a -> aw a <> [] ->
  let r := serial_enforce a in
  acc_wf r /\
  (forall w, In w (aw r) -> exists v, In (w, v) (ap r)) /\
  (forall w, In w (aw r) <->
     In w (aw a) \/
     (w = S (list_max (aw a)) /\ exists d, In d (aw a) /\ dead_end a d = true)) /\
  (forall x y, In (x, y) (ap r) <->
     In (x, y) (ap a) \/
     (exists d, In d (aw a) /\ dead_end a d = true) /\
     y = S (list_max (aw a)) /\
     ((In x (aw a) /\ dead_end a x = true) \/ x = y)).
Proof. intros W _. apply serial_enforce_spec, W. Qed.

(* the added world really is new *)
Lemma serial_new_world_fresh a : ~ In (S (list_max (aw a))) (aw a).
Proof.
  intros H. assert (L : forall l x, In x l -> x <= list_max l).
  { intros l x Hx. pose proof (proj1 (list_max_le l (list_max l)) (le_n _)) as F.
    rewrite Forall_forall in F. apply F, Hx. }
  apply L in H. lia.
Qed.

(* ------------------------------------------------------------------ *)
(** * 6. enforce *)

Theorem enforce_total a : acc_wf a ->
  forall k, exists r, enforce k a = Some r /\ acc_wf r.
Proof.
  intros W k. destruct k; cbn [enforce].
  - exists a. auto.
  - exists (serial_enforce a). split; [reflexivity | apply (serial_enforce_spec a W)].
  - exists (refl_enforce a). split; [reflexivity | apply refl_enforce_wf, W].
  - destruct (rt_enforce_spec_rt a W) as [r [E [Wr _]]]. exists r. auto.
  - destruct (global_enforce_spec_eq a W) as [r [E [Wr _]]]. exists r. auto.
Qed.

Theorem enforce_wf a k r : acc_wf a -> enforce k a = Some r -> acc_wf r.
Proof.
  intros W E. destruct (enforce_total a W k) as [r' [E' Wr]].
  rewrite E in E'. injection E' as E'. subst r'. exact Wr.
Qed.

Theorem enforce_keeps a k r : acc_wf a -> enforce k a = Some r ->
  forall x y, In (x, y) (ap a) -> In (x, y) (ap r).
Proof.
  intros W E x y H. destruct k; cbn [enforce] in E.
  - injection E as E. subst r. exact H.
  - injection E as E. subst r. apply (serial_enforce_spec a W). left; exact H.
  - injection E as E. subst r. apply refl_enforce_ap. left; exact H.
  - apply (rt_enforce_extends a r W E x y H).
  - apply (global_enforce_extends a r W E x y H).
Qed.

Theorem enforce_worlds_mono a k r : acc_wf a -> enforce k a = Some r ->
  forall w, In w (aw a) -> In w (aw r).
Proof.
  intros W E w H. destruct k; cbn [enforce] in E.
  - injection E as E. subst r. exact H.
  - injection E as E. subst r. apply (serial_enforce_spec a W). left; exact H.
  - injection E as E. subst r. rewrite refl_enforce_aw. exact H.
  - destruct (rt_enforce_spec_rt a W) as [r' [E' [_ [Ar _]]]].
    rewrite E in E'. injection E' as E'. subst r'. rewrite Ar. exact H.
  - destruct (global_enforce_spec_eq a W) as [r' [E' [_ [Ar _]]]].
    rewrite E in E'. injection E' as E'. subst r'. rewrite Ar. exact H.
Qed.

(* ------------------------------------------------------------------ *)
(** * Non-vacuity examples *)

Definition ex_chain : access := acc_add (acc_add acc_init (0, 1)) (1, 2).
Definition ex_two : access := acc_add (acc_touch (acc_add acc_init (0, 1)) 2) (3, 2).

Example ex_chain_val : ex_chain = {| aw := [0; 1; 2]; ap := [(0, 1); (1, 2)] |}.
Proof. vm_compute. reflexivity. Qed.

Example ex_chain_wf : acc_wf ex_chain.
Proof. apply acc_add_wf, acc_add_wf, acc_init_wf. Qed.

Example ex_refl_chain : refl_enforce ex_chain =
  {| aw := [0; 1; 2]; ap := [(0, 1); (1, 2); (0, 0); (1, 1); (2, 2)] |}.
Proof. vm_compute. reflexivity. Qed.

Example ex_rt_chain : rt_enforce ex_chain =
  Some {| aw := [0; 1; 2]; ap := [(0, 1); (1, 2); (0, 0); (1, 1); (2, 2); (0, 2)] |}.
Proof. vm_compute. reflexivity. Qed.

(* the loop really needs more than one round here: fuel 1 is not enough, 2 is *)
Example ex_rt_chain_fuel1 : rt_loop 1 ex_chain = None.
Proof. vm_compute. reflexivity. Qed.
Example ex_rt_chain_fuel2 : rt_loop 2 ex_chain = rt_enforce ex_chain.
Proof. vm_compute. reflexivity. Qed.

Example ex_global_chain : global_enforce ex_chain =
  Some {| aw := [0; 1; 2];
          ap := [(0, 1); (1, 2); (0, 0); (1, 1); (2, 2); (0, 2); (1, 0); (2, 0); (2, 1)] |}.
Proof. vm_compute. reflexivity. Qed.

(* two components {0,1} and {2,3} stay separate *)
Example ex_global_two : global_enforce ex_two =
  Some {| aw := [0; 1; 2; 3];
          ap := [(0, 1); (3, 2); (0, 0); (1, 1); (2, 2); (3, 3); (1, 0); (2, 3)] |}.
Proof. vm_compute. reflexivity. Qed.

Example ex_serial_chain : serial_enforce ex_chain =
  {| aw := [0; 1; 2; 3]; ap := [(0, 1); (1, 2); (2, 3); (3, 3)] |}.
Proof. vm_compute. reflexivity. Qed.

Example ex_serial_two : serial_enforce ex_two =
  {| aw := [0; 1; 2; 3; 4]; ap := [(0, 1); (3, 2); (1, 4); (2, 4); (4, 4)] |}.
Proof. vm_compute. reflexivity. Qed.

Example ex_serial_init : serial_enforce acc_init = {| aw := [0; 1]; ap := [(0, 1); (1, 1)] |}.
Proof. vm_compute. reflexivity. Qed.

Example ex_serial_fixed : serial_enforce (refl_enforce ex_chain) = refl_enforce ex_chain.
Proof. vm_compute. reflexivity. Qed.

(* ------------------------------------------------------------------ *)
Print Assumptions acc_add_wf.
Print Assumptions acc_touch_wf.
Print Assumptions acc_init_wf.
Print Assumptions acc_add_aw.
Print Assumptions acc_add_ap.
Print Assumptions refl_enforce_spec.
Print Assumptions rt_enforce_spec.
Print Assumptions rt_enforce_spec_rt.
Print Assumptions rt_enforce_least.
Print Assumptions rt_enforce_closed.
Print Assumptions global_enforce_spec.
Print Assumptions global_enforce_equiv.
Print Assumptions global_enforce_least.
Print Assumptions global_not_universal.
Print Assumptions serial_enforce_spec.
Print Assumptions serial_enforce_spec_ne.
Print Assumptions serial_enforce_id.
Print Assumptions serial_new_world_fresh.
Print Assumptions enforce_total.
Print Assumptions enforce_keeps.
Print Assumptions enforce_worlds_mono.
Print Assumptions ex_global_two.
