(* Schematic truth-functional rules and the lifting lemma: a finite check over
   operand value tuples decides exactness of an expansion for every sentence,
   every evaluation that is compositional for the logic's tables, and every
   world. *)
From Coq Require Import List Bool Arith.
From PT Require Import Util.Finite Sem.Values Sem.Syntax.
Import ListNotations.

Inductive ssch := Opd (i : nat) | SUn (o : uop) (a : ssch) | SBin (o : bop) (a b : ssch).

Fixpoint sval (t : tables) (env : nat -> val) (s : ssch) : val :=
  match s with
  | Opd i => env i
  | SUn o a => t_un t o (sval t env a)
  | SBin o a b => t_bin t o (sval t env a) (sval t env b)
  end.

Fixpoint inst (ops : nat -> sent) (s : ssch) : sent :=
  match s with
  | Opd i => ops i
  | SUn o a => Un o (inst ops a)
  | SBin o a b => Bin o (inst ops a) (inst ops b)
  end.

Record nsch := { ns_s : ssch; ns_d : bool }.

Definition nsat (t : tables) (env : nat -> val) (n : nsch) : bool :=
  Bool.eqb (t_des t (sval t env (ns_s n))) (ns_d n).

Record tfrule := { r_principal : nsch; r_exts : list (list nsch) }.

Definition ext_sat (t : tables) (env : nat -> val) (r : tfrule) : bool :=
  existsb (forallb (nsat t env)) (r_exts r).

Definition env2 (a b : val) : nat -> val := fun i => match i with 0 => a | _ => b end.

(* The three finite obligations of a rule: soundness (node => some extension),
   its converse, and both. Witness: the operand values. *)
Definition tf_sound (t : tables) (r : tfrule) : option (list val) :=
  find_some (fun p => guard (implb (nsat t (env2 (fst p) (snd p)) (r_principal r))
                                   (ext_sat t (env2 (fst p) (snd p)) r)) [fst p; snd p])
            (flat_map (fun a => map (fun b => (a, b)) (t_vals t)) (t_vals t)).
Definition tf_complete (t : tables) (r : tfrule) : option (list val) :=
  find_some (fun p => guard (implb (ext_sat t (env2 (fst p) (snd p)) r)
                                   (nsat t (env2 (fst p) (snd p)) (r_principal r))) [fst p; snd p])
            (flat_map (fun a => map (fun b => (a, b)) (t_vals t)) (t_vals t)).

Lemma in_vpairs (vs : list val) (a b : val) :
  In (a, b) (flat_map (fun a => map (fun b => (a, b)) vs) vs) <-> In a vs /\ In b vs.
Proof.
  rewrite in_flat_map. split.
  - intros [x [Hx H]]. apply in_map_iff in H. destruct H as [y [E Hy]]. injection E as <- <-. auto.
  - intros [Ha Hb]. exists a. split; [exact Ha|]. apply in_map_iff. exists b. auto.
Qed.

Lemma tf_sound_spec t r : tf_sound t r = None ->
  forall a b, In a (t_vals t) -> In b (t_vals t) ->
    nsat t (env2 a b) (r_principal r) = true -> ext_sat t (env2 a b) r = true.
Proof.
  unfold tf_sound. intros H a b Ha Hb Hs.
  pose proof (find_some_none _ _ H (a, b)) as G. simpl in G.
  assert (Hin : In (a, b) (flat_map (fun a => map (fun b => (a, b)) (t_vals t)) (t_vals t)))
    by (apply in_vpairs; auto).
  specialize (G Hin). apply guard_none in G. rewrite Hs in G. exact G.
Qed.

Lemma tf_complete_spec t r : tf_complete t r = None ->
  forall a b, In a (t_vals t) -> In b (t_vals t) ->
    ext_sat t (env2 a b) r = true -> nsat t (env2 a b) (r_principal r) = true.
Proof.
  unfold tf_complete. intros H a b Ha Hb Hs.
  pose proof (find_some_none _ _ H (a, b)) as G. simpl in G.
  assert (Hin : In (a, b) (flat_map (fun a => map (fun b => (a, b)) (t_vals t)) (t_vals t)))
    by (apply in_vpairs; auto).
  specialize (G Hin). apply guard_none in G. rewrite Hs in G. exact G.
Qed.

(* Evaluations that are compositional for t's truth-functional operators. *)
Record compositional (t : tables) (ev : sent -> val) : Prop := {
  cmp_un : forall o a, ev (Un o a) = t_un t o (ev a);
  cmp_bin : forall o a b, ev (Bin o a b) = t_bin t o (ev a) (ev b);
  cmp_vals : forall s, In (ev s) (t_vals t) }.

Lemma sval_inst t ev ops s : compositional t ev ->
  ev (inst ops s) = sval t (fun i => ev (ops i)) s.
Proof.
  intros C. induction s as [i|o a IH|o a IHa b IHb]; simpl.
  - reflexivity.
  - rewrite (cmp_un _ _ C), IH. reflexivity.
  - rewrite (cmp_bin _ _ C), IHa, IHb. reflexivity.
Qed.

(* Schemas that mention operands 0 and 1 only. *)
Fixpoint two_opd (s : ssch) : bool :=
  match s with
  | Opd i => Nat.leb i 1
  | SUn _ a => two_opd a
  | SBin _ a b => two_opd a && two_opd b
  end.

Lemma sval_env2 t (e : nat -> val) s : two_opd s = true ->
  sval t e s = sval t (env2 (e 0) (e 1)) s.
Proof.
  induction s as [i|o a IH|o a IHa b IHb]; simpl; intro H.
  - destruct i as [|[|i]]; simpl; try reflexivity. discriminate.
  - rewrite IH by exact H. reflexivity.
  - apply andb_true_iff in H. destruct H as [H1 H2]. rewrite IHa, IHb by assumption. reflexivity.
Qed.

Definition rule_two_opd (r : tfrule) : bool :=
  two_opd (ns_s (r_principal r)) &&
  forallb (forallb (fun n => two_opd (ns_s n))) (r_exts r).

(* A concrete node: sentence with its designation marker. *)
Definition node_sat (t : tables) (ev : sent -> val) (s : sent) (d : bool) : bool :=
  Bool.eqb (t_des t (ev s)) d.

Lemma nsat_inst t ev ops n : compositional t ev -> two_opd (ns_s n) = true ->
  node_sat t ev (inst ops (ns_s n)) (ns_d n) = nsat t (env2 (ev (ops 0)) (ev (ops 1))) n.
Proof.
  intros C H. unfold node_sat, nsat. rewrite (sval_inst _ _ _ _ C).
  rewrite (sval_env2 t (fun i => ev (ops i))) by exact H. reflexivity.
Qed.

Definition inst_ext_sat t ev ops (r : tfrule) : bool :=
  existsb (forallb (fun n => node_sat t ev (inst ops (ns_s n)) (ns_d n))) (r_exts r).

Lemma ext_sat_inst t ev ops r : compositional t ev -> rule_two_opd r = true ->
  inst_ext_sat t ev ops r = ext_sat t (env2 (ev (ops 0)) (ev (ops 1))) r.
Proof.
  intros C H. unfold rule_two_opd in H. apply andb_true_iff in H. destruct H as [_ H].
  unfold inst_ext_sat, ext_sat. induction (r_exts r) as [|g gs IH]; simpl; [reflexivity|].
  simpl in H. apply andb_true_iff in H. destruct H as [Hg Hgs].
  rewrite IH by exact Hgs. f_equal.
  clear IH Hgs. induction g as [|n ns IHn]; simpl; [reflexivity|].
  simpl in Hg. apply andb_true_iff in Hg. destruct Hg as [Hn Hns].
  rewrite IHn by exact Hns. rewrite nsat_inst by assumption. reflexivity.
Qed.

(* THE LIFTING THEOREM: the finite check gives exactness of the expansion for
   every pair of operand sentences and every compositional evaluation. *)
Theorem tf_sound_lift t r : rule_two_opd r = true -> tf_sound t r = None ->
  forall ev ops, compositional t ev ->
    node_sat t ev (inst ops (ns_s (r_principal r))) (ns_d (r_principal r)) = true ->
    inst_ext_sat t ev ops r = true.
Proof.
  intros H2 Hs ev ops C Hn.
  rewrite ext_sat_inst by assumption.
  unfold rule_two_opd in H2. apply andb_true_iff in H2. destruct H2 as [Hp _].
  rewrite nsat_inst in Hn by assumption.
  eapply tf_sound_spec; eauto using cmp_vals.
Qed.

Theorem tf_complete_lift t r : rule_two_opd r = true -> tf_complete t r = None ->
  forall ev ops, compositional t ev ->
    inst_ext_sat t ev ops r = true ->
    node_sat t ev (inst ops (ns_s (r_principal r))) (ns_d (r_principal r)) = true.
Proof.
  intros H2 Hs ev ops C Hn.
  rewrite ext_sat_inst in Hn by assumption.
  unfold rule_two_opd in H2. pose proof H2 as H2'. apply andb_true_iff in H2. destruct H2 as [Hp _].
  rewrite nsat_inst by assumption.
  eapply tf_complete_spec; eauto using cmp_vals.
Qed.

Theorem tf_exact_lift t r : rule_two_opd r = true ->
  tf_sound t r = None -> tf_complete t r = None ->
  forall ev ops, compositional t ev ->
    node_sat t ev (inst ops (ns_s (r_principal r))) (ns_d (r_principal r)) =
    inst_ext_sat t ev ops r.
Proof.
  intros H2 Hs Hc ev ops C.
  destruct (node_sat t ev _ _) eqn:E1, (inst_ext_sat t ev ops r) eqn:E2; try reflexivity.
  - rewrite (tf_sound_lift t r H2 Hs ev ops C E1) in E2. discriminate.
  - rewrite (tf_complete_lift t r H2 Hc ev ops C E2) in E1. discriminate.
Qed.
