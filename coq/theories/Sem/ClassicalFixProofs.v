(* The repaired classical completion (ClassicalFix.cl_complete_fixed) makes
   every frame classical: identity is an equivalence over the constants,
   a = a and Existence(a) hold for every constant, and every extension is
   closed under pointwise identity.  All statements are conditional on the
   completion returning a state (set_T returns None where the code raises). *)
From Coq Require Import List Bool Arith Lia Relations.
From PT Require Import Sem.Values Sem.MSyntax Sem.LimitBest Sem.Access Sem.AccessProofs
  Sem.PyModel Sem.Classical Sem.ClassicalFix.
Import ListNotations.

(* ---- the statement ---------------------------------------------------------- *)
Definition predT (st : state) (w : nat) (p : pred) (ps : list param) : Prop :=
  get_pred (s_preds st) w p ps = Some VT.
Definition idT st w a b := predT st w PIdentity [PC a; PC b].

Definition tuples_ok (st : state) : Prop :=
  forall w p ps v, In (w, p, ps, v) (s_preds st) ->
    In (w, p) (s_pkeys st) /\ forall x, In x ps -> exists c, x = PC c /\ In c (s_consts st).
(* the true Identity tuples are pairs (Identity has arity 2) *)
Definition id_binary (st : state) : Prop :=
  forall w ps, In (w, PIdentity, ps, VT) (s_preds st) -> length ps = 2.
Definition pord_covers (pord : nat -> list pred) (st : state) : Prop :=
  forall w p, In (w, p) (s_pkeys st) -> In p (pord w).

Definition idrel (st : state) (w : nat) (x y : param) : Prop :=
  exists a b, x = PC a /\ y = PC b /\ idT st w a b.

Definition frame_classical (st : state) (w : nat) : Prop :=
  (forall a, In a (s_consts st) -> idT st w a a /\ predT st w PExistence [PC a]) /\
  (forall a b, idT st w a b -> idT st w b a) /\
  (forall a b c, idT st w a b -> idT st w b c -> idT st w a c) /\
  (forall p ps qs, predT st w p ps ->
      Forall2 (fun x y => exists a b, x = PC a /\ y = PC b /\ idT st w a b) ps qs ->
      predT st w p qs).

(* ---- association list basics ------------------------------------------------ *)
Definition consts_ok (st : state) : Prop :=
  forall w p ps v, In (w, p, ps, v) (s_preds st) ->
    forall x, In x ps -> exists c, x = PC c /\ In c (s_consts st).
Definition keys_ok (st : state) : Prop :=
  forall w p ps v, In (w, p, ps, v) (s_preds st) -> In (w, p) (s_pkeys st).

Lemma tuples_ok_split st : tuples_ok st <-> keys_ok st /\ consts_ok st.
Proof.
  unfold tuples_ok, keys_ok, consts_ok. split.
  - intro H. split; intros w p ps v Hin; apply (H w p ps v Hin).
  - intros [H1 H2] w p ps v Hin. split; [eapply H1; eauto | eapply H2; eauto].
Qed.

Lemma key_eqb_true w p ps w' p' ps' :
  Nat.eqb w w' && pred_eqb p p' && params_eqb ps ps' = true <-> w = w' /\ p = p' /\ ps = ps'.
Proof.
  rewrite !andb_true_iff, Nat.eqb_eq, pred_eqb_eq, params_eqb_eq. tauto.
Qed.

Lemma get_pred_In l w p ps v : get_pred l w p ps = Some v -> In (w, p, ps, v) l.
Proof.
  induction l as [|[[[w' p'] ps'] v'] l IH]; cbn [get_pred]; [discriminate|].
  destruct (Nat.eqb w w' && pred_eqb p p' && params_eqb ps ps') eqn:E.
  - apply key_eqb_true in E. destruct E as [-> [-> ->]]. intro H. injection H as ->. left; reflexivity.
  - intro H. right. apply IH; exact H.
Qed.

Lemma In_get_pred l w p ps v : In (w, p, ps, v) l -> exists v', get_pred l w p ps = Some v'.
Proof.
  induction l as [|[[[w' p'] ps'] v'] l IH]; cbn [get_pred In]; [tauto|].
  intros [H|H].
  - injection H as -> -> -> ->.
    assert (E : Nat.eqb w w && pred_eqb p p && params_eqb ps ps = true) by (apply key_eqb_true; auto).
    rewrite E. eauto.
  - destruct (Nat.eqb w w' && pred_eqb p p' && params_eqb ps ps'); eauto.
Qed.

Lemma get_pred_app l1 l2 w p ps :
  get_pred (l1 ++ l2) w p ps =
  match get_pred l1 w p ps with Some v => Some v | None => get_pred l2 w p ps end.
Proof.
  induction l1 as [|[[[w' p'] ps'] v'] l IH]; cbn [get_pred app]; [reflexivity|].
  destruct (Nat.eqb w w' && pred_eqb p p' && params_eqb ps ps'); [reflexivity|apply IH].
Qed.

Lemma get_pred_single w p ps v w' p' ps' :
  get_pred [(w, p, ps, v)] w' p' ps' = Some v /\ w' = w /\ p' = p /\ ps' = ps \/
  get_pred [(w, p, ps, v)] w' p' ps' = None /\ ~ (w' = w /\ p' = p /\ ps' = ps).
Proof.
  cbn [get_pred].
  destruct (Nat.eqb w' w && pred_eqb p' p && params_eqb ps' ps) eqn:E.
  - apply key_eqb_true in E. left; tauto.
  - right. split; [reflexivity|]. intro H. apply key_eqb_true in H. congruence.
Qed.

Lemma In_addpk k x l : In k (addpk x l) <-> In k l \/ k = x.
Proof.
  unfold addpk. destruct (existsb _ l) eqn:E.
  - split; [tauto|]. intros [H|H]; [exact H|]. subst k.
    apply existsb_exists in E. destruct E as [[w p] [Hin E]].
    destruct x as [w0 p0]. cbn [fst snd] in E.
    apply andb_true_iff in E. destruct E as [E1 E2].
    apply Nat.eqb_eq in E1. apply pred_eqb_eq in E2. subst. exact Hin.
  - rewrite in_app_iff. cbn [In]. intuition.
Qed.

Lemma having_T_In st w p ps : In ps (having_T st w p) <-> In (w, p, ps, VT) (s_preds st).
Proof.
  unfold having_T. rewrite in_map_iff. split.
  - intros [[[[w' p'] ps'] v] [Heq Hin]]. cbn [fst snd] in Heq. subst ps'.
    apply filter_In in Hin. destruct Hin as [Hin E].
    rewrite !andb_true_iff, Nat.eqb_eq, pred_eqb_eq, val_eqb_eq in E.
    destruct E as [[-> ->] ->]. exact Hin.
  - intro Hin. exists (w, p, ps, VT). split; [reflexivity|].
    apply filter_In. split; [exact Hin|].
    rewrite Nat.eqb_refl, pred_eqb_refl. reflexivity.
Qed.

(* ---- extension of a state at one frame -------------------------------------- *)
Definition ext_at (st st' : state) (w : nat) (Q : pred -> list param -> Prop) : Prop :=
  s_fkeys st' = s_fkeys st /\ s_consts st' = s_consts st /\
  (forall w' p ps v, get_pred (s_preds st) w' p ps = Some v -> get_pred (s_preds st') w' p ps = Some v) /\
  (forall w' p ps v, get_pred (s_preds st') w' p ps = Some v ->
      get_pred (s_preds st) w' p ps = Some v \/ (w' = w /\ v = VT /\ Q p ps)) /\
  (forall e, In e (s_preds st) -> In e (s_preds st')) /\
  (forall e, In e (s_preds st') -> In e (s_preds st) \/
      exists p ps, e = (w, p, ps, VT) /\ Q p ps /\ get_pred (s_preds st') w p ps = Some VT) /\
  (keys_ok st -> keys_ok st').

Lemma ext_refl st w Q : ext_at st st w Q.
Proof. unfold ext_at. repeat split; auto. Qed.

Lemma ext_weaken st st' w (Q Q' : pred -> list param -> Prop) :
  (forall p ps, Q p ps -> Q' p ps) -> ext_at st st' w Q -> ext_at st st' w Q'.
Proof.
  intros HQ (Hf & Hc & Ho & Hn & Hi & Hj & Hk). unfold ext_at. repeat split; auto.
  - intros w' p ps v H. destruct (Hn _ _ _ _ H) as [H1|(?&?&?)]; [left; exact H1|right; auto].
  - intros e H. destruct (Hj _ H) as [H1|(p&ps&?&?&?)]; [left; exact H1|right; exists p, ps; auto].
Qed.

Lemma ext_trans st st1 st2 w Q :
  ext_at st st1 w Q -> ext_at st1 st2 w Q -> ext_at st st2 w Q.
Proof.
  intros (Hf & Hc & Ho & Hn & Hi & Hj & Hk) (Hf' & Hc' & Ho' & Hn' & Hi' & Hj' & Hk').
  unfold ext_at. repeat split; try congruence; auto.
  - intros w' p ps v H. destruct (Hn' _ _ _ _ H) as [H1|H1]; [|right; exact H1].
    apply Hn; exact H1.
  - intros e H. destruct (Hj' _ H) as [H1|H1]; [|right; exact H1].
    destruct (Hj _ H1) as [H2|(p&ps&He&HQ&Hg)]; [left; exact H2|].
    right. exists p, ps. repeat split; auto.
Qed.

Lemma ext_addpk st w p Q :
  ext_at st (with_preds st (addpk (w, p) (s_pkeys st)) (s_preds st)) w Q.
Proof.
  unfold ext_at. cbn [with_preds s_fkeys s_consts s_preds s_pkeys]. repeat split; auto.
  intros Hk w' p' ps v Hin. cbn [with_preds s_preds s_pkeys] in *.
  apply In_addpk. left. eapply Hk; exact Hin.
Qed.

Lemma set_T_ext st w p ps st' :
  set_T st w p ps = Some st' ->
  ext_at st st' w (fun p' ps' => p' = p /\ ps' = ps) /\ predT st' w p ps.
Proof.
  unfold set_T. destruct (get_pred (s_preds st) w p ps) as [v|] eqn:G.
  - destruct (val_eqb v VT) eqn:E; [|discriminate]. apply val_eqb_eq in E. subst v.
    intro H. injection H as <-. split; [apply ext_refl|exact G].
  - intro H. injection H as <-. unfold ext_at, predT.
    cbn [with_preds s_fkeys s_consts s_preds s_pkeys].
    assert (Gnew : get_pred (s_preds st ++ [(w, p, ps, VT)]) w p ps = Some VT).
    { rewrite get_pred_app, G.
      destruct (get_pred_single w p ps VT w p ps) as [[H _]|[_ H]]; [exact H|exfalso; apply H; auto]. }
    split; [|exact Gnew]. repeat split; auto.
    + intros w' p' ps' v H. rewrite get_pred_app, H. reflexivity.
    + intros w' p' ps' v. rewrite get_pred_app.
      destruct (get_pred (s_preds st) w' p' ps') as [v0|]; [intro H; left; exact H|].
      destruct (get_pred_single w p ps VT w' p' ps') as [[H (-> & -> & ->)]|[H _]]; rewrite H.
      * intro H1. injection H1 as <-. right. auto.
      * discriminate.
    + intros e H. apply in_app_iff. left; exact H.
    + intros e H. apply in_app_iff in H. destruct H as [H|[<-|[]]]; [left; exact H|].
      right. exists p, ps. auto.
    + intros Hk w' p' ps' v Hin. cbn [with_preds s_preds s_pkeys] in *.
      apply In_addpk. apply in_app_iff in Hin. destruct Hin as [Hin|[Hin|[]]].
      * left. eapply Hk; exact Hin.
      * right. congruence.
Qed.

Lemma ext_predT_mono st st' w Q w' p ps :
  ext_at st st' w Q -> predT st w' p ps -> predT st' w' p ps.
Proof. intros (_ & _ & Ho & _) H. apply Ho; exact H. Qed.

Lemma ext_predT_inv st st' w Q w' p ps :
  ext_at st st' w Q -> predT st' w' p ps -> predT st w' p ps \/ (w' = w /\ Q p ps).
Proof.
  intros (_ & _ & _ & Hn & _) H. destruct (Hn _ _ _ _ H) as [H1|(?&_&?)]; [left; exact H1|right; auto].
Qed.

Lemma ext_other st st' w Q w' p ps :
  ext_at st st' w Q -> w' <> w -> get_pred (s_preds st') w' p ps = get_pred (s_preds st) w' p ps.
Proof.
  intros (_ & _ & Ho & Hn & _) Hne.
  destruct (get_pred (s_preds st) w' p ps) as [v|] eqn:G.
  - apply Ho; exact G.
  - destruct (get_pred (s_preds st') w' p ps) as [v|] eqn:G'; [|reflexivity].
    destruct (Hn _ _ _ _ G') as [H|(H&_)]; [congruence|contradiction].
Qed.

Lemma set_T_all_ext st w p l : forall st',
  set_T_all st w p l = Some st' ->
  ext_at st st' w (fun p' ps' => p' = p /\ In ps' l) /\ forall ps, In ps l -> predT st' w p ps.
Proof.
  revert st. induction l as [|ps l IH]; intros st st'; cbn [set_T_all].
  - intro H. injection H as <-. split; [apply ext_refl|intros ps []].
  - destruct (set_T st w p ps) as [st1|] eqn:E; [|discriminate]. intro H.
    apply set_T_ext in E. destruct E as [E1 E2].
    apply IH in H. destruct H as [H1 H2]. split.
    + eapply ext_trans.
      * eapply ext_weaken; [|exact E1]. cbn beta. intros p' ps' [-> ->]. split; [reflexivity|left; reflexivity].
      * eapply ext_weaken; [|exact H1]. cbn beta. intros p' ps' [-> Hin]. split; [reflexivity|right; exact Hin].
    + intros ps' [<-|Hin]; [|apply H2; exact Hin].
      eapply ext_predT_mono; [exact H1|exact E2].
Qed.

Lemma fold_opt_set_T st w p (f : nat -> list param) l :
  fold_opt (fun st c => set_T st w p (f c)) st l = set_T_all st w p (map f l).
Proof.
  revert st. induction l as [|c l IH]; intro st; cbn [fold_opt set_T_all map]; [reflexivity|].
  destruct (set_T st w p (f c)); [apply IH|reflexivity].
Qed.

(* ---- invariants carried through the completion of one frame ---------------- *)
Definition idfun (st : state) (w : nat) : Prop :=
  forall ps, In (w, PIdentity, ps, VT) (s_preds st) -> predT st w PIdentity ps.
Definition id_equiv (st : state) (w : nat) : Prop :=
  (forall a, In a (s_consts st) -> idT st w a a) /\
  (forall a b, idT st w a b -> idT st w b a) /\
  (forall a b c, idT st w a b -> idT st w b c -> idT st w a c) /\
  idfun st w.
Definition tok (st : state) : Prop := keys_ok st /\ consts_ok st /\ id_binary st.

Definition all_consts (st : state) (ps : list param) : Prop :=
  forall x, In x ps -> exists c, x = PC c /\ In c (s_consts st).

Lemma ext_tok st st' w Q :
  ext_at st st' w Q ->
  (forall p ps, Q p ps -> all_consts st ps) ->
  (forall ps, Q PIdentity ps -> length ps = 2) ->
  tok st -> tok st'.
Proof.
  intros Hext HQc HQb (Hk & Hc & Hb).
  pose proof Hext as (Hf & Hcs & Ho & Hn & Hi & Hj & Hkk).
  split; [apply Hkk; exact Hk|]. split.
  - intros w' p ps v Hin x Hx. rewrite Hcs.
    destruct (Hj _ Hin) as [H|(p0&ps0&He&HQ&_)].
    + eapply Hc; eauto.
    + injection He as -> -> -> ->. eapply HQc; eauto.
  - intros w' ps Hin. destruct (Hj _ Hin) as [H|(p0&ps0&He&HQ&_)].
    + eapply Hb; eauto.
    + injection He as -> <- <-. apply HQb; exact HQ.
Qed.

Lemma ext_idfun st st' w Q w0 : ext_at st st' w Q -> idfun st w0 -> idfun st' w0.
Proof.
  intros Hext Hfun ps Hin. pose proof Hext as (_ & _ & Ho & _ & _ & Hj & _).
  destruct (Hj _ Hin) as [H|(p0&ps0&He&HQ&Hg)].
  - apply Ho. apply Hfun; exact H.
  - injection He as -> <- <-. exact Hg.
Qed.

Lemma idT_consts st w a b : consts_ok st -> idT st w a b -> In a (s_consts st) /\ In b (s_consts st).
Proof.
  intros Hc H. apply get_pred_In in H.
  split.
  - destruct (Hc _ _ _ _ H (PC a)) as (c & He & Hin); [left; reflexivity|]. injection He as ->. exact Hin.
  - destruct (Hc _ _ _ _ H (PC b)) as (c & He & Hin); [right; left; reflexivity|]. injection He as ->. exact Hin.
Qed.

(* the true identity tuples of a good frame are exactly the idT pairs *)
Lemma having_id_pair st w ps : tok st -> idfun st w ->
  In ps (having_T st w PIdentity) -> exists a b, ps = [PC a; PC b] /\ idT st w a b.
Proof.
  intros (Hk & Hc & Hb) Hfun Hin. apply having_T_In in Hin.
  pose proof (Hb _ _ Hin) as Hlen. pose proof (Hc _ _ _ _ Hin) as Hcs.
  destruct ps as [|x [|y [|z r]]]; try discriminate.
  destruct (Hcs x) as (a & -> & _); [left; reflexivity|].
  destruct (Hcs y) as (b & -> & _); [right; left; reflexivity|].
  exists a, b. split; [reflexivity|]. apply Hfun; exact Hin.
Qed.

Lemma idT_having st w a b : idT st w a b -> In [PC a; PC b] (having_T st w PIdentity).
Proof. intro H. apply having_T_In. apply get_pred_In; exact H. Qed.

(* ---- identicals / class_of / tuples_product -------------------------------- *)
Lemma In_addparam x p l : In x (addparam p l) <-> In x l \/ x = p.
Proof.
  unfold addparam. destruct (existsb (param_eqb p) l) eqn:E.
  - split; [tauto|]. intros [H|H]; [exact H|]. subst x.
    apply existsb_exists in E. destruct E as (y & Hy & E). apply param_eqb_eq in E. subst; exact Hy.
  - rewrite in_app_iff. cbn [In]. intuition.
Qed.

Lemma fold_addparam_In x ps : forall acc,
  In x (fold_left (fun l p => addparam p l) ps acc) <-> In x acc \/ In x ps.
Proof.
  induction ps as [|p ps IH]; intro acc; cbn [fold_left In]; [tauto|].
  rewrite IH, In_addparam. intuition.
Qed.

Lemma ident_fold_In c x l : forall acc,
  In x (fold_left (fun l ps => if pmem c ps then fold_left (fun l p => addparam p l) ps l else l) l acc)
  <-> In x acc \/ exists ps, In ps l /\ pmem c ps = true /\ In x ps.
Proof.
  induction l as [|ps l IH]; intro acc; cbn [fold_left].
  - split; [tauto|]. intros [H|(ps & [] & _)]; exact H.
  - rewrite IH. destruct (pmem c ps) eqn:E.
    + rewrite fold_addparam_In. split.
      * intros [[H|H]|(ps' & H1 & H2 & H3)]; [left; exact H| |].
        -- right. exists ps. cbn [In]. auto.
        -- right. exists ps'. cbn [In]. auto.
      * intros [H|(ps' & [<-|H1] & H2 & H3)]; [tauto|tauto|].
        right. exists ps'. auto.
    + split.
      * intros [H|(ps' & H1 & H2 & H3)]; [left; exact H|].
        right. exists ps'. cbn [In]. auto.
      * intros [H|(ps' & [<-|H1] & H2 & H3)]; [tauto|congruence|].
        right. exists ps'. auto.
Qed.

Lemma pmem_In c ps : pmem c ps = true <-> In (PC c) ps.
Proof.
  unfold pmem. rewrite existsb_exists. split.
  - intros (x & Hx & E). apply param_eqb_eq in E. subst; exact Hx.
  - intro H. exists (PC c). split; [exact H|]. apply param_eqb_eq; reflexivity.
Qed.

Lemma identicals_In st w c x : tok st -> id_equiv st w ->
  In x (identicals st w c) <-> exists b, x = PC b /\ b <> c /\ idT st w c b.
Proof.
  intros Htok (Hr & Hs & Ht & Hfun). unfold identicals.
  rewrite filter_In, ident_fold_In. split.
  - intros [[[]|(ps & Hps & Hm & Hx)] Hne].
    destruct (having_id_pair _ _ _ Htok Hfun Hps) as (a & b & -> & Hab).
    apply pmem_In in Hm. apply negb_true_iff in Hne.
    assert (Hxc : x <> PC c).
    { intro He. subst x. rewrite (proj2 (param_eqb_eq _ _) eq_refl) in Hne. discriminate. }
    destruct Hx as [<-|[<-|[]]].
    + exists a. split; [reflexivity|]. split; [congruence|].
      destruct Hm as [Hm|[Hm|[]]]; [congruence|]. injection Hm as ->. apply Hs; exact Hab.
    + exists b. split; [reflexivity|]. split; [congruence|].
      destruct Hm as [Hm|[Hm|[]]]; [|congruence]. injection Hm as ->. exact Hab.
  - intros (b & -> & Hne & Hcb). split.
    + right. exists [PC c; PC b]. split; [apply idT_having; exact Hcb|].
      split; [apply pmem_In; left; reflexivity|right; left; reflexivity].
    + apply negb_true_iff. destruct (param_eqb (PC b) (PC c)) eqn:E; [|reflexivity].
      apply param_eqb_eq in E. congruence.
Qed.

Lemma class_of_In st w c y : tok st -> id_equiv st w -> In c (s_consts st) ->
  In y (class_of st w (PC c)) <-> exists b, y = PC b /\ idT st w c b.
Proof.
  intros Htok Heq Hc. cbn [class_of In]. rewrite identicals_In by assumption. split.
  - intros [<-|(b & -> & _ & H)].
    + exists c. split; [reflexivity|]. apply (proj1 Heq); exact Hc.
    + exists b. auto.
  - intros (b & -> & H). destruct (Nat.eq_dec b c) as [->|Hne]; [left; reflexivity|].
    right. exists b. auto.
Qed.

Lemma tuples_product_In qs : forall ls,
  In qs (tuples_product ls) <-> Forall2 (fun q l => In q l) qs ls.
Proof.
  induction qs as [|q qs IH]; intros [|l ls]; cbn [tuples_product].
  - split; [constructor|left; reflexivity].
  - split.
    + intro H. apply in_flat_map in H. destruct H as (x & _ & H).
      apply in_map_iff in H. destruct H as (? & H & _). discriminate.
    + intro H. inversion H.
  - split; [intros [H|[]]; discriminate|intro H; inversion H].
  - rewrite in_flat_map. split.
    + intros (x & Hx & H). apply in_map_iff in H. destruct H as (r & He & Hr).
      injection He as -> ->. constructor; [exact Hx|apply IH; exact Hr].
    + intro H. inversion H; subst. exists q. split; [assumption|].
      apply in_map. apply IH. assumption.
Qed.

Lemma Forall2_comp {A} (R S T : A -> A -> Prop) l1 : forall l2 l3,
  (forall x y z, In x l1 -> R x y -> S y z -> T x z) ->
  Forall2 R l1 l2 -> Forall2 S l2 l3 -> Forall2 T l1 l3.
Proof.
  induction l1 as [|x l1 IH]; intros l2 l3 H H1 H2.
  - inversion H1; subst. inversion H2; subst. constructor.
  - inversion H1; subst. inversion H2; subst. constructor.
    + eapply H; eauto. left; reflexivity.
    + eapply IH; eauto. intros. eapply H; eauto. right; assumption.
Qed.

Lemma Forall2_impl_In {A} (R S : A -> A -> Prop) l1 : forall l2,
  (forall x y, In x l1 -> R x y -> S x y) -> Forall2 R l1 l2 -> Forall2 S l1 l2.
Proof.
  induction l1 as [|x l1 IH]; intros l2 H H1; inversion H1; subst; constructor.
  - apply H; [left; reflexivity|assumption].
  - apply IH; [|assumption]. intros. apply H; [right; assumption|assumption].
Qed.

Lemma Forall2_In_r {A} (R : A -> A -> Prop) l1 l2 y :
  Forall2 R l1 l2 -> In y l2 -> exists x, In x l1 /\ R x y.
Proof.
  induction 1 as [|x y' l1 l2 HR HF IH]; [intros []|].
  intros [<-|Hin]; [exists x; split; [left; reflexivity|exact HR]|].
  destruct (IH Hin) as (x0 & H1 & H2). exists x0. split; [right; exact H1|exact H2].
Qed.

(* ---- stage 1: close_identity ------------------------------------------------ *)
Lemma fold_touch_spec l : forall a, acc_wf a ->
  acc_wf (fold_left acc_touch l a) /\ ap (fold_left acc_touch l a) = ap a /\
  forall x, In x (aw (fold_left acc_touch l a)) <-> In x (aw a) \/ In x l.
Proof.
  induction l as [|c l IH]; intros a Hwf; cbn [fold_left].
  - split; [exact Hwf|]. split; [reflexivity|]. intro x. cbn [In]. tauto.
  - destruct (IH (acc_touch a c) (acc_touch_wf _ _ Hwf)) as (H1 & H2 & H3).
    split; [exact H1|]. split; [rewrite H2; apply acc_touch_ap|].
    intro x. rewrite H3, acc_touch_aw. cbn [In]. intuition.
Qed.

Lemma pair_of_Some ps a b : pair_of ps = Some (a, b) <-> ps = [PC a; PC b].
Proof.
  split.
  - destruct ps as [|[a'|a'] [|[b'|b'] [|z r]]]; cbn [pair_of]; try discriminate.
    intro H. injection H as -> ->. reflexivity.
  - intros ->. reflexivity.
Qed.

Lemma id_pairs_In st w a b :
  In (a, b) (id_pairs st w) <-> In [PC a; PC b] (having_T st w PIdentity).
Proof.
  unfold id_pairs. rewrite in_flat_map. split.
  - intros (ps & Hps & H). destruct (pair_of ps) as [[a' b']|] eqn:E; [|destruct H].
    destruct H as [H|[]]. injection H as -> ->. apply pair_of_Some in E. subst ps. exact Hps.
  - intro H. exists [PC a; PC b]. split; [exact H|]. cbn [pair_of]. left; reflexivity.
Qed.

Lemma acc_empty_wf : acc_wf acc_empty.
Proof. intros x y []. Qed.

Definition QId (st : state) (p : pred) (ps : list param) : Prop :=
  p = PIdentity /\ exists a b, ps = [PC a; PC b] /\ In a (s_consts st) /\ In b (s_consts st).

Lemma QId_consts st p ps : QId st p ps -> all_consts st ps.
Proof.
  intros (_ & a & b & -> & Ha & Hb) x [<-|[<-|[]]]; eauto.
Qed.
Lemma QId_len st ps : QId st PIdentity ps -> length ps = 2.
Proof. intros (_ & a & b & -> & _). reflexivity. Qed.

Lemma id_equiv_nil st w : tok st -> s_consts st = [] -> id_equiv st w.
Proof.
  intros (Hk & Hc & Hb) Hnil.
  assert (Hno : forall a b, ~ idT st w a b).
  { intros a b H. apply (idT_consts _ _ _ _ Hc) in H. rewrite Hnil in H. destruct H as [[] _]. }
  split; [intros a Ha; rewrite Hnil in Ha; destruct Ha|].
  split; [intros a b H; destruct (Hno _ _ H)|].
  split; [intros a b c H; destruct (Hno _ _ H)|].
  intros ps Hin. pose proof (Hb _ _ Hin) as Hlen.
  destruct ps as [|x r]; [discriminate|].
  destruct (Hc _ _ _ _ Hin x) as (c & _ & Hcin); [left; reflexivity|].
  rewrite Hnil in Hcin. destruct Hcin.
Qed.

Lemma close_identity_spec cord w st st1 :
  tok st -> (forall c, In c cord <-> In c (s_consts st)) ->
  close_identity cord w st = Some st1 ->
  ext_at st st1 w (QId st) /\ tok st1 /\ id_equiv st1 w.
Proof.
  intros Htok Hcord. unfold close_identity. destruct cord as [|c0 cr].
  - intro H. injection H as <-. split; [apply ext_refl|]. split; [exact Htok|].
    apply id_equiv_nil; [exact Htok|].
    destruct (s_consts st) as [|c l] eqn:E; [reflexivity|].
    destruct (proj2 (Hcord c)); left; reflexivity.
  - set (cord := c0 :: cr) in *.
    set (st0 := with_preds st (addpk (w, PIdentity) (s_pkeys st)) (s_preds st)).
    set (a0 := id_rel cord st0 w).
    destruct (global_enforce a0) as [r|] eqn:Eg; [|discriminate].
    intro Hset.
    destruct (fold_touch_spec cord acc_empty acc_empty_wf) as (Hw1 & Hp1 & Ha1).
    assert (Hwf : acc_wf a0) by (apply fold_add_wf; exact Hw1).
    assert (Hap : forall q, In q (ap a0) <-> In q (id_pairs st0 w)).
    { intro q. unfold a0, id_rel. rewrite fold_add_ap, Hp1. cbn. tauto. }
    assert (Hpairs : forall a b, In (a, b) (id_pairs st0 w) <-> In (w, PIdentity, [PC a; PC b], VT) (s_preds st)).
    { intros a b. rewrite id_pairs_In, having_T_In. reflexivity. }
    pose proof Htok as (Hk & Hc & Hb).
    assert (Haw : forall x, In x (aw a0) -> In x (s_consts st)).
    { intros x Hx. unfold a0, id_rel in Hx. apply fold_add_aw in Hx.
      destruct Hx as [Hx|([a b] & Hp & Hx)].
      - apply Ha1 in Hx. destruct Hx as [[]|Hx]. apply Hcord; exact Hx.
      - apply Hpairs in Hp. cbn [fst snd] in Hx.
        destruct Hx as [->| ->].
        + destruct (Hc _ _ _ _ Hp (PC a)) as (c & He & Hin); [left; reflexivity|]. injection He as ->; exact Hin.
        + destruct (Hc _ _ _ _ Hp (PC b)) as (c & He & Hin); [right; left; reflexivity|]. injection He as ->; exact Hin. }
    assert (Hcaw : forall x, In x (s_consts st) -> In x (aw a0)).
    { intros x Hx. unfold a0, id_rel. apply fold_add_aw. left. apply Ha1. right. apply Hcord; exact Hx. }
    destruct (global_enforce_spec_eq a0 Hwf) as (r' & Er & Hwfr & Hawr & _).
    rewrite Eg in Er. injection Er as <-.
    destruct (global_enforce_equiv a0 r Hwf Eg) as (Hrefl & Hsym & Htrans).
    pose proof (global_enforce_extends a0 r Hwf Eg) as Hextends.
    apply set_T_all_ext in Hset. destruct Hset as [Hext HallT].
    assert (Hext' : ext_at st st1 w (QId st)).
    { eapply ext_trans.
      - apply (ext_addpk st w PIdentity).
      - eapply ext_weaken; [|exact Hext]. cbn beta. intros p ps [-> Hin].
        apply in_map_iff in Hin. destruct Hin as ([a b] & <- & Hin). cbn [fst snd].
        split; [reflexivity|]. exists a, b. split; [reflexivity|].
        destruct (Hwfr _ _ Hin) as [Hx Hy]. rewrite Hawr in Hx, Hy. auto. }
    split; [exact Hext'|].
    assert (Htok1 : tok st1).
    { eapply ext_tok; [exact Hext'| | |exact Htok].
      - intros p ps HQ. eapply QId_consts; exact HQ.
      - intros ps HQ. eapply QId_len; exact HQ. }
    split; [exact Htok1|].
    assert (HinT : forall a b, In (a, b) (ap r) -> idT st1 w a b).
    { intros a b Hin. apply HallT. apply in_map_iff. exists (a, b). auto. }
    assert (HTin : forall a b, idT st1 w a b -> In (a, b) (ap r)).
    { intros a b H. apply get_pred_In in H.
      pose proof Hext as (_ & _ & _ & _ & _ & Hj & _).
      destruct (Hj _ H) as [H1|(p0 & ps0 & He & [_ HQ] & _)].
      - apply Hextends. apply Hap. apply Hpairs. exact H1.
      - injection He as <- <-. apply in_map_iff in HQ. destruct HQ as ([a' b'] & He & Hin).
        cbn [fst snd] in He. injection He as -> ->. exact Hin. }
    pose proof Hext' as (_ & Hcs & _).
    split; [|split; [|split]].
    + intros a Ha. apply HinT. apply Hrefl. rewrite Hawr. apply Hcaw. rewrite <- Hcs. exact Ha.
    + intros a b H. apply HinT, Hsym, HTin, H.
    + intros a b c H1 H2. apply HinT. eapply Htrans; apply HTin; eassumption.
    + intros ps Hin.
      pose proof Hext' as (_ & _ & Ho & _ & _ & Hj & _).
      destruct (Hj _ Hin) as [H1|(p0 & ps0 & He & HQ & Hg)].
      * pose proof (Hb _ _ H1) as Hlen. pose proof (Hc _ _ _ _ H1) as Hcc.
        destruct ps as [|x [|y [|z t]]]; try discriminate.
        destruct (Hcc x) as (a & -> & _); [left; reflexivity|].
        destruct (Hcc y) as (b & -> & _); [right; left; reflexivity|].
        apply HinT. apply Hextends. apply Hap. apply Hpairs. exact H1.
      * injection He as <- <-. exact Hg.
Qed.
