(* The repaired classical completion (ClassicalFix.cl_complete_fixed) makes
   every frame classical: identity is an equivalence over the constants,
   a = a and Existence(a) hold for every constant, and every extension is
   closed under pointwise identity.  All statements are conditional on the
   completion returning a state (set_T returns None where the code raises). *)
From Coq Require Import List Bool Arith Lia Relations.
From PT Require Import Sem.Values Sem.MSyntax Sem.LimitBest Sem.Access Sem.AccessProofs
  Sem.PyModel Sem.Classical Sem.ClassicalFix.
Import ListNotations.

(* ---- the statement ---------------------------------------------------------- *)
Definition predT (st : state) (w : nat) (p : pred) (ps : list param) : Prop :=
  get_pred (s_preds st) w p ps = Some VT.
Definition idT st w a b := predT st w PIdentity [PC a; PC b].

Definition tuples_ok (st : state) : Prop :=
  forall w p ps v, In (w, p, ps, v) (s_preds st) ->
    In (w, p) (s_pkeys st) /\ forall x, In x ps -> exists c, x = PC c /\ In c (s_consts st).
(* the true Identity tuples are pairs (Identity has arity 2) *)
Definition id_binary (st : state) : Prop :=
  forall w ps, In (w, PIdentity, ps, VT) (s_preds st) -> length ps = 2.
Definition pord_covers (pord : nat -> list pred) (st : state) : Prop :=
  forall w p, In (w, p) (s_pkeys st) -> In p (pord w).

Definition idrel (st : state) (w : nat) (x y : param) : Prop :=
  exists a b, x = PC a /\ y = PC b /\ idT st w a b.

Definition frame_classical (st : state) (w : nat) : Prop :=
  (forall a, In a (s_consts st) -> idT st w a a /\ predT st w PExistence [PC a]) /\
  (forall a b, idT st w a b -> idT st w b a) /\
  (forall a b c, idT st w a b -> idT st w b c -> idT st w a c) /\
  (forall p ps qs, predT st w p ps ->
      Forall2 (fun x y => exists a b, x = PC a /\ y = PC b /\ idT st w a b) ps qs ->
      predT st w p qs).

(* ---- association list basics ------------------------------------------------ *)
Definition consts_ok (st : state) : Prop :=
  forall w p ps v, In (w, p, ps, v) (s_preds st) ->
    forall x, In x ps -> exists c, x = PC c /\ In c (s_consts st).
Definition keys_ok (st : state) : Prop :=
  forall w p ps v, In (w, p, ps, v) (s_preds st) -> In (w, p) (s_pkeys st).

Lemma tuples_ok_split st : tuples_ok st <-> keys_ok st /\ consts_ok st.
Proof.
  unfold tuples_ok, keys_ok, consts_ok. split.
  - intro H. split; intros w p ps v Hin; apply (H w p ps v Hin).
  - intros [H1 H2] w p ps v Hin. split; [eapply H1; eauto | eapply H2; eauto].
Qed.

Lemma key_eqb_true w p ps w' p' ps' :
  Nat.eqb w w' && pred_eqb p p' && params_eqb ps ps' = true <-> w = w' /\ p = p' /\ ps = ps'.
Proof.
  rewrite !andb_true_iff, Nat.eqb_eq, pred_eqb_eq, params_eqb_eq. tauto.
Qed.

Lemma get_pred_In l w p ps v : get_pred l w p ps = Some v -> In (w, p, ps, v) l.
Proof.
  induction l as [|[[[w' p'] ps'] v'] l IH]; cbn [get_pred]; [discriminate|].
  destruct (Nat.eqb w w' && pred_eqb p p' && params_eqb ps ps') eqn:E.
  - apply key_eqb_true in E. destruct E as [-> [-> ->]]. intro H. injection H as ->. left; reflexivity.
  - intro H. right. apply IH; exact H.
Qed.

Lemma In_get_pred l w p ps v : In (w, p, ps, v) l -> exists v', get_pred l w p ps = Some v'.
Proof.
  induction l as [|[[[w' p'] ps'] v'] l IH]; cbn [get_pred In]; [tauto|].
  intros [H|H].
  - injection H as -> -> -> ->.
    assert (E : Nat.eqb w w && pred_eqb p p && params_eqb ps ps = true) by (apply key_eqb_true; auto).
    rewrite E. eauto.
  - destruct (Nat.eqb w w' && pred_eqb p p' && params_eqb ps ps'); eauto.
Qed.

Lemma get_pred_app l1 l2 w p ps :
  get_pred (l1 ++ l2) w p ps =
  match get_pred l1 w p ps with Some v => Some v | None => get_pred l2 w p ps end.
Proof.
  induction l1 as [|[[[w' p'] ps'] v'] l IH]; cbn [get_pred app]; [reflexivity|].
  destruct (Nat.eqb w w' && pred_eqb p p' && params_eqb ps ps'); [reflexivity|apply IH].
Qed.

Lemma get_pred_single w p ps v w' p' ps' :
  get_pred [(w, p, ps, v)] w' p' ps' = Some v /\ w' = w /\ p' = p /\ ps' = ps \/
  get_pred [(w, p, ps, v)] w' p' ps' = None /\ ~ (w' = w /\ p' = p /\ ps' = ps).
Proof.
  cbn [get_pred].
  destruct (Nat.eqb w' w && pred_eqb p' p && params_eqb ps' ps) eqn:E.
  - apply key_eqb_true in E. left; tauto.
  - right. split; [reflexivity|]. intro H. apply key_eqb_true in H. congruence.
Qed.

Lemma In_addpk k x l : In k (addpk x l) <-> In k l \/ k = x.
Proof.
  unfold addpk. destruct (existsb _ l) eqn:E.
  - split; [tauto|]. intros [H|H]; [exact H|]. subst k.
    apply existsb_exists in E. destruct E as [[w p] [Hin E]].
    destruct x as [w0 p0]. cbn [fst snd] in E.
    apply andb_true_iff in E. destruct E as [E1 E2].
    apply Nat.eqb_eq in E1. apply pred_eqb_eq in E2. subst. exact Hin.
  - rewrite in_app_iff. cbn [In]. intuition.
Qed.

Lemma having_T_In st w p ps : In ps (having_T st w p) <-> In (w, p, ps, VT) (s_preds st).
Proof.
  unfold having_T. rewrite in_map_iff. split.
  - intros [[[[w' p'] ps'] v] [Heq Hin]]. cbn [fst snd] in Heq. subst ps'.
    apply filter_In in Hin. destruct Hin as [Hin E].
    rewrite !andb_true_iff, Nat.eqb_eq, pred_eqb_eq, val_eqb_eq in E.
    destruct E as [[-> ->] ->]. exact Hin.
  - intro Hin. exists (w, p, ps, VT). split; [reflexivity|].
    apply filter_In. split; [exact Hin|].
    rewrite Nat.eqb_refl, pred_eqb_refl. reflexivity.
Qed.

(* ---- extension of a state at one frame -------------------------------------- *)
Definition ext_at (st st' : state) (w : nat) (Q : pred -> list param -> Prop) : Prop :=
  s_fkeys st' = s_fkeys st /\ s_consts st' = s_consts st /\
  (forall w' p ps v, get_pred (s_preds st) w' p ps = Some v -> get_pred (s_preds st') w' p ps = Some v) /\
  (forall w' p ps v, get_pred (s_preds st') w' p ps = Some v ->
      get_pred (s_preds st) w' p ps = Some v \/ (w' = w /\ v = VT /\ Q p ps)) /\
  (forall e, In e (s_preds st) -> In e (s_preds st')) /\
  (forall e, In e (s_preds st') -> In e (s_preds st) \/
      exists p ps, e = (w, p, ps, VT) /\ Q p ps /\ get_pred (s_preds st') w p ps = Some VT) /\
  (keys_ok st -> keys_ok st').

Lemma ext_refl st w Q : ext_at st st w Q.
Proof. unfold ext_at. repeat split; auto. Qed.

Lemma ext_weaken st st' w (Q Q' : pred -> list param -> Prop) :
  (forall p ps, Q p ps -> Q' p ps) -> ext_at st st' w Q -> ext_at st st' w Q'.
Proof.
  intros HQ (Hf & Hc & Ho & Hn & Hi & Hj & Hk). unfold ext_at. repeat split; auto.
  - intros w' p ps v H. destruct (Hn _ _ _ _ H) as [H1|(?&?&?)]; [left; exact H1|right; auto].
  - intros e H. destruct (Hj _ H) as [H1|(p&ps&?&?&?)]; [left; exact H1|right; exists p, ps; auto].
Qed.

Lemma ext_trans st st1 st2 w Q :
  ext_at st st1 w Q -> ext_at st1 st2 w Q -> ext_at st st2 w Q.
Proof.
  intros (Hf & Hc & Ho & Hn & Hi & Hj & Hk) (Hf' & Hc' & Ho' & Hn' & Hi' & Hj' & Hk').
  unfold ext_at. repeat split; try congruence; auto.
  - intros w' p ps v H. destruct (Hn' _ _ _ _ H) as [H1|H1]; [|right; exact H1].
    apply Hn; exact H1.
  - intros e H. destruct (Hj' _ H) as [H1|H1]; [|right; exact H1].
    destruct (Hj _ H1) as [H2|(p&ps&He&HQ&Hg)]; [left; exact H2|].
    right. exists p, ps. repeat split; auto.
Qed.

Lemma ext_addpk st w p Q :
  ext_at st (with_preds st (addpk (w, p) (s_pkeys st)) (s_preds st)) w Q.
Proof.
  unfold ext_at. cbn [with_preds s_fkeys s_consts s_preds s_pkeys]. repeat split; auto.
  intros Hk w' p' ps v Hin. cbn [with_preds s_preds s_pkeys] in *.
  apply In_addpk. left. eapply Hk; exact Hin.
Qed.

Lemma set_T_ext st w p ps st' :
  set_T st w p ps = Some st' ->
  ext_at st st' w (fun p' ps' => p' = p /\ ps' = ps) /\ predT st' w p ps.
Proof.
  unfold set_T. destruct (get_pred (s_preds st) w p ps) as [v|] eqn:G.
  - destruct (val_eqb v VT) eqn:E; [|discriminate]. apply val_eqb_eq in E. subst v.
    intro H. injection H as <-. split; [apply ext_refl|exact G].
  - intro H. injection H as <-. unfold ext_at, predT.
    cbn [with_preds s_fkeys s_consts s_preds s_pkeys].
    assert (Gnew : get_pred (s_preds st ++ [(w, p, ps, VT)]) w p ps = Some VT).
    { rewrite get_pred_app, G.
      destruct (get_pred_single w p ps VT w p ps) as [[H _]|[_ H]]; [exact H|exfalso; apply H; auto]. }
    split; [|exact Gnew]. repeat split; auto.
    + intros w' p' ps' v H. rewrite get_pred_app, H. reflexivity.
    + intros w' p' ps' v. rewrite get_pred_app.
      destruct (get_pred (s_preds st) w' p' ps') as [v0|]; [intro H; left; exact H|].
      destruct (get_pred_single w p ps VT w' p' ps') as [[H (-> & -> & ->)]|[H _]]; rewrite H.
      * intro H1. injection H1 as <-. right. auto.
      * discriminate.
    + intros e H. apply in_app_iff. left; exact H.
    + intros e H. apply in_app_iff in H. destruct H as [H|[<-|[]]]; [left; exact H|].
      right. exists p, ps. auto.
    + intros Hk w' p' ps' v Hin. cbn [with_preds s_preds s_pkeys] in *.
      apply In_addpk. apply in_app_iff in Hin. destruct Hin as [Hin|[Hin|[]]].
      * left. eapply Hk; exact Hin.
      * right. congruence.
Qed.

Lemma ext_predT_mono st st' w Q w' p ps :
  ext_at st st' w Q -> predT st w' p ps -> predT st' w' p ps.
Proof. intros (_ & _ & Ho & _) H. apply Ho; exact H. Qed.

Lemma ext_predT_inv st st' w Q w' p ps :
  ext_at st st' w Q -> predT st' w' p ps -> predT st w' p ps \/ (w' = w /\ Q p ps).
Proof.
  intros (_ & _ & _ & Hn & _) H. destruct (Hn _ _ _ _ H) as [H1|(?&_&?)]; [left; exact H1|right; auto].
Qed.

Lemma ext_other st st' w Q w' p ps :
  ext_at st st' w Q -> w' <> w -> get_pred (s_preds st') w' p ps = get_pred (s_preds st) w' p ps.
Proof.
  intros (_ & _ & Ho & Hn & _) Hne.
  destruct (get_pred (s_preds st) w' p ps) as [v|] eqn:G.
  - apply Ho; exact G.
  - destruct (get_pred (s_preds st') w' p ps) as [v|] eqn:G'; [|reflexivity].
    destruct (Hn _ _ _ _ G') as [H|(H&_)]; [congruence|contradiction].
Qed.

Lemma set_T_all_ext st w p l : forall st',
  set_T_all st w p l = Some st' ->
  ext_at st st' w (fun p' ps' => p' = p /\ In ps' l) /\ forall ps, In ps l -> predT st' w p ps.
Proof.
  revert st. induction l as [|ps l IH]; intros st st'; cbn [set_T_all].
  - intro H. injection H as <-. split; [apply ext_refl|intros ps []].
  - destruct (set_T st w p ps) as [st1|] eqn:E; [|discriminate]. intro H.
    apply set_T_ext in E. destruct E as [E1 E2].
    apply IH in H. destruct H as [H1 H2]. split.
    + eapply ext_trans.
      * eapply ext_weaken; [|exact E1]. cbn beta. intros p' ps' [-> ->]. split; [reflexivity|left; reflexivity].
      * eapply ext_weaken; [|exact H1]. cbn beta. intros p' ps' [-> Hin]. split; [reflexivity|right; exact Hin].
    + intros ps' [<-|Hin]; [|apply H2; exact Hin].
      eapply ext_predT_mono; [exact H1|exact E2].
Qed.

Lemma fold_opt_set_T st w p (f : nat -> list param) l :
  fold_opt (fun st c => set_T st w p (f c)) st l = set_T_all st w p (map f l).
Proof.
  revert st. induction l as [|c l IH]; intro st; cbn [fold_opt set_T_all map]; [reflexivity|].
  destruct (set_T st w p (f c)); [apply IH|reflexivity].
Qed.

(* ---- invariants carried through the completion of one frame ---------------- *)
Definition idfun (st : state) (w : nat) : Prop :=
  forall ps, In (w, PIdentity, ps, VT) (s_preds st) -> predT st w PIdentity ps.
Definition id_equiv (st : state) (w : nat) : Prop :=
  (forall a, In a (s_consts st) -> idT st w a a) /\
  (forall a b, idT st w a b -> idT st w b a) /\
  (forall a b c, idT st w a b -> idT st w b c -> idT st w a c) /\
  idfun st w.
Definition tok (st : state) : Prop := keys_ok st /\ consts_ok st /\ id_binary st.

Definition all_consts (st : state) (ps : list param) : Prop :=
  forall x, In x ps -> exists c, x = PC c /\ In c (s_consts st).

Lemma ext_tok st st' w Q :
  ext_at st st' w Q ->
  (forall p ps, Q p ps -> all_consts st ps) ->
  (forall ps, Q PIdentity ps -> length ps = 2) ->
  tok st -> tok st'.
Proof.
  intros Hext HQc HQb (Hk & Hc & Hb).
  pose proof Hext as (Hf & Hcs & Ho & Hn & Hi & Hj & Hkk).
  split; [apply Hkk; exact Hk|]. split.
  - intros w' p ps v Hin x Hx. rewrite Hcs.
    destruct (Hj _ Hin) as [H|(p0&ps0&He&HQ&_)].
    + eapply Hc; eauto.
    + injection He as -> -> -> ->. eapply HQc; eauto.
  - intros w' ps Hin. destruct (Hj _ Hin) as [H|(p0&ps0&He&HQ&_)].
    + eapply Hb; eauto.
    + injection He as -> <- <-. apply HQb; exact HQ.
Qed.

Lemma ext_idfun st st' w Q w0 : ext_at st st' w Q -> idfun st w0 -> idfun st' w0.
Proof.
  intros Hext Hfun ps Hin. pose proof Hext as (_ & _ & Ho & _ & _ & Hj & _).
  destruct (Hj _ Hin) as [H|(p0&ps0&He&HQ&Hg)].
  - apply Ho. apply Hfun; exact H.
  - injection He as -> <- <-. exact Hg.
Qed.

Lemma idT_consts st w a b : consts_ok st -> idT st w a b -> In a (s_consts st) /\ In b (s_consts st).
Proof.
  intros Hc H. apply get_pred_In in H.
  split.
  - destruct (Hc _ _ _ _ H (PC a)) as (c & He & Hin); [left; reflexivity|]. injection He as ->. exact Hin.
  - destruct (Hc _ _ _ _ H (PC b)) as (c & He & Hin); [right; left; reflexivity|]. injection He as ->. exact Hin.
Qed.

(* the true identity tuples of a good frame are exactly the idT pairs *)
Lemma having_id_pair st w ps : tok st -> idfun st w ->
  In ps (having_T st w PIdentity) -> exists a b, ps = [PC a; PC b] /\ idT st w a b.
Proof.
  intros (Hk & Hc & Hb) Hfun Hin. apply having_T_In in Hin.
  pose proof (Hb _ _ Hin) as Hlen. pose proof (Hc _ _ _ _ Hin) as Hcs.
  destruct ps as [|x [|y [|z r]]]; try discriminate.
  destruct (Hcs x) as (a & -> & _); [left; reflexivity|].
  destruct (Hcs y) as (b & -> & _); [right; left; reflexivity|].
  exists a, b. split; [reflexivity|]. apply Hfun; exact Hin.
Qed.

Lemma idT_having st w a b : idT st w a b -> In [PC a; PC b] (having_T st w PIdentity).
Proof. intro H. apply having_T_In. apply get_pred_In; exact H. Qed.

(* ---- identicals / class_of / tuples_product -------------------------------- *)
Lemma In_addparam x p l : In x (addparam p l) <-> In x l \/ x = p.
Proof.
  unfold addparam. destruct (existsb (param_eqb p) l) eqn:E.
  - split; [tauto|]. intros [H|H]; [exact H|]. subst x.
    apply existsb_exists in E. destruct E as (y & Hy & E). apply param_eqb_eq in E. subst; exact Hy.
  - rewrite in_app_iff. cbn [In]. intuition.
Qed.

Lemma fold_addparam_In x ps : forall acc,
  In x (fold_left (fun l p => addparam p l) ps acc) <-> In x acc \/ In x ps.
Proof.
  induction ps as [|p ps IH]; intro acc; cbn [fold_left In]; [tauto|].
  rewrite IH, In_addparam. intuition.
Qed.

Lemma ident_fold_In c x l : forall acc,
  In x (fold_left (fun l ps => if pmem c ps then fold_left (fun l p => addparam p l) ps l else l) l acc)
  <-> In x acc \/ exists ps, In ps l /\ pmem c ps = true /\ In x ps.
Proof.
  induction l as [|ps l IH]; intro acc; cbn [fold_left].
  - split; [tauto|]. intros [H|(ps & [] & _)]; exact H.
  - rewrite IH. destruct (pmem c ps) eqn:E.
    + rewrite fold_addparam_In. split.
      * intros [[H|H]|(ps' & H1 & H2 & H3)]; [left; exact H| |].
        -- right. exists ps. cbn [In]. auto.
        -- right. exists ps'. cbn [In]. auto.
      * intros [H|(ps' & [<-|H1] & H2 & H3)]; [tauto|tauto|].
        right. exists ps'. auto.
    + split.
      * intros [H|(ps' & H1 & H2 & H3)]; [left; exact H|].
        right. exists ps'. cbn [In]. auto.
      * intros [H|(ps' & [<-|H1] & H2 & H3)]; [tauto|congruence|].
        right. exists ps'. auto.
Qed.

Lemma pmem_In c ps : pmem c ps = true <-> In (PC c) ps.
Proof.
  unfold pmem. rewrite existsb_exists. split.
  - intros (x & Hx & E). apply param_eqb_eq in E. subst; exact Hx.
  - intro H. exists (PC c). split; [exact H|]. apply param_eqb_eq; reflexivity.
Qed.

Lemma identicals_In st w c x : tok st -> id_equiv st w ->
  In x (identicals st w c) <-> exists b, x = PC b /\ b <> c /\ idT st w c b.
Proof.
  intros Htok (Hr & Hs & Ht & Hfun). unfold identicals.
  rewrite filter_In, ident_fold_In. split.
  - intros [[[]|(ps & Hps & Hm & Hx)] Hne].
    destruct (having_id_pair _ _ _ Htok Hfun Hps) as (a & b & -> & Hab).
    apply pmem_In in Hm. apply negb_true_iff in Hne.
    assert (Hxc : x <> PC c).
    { intro He. subst x. rewrite (proj2 (param_eqb_eq _ _) eq_refl) in Hne. discriminate. }
    destruct Hx as [<-|[<-|[]]].
    + exists a. split; [reflexivity|]. split; [congruence|].
      destruct Hm as [Hm|[Hm|[]]]; [congruence|]. injection Hm as ->. apply Hs; exact Hab.
    + exists b. split; [reflexivity|]. split; [congruence|].
      destruct Hm as [Hm|[Hm|[]]]; [|congruence]. injection Hm as ->. exact Hab.
  - intros (b & -> & Hne & Hcb). split.
    + right. exists [PC c; PC b]. split; [apply idT_having; exact Hcb|].
      split; [apply pmem_In; left; reflexivity|right; left; reflexivity].
    + apply negb_true_iff. destruct (param_eqb (PC b) (PC c)) eqn:E; [|reflexivity].
      apply param_eqb_eq in E. congruence.
Qed.

Lemma class_of_In st w c y : tok st -> id_equiv st w -> In c (s_consts st) ->
  In y (class_of st w (PC c)) <-> exists b, y = PC b /\ idT st w c b.
Proof.
  intros Htok Heq Hc. cbn [class_of In]. rewrite identicals_In by assumption. split.
  - intros [<-|(b & -> & _ & H)].
    + exists c. split; [reflexivity|]. apply (proj1 Heq); exact Hc.
    + exists b. auto.
  - intros (b & -> & H). destruct (Nat.eq_dec b c) as [->|Hne]; [left; reflexivity|].
    right. exists b. auto.
Qed.

Lemma tuples_product_In qs : forall ls,
  In qs (tuples_product ls) <-> Forall2 (fun q l => In q l) qs ls.
Proof.
  induction qs as [|q qs IH]; intros [|l ls]; cbn [tuples_product].
  - split; [constructor|left; reflexivity].
  - split.
    + intro H. apply in_flat_map in H. destruct H as (x & _ & H).
      apply in_map_iff in H. destruct H as (? & H & _). discriminate.
    + intro H. inversion H.
  - split; [intros [H|[]]; discriminate|intro H; inversion H].
  - rewrite in_flat_map. split.
    + intros (x & Hx & H). apply in_map_iff in H. destruct H as (r & He & Hr).
      injection He as -> ->. constructor; [exact Hx|apply IH; exact Hr].
    + intro H. inversion H; subst. exists q. split; [assumption|].
      apply in_map. apply IH. assumption.
Qed.

Lemma Forall2_comp {A} (R S T : A -> A -> Prop) l1 : forall l2 l3,
  (forall x y z, In x l1 -> R x y -> S y z -> T x z) ->
  Forall2 R l1 l2 -> Forall2 S l2 l3 -> Forall2 T l1 l3.
Proof.
  induction l1 as [|x l1 IH]; intros l2 l3 H H1 H2.
  - inversion H1; subst. inversion H2; subst. constructor.
  - inversion H1; subst. inversion H2; subst. constructor.
    + eapply H; eauto. left; reflexivity.
    + eapply IH; eauto. intros. eapply H; eauto. right; assumption.
Qed.

Lemma Forall2_impl_In {A} (R S : A -> A -> Prop) l1 : forall l2,
  (forall x y, In x l1 -> R x y -> S x y) -> Forall2 R l1 l2 -> Forall2 S l1 l2.
Proof.
  induction l1 as [|x l1 IH]; intros l2 H H1; inversion H1; subst; constructor.
  - apply H; [left; reflexivity|assumption].
  - apply IH; [|assumption]. intros. apply H; [right; assumption|assumption].
Qed.

Lemma Forall2_In_r {A} (R : A -> A -> Prop) l1 l2 y :
  Forall2 R l1 l2 -> In y l2 -> exists x, In x l1 /\ R x y.
Proof.
  induction 1 as [|x y' l1 l2 HR HF IH]; [intros []|].
  intros [<-|Hin]; [exists x; split; [left; reflexivity|exact HR]|].
  destruct (IH Hin) as (x0 & H1 & H2). exists x0. split; [right; exact H1|exact H2].
Qed.

(* ---- stage 1: close_identity ------------------------------------------------ *)
Lemma fold_touch_spec l : forall a, acc_wf a ->
  acc_wf (fold_left acc_touch l a) /\ ap (fold_left acc_touch l a) = ap a /\
  forall x, In x (aw (fold_left acc_touch l a)) <-> In x (aw a) \/ In x l.
Proof.
  induction l as [|c l IH]; intros a Hwf; cbn [fold_left].
  - split; [exact Hwf|]. split; [reflexivity|]. intro x. cbn [In]. tauto.
  - destruct (IH (acc_touch a c) (acc_touch_wf _ _ Hwf)) as (H1 & H2 & H3).
    split; [exact H1|]. split; [rewrite H2; apply acc_touch_ap|].
    intro x. rewrite H3, acc_touch_aw. cbn [In]. intuition.
Qed.

Lemma pair_of_Some ps a b : pair_of ps = Some (a, b) <-> ps = [PC a; PC b].
Proof.
  split.
  - destruct ps as [|[a'|a'] [|[b'|b'] [|z r]]]; cbn [pair_of]; try discriminate.
    intro H. injection H as -> ->. reflexivity.
  - intros ->. reflexivity.
Qed.

Lemma id_pairs_In st w a b :
  In (a, b) (id_pairs st w) <-> In [PC a; PC b] (having_T st w PIdentity).
Proof.
  unfold id_pairs. rewrite in_flat_map. split.
  - intros (ps & Hps & H). destruct (pair_of ps) as [[a' b']|] eqn:E; [|destruct H].
    destruct H as [H|[]]. injection H as -> ->. apply pair_of_Some in E. subst ps. exact Hps.
  - intro H. exists [PC a; PC b]. split; [exact H|]. cbn [pair_of]. left; reflexivity.
Qed.

Lemma acc_empty_wf : acc_wf acc_empty.
Proof. intros x y []. Qed.

Definition QId (st : state) (p : pred) (ps : list param) : Prop :=
  p = PIdentity /\ exists a b, ps = [PC a; PC b] /\ In a (s_consts st) /\ In b (s_consts st).

Lemma QId_consts st p ps : QId st p ps -> all_consts st ps.
Proof.
  intros (_ & a & b & -> & Ha & Hb) x [<-|[<-|[]]]; eauto.
Qed.
Lemma QId_len st ps : QId st PIdentity ps -> length ps = 2.
Proof. intros (_ & a & b & -> & _). reflexivity. Qed.

Lemma id_equiv_nil st w : tok st -> s_consts st = [] -> id_equiv st w.
Proof.
  intros (Hk & Hc & Hb) Hnil.
  assert (Hno : forall a b, ~ idT st w a b).
  { intros a b H. apply (idT_consts _ _ _ _ Hc) in H. rewrite Hnil in H. destruct H as [[] _]. }
  split; [intros a Ha; rewrite Hnil in Ha; destruct Ha|].
  split; [intros a b H; destruct (Hno _ _ H)|].
  split; [intros a b c H; destruct (Hno _ _ H)|].
  intros ps Hin. pose proof (Hb _ _ Hin) as Hlen.
  destruct ps as [|x r]; [discriminate|].
  destruct (Hc _ _ _ _ Hin x) as (c & _ & Hcin); [left; reflexivity|].
  rewrite Hnil in Hcin. destruct Hcin.
Qed.

Lemma close_identity_spec cord w st st1 :
  tok st -> (forall c, In c cord <-> In c (s_consts st)) ->
  close_identity cord w st = Some st1 ->
  ext_at st st1 w (QId st) /\ tok st1 /\ id_equiv st1 w.
Proof.
  intros Htok Hcord. unfold close_identity. destruct cord as [|c0 cr].
  - intro H. injection H as <-. split; [apply ext_refl|]. split; [exact Htok|].
    apply id_equiv_nil; [exact Htok|].
    destruct (s_consts st) as [|c l] eqn:E; [reflexivity|].
    destruct (proj2 (Hcord c)); left; reflexivity.
  - set (cord := c0 :: cr) in *.
    set (st0 := with_preds st (addpk (w, PIdentity) (s_pkeys st)) (s_preds st)).
    set (a0 := id_rel cord st0 w).
    destruct (global_enforce a0) as [r|] eqn:Eg; [|discriminate].
    intro Hset.
    destruct (fold_touch_spec cord acc_empty acc_empty_wf) as (Hw1 & Hp1 & Ha1).
    assert (Hwf : acc_wf a0) by (apply fold_add_wf; exact Hw1).
    assert (Hap : forall q, In q (ap a0) <-> In q (id_pairs st0 w)).
    { intro q. unfold a0, id_rel. rewrite fold_add_ap, Hp1. cbn. tauto. }
    assert (Hpairs : forall a b, In (a, b) (id_pairs st0 w) <-> In (w, PIdentity, [PC a; PC b], VT) (s_preds st)).
    { intros a b. rewrite id_pairs_In, having_T_In. reflexivity. }
    pose proof Htok as (Hk & Hc & Hb).
    assert (Haw : forall x, In x (aw a0) -> In x (s_consts st)).
    { intros x Hx. unfold a0, id_rel in Hx. apply fold_add_aw in Hx.
      destruct Hx as [Hx|([a b] & Hp & Hx)].
      - apply Ha1 in Hx. destruct Hx as [[]|Hx]. apply Hcord; exact Hx.
      - apply Hpairs in Hp. cbn [fst snd] in Hx.
        destruct Hx as [->| ->].
        + destruct (Hc _ _ _ _ Hp (PC a)) as (c & He & Hin); [left; reflexivity|]. injection He as ->; exact Hin.
        + destruct (Hc _ _ _ _ Hp (PC b)) as (c & He & Hin); [right; left; reflexivity|]. injection He as ->; exact Hin. }
    assert (Hcaw : forall x, In x (s_consts st) -> In x (aw a0)).
    { intros x Hx. unfold a0, id_rel. apply fold_add_aw. left. apply Ha1. right. apply Hcord; exact Hx. }
    destruct (global_enforce_spec_eq a0 Hwf) as (r' & Er & Hwfr & Hawr & _).
    rewrite Eg in Er. injection Er as <-.
    destruct (global_enforce_equiv a0 r Hwf Eg) as (Hrefl & Hsym & Htrans).
    pose proof (global_enforce_extends a0 r Hwf Eg) as Hextends.
    apply set_T_all_ext in Hset. destruct Hset as [Hext HallT].
    assert (Hext' : ext_at st st1 w (QId st)).
    { eapply ext_trans.
      - apply (ext_addpk st w PIdentity).
      - eapply ext_weaken; [|exact Hext]. cbn beta. intros p ps [-> Hin].
        apply in_map_iff in Hin. destruct Hin as ([a b] & <- & Hin). cbn [fst snd].
        split; [reflexivity|]. exists a, b. split; [reflexivity|].
        destruct (Hwfr _ _ Hin) as [Hx Hy]. rewrite Hawr in Hx, Hy. auto. }
    split; [exact Hext'|].
    assert (Htok1 : tok st1).
    { eapply ext_tok; [exact Hext'| | |exact Htok].
      - intros p ps HQ. eapply QId_consts; exact HQ.
      - intros ps HQ. eapply QId_len; exact HQ. }
    split; [exact Htok1|].
    assert (HinT : forall a b, In (a, b) (ap r) -> idT st1 w a b).
    { intros a b Hin. apply HallT. apply in_map_iff. exists (a, b). auto. }
    assert (HTin : forall a b, idT st1 w a b -> In (a, b) (ap r)).
    { intros a b H. apply get_pred_In in H.
      pose proof Hext as (_ & _ & _ & _ & _ & Hj & _).
      destruct (Hj _ H) as [H1|(p0 & ps0 & He & [_ HQ] & _)].
      - apply Hextends. apply Hap. apply Hpairs. exact H1.
      - injection He as <- <-. apply in_map_iff in HQ. destruct HQ as ([a' b'] & He & Hin).
        cbn [fst snd] in He. injection He as -> ->. exact Hin. }
    pose proof Hext' as (_ & Hcs & _).
    split; [|split; [|split]].
    + intros a Ha. apply HinT. apply Hrefl. rewrite Hawr. apply Hcaw. rewrite <- Hcs. exact Ha.
    + intros a b H. apply HinT, Hsym, HTin, H.
    + intros a b c H1 H2. apply HinT. eapply Htrans; apply HTin; eassumption.
    + intros ps Hin.
      pose proof Hext' as (_ & _ & Ho & _ & _ & Hj & _).
      destruct (Hj _ Hin) as [H1|(p0 & ps0 & He & HQ & Hg)].
      * pose proof (Hb _ _ H1) as Hlen. pose proof (Hc _ _ _ _ H1) as Hcc.
        destruct ps as [|x [|y [|z t]]]; try discriminate.
        destruct (Hcc x) as (a & -> & _); [left; reflexivity|].
        destruct (Hcc y) as (b & -> & _); [right; left; reflexivity|].
        apply HinT. apply Hextends. apply Hap. apply Hpairs. exact H1.
      * injection He as <- <-. exact Hg.
Qed.

(* ---- stage 2: augment_fixed -------------------------------------------------- *)
Definition closed (st : state) (w : nat) (p : pred) : Prop :=
  forall ps qs, predT st w p ps -> Forall2 (idrel st w) ps qs -> predT st w p qs.

Definition QA (st : state) (w : nat) (p : pred) (p' : pred) (qs : list param) : Prop :=
  p' = p /\ exists ts, In ts (having_T st w p) /\ Forall2 (idrel st w) ts qs.

Lemma class_of_with_preds st pk w x :
  class_of (with_preds st pk (s_preds st)) w x = class_of st w x.
Proof. destruct x; reflexivity. Qed.

Lemma class_idrel st w t q : tok st -> id_equiv st w ->
  (exists c, t = PC c /\ In c (s_consts st)) ->
  In q (class_of st w t) <-> idrel st w t q.
Proof.
  intros Htok Heq (c & -> & Hc). rewrite class_of_In by assumption. unfold idrel. split.
  - intros (b & -> & H). exists c, b. auto.
  - intros (a & b & He & -> & H). injection He as <-. exists b. auto.
Qed.

Lemma Forall2_map_flip {A B} (R : A -> B -> Prop) (f : A -> B) (P : B -> A -> Prop) :
  forall (ts : list A) (qs : list A),
  Forall2 (fun q l => P l q) qs (map f ts) <-> Forall2 (fun t q => P (f t) q) ts qs.
Proof.
  induction ts as [|t ts IH]; intros [|q qs]; cbn [map]; split; intro H; inversion H; subst; constructor;
    try assumption; apply IH; assumption.
Qed.

Lemma having_consts st w p ts : tok st -> In ts (having_T st w p) -> all_consts st ts.
Proof. intros (_ & Hc & _) H. apply having_T_In in H. exact (Hc _ _ _ _ H). Qed.

Lemma augment_fixed_spec w st p st' :
  tok st -> id_equiv st w -> augment_fixed w st p = Some st' ->
  ext_at st st' w (QA st w p) /\ (forall qs, QA st w p p qs -> predT st' w p qs).
Proof.
  intros Htok Heq. unfold augment_fixed.
  destruct (having_T st w p) as [|t0 tr] eqn:Eh.
  - intro H. injection H as <-. split; [apply ext_refl|].
    intros qs (_ & ts & Hts & _). rewrite Eh in Hts. destruct Hts.
  - rewrite <- Eh. intro Hset. apply set_T_all_ext in Hset. destruct Hset as [Hext HallT].
    assert (Hmem : forall qs,
      In qs (flat_map (fun ps => tuples_product
               (map (class_of (with_preds st (addpk (w, PIdentity) (s_pkeys st)) (s_preds st)) w) ps))
               (having_T st w p)) <->
      exists ts, In ts (having_T st w p) /\ Forall2 (idrel st w) ts qs).
    { intro qs. rewrite in_flat_map. split; intros (ts & Hts & H); exists ts; (split; [exact Hts|]).
      - apply tuples_product_In in H.
        apply (Forall2_map_flip (fun _ _ => True) _ (fun l q => In q l)) in H.
        eapply Forall2_impl_In; [|exact H]. cbn beta. intros x y Hx Hy.
        rewrite class_of_with_preds in Hy. apply class_idrel in Hy; auto.
        destruct (having_consts _ _ _ _ Htok Hts x Hx) as (c & -> & Hc). eauto.
      - apply tuples_product_In.
        apply (Forall2_map_flip (fun _ _ => True) _ (fun l q => In q l)).
        eapply Forall2_impl_In; [|exact H]. cbn beta. intros x y Hx Hy.
        rewrite class_of_with_preds. apply class_idrel; auto.
        destruct (having_consts _ _ _ _ Htok Hts x Hx) as (c & -> & Hc). eauto. }
    split.
    + eapply ext_trans; [apply (ext_addpk st w PIdentity)|].
      eapply ext_weaken; [|exact Hext]. cbn beta. intros p' ps [-> Hin].
      split; [reflexivity|]. apply Hmem; exact Hin.
    + intros qs (_ & HQ). apply HallT. apply Hmem. exact HQ.
Qed.

Lemma idrel_trans st w x y z : id_equiv st w -> idrel st w x y -> idrel st w y z -> idrel st w x z.
Proof.
  intros (_ & _ & Ht & _) (a & b & -> & -> & H1) (b' & c & He & -> & H2). injection He as <-.
  exists a, c. split; [reflexivity|]. split; [reflexivity|]. eapply Ht; eauto.
Qed.

Lemma idrel_consts st w x y : consts_ok st -> idrel st w x y -> exists c, y = PC c /\ In c (s_consts st).
Proof.
  intros Hc (a & b & -> & -> & H). exists b. split; [reflexivity|]. eapply idT_consts; eauto.
Qed.

Lemma idrel_iff st st' w :
  (forall a b, idT st' w a b <-> idT st w a b) -> forall x y, idrel st' w x y <-> idrel st w x y.
Proof.
  intros H x y. unfold idrel. split; intros (a & b & -> & -> & H1); exists a, b; repeat split; apply H; exact H1.
Qed.

Lemma pred_eq_dec (p q : pred) : {p = q} + {p <> q}.
Proof.
  destruct (pred_eqb p q) eqn:E; [left; apply pred_eqb_eq; exact E|right].
  intro H. apply pred_eqb_eq in H. congruence.
Qed.

Lemma Forall2_len {A B} (R : A -> B -> Prop) l1 l2 : Forall2 R l1 l2 -> length l1 = length l2.
Proof. induction 1; cbn [length]; congruence. Qed.

Lemma augment_sem w st p st' :
  tok st -> id_equiv st w ->
  ext_at st st' w (QA st w p) -> (forall qs, QA st w p p qs -> predT st' w p qs) ->
  tok st' /\ (forall a b, idT st' w a b <-> idT st w a b) /\ id_equiv st' w /\
  closed st' w p /\ (forall p', closed st w p' -> closed st' w p').
Proof.
  intros Htok Heq Hext HallT.
  pose proof Htok as (Hk & Hc & Hb). pose proof Heq as (Hr & Hs & Ht & Hfun).
  assert (Htok' : tok st').
  { eapply ext_tok; [exact Hext| | |exact Htok].
    - intros p' qs (_ & ts & Hts & HF) y Hy.
      destruct (Forall2_In_r _ _ _ _ HF Hy) as (x & _ & Hxy).
      eapply idrel_consts; eauto.
    - intros qs (He & ts & Hts & HF). subst p. rewrite <- (Forall2_len _ _ _ HF).
      apply Hb with (w := w). apply having_T_In. exact Hts. }
  assert (Hid : forall a b, idT st' w a b <-> idT st w a b).
  { intros a b. split; [|apply (ext_predT_mono _ _ _ _ _ _ _ Hext)].
    intro H. destruct (ext_predT_inv _ _ _ _ _ _ _ Hext H) as [H1|(_ & He & ts & Hts & HF)]; [exact H1|].
    subst p. destruct (having_id_pair _ _ _ Htok Hfun Hts) as (c & d & -> & Hcd).
    inversion HF as [|x y l l' H1 HF']; subst. inversion HF' as [|x y l l' H2 HF'']; subst.
    destruct H1 as (c' & a' & E1 & E2 & H1). injection E1 as <-. injection E2 as <-.
    destruct H2 as (d' & b' & E1 & E2 & H2). injection E1 as <-. injection E2 as <-.
    eapply Ht; [apply Hs; exact H1|]. eapply Ht; eauto. }
  pose proof Hext as (_ & Hcs & _).
  assert (Heq' : id_equiv st' w).
  { split; [|split; [|split]].
    - intros a Ha. apply Hid. apply Hr. rewrite <- Hcs. exact Ha.
    - intros a b H. apply Hid, Hs, Hid, H.
    - intros a b c H1 H2. apply Hid. eapply Ht; apply Hid; eassumption.
    - eapply ext_idfun; eauto. }
  split; [exact Htok'|]. split; [exact Hid|]. split; [exact Heq'|].
  pose proof (idrel_iff _ _ _ Hid) as Hrel.
  assert (Hcl : closed st' w p).
  { intros ps qs HT HF.
    assert (HF0 : Forall2 (idrel st w) ps qs).
    { eapply Forall2_impl_In; [|exact HF]. intros x y _ H. apply Hrel; exact H. }
    apply HallT. split; [reflexivity|].
    destruct (ext_predT_inv _ _ _ _ _ _ _ Hext HT) as [H1|(_ & _ & ts & Hts & HFt)].
    - exists ps. split; [|exact HF0]. apply having_T_In. apply get_pred_In. exact H1.
    - exists ts. split; [exact Hts|].
      eapply Forall2_comp; [|exact HFt|exact HF0]. intros x y z _. apply idrel_trans; exact Heq. }
  split; [exact Hcl|].
  intros p' Hcl'. destruct (pred_eq_dec p' p) as [->|Hne]; [exact Hcl|].
  intros ps qs HT HF.
  assert (HF0 : Forall2 (idrel st w) ps qs).
  { eapply Forall2_impl_In; [|exact HF]. intros x y _ H. apply Hrel; exact H. }
  destruct (ext_predT_inv _ _ _ _ _ _ _ Hext HT) as [H1|(_ & He & _)]; [|contradiction].
  eapply ext_predT_mono; [exact Hext|]. eapply Hcl'; eauto.
Qed.

Lemma augment_fold w l : forall st st',
  tok st -> id_equiv st w -> fold_opt (augment_fixed w) st l = Some st' ->
  ext_at st st' w (fun p' _ => In p' l) /\ tok st' /\ id_equiv st' w /\
  (forall a b, idT st' w a b <-> idT st w a b) /\
  (forall p, In p l -> closed st' w p) /\ (forall p, closed st w p -> closed st' w p).
Proof.
  induction l as [|p l IH]; intros st st' Htok Heq; cbn [fold_opt].
  - intro H. injection H as <-. split; [apply ext_refl|].
    split; [exact Htok|]. split; [exact Heq|]. split; [tauto|]. split; [intros p []|auto].
  - destruct (augment_fixed w st p) as [st1|] eqn:E; [|discriminate]. intro Hf.
    destruct (augment_fixed_spec _ _ _ _ Htok Heq E) as [Hext HallT].
    destruct (augment_sem _ _ _ _ Htok Heq Hext HallT) as (Htok1 & Hid1 & Heq1 & Hcl1 & Hpres1).
    destruct (IH _ _ Htok1 Heq1 Hf) as (Hext2 & Htok2 & Heq2 & Hid2 & Hcl2 & Hpres2).
    split; [|split; [exact Htok2|split; [exact Heq2|split; [|split]]]].
    + eapply ext_trans.
      * eapply ext_weaken; [|exact Hext]. cbn beta. intros p' ps [-> _]. left; reflexivity.
      * eapply ext_weaken; [|exact Hext2]. cbn beta. intros p' ps H. right; exact H.
    + intros a b. rewrite Hid2. apply Hid1.
    + intros p' [<-|Hin]; [apply Hpres2; exact Hcl1|apply Hcl2; exact Hin].
    + intros p' H. apply Hpres2, Hpres1, H.
Qed.

(* ---- stage 3: ensure_self ------------------------------------------------------ *)
Definition QS (st : state) (p : pred) (ps : list param) : Prop :=
  (p = PIdentity /\ exists c, In c (s_consts st) /\ ps = [PC c; PC c]) \/
  (p = PExistence /\ exists c, In c (s_consts st) /\ ps = [PC c]).

Lemma ensure_self_spec cord w st st' :
  (forall c, In c cord <-> In c (s_consts st)) -> ensure_self cord w st = Some st' ->
  ext_at st st' w (QS st) /\
  forall c, In c (s_consts st) -> predT st' w PIdentity [PC c; PC c] /\ predT st' w PExistence [PC c].
Proof.
  intros Hcord. unfold ensure_self. destruct cord as [|c0 cr].
  - intro H. injection H as <-. split; [apply ext_refl|].
    intros c Hc. apply Hcord in Hc. destruct Hc.
  - set (cord := c0 :: cr) in *. rewrite fold_opt_set_T.
    destruct (set_T_all _ w PIdentity (map (fun c => [PC c; PC c]) cord)) as [st1|] eqn:E1; [|discriminate].
    rewrite fold_opt_set_T. intro E2.
    apply set_T_all_ext in E1. destruct E1 as [X1 T1].
    apply set_T_all_ext in E2. destruct E2 as [X2 T2].
    assert (X2' : ext_at st1 st' w (QS st)).
    { eapply ext_trans; [apply (ext_addpk st1 w PExistence)|].
      eapply ext_weaken; [|exact X2]. cbn beta. intros p ps [-> Hin].
      apply in_map_iff in Hin. destruct Hin as (c & <- & Hc). right. split; [reflexivity|].
      exists c. split; [apply Hcord; exact Hc|reflexivity]. }
    split.
    + eapply ext_trans; [|exact X2'].
      eapply ext_trans; [apply (ext_addpk st w PIdentity)|].
      eapply ext_weaken; [|exact X1]. cbn beta. intros p ps [-> Hin].
      apply in_map_iff in Hin. destruct Hin as (c & <- & Hc). left. split; [reflexivity|].
      exists c. split; [apply Hcord; exact Hc|reflexivity].
    + intros c Hc. apply Hcord in Hc. split.
      * eapply ext_predT_mono; [exact X2'|]. apply T1. apply in_map_iff. exists c. auto.
      * apply T2. apply in_map_iff. exists c. auto.
Qed.

Lemma ensure_sem w st st' :
  tok st -> id_equiv st w -> ext_at st st' w (QS st) ->
  tok st' /\ (forall a b, idT st' w a b <-> idT st w a b) /\ id_equiv st' w.
Proof.
  intros Htok Heq Hext. pose proof Heq as (Hr & Hs & Ht & Hfun).
  assert (Htok' : tok st').
  { eapply ext_tok; [exact Hext| | |exact Htok].
    - intros p ps [(_ & c & Hc & ->)|(_ & c & Hc & ->)] x Hx.
      + destruct Hx as [<-|[<-|[]]]; eauto.
      + destruct Hx as [<-|[]]; eauto.
    - intros ps [(_ & c & Hc & ->)|(He & _)]; [reflexivity|discriminate]. }
  assert (Hid : forall a b, idT st' w a b <-> idT st w a b).
  { intros a b. split; [|apply (ext_predT_mono _ _ _ _ _ _ _ Hext)].
    intro H. destruct (ext_predT_inv _ _ _ _ _ _ _ Hext H) as [H1|(_ & [(_ & c & Hc & He)|(He & _)])];
      [exact H1| |discriminate].
    injection He as -> ->. apply Hr; exact Hc. }
  pose proof Hext as (_ & Hcs & _).
  split; [exact Htok'|]. split; [exact Hid|].
  split; [|split; [|split]].
  - intros a Ha. apply Hid. apply Hr. rewrite <- Hcs. exact Ha.
  - intros a b H. apply Hid, Hs, Hid, H.
  - intros a b c H1 H2. apply Hid. eapply Ht; apply Hid; eassumption.
  - eapply ext_idfun; eauto.
Qed.

(* ---- one frame ------------------------------------------------------------------ *)
(* every true tuple belongs to a predicate of the iteration order, to Identity,
   or is a unary Existence tuple *)
Definition cov (pord : nat -> list pred) (st : state) : Prop :=
  forall w p ps, predT st w p ps ->
    In p (pord w) \/ p = PIdentity \/ (p = PExistence /\ exists a, ps = [PC a]).

Lemma ext_cov pord st st' w Q :
  ext_at st st' w Q ->
  (forall p ps, Q p ps -> In p (pord w) \/ p = PIdentity \/ (p = PExistence /\ exists a, ps = [PC a])) ->
  cov pord st -> cov pord st'.
Proof.
  intros Hext HQ Hcov w' p ps H.
  destruct (ext_predT_inv _ _ _ _ _ _ _ Hext H) as [H1|(-> & H1)]; [apply Hcov; exact H1|apply HQ; exact H1].
Qed.

Lemma pkeys_of_In st w p : existsb (pred_eqb p) (pkeys_of st w) = true <-> In (w, p) (s_pkeys st).
Proof.
  unfold pkeys_of. rewrite existsb_exists. split.
  - intros (x & Hx & E). apply pred_eqb_eq in E. subst x.
    apply in_map_iff in Hx. destruct Hx as ([w' p'] & He & Hin). cbn [snd] in He. subst p'.
    apply filter_In in Hin. destruct Hin as [Hin E]. cbn [fst] in E. apply Nat.eqb_eq in E. subst; exact Hin.
  - intro H. exists p. split; [|apply pred_eqb_refl].
    apply in_map_iff. exists (w, p). split; [reflexivity|]. apply filter_In. split; [exact H|].
    cbn [fst]. apply Nat.eqb_refl.
Qed.

Lemma closed_identity st w : tok st -> id_equiv st w -> closed st w PIdentity.
Proof.
  intros Htok (Hr & Hs & Ht & Hfun) ps qs HT HF.
  apply get_pred_In in HT. apply having_T_In in HT.
  destruct (having_id_pair _ _ _ Htok Hfun HT) as (a & b & -> & Hab).
  inversion HF as [|x1 y1 l1 l1' H1 HF']; subst. inversion HF' as [|x2 y2 l2 l2' H2 HF'']; subst.
  inversion HF''; subst.
  destruct H1 as (a1 & a' & E1 & -> & H1). injection E1 as <-.
  destruct H2 as (b1 & b' & E1 & -> & H2). injection E1 as <-.
  eapply Ht; [apply Hs; exact H1|]. eapply Ht; eauto.
Qed.

Lemma cl_frame_fixed_spec cord pord st w st' :
  tok st -> cov pord st -> (forall c, In c cord <-> In c (s_consts st)) ->
  cl_frame_fixed cord pord st w = Some st' ->
  frame_classical st' w /\ tok st' /\ cov pord st' /\ ext_at st st' w (fun _ _ => True).
Proof.
  intros Htok Hcov Hcord. unfold cl_frame_fixed.
  destruct (close_identity cord w st) as [st1|] eqn:E1; [|discriminate].
  set (snap := filter (fun p => existsb (pred_eqb p) (pkeys_of st1 w)) (pord w)).
  destruct (fold_opt (augment_fixed w) st1 snap) as [st2|] eqn:E2; [|discriminate].
  intro E3.
  destruct (close_identity_spec _ _ _ _ Htok Hcord E1) as (X1 & Htok1 & Heq1).
  destruct (augment_fold _ _ _ _ Htok1 Heq1 E2) as (X2 & Htok2 & Heq2 & Hid2 & Hcl2 & _).
  pose proof X1 as (_ & Hcs1 & _). pose proof X2 as (_ & Hcs2 & _).
  assert (Hcord2 : forall c, In c cord <-> In c (s_consts st2)).
  { intro c. rewrite Hcs2, Hcs1. apply Hcord. }
  destruct (ensure_self_spec _ _ _ _ Hcord2 E3) as (X3 & Hself).
  destruct (ensure_sem _ _ _ Htok2 Heq2 X3) as (Htok3 & Hid3 & Heq3).
  pose proof X3 as (_ & Hcs3 & _).
  assert (Hsnap : forall p, In p snap <-> In p (pord w) /\ In (w, p) (s_pkeys st1)).
  { intro p. unfold snap. rewrite filter_In, pkeys_of_In. tauto. }
  assert (Hcov1 : cov pord st1).
  { eapply ext_cov; [exact X1| |exact Hcov]. intros p ps (-> & _). auto. }
  assert (Hcov2 : cov pord st2).
  { eapply ext_cov; [exact X2| |exact Hcov1]. cbn beta. intros p ps H. left. apply Hsnap; exact H. }
  assert (Hcov3 : cov pord st').
  { eapply ext_cov; [exact X3| |exact Hcov2].
    intros p ps [(-> & _)|(-> & c & _ & ->)]; [auto|]. right; right. eauto. }
  split; [|split; [exact Htok3|split; [exact Hcov3|]]].
  - pose proof Heq3 as (Hr3 & Hs3 & Ht3 & Hfun3).
    split; [|split; [exact Hs3|split; [exact Ht3|]]].
    + intros a Ha. rewrite Hcs3 in Ha. apply Hself; exact Ha.
    + intros p ps qs HT HF. change (Forall2 (idrel st' w) ps qs) in HF.
      assert (Hex : forall c, ps = [PC c] -> p = PExistence -> predT st' w p qs).
      { intros c -> ->. inversion HF as [|x y l l' H1 HF']; subst. inversion HF'; subst.
        destruct H1 as (c1 & b & E & -> & H1). injection E as <-.
        apply Hself. rewrite <- Hcs3. eapply idT_consts; [apply Htok3|exact H1]. }
      destruct (pred_eq_dec p PIdentity) as [->|HneI].
      { eapply closed_identity; eauto. }
      destruct (ext_predT_inv _ _ _ _ _ _ _ X3 HT) as [H2|(_ & [(He & _)|(He & c & Hc & Hps)])];
        [|contradiction|eapply Hex; eauto].
      assert (Hclosed : In p snap -> predT st' w p qs).
      { intro Hin. eapply ext_predT_mono; [exact X3|].
        eapply (Hcl2 p Hin); [exact H2|].
        eapply Forall2_impl_In; [|exact HF]. intros x y _ H.
        apply (idrel_iff _ _ _ Hid3). exact H. }
      destruct (Hcov2 _ _ _ H2) as [Hp|[Hp|(Hp & c & Hps)]]; [|contradiction|eapply Hex; eauto].
      apply Hclosed.
      destruct (ext_predT_inv _ _ _ _ _ _ _ X2 H2) as [H1|(_ & H1)]; [|exact H1].
      apply Hsnap. split; [exact Hp|].
      destruct Htok1 as (Hk1 & _). eapply Hk1. apply get_pred_In. exact H1.
  - eapply ext_trans; [eapply ext_weaken; [|exact X1]; auto|].
    eapply ext_trans; [eapply ext_weaken; [|exact X2]; auto|].
    eapply ext_weaken; [|exact X3]; auto.
Qed.

(* no shadowed entries: every stored entry is the one found by the lookup *)
Definition preds_fun (st : state) : Prop :=
  forall w p ps v, In (w, p, ps, v) (s_preds st) -> get_pred (s_preds st) w p ps = Some v.

Lemma ext_preds_fun st st' w Q : ext_at st st' w Q -> preds_fun st -> preds_fun st'.
Proof.
  intros (_ & _ & Ho & _ & _ & Hj & _) Hf w' p ps v Hin.
  destruct (Hj _ Hin) as [H|(p0 & ps0 & He & _ & Hg)].
  - apply Ho. apply Hf. exact H.
  - injection He as -> -> -> ->. exact Hg.
Qed.

(* ---- all frames ------------------------------------------------------------------ *)
Lemma frame_classical_other st st' w Q w1 :
  ext_at st st' w Q -> w1 <> w -> frame_classical st w1 -> frame_classical st' w1.
Proof.
  intros Hext Hne (H1 & H2 & H3 & H4).
  assert (E : forall p ps, predT st' w1 p ps <-> predT st w1 p ps).
  { intros p ps. unfold predT. rewrite (ext_other _ _ _ _ _ p ps Hext Hne). tauto. }
  pose proof Hext as (_ & Hcs & _).
  unfold frame_classical, idT in *. split; [|split; [|split]].
  - intros a Ha. rewrite Hcs in Ha. rewrite !E. apply H1; exact Ha.
  - intros a b. rewrite !E. apply H2.
  - intros a b c. rewrite !E. apply H3.
  - intros p ps qs HT HF. apply E. eapply H4; [apply E; exact HT|].
    eapply Forall2_impl_In; [|exact HF]. cbn beta. intros x y _ (a & b & -> & -> & H).
    exists a, b. split; [reflexivity|]. split; [reflexivity|]. apply E; exact H.
Qed.

Lemma complete_fold cord pord l : forall done st st',
  tok st -> cov pord st -> (forall c, In c cord <-> In c (s_consts st)) ->
  (forall w, In w done -> frame_classical st w) ->
  fold_opt (cl_frame_fixed cord pord) st l = Some st' ->
  tok st' /\ cov pord st' /\ s_fkeys st' = s_fkeys st /\ s_consts st' = s_consts st /\
  (forall w, In w done \/ In w l -> frame_classical st' w) /\ (preds_fun st -> preds_fun st').
Proof.
  induction l as [|w0 l IH]; intros done st st' Htok Hcov Hcord Hdone; cbn [fold_opt].
  - intro H. injection H as <-. split; [exact Htok|]. split; [exact Hcov|].
    split; [reflexivity|]. split; [reflexivity|]. split; [|auto]. intros w [H|[]]. apply Hdone; exact H.
  - destruct (cl_frame_fixed cord pord st w0) as [st1|] eqn:E; [|discriminate]. intro Hf.
    destruct (cl_frame_fixed_spec _ _ _ _ _ Htok Hcov Hcord E) as (Hfc & Htok1 & Hcov1 & Hext).
    pose proof Hext as (Hfk & Hcs & _).
    assert (Hcord1 : forall c, In c cord <-> In c (s_consts st1)).
    { intro c. rewrite Hcs. apply Hcord. }
    assert (Hdone1 : forall w, In w (w0 :: done) -> frame_classical st1 w).
    { intros w Hin. destruct (Nat.eq_dec w w0) as [->|Hne]; [exact Hfc|].
      destruct Hin as [Hin|Hin]; [congruence|].
      eapply frame_classical_other; [exact Hext|exact Hne|apply Hdone; exact Hin]. }
    destruct (IH _ _ _ Htok1 Hcov1 Hcord1 Hdone1 Hf) as (Htok2 & Hcov2 & Hfk2 & Hcs2 & Hall & Hfun).
    split; [exact Htok2|]. split; [exact Hcov2|]. split; [congruence|]. split; [congruence|].
    split; [|intro H; apply Hfun; eapply ext_preds_fun; [exact Hext|exact H]].
    intros w [Hin|[<-|Hin]]; apply Hall.
    + left; right; exact Hin.
    + left; left; reflexivity.
    + right; exact Hin.
Qed.

Lemma cov_of_pord_covers pord st : keys_ok st -> pord_covers pord st -> cov pord st.
Proof.
  intros Hk Hp w p ps H. left. apply Hp. eapply Hk. apply get_pred_In. exact H.
Qed.

(* Changes w.r.t. the requested statement: the extra hypothesis [id_binary st]
   (every true Identity tuple is a pair; without it a stored true Identity
   triple (a,b,c) makes `identicals` put b in the class of a although a = b is
   not true, and congruence fails), and [id_binary st'] added to the conclusion. *)
Theorem classical_finish_repaired cord pord st st' :
  tuples_ok st -> id_binary st ->
  (forall c, In c cord <-> In c (s_consts st)) -> pord_covers pord st ->
  cl_complete_fixed cord pord st = Some st' ->
  (forall w, In w (s_fkeys st) -> frame_classical st' w) /\
  s_fkeys st' = s_fkeys st /\ s_consts st' = s_consts st /\ tuples_ok st' /\ id_binary st'.
Proof.
  intros Hok Hbin Hcord Hpc Hrun. apply tuples_ok_split in Hok. destruct Hok as [Hk Hc].
  assert (Htok : tok st) by (split; [exact Hk|split; [exact Hc|exact Hbin]]).
  destruct (complete_fold cord pord (s_fkeys st) [] st st' Htok
              (cov_of_pord_covers _ _ Hk Hpc) Hcord (fun w (H : In w []) => match H with end) Hrun)
    as ((Hk' & Hc' & Hb') & _ & Hfk & Hcs & Hall & _).
  split; [intros w Hw; apply Hall; right; exact Hw|].
  split; [exact Hfk|]. split; [exact Hcs|]. split; [apply tuples_ok_split; split; assumption|exact Hb'].
Qed.
Print Assumptions classical_finish_repaired.

Lemma cl_complete_fixed_preds_fun cord pord st st' :
  tuples_ok st -> id_binary st ->
  (forall c, In c cord <-> In c (s_consts st)) -> pord_covers pord st ->
  cl_complete_fixed cord pord st = Some st' -> preds_fun st -> preds_fun st'.
Proof.
  intros Hok Hbin Hcord Hpc Hrun. apply tuples_ok_split in Hok. destruct Hok as [Hk Hc].
  assert (Htok : tok st) by (split; [exact Hk|split; [exact Hc|exact Hbin]]).
  apply (complete_fold cord pord (s_fkeys st) [] st st' Htok
              (cov_of_pord_covers _ _ Hk Hpc) Hcord (fun w (H : In w []) => match H with end) Hrun).
Qed.

(* ---- the boolean checker ---------------------------------------------------------- *)
Lemma isT_true st w p ps : isT st w p ps = true <-> predT st w p ps.
Proof.
  unfold isT, predT. destruct (get_pred (s_preds st) w p ps) as [[]|]; split; intro H;
    try reflexivity; try discriminate.
Qed.

Lemma implb_true a b : implb a b = true <-> (a = true -> b = true).
Proof. destruct a, b; cbn; split; auto. Qed.

Lemma replace_nth_Forall2 (R : param -> param -> Prop) y : forall ps i x,
  nth_error ps i = Some x -> R x y -> (forall z, In z ps -> R z z) ->
  Forall2 R ps (replace_nth i y ps).
Proof.
  induction ps as [|z ps IH]; intros [|i] x Hn Hxy Hrefl; try discriminate.
  - cbn in Hn. injection Hn as ->. unfold replace_nth. cbn [firstn skipn app].
    constructor; [exact Hxy|].
    clear -Hrefl. induction ps as [|u ps IH]; constructor.
    + apply Hrefl. right; left; reflexivity.
    + apply IH. intros t [<-|Ht]; apply Hrefl; [left; reflexivity|right; right; exact Ht].
  - cbn [nth_error] in Hn.
    change (replace_nth (S i) y (z :: ps)) with (z :: replace_nth i y ps).
    constructor; [apply Hrefl; left; reflexivity|].
    eapply IH; eauto. intros t Ht. apply Hrefl. right; exact Ht.
Qed.

Lemma frame_classical_okb_of st w :
  consts_ok st -> preds_fun st -> frame_classical st w -> frame_classical_okb st w = true.
Proof.
  intros Hc Hfun (H1 & H2 & H3 & H4). unfold frame_classical_okb.
  rewrite !andb_true_iff. split; [split|].
  - apply forallb_forall. intros a Ha. apply andb_true_iff. rewrite !isT_true. apply H1; exact Ha.
  - apply forallb_forall. intros a Ha. apply forallb_forall. intros b Hb.
    apply andb_true_iff. split.
    + apply implb_true. rewrite !isT_true. apply H2.
    + apply forallb_forall. intros d Hd. apply implb_true.
      rewrite andb_true_iff, !isT_true. intros [X Y]. eapply H3; eauto.
  - apply forallb_forall. intros [[[w' p] ps] v] Hin.
    destruct (Nat.eqb w w' && val_eqb v VT) eqn:E; [|reflexivity]. cbn [negb orb].
    apply andb_true_iff in E. destruct E as [E1 E2]. apply Nat.eqb_eq in E1. apply val_eqb_eq in E2. subst w' v.
    apply forallb_forall. intros i Hi. apply forallb_forall. intros b Hb.
    destruct (nth_error ps i) as [[a|x]|] eqn:En; try reflexivity.
    apply implb_true. rewrite !isT_true. intro Hab.
    eapply H4; [apply Hfun; exact Hin|].
    eapply replace_nth_Forall2 with (R := fun x y => exists a b, x = PC a /\ y = PC b /\ idT st w a b);
      [exact En| |].
    + exists a, b. auto.
    + intros z Hz. destruct (Hc _ _ _ _ Hin z Hz) as (c & -> & Hcin).
      exists c, c. split; [reflexivity|]. split; [reflexivity|]. apply H1; exact Hcin.
Qed.

Theorem classical_okb_of_frame_classical st :
  tuples_ok st -> preds_fun st ->
  (forall w, In w (s_fkeys st) -> frame_classical st w) -> classical_okb st = true.
Proof.
  intros Hok Hfun H. apply tuples_ok_split in Hok. destruct Hok as [_ Hc].
  unfold classical_okb. apply forallb_forall. intros w Hw.
  apply frame_classical_okb_of; auto.
Qed.

Corollary classical_finish_repaired_b cord pord st st' :
  tuples_ok st -> id_binary st -> preds_fun st ->
  (forall c, In c cord <-> In c (s_consts st)) -> pord_covers pord st ->
  cl_complete_fixed cord pord st = Some st' -> classical_okb st' = true.
Proof.
  intros Hok Hbin Hfun Hcord Hpc Hrun.
  destruct (classical_finish_repaired _ _ _ _ Hok Hbin Hcord Hpc Hrun) as (Hall & Hfk & _ & Hok' & _).
  apply classical_okb_of_frame_classical; [exact Hok'| |].
  - exact (cl_complete_fixed_preds_fun cord pord st st' Hok Hbin Hcord Hpc Hrun Hfun).
  - intros w Hw. apply Hall. rewrite <- Hfk. exact Hw.
Qed.
Print Assumptions classical_finish_repaired_b.

(* ---- lifting to finish_fixed ------------------------------------------------------- *)
Definition same_meta (st st' : state) : Prop :=
  s_complete st' = s_complete st /\ s_finished st' = s_finished st.

Lemma same_meta_refl st : same_meta st st.
Proof. split; reflexivity. Qed.
Lemma same_meta_trans a b c : same_meta a b -> same_meta b c -> same_meta a c.
Proof. intros [H1 H2] [H3 H4]. split; congruence. Qed.
Lemma same_meta_with_preds st pk pr : same_meta st (with_preds st pk pr).
Proof. split; reflexivity. Qed.

Lemma set_T_meta st w p ps st' : set_T st w p ps = Some st' -> same_meta st st'.
Proof.
  unfold set_T. destruct (get_pred (s_preds st) w p ps) as [v|].
  - destruct (val_eqb v VT); [|discriminate]. intro H; injection H as <-. apply same_meta_refl.
  - intro H; injection H as <-. apply same_meta_with_preds.
Qed.

Lemma set_T_all_meta w p l : forall st st', set_T_all st w p l = Some st' -> same_meta st st'.
Proof.
  induction l as [|ps l IH]; intros st st'; cbn [set_T_all].
  - intro H; injection H as <-. apply same_meta_refl.
  - destruct (set_T st w p ps) as [st1|] eqn:E; [|discriminate]. intro H.
    eapply same_meta_trans; [eapply set_T_meta; exact E|apply IH; exact H].
Qed.

Lemma fold_opt_meta {B} (f : state -> B -> option state) :
  (forall st x st', f st x = Some st' -> same_meta st st') ->
  forall l st st', fold_opt f st l = Some st' -> same_meta st st'.
Proof.
  intros Hf. induction l as [|x l IH]; intros st st'; cbn [fold_opt].
  - intro H; injection H as <-. apply same_meta_refl.
  - destruct (f st x) as [st1|] eqn:E; [|discriminate]. intro H.
    eapply same_meta_trans; [eapply Hf; exact E|apply IH; exact H].
Qed.

Lemma close_identity_meta cord w st st' : close_identity cord w st = Some st' -> same_meta st st'.
Proof.
  unfold close_identity. destruct cord as [|c0 cr].
  - intro H; injection H as <-. apply same_meta_refl.
  - destruct (global_enforce _); [|discriminate]. intro H.
    eapply same_meta_trans; [|eapply set_T_all_meta; exact H]. apply same_meta_with_preds.
Qed.

Lemma augment_fixed_meta w st p st' : augment_fixed w st p = Some st' -> same_meta st st'.
Proof.
  unfold augment_fixed. destruct (having_T st w p).
  - intro H; injection H as <-. apply same_meta_refl.
  - intro H. eapply same_meta_trans; [|eapply set_T_all_meta; exact H]. apply same_meta_with_preds.
Qed.

Lemma ensure_self_meta cord w st st' : ensure_self cord w st = Some st' -> same_meta st st'.
Proof.
  unfold ensure_self. destruct cord as [|c0 cr].
  - intro H; injection H as <-. apply same_meta_refl.
  - rewrite fold_opt_set_T.
    destruct (set_T_all _ w PIdentity _) as [st1|] eqn:E1; [|discriminate].
    rewrite fold_opt_set_T. intro E2.
    eapply same_meta_trans; [apply same_meta_with_preds|].
    eapply same_meta_trans; [eapply set_T_all_meta; exact E1|].
    eapply same_meta_trans; [|eapply set_T_all_meta; exact E2]. apply same_meta_with_preds.
Qed.

Lemma cl_frame_fixed_meta cord pord st w st' :
  cl_frame_fixed cord pord st w = Some st' -> same_meta st st'.
Proof.
  unfold cl_frame_fixed.
  destruct (close_identity cord w st) as [st1|] eqn:E1; [|discriminate].
  destruct (fold_opt (augment_fixed w) st1 _) as [st2|] eqn:E2; [|discriminate]. intro E3.
  eapply same_meta_trans; [eapply close_identity_meta; exact E1|].
  eapply same_meta_trans; [|eapply ensure_self_meta; exact E3].
  eapply fold_opt_meta; [|exact E2]. intros ? ? ?. apply augment_fixed_meta.
Qed.

Lemma cl_complete_fixed_meta cord pord st st' :
  cl_complete_fixed cord pord st = Some st' -> same_meta st st'.
Proof.
  unfold cl_complete_fixed. apply fold_opt_meta. intros ? ? ?. apply cl_frame_fixed_meta.
Qed.

Lemma complete_frames_flags L st st1 :
  complete_frames L st = Some st1 -> s_complete st1 = true /\ s_finished st1 = false.
Proof.
  unfold complete_frames. destruct (s_finished st) eqn:Ef; [discriminate|].
  destruct (s_complete st) eqn:Ec.
  - intro H; injection H as <-. auto.
  - destruct (negb _); [discriminate|]. intro H; injection H as <-. auto.
Qed.

Lemma complete_frames_idem L st :
  s_complete st = true -> s_finished st = false -> complete_frames L st = Some st.
Proof. intros Hc Hf. unfold complete_frames. rewrite Hf, Hc. reflexivity. Qed.

(* (the corollary for Model.finish as coded now lives in FinishProofs.v) *)

(* ---- non-vacuity -------------------------------------------------------------------- *)
(* the state of the witness (a=b, b=c, Fa) after _complete_frames *)
Definition wit_st1 : state :=
  {| s_fkeys := [0]; s_atoms := []; s_opaqs := [];
     s_pkeys := [(0, PIdentity); (0, PUser 0 1)];
     s_preds := [(0, PIdentity, [PC 0; PC 1], VT); (0, PIdentity, [PC 1; PC 2], VT);
                 (0, PUser 0 1, [PC 0], VT)];
     s_R := {| aw := [0]; ap := [] |}; s_consts := [0; 1; 2];
     s_sents := [SPred PIdentity [PC 0; PC 1]; SPred PIdentity [PC 1; PC 2]; SPred (PUser 0 1) [PC 0]];
     s_complete := true; s_finished := false |}.

Example classical_finish_repaired_nonvacuous :
  exists s0 st',
    apply_ops ML_cfol init_state wit_chain = Some s0 /\ complete_frames ML_cfol s0 = Some wit_st1 /\
    tuples_ok wit_st1 /\ id_binary wit_st1 /\ preds_fun wit_st1 /\
    (forall c, In c [2; 0; 1] <-> In c (s_consts wit_st1)) /\ pord_covers all_pord wit_st1 /\
    cl_complete_fixed [2; 0; 1] all_pord wit_st1 = Some st' /\
    (forall w, In w (s_fkeys wit_st1) -> frame_classical st' w) /\ classical_okb st' = true.
Proof.
  assert (Hok : tuples_ok wit_st1).
  { intros w p ps v Hin. cbn [wit_st1 s_preds s_pkeys s_consts In] in Hin |- *.
    destruct Hin as [H|[H|[H|[]]]]; injection H as <- <- <- <-; (split; [tauto|]);
      intros x Hx; cbn [In] in Hx.
    - destruct Hx as [<-|[<-|[]]]; eexists; (split; [reflexivity|tauto]).
    - destruct Hx as [<-|[<-|[]]]; eexists; (split; [reflexivity|tauto]).
    - destruct Hx as [<-|[]]; eexists; (split; [reflexivity|tauto]). }
  assert (Hbin : id_binary wit_st1).
  { intros w ps Hin. cbn [wit_st1 s_preds In] in Hin.
    destruct Hin as [H|[H|[H|[]]]]; try discriminate; injection H as <- <-; reflexivity. }
  assert (Hfun : preds_fun wit_st1).
  { intros w p ps v Hin. cbn [wit_st1 s_preds In] in Hin.
    destruct Hin as [H|[H|[H|[]]]]; injection H as <- <- <- <-; vm_compute; reflexivity. }
  assert (Hcord : forall c, In c [2; 0; 1] <-> In c (s_consts wit_st1)).
  { intro c. cbn [wit_st1 s_consts In]. tauto. }
  assert (Hpc : pord_covers all_pord wit_st1).
  { intros w p Hin. cbn [wit_st1 s_pkeys In] in Hin. unfold all_pord. cbn [In].
    destruct Hin as [H|[H|[]]]; injection H as <- <-; tauto. }
  assert (Hrun : exists st', cl_complete_fixed [2; 0; 1] all_pord wit_st1 = Some st').
  { eexists. vm_compute. reflexivity. }
  destruct Hrun as [st' Hrun].
  eexists. exists st'.
  split; [vm_compute; reflexivity|]. split; [vm_compute; reflexivity|].
  split; [exact Hok|]. split; [exact Hbin|]. split; [exact Hfun|]. split; [exact Hcord|].
  split; [exact Hpc|]. split; [exact Hrun|]. split.
  - apply (classical_finish_repaired _ _ _ _ Hok Hbin Hcord Hpc Hrun).
  - exact (classical_finish_repaired_b _ _ _ _ Hok Hbin Hfun Hcord Hpc Hrun).
Qed.

(* [id_binary] is needed: with a stored true Identity triple the completion
   succeeds and the result is not classical (all other hypotheses hold). *)
Definition wit_triple : state :=
  {| s_fkeys := [0]; s_atoms := []; s_opaqs := [];
     s_pkeys := [(0, PIdentity); (0, PUser 0 1)];
     s_preds := [(0, PIdentity, [PC 0; PC 1; PC 2], VT); (0, PIdentity, [PC 1; PC 3], VT);
                 (0, PUser 0 1, [PC 0], VT)];
     s_R := {| aw := [0]; ap := [] |}; s_consts := [0; 1; 2; 3];
     s_sents := []; s_complete := true; s_finished := false |}.

Example id_binary_needed :
  exists st', cl_complete_fixed [0; 1; 2; 3] all_pord wit_triple = Some st' /\
              classical_okb st' = false /\
              isT st' 0 (PUser 0 1) [PC 1] = true /\ isT st' 0 PIdentity [PC 1; PC 3] = true /\
              isT st' 0 (PUser 0 1) [PC 3] = false.
Proof. eexists. split; [vm_compute; reflexivity|]. repeat split; vm_compute; reflexivity. Qed.
Print Assumptions classical_finish_repaired_nonvacuous.
