(* C18 — the specification: a plain list without duplicates.

   The only parameter is `sconf cur arriving leaving`, the admission check of
   the container kind (None for qset/linqset; for the predicate store: a
   ValueError when an arriving predicate shares its symbol with a different
   member that is not leaving, or with a different arriving one). *)
From Coq Require Import List Bool Arith ZArith Lia.
From PT Require Import Cont.Common.
Import ListNotations.

Section Spec.
  Variable sconf : list V -> list V -> list V -> option exn.

  Definition s_insert (i : Z) (v : V) (l : list V) : res (list V) :=
    if mem v l then (l, Some EDup) else
    match sconf l [v] [] with
    | Some e => (l, Some e)
    | None => (insert_at (clamp_idx (length l) i) v l, None)
    end.

  Definition s_append (v : V) (l : list V) := s_insert (Z.of_nat (length l)) v l.
  Definition s_add (v : V) (l : list V) := catch_dup (s_append v l).

  Definition s_delidx (i : Z) (l : list V) : res (list V) :=
    match norm_idx (length l) i with
    | None => (l, Some EIndex)
    | Some k => (remove_at k l, None)
    end.

  Definition s_remove (v : V) (l : list V) : res (list V) :=
    match index_of v l with
    | Some k => (remove_at k l, None)
    | None => (l, Some EMissing)
    end.

  Definition s_discard (v : V) (l : list V) : res (list V) :=
    if mem v l then s_remove v l else (l, None).

  Definition s_delslice (idxs : list nat) (l : list V) : res (list V) :=
    if negb (valid_idxs (length l) idxs) then (l, Some EIndex)
    else (remove_idxs idxs l, None).

  Definition s_setidx (i : Z) (v : V) (l : list V) : res (list V) :=
    match norm_idx (length l) i with
    | None => (l, Some EIndex)
    | Some k =>
        let old := nthv k l in
        if mem v l && negb (Nat.eqb v old) then (l, Some EDup) else
        match sconf l [v] [old] with
        | Some e => (l, Some e)
        | None => (set_nth k v l, None)
        end
    end.

  Definition s_setslice (idxs : list nat) (vs : list V) (l : list V) : res (list V) :=
    if negb (valid_idxs (length l) idxs) then (l, Some EIndex) else
    if negb (length idxs =? length vs) then (l, Some EValue) else
    let leaving := values_at idxs l in
    if existsb (fun v => mem v l && negb (mem v leaving)) vs then (l, Some EDup) else
    if negb (nodupb vs) then (l, Some EDup) else
    match sconf l vs leaving with
    | Some e => (l, Some e)
    | None => (set_idxs idxs vs l, None)
    end.

  Definition s_from_iter (vs : list V) : res (list V) := bulk s_add vs [].

  Definition s_iand (vs : list V) (l : list V) : res (list V) :=
    match s_from_iter vs with
    | (_, Some e) => (l, Some e)
    | (o, None) => bulk s_discard (filter (fun v => negb (mem v o)) l) l
    end.

  Definition s_ixor (vs : list V) (l : list V) : res (list V) :=
    match s_from_iter vs with
    | (_, Some e) => (l, Some e)
    | (o, None) => bulk (fun v l' => if mem v l' then s_discard v l' else s_add v l') o l
    end.

  Definition s_wedge (v nb : V) (rel : Z) (l : list V) : res (list V) :=
    if negb ((rel =? -1)%Z || (rel =? 1)%Z) then (l, Some EValue) else
    match index_of nb l with
    | None => (l, Some EMissing)
    | Some k => if mem v l then (l, Some EDup)
                else (insert_at (if (rel =? 1)%Z then S k else k) v l, None)
    end.

  Definition s_run (o : op) (l : list V) : res (list V) :=
    match o with
    | OAppend v => s_append v l
    | OAdd v => s_add v l
    | OInsert i v => s_insert i v l
    | ORemove v => s_remove v l
    | ODiscard v => s_discard v l
    | ODelIdx i => s_delidx i l
    | OPop i => s_delidx i l
    | ODelSlice idxs => s_delslice idxs l
    | OSetIdx i v => s_setidx i v l
    | OSetSlice idxs vs => s_setslice idxs vs l
    | OSort r => (sort_list r l, None)
    | OReverse => (rev l, None)
    | OClear => ([], None)
    | OCopy => (l, None)
    | OExtend vs => bulk s_append vs l
    | OUpdate vs => bulk s_add vs l
    | OIsub vs => bulk s_discard vs l
    | OIand vs => s_iand vs l
    | OIxor vs => s_ixor vs l
    | OWedge v nb rel => s_wedge v nb rel l
    end.

  (* observations of the specification *)
  Definition s_index (v : V) (l : list V) : nat + exn :=
    match index_of v l with Some k => inl k | None => inr EMissing end.
  Definition s_get (i : Z) (l : list V) : V + exn :=
    match norm_idx (length l) i with Some k => inl (nthv k l) | None => inr EIndex end.
End Spec.

Definition no_conf : list V -> list V -> list V -> option exn := fun _ _ _ => None.
