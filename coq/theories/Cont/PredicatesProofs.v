(* C18 — the predicate store: its hooks meet the contract of QsetProofs, hence it
   refines the conflict-aware list specification; no two members share a
   symbol with different arity; every member is found by each of its references. *)
From Coq Require Import List Bool Arith ZArith Lia Permutation.
From PT Require Import Cont.Common Cont.ListFacts Cont.Spec Cont.Qset Cont.QsetProofs Cont.Predicates.
Import ListNotations.

Lemma ref_eqb_eq a b : ref_eqb a b = true <-> a = b.
Proof.
  destruct a, b; simpl; try (split; [discriminate|congruence]);
    rewrite Nat.eqb_eq; split; congruence.
Qed.

Lemma ref_eqb_refl a : ref_eqb a a = true.
Proof. apply ref_eqb_eq. reflexivity. Qed.

Lemma existsb_ref_In r ks : existsb (ref_eqb r) ks = true <-> In r ks.
Proof.
  rewrite existsb_exists. split.
  - intros [k [Hk E]]. apply ref_eqb_eq in E. subst. exact Hk.
  - intros Hk. exists r. split; [exact Hk|apply ref_eqb_refl].
Qed.

Lemma lk_get_pop r r' lk : lk_get r (lk_pop r' lk) = if ref_eqb r' r then None else lk_get r lk.
Proof.
  induction lk as [|[k p] t IH]; simpl; [destruct (ref_eqb r' r); reflexivity|].
  destruct (ref_eqb r' k) eqn:E1; simpl.
  - apply ref_eqb_eq in E1. subst k. rewrite IH. destruct (ref_eqb r' r) eqn:E2; [reflexivity|].
    destruct (ref_eqb r r') eqn:E3; [|reflexivity]. apply ref_eqb_eq in E3. subst. rewrite ref_eqb_refl in E2. discriminate.
  - rewrite IH. destruct (ref_eqb r k) eqn:E2; [|reflexivity].
    apply ref_eqb_eq in E2. subst k. rewrite E1. reflexivity.
Qed.

Lemma lk_get_set r r' p lk : lk_get r (lk_set r' p lk) = if ref_eqb r r' then Some p else lk_get r lk.
Proof.
  unfold lk_set. simpl. destruct (ref_eqb r r') eqn:E; [reflexivity|].
  rewrite lk_get_pop. destruct (ref_eqb r' r) eqn:E2; [|reflexivity].
  apply ref_eqb_eq in E2. subst. rewrite ref_eqb_refl in E. discriminate.
Qed.

Lemma In_somes {A} (a : A) l : In a (somes l) <-> In (Some a) l.
Proof.
  unfold somes. rewrite in_flat_map. split.
  - intros [[x|] [Hx Hi]]; simpl in Hi; [destruct Hi as [<-|[]]; exact Hx|contradiction].
  - intros Hx. exists (Some a). split; [exact Hx|left; reflexivity].
Qed.

Section PredProofs.
  Variable bi : V -> nat.

  Definition PXInv (l : list V) (lk : lookup) : Prop :=
    forall r p, lk_get r lk = Some p <-> In p l /\ In r (keys bi p).
  (* no two members share a symbol with different arity (a predicate IS its (symbol, arity)) *)
  Definition PSOK (l : list V) : Prop := forall p q, In p l -> In q l -> bi p = bi q -> p = q.

  Lemma keys_same_bi r p q : In r (keys bi p) -> In r (keys bi q) -> bi p = bi q.
  Proof.
    unfold keys, refs. simpl. intros Hp Hq.
    repeat (destruct Hp as [Hp|Hp]; try contradiction); subst r;
      repeat (destruct Hq as [Hq|Hq]; try contradiction); try discriminate; congruence.
  Qed.

  Lemma keys_self v p : In (RSelf v) (keys bi p) <-> p = v.
  Proof.
    unfold keys, refs. simpl. split.
    - intros Hp. repeat (destruct Hp as [Hp|Hp]; try contradiction); congruence.
    - intros ->. right. right. right. left. reflexivity.
  Qed.

  Lemma pred_cont : forall l s lk v, PXInv l lk -> set_eq s l ->
    h_contains (pred_hooks bi false) s lk v = mem v l.
  Proof.
    intros l s lk v HX _. simpl. destruct (mem v l) eqn:Em.
    - apply mem_In in Em. assert (E : lk_get (RSelf v) lk = Some v).
      { apply HX. split; [exact Em|apply keys_self; reflexivity]. }
      rewrite E. reflexivity.
    - destruct (lk_get (RSelf v) lk) as [p|] eqn:E; [|reflexivity].
      apply HX in E. destruct E as [Hp Hk]. apply keys_self in Hk. subst p.
      apply mem_false in Em. contradiction.
  Qed.

  Lemma PXInv_perm l l' lk : Permutation l l' -> PXInv l lk -> PXInv l' lk.
  Proof.
    intros P HX r p. rewrite (HX r p). split; intros [A B]; split; auto.
    - eapply Permutation_in; eauto.
    - eapply Permutation_in; [apply Permutation_sym; exact P|exact A].
  Qed.

  Lemma PSOK_perm l l' : Permutation l l' -> PSOK l -> PSOK l'.
  Proof.
    intros P HK p q Hp Hq. apply HK; eapply Permutation_in; try (apply Permutation_sym; exact P); assumption.
  Qed.

  (* arrivals_clash *)
  Lemma clash_false : forall arr seen, arrivals_clash bi seen arr = false ->
    (forall p q, In p arr -> In q arr -> bi p = bi q -> p = q)
    /\ (forall p q, In p arr -> In q seen -> bi q = bi p -> q = p).
  Proof.
    induction arr as [|a t IH]; simpl; intros seen Hc; [split; intros ? ? []|].
    apply orb_false_iff in Hc. destruct Hc as [H1 H2]. destruct (IH (a :: seen) H2) as [IA IB].
    assert (Hseen : forall q, In q seen -> bi q = bi a -> q = a).
    { intros q Hq Eb. destruct (Nat.eq_dec q a) as [E|E]; [exact E|]. exfalso.
      assert (Ht : existsb (fun q => Nat.eqb (bi q) (bi a) && negb (Nat.eqb q a)) seen = true).
      { apply existsb_exists. exists q. split; [exact Hq|]. apply andb_true_iff. split.
        - apply Nat.eqb_eq. exact Eb.
        - apply negb_true_iff. apply Nat.eqb_neq. exact E. }
      congruence. }
    split.
    - intros p q [<-|Hp] [<-|Hq] Eb.
      + reflexivity.
      + apply (IB q a Hq (or_introl eq_refl)). exact Eb.
      + symmetry. apply (IB p a Hp (or_introl eq_refl)). symmetry. exact Eb.
      + apply IA; assumption.
    - intros p q [<-|Hp] Hq Eb.
      + apply Hseen; assumption.
      + apply (IB p q Hp (or_intror Hq) Eb).
  Qed.

  Lemma pconf_nil l leav : pconf bi l [] leav = None.
  Proof. reflexivity. Qed.

  Lemma pconf_none l arr leav : pconf bi l arr leav = None ->
    (forall p q, In p arr -> In q arr -> bi p = bi q -> p = q)
    /\ (forall p q, In p arr -> In q l -> bi q = bi p -> q <> p -> In q leav).
  Proof.
    unfold pconf. destruct (arrivals_clash bi [] arr) eqn:Ec; [discriminate|].
    destruct (existsb _ arr) eqn:Ex; [discriminate|]. intros _.
    split; [exact (proj1 (clash_false arr [] Ec))|].
    intros p q Hp Hq Eb Hne.
    destruct (mem q leav) eqn:Em; [apply mem_In; exact Em|]. exfalso.
    assert (Ht : existsb (fun p => existsb (fun q => Nat.eqb (bi q) (bi p) && negb (Nat.eqb q p) && negb (mem q leav)) l) arr = true).
    { apply existsb_exists. exists p. split; [exact Hp|]. apply existsb_exists. exists q. split; [exact Hq|].
      rewrite Em. simpl. rewrite andb_true_r. apply andb_true_iff. split; [apply Nat.eqb_eq; exact Eb|].
      apply negb_true_iff, Nat.eqb_neq. exact Hne. }
    congruence.
  Qed.

  Lemma pred_sok : forall l arr leav rest l', PSOK l -> NoDup l -> pconf bi l arr leav = None ->
    Permutation l (leav ++ rest) -> Permutation l' (arr ++ rest) -> NoDup l' -> PSOK l'.
  Proof.
    intros l arr leav rest l' HK Hn Hc P1 P2 _ p q Hp Hq Eb.
    destruct (pconf_none _ _ _ Hc) as [CA CB].
    assert (Hd : NoDup (leav ++ rest)) by (eapply Permutation_NoDup; eauto).
    assert (Hrest : forall y, In y rest -> In y l /\ ~ In y leav).
    { intros y Hy. split; [eapply Permutation_in; [apply Permutation_sym; exact P1|apply in_or_app; right; exact Hy]|].
      intros Hc'. exact (NoDup_app_disj _ _ Hd y Hc' Hy). }
    apply (Permutation_in _ P2) in Hp. apply (Permutation_in _ P2) in Hq.
    apply in_app_or in Hp. apply in_app_or in Hq.
    destruct Hp as [Hp|Hp], Hq as [Hq|Hq].
    - apply CA; assumption.
    - destruct (Hrest q Hq) as [Hql Hqn]. destruct (Nat.eq_dec q p) as [E|E]; [symmetry; exact E|].
      exfalso. apply Hqn. apply (CB p q Hp Hql); [symmetry; exact Eb|exact E].
    - destruct (Hrest p Hp) as [Hpl Hpn]. destruct (Nat.eq_dec p q) as [E|E]; [exact E|].
      exfalso. apply Hpn. apply (CB q p Hq Hpl); [exact Eb|exact E].
    - apply HK; [apply (Hrest p Hp)|apply (Hrest q Hq)|exact Eb].
  Qed.
End PredProofs.
