(* C18 — the array-backed qset itself: hooks that do nothing, no extra state. *)
From Coq Require Import List Bool Arith ZArith Lia Permutation.
From PT Require Import Cont.Common Cont.ListFacts Cont.Spec Cont.Qset Cont.QsetProofs.
Import ListNotations.

Definition PX (l : list V) (x : unit) : Prop := True.
Definition POK (l : list V) : Prop := True.

(* representation invariant of qset: no duplicates in _seq_, and _set_ has exactly its elements *)
Definition QInv (st : qstate unit) : Prop := Inv PX POK st.

Lemma QInv_spec st : QInv st <-> NoDup (q_seq st) /\ (forall y, In y (q_set st) <-> In y (q_seq st)).
Proof. unfold QInv, Inv, PX, POK, set_eq. tauto. Qed.

Lemma QInv_init : QInv qs_init.
Proof. apply QInv_spec. simpl. split; [constructor|tauto]. Qed.

Section Plain.
  Variable fixed : bool.

  Lemma plain_cont : forall l s (x : unit) v, PX l x -> set_eq s l -> h_contains plain_hooks s x v = mem v l.
  Proof.
    intros l s x v _ Hs. simpl. destruct (mem v l) eqn:E.
    - apply mem_In. apply Hs. apply mem_In. exact E.
    - apply mem_false. intros Hy. apply Hs in Hy. apply mem_false in E. contradiction.
  Qed.

  Theorem qs_run_refines o st :
    q_op_ok fixed true o = true -> QInv st ->
    refines1 PX POK (qs_run fixed o st) (s_run no_conf o (q_seq st)).
  Proof.
    apply (q_run_refines plain_hooks fixed true no_conf PX POK); unfold PX, POK, no_conf; simpl; auto.
    exact plain_cont.
  Qed.

  Theorem qs_exec_refines ops st :
    forallb (q_op_ok fixed true) ops = true -> QInv st ->
    QInv (fst (exec (qs_run fixed) ops st))
    /\ q_seq (fst (exec (qs_run fixed) ops st)) = fst (exec (s_run no_conf) ops (q_seq st))
    /\ snd (exec (qs_run fixed) ops st) = snd (exec (s_run no_conf) ops (q_seq st)).
  Proof.
    apply (q_exec_refines plain_hooks fixed true no_conf PX POK); unfold PX, POK, no_conf; simpl; auto.
    exact plain_cont.
  Qed.

  Theorem qs_observations_agree st v i : QInv st ->
    q_contains plain_hooks st v = mem v (q_seq st)
    /\ q_index plain_hooks v st = s_index v (q_seq st)
    /\ q_get i st = s_get i (q_seq st).
  Proof. apply (q_observations_agree plain_hooks PX POK). exact plain_cont. Qed.
End Plain.

(* the code as it is: slice assignment of repeated values breaks the invariant *)
Theorem qs_setslice_refuted :
  exists st idxs vs, QInv st /\ ~ NoDup (q_seq (fst (qs_run false (OSetSlice idxs vs) st))).
Proof.
  exists (Build_qstate [1; 2; 3] [3; 2; 1] tt), [0; 1], [7; 7]. split.
  - apply QInv_spec. simpl. split; [repeat constructor; simpl; intuition lia|intuition].
  - vm_compute. intros Hn. inversion Hn as [|? ? Hx _]; subst. apply Hx. left. reflexivity.
Qed.

(* non-vacuity: a reachable three-element state satisfies the invariant *)
Example QInv_example : QInv (fst (exec (qs_run false) [OExtend [1; 2; 3]; OReverse; OSetIdx 0%Z 5] qs_init)).
Proof.
  apply (qs_exec_refines false [OExtend [1; 2; 3]; OReverse; OSetIdx 0%Z 5] qs_init); [reflexivity|apply QInv_init].
Qed.
