(* C18 — refinement proof for the generic qset model (any hooks that meet the
   contract below): every operation preserves the representation invariant and
   commutes with the plain-list specification; lifted to operation sequences. *)
From Coq Require Import List Bool Arith ZArith Lia Permutation.
From PT Require Import Cont.Common Cont.ListFacts Cont.Spec Cont.Qset.
Import ListNotations.

Lemma NoDup_app_disj {A} (a b : list A) : NoDup (a ++ b) -> forall y, In y a -> In y b -> False.
Proof.
  induction a as [|x t IH]; simpl; intros Hn y Ha Hb; [contradiction|].
  inversion Hn as [|? ? Hx Hn']; subst. destruct Ha as [->|Ha].
  - apply Hx. apply in_or_app. right. exact Hb.
  - exact (IH Hn' y Ha Hb).
Qed.

Lemma NoDup_app_remove_l {A} (a b : list A) : NoDup (a ++ b) -> NoDup b.
Proof.
  induction a as [|x t IH]; simpl; intros Hn; [exact Hn|]. inversion Hn; subst. apply IH. assumption.
Qed.

Lemma step_eq {S : Type} (run : op -> S -> res S) st tr o :
  step run (st, tr) o = (fst (run o st), tr ++ [snd (run o st)]).
Proof. unfold step. simpl. destruct (run o st). reflexivity. Qed.

Definition set_eq (s l : list V) : Prop := forall y, In y s <-> In y l.

Definition slice_assign (o : op) : bool := match o with OSetSlice _ _ => true | _ => false end.

Section Refine.
  Context {X : Type}.
  Variable H : hooks X.
  Variable fixed full : bool.
  Variable sconf : list V -> list V -> list V -> option exn.
  Variable XInv : list V -> X -> Prop.     (* the extra state describes exactly the members *)
  Variable SOK : list V -> Prop.           (* extra well-formedness of the abstract list *)

  (* the hook contract *)
  Hypothesis Hcont : forall l s x v, XInv l x -> set_eq s l -> h_contains H s x v = mem v l.
  Hypothesis Hcheck1 : forall l x arr leav, XInv l x -> SOK l -> length arr <= 1 ->
    h_check H x arr leav = sconf l arr leav.
  Hypothesis HcheckN : full = true -> forall l x arr leav, XInv l x -> SOK l ->
    h_check H x arr leav = sconf l arr leav.
  Hypothesis Hdone : forall l x arr leav rest l', XInv l x -> SOK l -> NoDup l ->
    Permutation l (leav ++ rest) -> Permutation l' (arr ++ rest) -> NoDup l' -> SOK l' ->
    XInv l' (h_done H x arr leav).
  Hypothesis Hsok : forall l arr leav rest l', SOK l -> NoDup l -> sconf l arr leav = None ->
    Permutation l (leav ++ rest) -> Permutation l' (arr ++ rest) -> NoDup l' -> SOK l'.
  Hypothesis Hconf_nil : forall l leav, sconf l [] leav = None.   (* departures alone are never rejected *)
  Hypothesis Hclear : forall x, XInv [] (h_clear H x).
  Hypothesis Hsok_nil : SOK [].
  Hypothesis Hperm : forall l l' x, Permutation l l' -> XInv l x -> XInv l' x.
  Hypothesis HsokP : forall l l', Permutation l l' -> SOK l -> SOK l'.

  Notation st_t := (qstate X).

  (* representation invariant; the abstraction function is q_seq *)
  Definition Inv (st : st_t) : Prop :=
    NoDup (q_seq st) /\ set_eq (q_set st) (q_seq st) /\ XInv (q_seq st) (q_x st) /\ SOK (q_seq st).

  Definition refines1 (r : res st_t) (s : res (list V)) : Prop :=
    Inv (fst r) /\ q_seq (fst r) = fst s /\ snd r = snd s.

  Lemma contains_ok st v : Inv st -> q_contains H st v = mem v (q_seq st).
  Proof. intros (Hn & Hs & HX & HK). unfold q_contains. apply Hcont; assumption. Qed.

  Lemma stay st e : Inv st -> refines1 (st, Some e) (q_seq st, Some e).
  Proof. intros HI. repeat split; try apply HI. Qed.

  Lemma frame st arr leav rest seq' set' :
    Inv st -> sconf (q_seq st) arr leav = None ->
    Permutation (q_seq st) (leav ++ rest) -> Permutation seq' (arr ++ rest) -> NoDup (arr ++ rest) ->
    (forall y, In y set' <-> In y arr \/ (In y (q_set st) /\ ~ In y leav)) ->
    Inv (Build_qstate seq' set' (h_done H (q_x st) arr leav)).
  Proof.
    intros (Hn & Hs & HX & HK) Hc P1 P2 Hnd Hset.
    assert (Hn' : NoDup seq') by (eapply Permutation_NoDup; [apply Permutation_sym; exact P2|exact Hnd]).
    assert (Hk' : SOK seq') by (eapply Hsok; eauto).
    assert (Hd : NoDup (leav ++ rest)) by (eapply Permutation_NoDup; [exact P1|exact Hn]).
    unfold Inv; simpl. repeat split; try assumption.
    - intros Hy. apply Hset in Hy. eapply Permutation_in; [apply Permutation_sym; exact P2|].
      apply in_or_app. destruct Hy as [Hy|[Hy Hl]]; [left; exact Hy|right].
      apply Hs in Hy. apply (Permutation_in _ P1) in Hy. apply in_app_or in Hy.
      destruct Hy as [Hy|Hy]; [contradiction|exact Hy].
    - intros Hy. apply Hset. apply (Permutation_in _ P2) in Hy. apply in_app_or in Hy.
      destruct Hy as [Hy|Hy]; [left; exact Hy|right]. split.
      + apply Hs. eapply Permutation_in; [apply Permutation_sym; exact P1|]. apply in_or_app. right. exact Hy.
      + intros Hl. exact (NoDup_app_disj _ _ Hd y Hl Hy).
    - eapply Hdone; eauto.
  Qed.

  (* ---- single-element operations ---- *)
  Lemma q_insert_ref i v st : Inv st -> refines1 (q_insert H i v st) (s_insert sconf i v (q_seq st)).
  Proof.
    intros HI. unfold q_insert, s_insert. rewrite (contains_ok st v HI).
    destruct (mem v (q_seq st)) eqn:Em; [apply stay; exact HI|].
    pose proof HI as (Hn & Hs & HX & HK).
    rewrite (Hcheck1 (q_seq st) (q_x st) [v] [] HX HK) by (simpl; lia).
    destruct (sconf (q_seq st) [v] []) eqn:Ec; [apply stay; exact HI|].
    split; [|split; reflexivity]. simpl.
    apply (frame st [v] [] (q_seq st)); simpl; auto.
    - apply insert_at_perm.
    - constructor; [apply mem_false; exact Em|exact Hn].
    - intros y. rewrite set_add_In. split; [intros [->|Hy]; [left; left; reflexivity|right; split; [exact Hy|intros []]]|].
      intros [[<-|[]]|[Hy _]]; [left; reflexivity|right; exact Hy].
  Qed.

  Lemma q_append_ref v st : Inv st -> refines1 (q_append H v st) (s_append sconf v (q_seq st)).
  Proof. intros HI. apply q_insert_ref. exact HI. Qed.

  Lemma catch_dup_ref r s : refines1 r s -> refines1 (catch_dup r) (catch_dup s).
  Proof.
    destruct r as [st e], s as [l e']. intros (A & B & C). simpl in *. subst e'.
    destruct e as [[]|]; simpl; (split; [exact A|split; [exact B|reflexivity]]).
  Qed.

  Lemma q_add_ref v st : Inv st -> refines1 (q_add H v st) (s_add sconf v (q_seq st)).
  Proof. intros HI. apply catch_dup_ref. apply q_append_ref. exact HI. Qed.

  Lemma q_delidx_ref i st : Inv st -> refines1 (q_delidx H i st) (s_delidx i (q_seq st)).
  Proof.
    intros HI. unfold q_delidx, s_delidx.
    destruct (norm_idx (length (q_seq st)) i) as [k|] eqn:En; [|apply stay; exact HI].
    apply norm_idx_lt in En.
    pose proof HI as (Hn & Hs & HX & HK).
    rewrite (Hcheck1 (q_seq st) (q_x st) [] [nthv k (q_seq st)] HX HK) by (simpl; lia).
    rewrite Hconf_nil.
    split; [|split; reflexivity]. simpl.
    apply (frame st [] [nthv k (q_seq st)] (remove_at k (q_seq st))); simpl; auto.
    - apply remove_at_perm. exact En.
    - pose proof (Permutation_NoDup (remove_at_perm k (q_seq st) En) Hn) as Hd.
      inversion Hd; assumption.
    - intros y. rewrite set_diff_In. split; [intros A; right; exact A|intros [[]|A]; exact A].
  Qed.

  Lemma stay0 st : Inv st -> refines1 (st, None) (q_seq st, None).
  Proof. intros HI. split; [exact HI|split; reflexivity]. Qed.

  Lemma q_remove_ref v st : Inv st -> refines1 (q_remove H v st) (s_remove v (q_seq st)).
  Proof.
    intros HI. unfold q_remove, q_index, s_remove. rewrite (contains_ok st v HI).
    destruct (mem v (q_seq st)) eqn:Em.
    - destruct (index_of_mem _ _ Em) as [k Ek]. rewrite Ek.
      destruct (index_of_Some _ _ _ Ek) as [Hk _].
      pose proof (q_delidx_ref (Z.of_nat k) st HI) as R. unfold s_delidx in R.
      rewrite (norm_idx_of_nat _ _ Hk) in R. exact R.
    - rewrite (index_of_not_mem _ _ Em). apply stay. exact HI.
  Qed.

  Lemma q_discard_ref v st : Inv st -> refines1 (q_discard H v st) (s_discard v (q_seq st)).
  Proof.
    intros HI. unfold q_discard, s_discard. rewrite (contains_ok st v HI).
    destruct (mem v (q_seq st)); [apply q_remove_ref; exact HI|apply stay0; exact HI].
  Qed.

  Lemma q_delslice_ref idxs st : Inv st -> refines1 (q_delslice H idxs st) (s_delslice idxs (q_seq st)).
  Proof.
    intros HI. unfold q_delslice, s_delslice.
    destruct (valid_idxs (length (q_seq st)) idxs) eqn:Ev; simpl; [|apply stay; exact HI].
    destruct (valid_idxs_spec _ _ Ev) as [Hnd Hlt].
    pose proof HI as (Hn & Hs & HX & HK).
    rewrite (Hcheck1 (q_seq st) (q_x st) [] (values_at idxs (q_seq st)) HX HK) by (simpl; lia).
    rewrite Hconf_nil.
    split; [|split; reflexivity]. simpl.
    pose proof (values_remove_perm idxs (q_seq st) Hnd Hlt) as P1.
    apply (frame st [] (values_at idxs (q_seq st)) (remove_idxs idxs (q_seq st))); simpl; auto.
    - pose proof (Permutation_NoDup P1 Hn) as Hd. apply NoDup_app_remove_l in Hd. exact Hd.
    - intros y. rewrite set_diff_In. split; [intros A; right; exact A|intros [[]|A]; exact A].
  Qed.

  Lemma q_setidx_ref i v st : Inv st -> refines1 (q_setidx H i v st) (s_setidx sconf i v (q_seq st)).
  Proof.
    intros HI. unfold q_setidx, s_setidx.
    destruct (norm_idx (length (q_seq st)) i) as [k|] eqn:En; [|apply stay; exact HI].
    apply norm_idx_lt in En. rewrite (contains_ok st v HI). cbv zeta.
    destruct (mem v (q_seq st) && negb (Nat.eqb v (nthv k (q_seq st)))) eqn:Ed; [apply stay; exact HI|].
    pose proof HI as (Hn & Hs & HX & HK).
    rewrite (Hcheck1 (q_seq st) (q_x st) [v] [nthv k (q_seq st)] HX HK) by (simpl; lia).
    destruct (sconf (q_seq st) [v] [nthv k (q_seq st)]) eqn:Ec; [apply stay; exact HI|].
    assert (Hold : mem (nthv k (q_seq st)) (q_set st) = true).
    { apply mem_In. apply Hs. unfold nthv. apply nth_In. exact En. }
    rewrite Hold. simpl.
    split; [|split; reflexivity]. simpl.
    pose proof (remove_at_perm k (q_seq st) En) as P1.
    pose proof (Permutation_NoDup P1 Hn) as Hd.
    apply (frame st [v] [nthv k (q_seq st)] (remove_at k (q_seq st))); simpl; auto.
    - apply set_nth_perm. exact En.
    - inversion Hd as [|? ? Hx Hd']; subst. constructor; [|exact Hd'].
      apply andb_false_iff in Ed. destruct Ed as [Ed|Ed].
      + apply mem_false in Ed. intros Hy. apply Ed. eapply Permutation_in; [apply Permutation_sym; exact P1|].
        right. exact Hy.
      + apply negb_false_iff, Nat.eqb_eq in Ed. rewrite Ed. exact Hx.
    - intros y. rewrite set_add_In, set_del_In. split.
      + intros [->|[A B]]; [left; left; reflexivity|right; split; [exact A|intros [C|[]]; apply B; symmetry; exact C]].
      + intros [[<-|[]]|[A B]]; [left; reflexivity|right; split; [exact A|intros C; apply B; left; symmetry; exact C]].
  Qed.

  Lemma NoDup_app_intro (a b : list V) :
    NoDup a -> NoDup b -> (forall y, In y a -> In y b -> False) -> NoDup (a ++ b).
  Proof.
    induction a as [|x t IH]; simpl; intros Ha Hb Hd; [exact Hb|].
    inversion Ha as [|? ? Hx Ha']; subst. constructor.
    - intros Hy. apply in_app_or in Hy. destruct Hy as [Hy|Hy]; [contradiction|].
      apply (Hd x); [left; reflexivity|exact Hy].
    - apply IH; [exact Ha'|exact Hb|]. intros y Hy1 Hy2. apply (Hd y); [right; exact Hy1|exact Hy2].
  Qed.

  Lemma existsb_ext' (f g : V -> bool) l : (forall v, f v = g v) -> existsb f l = existsb g l.
  Proof. intros E. induction l as [|x t IH]; simpl; [reflexivity|]. rewrite E, IH. reflexivity. Qed.

  Lemma q_setslice_ref idxs vs st :
    fixed = true -> full = true -> Inv st ->
    refines1 (q_setslice H fixed idxs vs st) (s_setslice sconf idxs vs (q_seq st)).
  Proof.
    intros Hfx Hfull HI. unfold q_setslice, s_setslice.
    destruct (valid_idxs (length (q_seq st)) idxs) eqn:Ev; simpl; [|apply stay; exact HI].
    destruct (valid_idxs_spec _ _ Ev) as [Hnd Hlt].
    destruct (length idxs =? length vs) eqn:El; simpl; [|apply stay; exact HI].
    apply Nat.eqb_eq in El.
    rewrite (existsb_ext' _ (fun v => mem v (q_seq st) && negb (mem v (values_at idxs (q_seq st)))))
      by (intros v; rewrite (contains_ok st v HI); reflexivity).
    destruct (existsb _ vs) eqn:Ex; [apply stay; exact HI|].
    rewrite Hfx. simpl. destruct (nodupb vs) eqn:Evs; simpl; [|apply stay; exact HI].
    pose proof HI as (Hn & Hs & HX & HK).
    rewrite (HcheckN Hfull (q_seq st) (q_x st) vs (values_at idxs (q_seq st)) HX HK).
    destruct (sconf (q_seq st) vs (values_at idxs (q_seq st))) eqn:Ec; [apply stay; exact HI|].
    split; [|split; reflexivity]. simpl.
    pose proof (values_remove_perm idxs (q_seq st) Hnd Hlt) as P1.
    pose proof (Permutation_NoDup P1 Hn) as Hd.
    apply (frame st vs (values_at idxs (q_seq st)) (remove_idxs idxs (q_seq st))); simpl; auto.
    - apply set_idxs_perm; assumption.
    - apply NoDup_app_intro.
      + apply nodupb_NoDup. exact Evs.
      + apply NoDup_app_remove_l in Hd. exact Hd.
      + intros y Hy1 Hy2.
        assert (Hyl : In y (q_seq st)).
        { eapply Permutation_in; [apply Permutation_sym; exact P1|]. apply in_or_app. right. exact Hy2. }
        assert (Hyn : ~ In y (values_at idxs (q_seq st))).
        { intros Hc. exact (NoDup_app_disj _ _ Hd y Hc Hy2). }
        assert (Hf : mem y (q_seq st) && negb (mem y (values_at idxs (q_seq st))) = true).
        { apply andb_true_iff. split; [apply mem_In; exact Hyl|]. apply negb_true_iff, mem_false. exact Hyn. }
        assert (Ht : existsb (fun v => mem v (q_seq st) && negb (mem v (values_at idxs (q_seq st)))) vs = true).
        { apply existsb_exists. exists y. split; assumption. }
        congruence.
    - intros y. rewrite set_union_In, set_diff_In. reflexivity.
  Qed.

  Lemma perm_inv st l' : Inv st -> Permutation (q_seq st) l' -> Inv (Build_qstate l' (q_set st) (q_x st)).
  Proof.
    intros (Hn & Hs & HX & HK) P. unfold Inv; simpl. repeat split.
    - eapply Permutation_NoDup; eauto.
    - intros Hy. eapply Permutation_in; [exact P|]. apply Hs. exact Hy.
    - intros Hy. apply Hs. eapply Permutation_in; [apply Permutation_sym; exact P|exact Hy].
    - eapply Hperm; eauto.
    - eapply HsokP; eauto.
  Qed.

  Lemma empty_inv st : Inv (q_empty H st).
  Proof.
    unfold Inv, q_empty; simpl. repeat split; try (intros []).
    - constructor.
    - apply Hclear.
    - exact Hsok_nil.
  Qed.

  Definition step_ref (f : V -> st_t -> res st_t) (g : V -> list V -> res (list V)) : Prop :=
    forall v st, Inv st -> Inv (fst (f v st)) /\ q_seq (fst (f v st)) = fst (g v (q_seq st))
                           /\ snd (f v st) = snd (g v (q_seq st)).

  Lemma bulk_ref f g vs st : step_ref f g -> Inv st -> refines1 (bulk f vs st) (bulk g vs (q_seq st)).
  Proof. intros Hs HI. exact (bulk_refines Inv q_seq f g Hs vs st HI). Qed.

  Lemma from_iter_ref vs st : refines1 (q_from_iter H vs st) (s_from_iter sconf vs).
  Proof.
    unfold q_from_iter, s_from_iter.
    exact (bulk_ref (q_add H) (s_add sconf) vs (q_empty H st) (fun v s => q_add_ref v s) (empty_inv st)).
  Qed.

  Lemma q_iand_ref vs st : Inv st -> refines1 (q_iand H vs st) (s_iand sconf vs (q_seq st)).
  Proof.
    intros HI. unfold q_iand, s_iand. destruct (from_iter_ref vs st) as (A & B & C).
    destruct (q_from_iter H vs st) as [o e]. destruct (s_from_iter sconf vs) as [ol e'].
    simpl in *. subst e' ol. destruct e; [apply stay; exact HI|].
    rewrite (filter_ext _ (fun v => negb (mem v (q_seq o)))) by (intros v; rewrite (contains_ok o v A); reflexivity).
    apply bulk_ref; [|exact HI]. intros v s Hs. apply q_discard_ref. exact Hs.
  Qed.

  Lemma q_ixor_ref vs st : Inv st -> refines1 (q_ixor H vs st) (s_ixor sconf vs (q_seq st)).
  Proof.
    intros HI. unfold q_ixor, s_ixor. destruct (from_iter_ref vs st) as (A & B & C).
    destruct (q_from_iter H vs st) as [o e]. destruct (s_from_iter sconf vs) as [ol e'].
    simpl in *. subst e' ol. destruct e; [apply stay; exact HI|].
    apply bulk_ref; [|exact HI]. intros v s Hs. rewrite (contains_ok s v Hs).
    destruct (mem v (q_seq s)); [apply q_discard_ref|apply q_add_ref]; exact Hs.
  Qed.

  (* ---- every operation ---- *)
  Definition q_op_ok (o : op) : bool :=
    match o with
    | OSetSlice _ _ => fixed && full
    | OWedge _ _ _ => false           (* not a qset method *)
    | _ => true
    end.

  Theorem q_run_refines o st :
    q_op_ok o = true -> Inv st -> refines1 (q_run H fixed o st) (s_run sconf o (q_seq st)).
  Proof.
    intros Hok HI. destruct o; simpl in *; try discriminate.
    - apply q_append_ref; exact HI.
    - apply q_add_ref; exact HI.
    - apply q_insert_ref; exact HI.
    - apply q_remove_ref; exact HI.
    - apply q_discard_ref; exact HI.
    - apply q_delidx_ref; exact HI.
    - apply q_delidx_ref; exact HI.
    - apply q_delslice_ref; exact HI.
    - apply q_setidx_ref; exact HI.
    - apply andb_true_iff in Hok. destruct Hok. apply q_setslice_ref; assumption.
    - split; [|split; reflexivity]. apply perm_inv; [exact HI|]. apply Permutation_sym, sort_list_perm.
    - split; [|split; reflexivity]. apply perm_inv; [exact HI|]. apply Permutation_rev.
    - split; [|split; reflexivity]. exact (empty_inv st).
    - apply stay0; exact HI.
    - apply bulk_ref; [|exact HI]. intros v s Hs. apply q_append_ref; exact Hs.
    - apply bulk_ref; [|exact HI]. intros v s Hs. apply q_add_ref; exact Hs.
    - apply bulk_ref; [|exact HI]. intros v s Hs. apply q_discard_ref; exact Hs.
    - apply q_iand_ref; exact HI.
    - apply q_ixor_ref; exact HI.
  Qed.

  (* ---- every operation sequence (induction over fold_left) ---- *)
  Lemma q_fold_refines ops : forall st tr,
    forallb q_op_ok ops = true -> Inv st ->
    let r := fold_left (step (q_run H fixed)) ops (st, tr) in
    let s := fold_left (step (s_run sconf)) ops (q_seq st, tr) in
    Inv (fst r) /\ q_seq (fst r) = fst s /\ snd r = snd s.
  Proof.
    induction ops as [|o t IH]; simpl; intros st tr Hok HI; [auto|].
    apply andb_true_iff in Hok. destruct Hok as [Ho Ht].
    destruct (q_run_refines o st Ho HI) as (A & B & C).
    rewrite !step_eq.
    destruct (q_run H fixed o st) as [st' e]. destruct (s_run sconf o (q_seq st)) as [l' e'].
    simpl in *. subst e' l'. apply IH; assumption.
  Qed.

  Theorem q_exec_refines ops st :
    forallb q_op_ok ops = true -> Inv st ->
    Inv (fst (exec (q_run H fixed) ops st))
    /\ q_seq (fst (exec (q_run H fixed) ops st)) = fst (exec (s_run sconf) ops (q_seq st))
    /\ snd (exec (q_run H fixed) ops st) = snd (exec (s_run sconf) ops (q_seq st)).
  Proof. intros Hok HI. exact (q_fold_refines ops st [] Hok HI). Qed.

  (* ---- observations agree under the invariant ---- *)
  Theorem q_observations_agree st v i : Inv st ->
    q_contains H st v = mem v (q_seq st)
    /\ q_index H v st = s_index v (q_seq st)
    /\ q_get i st = s_get i (q_seq st).
  Proof.
    intros HI. split; [apply contains_ok; exact HI|]. split; [|reflexivity].
    unfold q_index, s_index. rewrite (contains_ok st v HI).
    destruct (mem v (q_seq st)) eqn:Em.
    - destruct (index_of_mem _ _ Em) as [k Ek]. rewrite Ek. reflexivity.
    - rewrite (index_of_not_mem _ _ Em). reflexivity.
  Qed.

  (* ---- a single-element operation that raises leaves the state as it was ---- *)
  Definition noop_on_fail (r : res st_t) (st : st_t) : Prop := forall e, snd r = Some e -> fst r = st.

  Ltac crush_noop :=
    repeat match goal with
           | |- context [if ?c then _ else _] => destruct c
           | |- context [match ?c with _ => _ end] => destruct c
           end;
    simpl; intros e' E'; try discriminate; reflexivity.

  Lemma q_insert_noop i v st : noop_on_fail (q_insert H i v st) st.
  Proof. unfold noop_on_fail, q_insert. crush_noop. Qed.

  Lemma q_delidx_noop i st : noop_on_fail (q_delidx H i st) st.
  Proof. unfold noop_on_fail, q_delidx. crush_noop. Qed.

  Lemma q_setidx_noop i v st : noop_on_fail (q_setidx H i v st) st.
  Proof. unfold noop_on_fail, q_setidx. crush_noop. Qed.

  Lemma q_remove_noop v st : noop_on_fail (q_remove H v st) st.
  Proof.
    unfold q_remove. destruct (q_index H v st); [apply q_delidx_noop|]. intros e' _. reflexivity.
  Qed.

  Theorem q_failed_single_op_is_noop o st e :
    single_op o = true -> snd (q_run H fixed o st) = Some e -> fst (q_run H fixed o st) = st.
  Proof.
    intros Hs. destruct o; simpl in *; try discriminate; intros E.
    - exact (q_insert_noop _ _ _ _ E).
    - unfold q_add, catch_dup in *. pose proof (q_insert_noop (Z.of_nat (length (q_seq st))) v st) as N.
      unfold q_append in *. destruct (q_insert H (Z.of_nat (length (q_seq st))) v st) as [st' [[]|]];
        simpl in *; try discriminate; exact (N _ eq_refl).
    - exact (q_insert_noop _ _ _ _ E).
    - exact (q_remove_noop _ _ _ E).
    - unfold q_discard in *. destruct (q_contains H st v); [exact (q_remove_noop _ _ _ E)|reflexivity].
    - exact (q_delidx_noop _ _ _ E).
    - exact (q_delidx_noop _ _ _ E).
    - exact (q_setidx_noop _ _ _ _ E).
    - reflexivity.
  Qed.
End Refine.
