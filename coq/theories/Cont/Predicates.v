(* C18 — executable model of the predicate store `Predicates`
   (pytableaux/lang/collect.py): a qset whose hooks maintain `_lookup`, a dict
   from every reference of a member (spec, ident, symbol coordinates, and the
   predicate itself) to the member, and whose `__contains__` reads that dict.

   A predicate is a natural number; `bi p` is its symbol (index, subscript).
   Everything is proved for an arbitrary `bi`; the harness uses
   p = 2*index + (arity-1), subscript 0, so `bi = Nat.div2` and the numeric order
   is the lexical order.  System predicates (Identity, Existence) and the
   `name` reference are not modelled.

   `pfixed = false` is `_hook_check` as it is (arrivals are compared with the
   index only); `pfixed = true` also compares the arrivals with each other. *)
From Coq Require Import List Bool Arith ZArith Lia.
From PT Require Import Cont.Common Cont.Qset.
Import ListNotations.

Inductive ref := RSpec (p : V) | RIdent (p : V) | RBi (b : nat) | RSelf (p : V).

Definition ref_eqb (a b : ref) : bool :=
  match a, b with
  | RSpec p, RSpec q | RIdent p, RIdent q | RSelf p, RSelf q => Nat.eqb p q
  | RBi x, RBi y => Nat.eqb x y
  | _, _ => false
  end.

Definition lookup := list (ref * V).

Fixpoint lk_get (r : ref) (lk : lookup) : option V :=
  match lk with
  | [] => None
  | (k, p) :: t => if ref_eqb r k then Some p else lk_get r t
  end.
Definition lk_pop (r : ref) (lk : lookup) : lookup := filter (fun kp => negb (ref_eqb r (fst kp))) lk.
Definition lk_set (r : ref) (p : V) (lk : lookup) : lookup := (r, p) :: lk_pop r lk.

Section Predicates.
  Variable bi : V -> nat.
  Variable pfixed : bool.

  (* Predicate.refs *)
  Definition refs (p : V) : list ref := [RSpec p; RIdent p; RBi (bi p)].
  (* every key under which _hook_done files / removes a predicate *)
  Definition keys (p : V) : list ref := refs p ++ [RSelf p].

  Definition somes {A} (l : list (option A)) : list A :=
    flat_map (fun o => match o with Some a => [a] | None => [] end) l.

  (* priors found in the index under a reference of pred and different from pred *)
  Definition priors_of (lk : lookup) (pred : V) : list V :=
    filter (fun prior => negb (Nat.eqb prior pred)) (somes (map (fun r => lk_get r lk) (refs pred))).

  (* the repaired check additionally files the arrivals seen so far *)
  Fixpoint arrivals_clash (seen : list V) (arr : list V) : bool :=
    match arr with
    | [] => false
    | p :: t => existsb (fun q => Nat.eqb (bi q) (bi p) && negb (Nat.eqb q p)) seen
                || arrivals_clash (p :: seen) t
    end.

  (* Predicates._hook_check: conflicts = {prior: pred}; the priors that are leaving are
     popped; anything left raises ValueError *)
  Definition p_check (lk : lookup) (arr leav : list V) : option exn :=
    if pfixed && arrivals_clash [] arr then Some EValue else
    if existsb (fun prior => negb (mem prior leav)) (flat_map (priors_of lk) arr)
    then Some EValue else None.

  (* Predicates._hook_done *)
  Definition p_done (lk : lookup) (arr leav : list V) : lookup :=
    let lk1 := fold_left (fun acc pred => fold_left (fun a r => lk_pop r a) (keys pred) acc) leav lk in
    fold_left (fun acc pred => fold_left (fun a r => lk_set r pred a) (keys pred) acc) arr lk1.

  Definition pred_hooks : hooks lookup :=
    {| h_contains := fun _ lk v => match lk_get (RSelf v) lk with Some _ => true | None => false end;
       h_check := p_check;
       h_done := p_done;
       h_clear := fun _ => [] |}.

  Definition ps_init : qstate lookup := Build_qstate [] [] [].
  Definition ps_run (fixed : bool) := q_run pred_hooks fixed.

  (* PredicatesBase.get(ref) restricted to user predicates: None is KeyError *)
  Definition p_get (r : ref) (st : qstate lookup) : option V := lk_get r (q_x st).

  (* specification side: the admission check on a plain list *)
  Definition pconf (cur arr leav : list V) : option exn :=
    if arrivals_clash [] arr then Some EValue else
    if existsb (fun p => existsb (fun q => Nat.eqb (bi q) (bi p) && negb (Nat.eqb q p)
                                           && negb (mem q leav)) cur) arr
    then Some EValue else None.
End Predicates.
