(* C18 — the predicate store, second half: the check hook computes the admission
   test of the specification, the done hook keeps the lookup index exact; the
   generic qset theorems instantiated. *)
From Coq Require Import List Bool Arith ZArith Lia Permutation.
From PT Require Import Cont.Common Cont.ListFacts Cont.Spec Cont.Qset Cont.QsetProofs Cont.Predicates
  Cont.PredicatesProofs.
Import ListNotations.

Lemma existsb_flat_map {A B} (f : B -> bool) (g : A -> list B) l :
  existsb f (flat_map g l) = existsb (fun a => existsb f (g a)) l.
Proof. induction l as [|a t IH]; simpl; [reflexivity|]. rewrite existsb_app, IH. reflexivity. Qed.

Lemma bool_eq_iff (a b : bool) : (a = true <-> b = true) -> a = b.
Proof. destruct a, b; intros [H1 H2]; try reflexivity; [symmetry; apply H1|apply H2]; reflexivity. Qed.

Section PredInst.
  Variable bi : V -> nat.
  Variable pfixed : bool.
  Notation PXInv := (PXInv bi).
  Notation PSOK := (PSOK bi).

  (* one arrival: the priors found through the index are exactly the conflicting members *)
  Lemma priors_ok l lk leav p : PXInv l lk ->
    existsb (fun prior => negb (mem prior leav)) (priors_of bi lk p)
    = existsb (fun q => Nat.eqb (bi q) (bi p) && negb (Nat.eqb q p) && negb (mem q leav)) l.
  Proof.
    intros HX. apply bool_eq_iff. rewrite !existsb_exists. split.
    - intros [prior [Hin Hl]]. unfold priors_of in Hin. apply filter_In in Hin. destruct Hin as [Hs Hne].
      apply In_somes in Hs. apply in_map_iff in Hs. destruct Hs as [r [Hg Hr]].
      apply HX in Hg. destruct Hg as [Hpl Hk]. exists prior. split; [exact Hpl|].
      rewrite Hl, Hne. rewrite !andb_true_r. apply Nat.eqb_eq.
      apply (keys_same_bi bi r prior p Hk). unfold keys. apply in_or_app. left. exact Hr.
    - intros [q [Hq Hc]]. apply andb_true_iff in Hc. destruct Hc as [Hc Hl].
      apply andb_true_iff in Hc. destruct Hc as [Eb Hne]. apply Nat.eqb_eq in Eb.
      exists q. split; [|exact Hl]. unfold priors_of. apply filter_In. split; [|exact Hne].
      apply In_somes. apply in_map_iff. exists (RBi (bi p)). split; [|unfold refs; simpl; auto].
      apply HX. split; [exact Hq|]. unfold keys, refs. simpl. rewrite Eb. auto.
  Qed.

  Lemma p_check_ok l lk arr leav : PXInv l lk -> (pfixed = true \/ length arr <= 1) ->
    p_check bi pfixed lk arr leav = pconf bi l arr leav.
  Proof.
    intros HX Hc. unfold p_check, pconf.
    assert (Hclash : pfixed && arrivals_clash bi [] arr = arrivals_clash bi [] arr).
    { destruct Hc as [->|Hlen]; [reflexivity|].
      destruct arr as [|a [|b t]]; simpl in *; try lia; rewrite ?andb_false_r; reflexivity. }
    rewrite Hclash. destruct (arrivals_clash bi [] arr); [reflexivity|].
    rewrite existsb_flat_map.
    rewrite (existsb_ext' _ (fun p => existsb (fun q => Nat.eqb (bi q) (bi p) && negb (Nat.eqb q p) && negb (mem q leav)) l))
      by (intros p; apply priors_ok; exact HX).
    reflexivity.
  Qed.

  (* ---- the done hook ---- *)
  Opaque keys.
  Definition pop_keys (ks : list ref) (lk : lookup) := fold_left (fun a r => lk_pop r a) ks lk.
  Definition set_keys (p : V) (ks : list ref) (lk : lookup) := fold_left (fun a r => lk_set r p a) ks lk.

  Lemma get_pop_keys r ks : forall lk,
    lk_get r (pop_keys ks lk) = if existsb (ref_eqb r) ks then None else lk_get r lk.
  Proof.
    induction ks as [|k t IH]; simpl; intros lk; [reflexivity|].
    unfold pop_keys in *. simpl. rewrite IH, lk_get_pop.
    destruct (ref_eqb r k) eqn:E; simpl.
    - apply ref_eqb_eq in E. subst k. rewrite ref_eqb_refl. destruct (existsb (ref_eqb r) t); reflexivity.
    - destruct (ref_eqb k r) eqn:E2; [apply ref_eqb_eq in E2; subst; rewrite ref_eqb_refl in E; discriminate|].
      reflexivity.
  Qed.

  Lemma get_set_keys r p ks : forall lk,
    lk_get r (set_keys p ks lk) = if existsb (ref_eqb r) ks then Some p else lk_get r lk.
  Proof.
    induction ks as [|k t IH]; simpl; intros lk; [reflexivity|].
    unfold set_keys in *. simpl. rewrite IH, lk_get_set.
    destruct (ref_eqb r k); simpl; [destruct (existsb (ref_eqb r) t); reflexivity|reflexivity].
  Qed.

  Definition pop_all (leav : list V) (lk : lookup) := fold_left (fun acc pred => pop_keys (keys bi pred) acc) leav lk.
  Definition set_all (arr : list V) (lk : lookup) := fold_left (fun acc pred => set_keys pred (keys bi pred) acc) arr lk.

  Lemma p_done_eq lk arr leav : p_done bi lk arr leav = set_all arr (pop_all leav lk).
  Proof. reflexivity. Qed.

  Lemma get_pop_all r leav : forall lk,
    lk_get r (pop_all leav lk) = if existsb (fun p => existsb (ref_eqb r) (keys bi p)) leav then None else lk_get r lk.
  Proof.
    induction leav as [|a t IH]; simpl; intros lk; [reflexivity|].
    unfold pop_all in *. simpl. rewrite IH, get_pop_keys.
    destruct (existsb (ref_eqb r) (keys bi a)); simpl; [destruct (existsb _ t); reflexivity|reflexivity].
  Qed.

  Lemma get_set_all r p arr : forall lk,
    (forall a b, In a arr -> In b arr -> In r (keys bi a) -> In r (keys bi b) -> a = b) ->
    (lk_get r (set_all arr lk) = Some p <->
     (In p arr /\ In r (keys bi p)) \/ ((forall a, In a arr -> ~ In r (keys bi a)) /\ lk_get r lk = Some p)).
  Proof.
    induction arr as [|a t IH]; simpl; intros lk HD.
    - split; [intros E; right; split; [intros ? []|exact E]|intros [[[] _]|[_ E]]; exact E].
    - unfold set_all in *. simpl. rewrite IH by (intros x y Hx Hy; apply HD; right; assumption).
      rewrite get_set_keys. destruct (existsb (ref_eqb r) (keys bi a)) eqn:Ea.
      + apply existsb_ref_In in Ea. split.
        * intros [[Hp Hk]|[Hno E]]; [left; split; [right; exact Hp|exact Hk]|].
          injection E as <-. left. split; [left; reflexivity|exact Ea].
        * intros [[[<-|Hp] Hk]|[Hno _]].
          -- destruct (in_dec Nat.eq_dec a t) as [Hin|Hnin]; [left; split; assumption|].
             right. split; [|reflexivity]. intros b Hb Hkb.
             assert (a = b) by (apply HD; auto). subst b. contradiction.
          -- left. split; assumption.
          -- exfalso. apply (Hno a (or_introl eq_refl)). exact Ea.
      + assert (Hna : ~ In r (keys bi a)).
        { intros Hc. apply existsb_ref_In in Hc. congruence. }
        split.
        * intros [[Hp Hk]|[Hno E]]; [left; split; [right; exact Hp|exact Hk]|].
          right. split; [|exact E]. intros b [<-|Hb]; [exact Hna|apply Hno; exact Hb].
        * intros [[[<-|Hp] Hk]|[Hno E]]; [contradiction|left; split; assumption|].
          right. split; [|exact E]. intros b Hb. apply Hno. right. exact Hb.
  Qed.

  Lemma pred_done : forall l lk arr leav rest l', PXInv l lk -> PSOK l -> NoDup l ->
    Permutation l (leav ++ rest) -> Permutation l' (arr ++ rest) -> NoDup l' -> PSOK l' ->
    PXInv l' (p_done bi lk arr leav).
  Proof.
    intros l lk arr leav rest l' HX HK Hn P1 P2 Hn' HK' r p. rewrite p_done_eq.
    assert (Hd : NoDup (leav ++ rest)) by (eapply Permutation_NoDup; eauto).
    assert (Harr : forall y, In y arr -> In y l').
    { intros y Hy. eapply Permutation_in; [apply Permutation_sym; exact P2|apply in_or_app; left; exact Hy]. }
    assert (Hrest' : forall y, In y rest -> In y l').
    { intros y Hy. eapply Permutation_in; [apply Permutation_sym; exact P2|apply in_or_app; right; exact Hy]. }
    assert (Hrest : forall y, In y rest -> In y l /\ ~ In y leav).
    { intros y Hy. split; [eapply Permutation_in; [apply Permutation_sym; exact P1|apply in_or_app; right; exact Hy]|].
      intros Hc'. exact (NoDup_app_disj _ _ Hd y Hc' Hy). }
    assert (Hleav : forall y, In y leav -> In y l).
    { intros y Hy. eapply Permutation_in; [apply Permutation_sym; exact P1|apply in_or_app; left; exact Hy]. }
    assert (HD : forall a b, In a arr -> In b arr -> In r (keys bi a) -> In r (keys bi b) -> a = b).
    { intros a b Ha Hb Ka Kb. apply HK'; [apply Harr; exact Ha|apply Harr; exact Hb|].
      exact (keys_same_bi bi r a b Ka Kb). }
    rewrite (get_set_all r p arr (pop_all leav lk) HD). rewrite get_pop_all. split.
    - intros [[Hp Hk]|[Hno E]]; [split; [apply Harr; exact Hp|exact Hk]|].
      destruct (existsb (fun q => existsb (ref_eqb r) (keys bi q)) leav) eqn:El; [discriminate|].
      apply HX in E. destruct E as [Hpl Hk]. split; [|exact Hk].
      apply (Permutation_in _ P1) in Hpl. apply in_app_or in Hpl. destruct Hpl as [Hpl|Hpl]; [|apply Hrest'; exact Hpl].
      exfalso. assert (Ht : existsb (fun q => existsb (ref_eqb r) (keys bi q)) leav = true).
      { apply existsb_exists. exists p. split; [exact Hpl|apply existsb_ref_In; exact Hk]. }
      congruence.
    - intros [Hp Hk]. apply (Permutation_in _ P2) in Hp. apply in_app_or in Hp.
      destruct Hp as [Hp|Hp]; [left; split; assumption|].
      destruct (in_dec Nat.eq_dec p arr) as [Hin|Hnin]; [left; split; assumption|].
      right. split.
      + intros a Ha Ka. apply Hnin. assert (a = p); [|subst; exact Ha].
        apply HK'; [apply Harr; exact Ha|apply Hrest'; exact Hp|exact (keys_same_bi bi r a p Ka Hk)].
      + destruct (Hrest p Hp) as [Hpl Hpn].
        destruct (existsb (fun q => existsb (ref_eqb r) (keys bi q)) leav) eqn:El.
        * exfalso. apply existsb_exists in El. destruct El as [q [Hq Kq]]. apply existsb_ref_In in Kq.
          assert (q = p); [|subst; contradiction].
          apply HK; [apply Hleav; exact Hq|exact Hpl|exact (keys_same_bi bi r q p Kq Hk)].
        * apply HX. split; assumption.
  Qed.

  Transparent keys.

  (* ---- the instance ---- *)
  Definition PInv (st : qstate lookup) : Prop := Inv PXInv PSOK st.

  Lemma PInv_init : PInv (ps_init).
  Proof.
    unfold PInv, Inv, ps_init; simpl. split; [constructor|]. split; [intros y; tauto|]. split.
    - intros r p. simpl. split; [discriminate|intros [[] _]].
    - intros p q [].
  Qed.

  Lemma pred_cont' : forall l s lk v, PXInv l lk -> set_eq s l ->
    h_contains (pred_hooks bi pfixed) s lk v = mem v l.
  Proof. exact (pred_cont bi). Qed.

  Variable fixed : bool.

  Theorem ps_run_refines o st :
    q_op_ok fixed pfixed o = true -> PInv st ->
    refines1 PXInv PSOK (ps_run bi pfixed fixed o st) (s_run (pconf bi) o (q_seq st)).
  Proof.
    apply (q_run_refines (pred_hooks bi pfixed) fixed pfixed (pconf bi) PXInv PSOK).
    - exact pred_cont'.
    - intros l x arr leav HX _ Hlen. apply p_check_ok; [exact HX|right; exact Hlen].
    - intros Hf l x arr leav HX _. apply p_check_ok; [exact HX|left; exact Hf].
    - exact pred_done.
    - exact (pred_sok bi).
    - exact (pconf_nil bi).
    - intros x r p. simpl. split; [discriminate|intros [[] _]].
    - intros p q [].
    - exact (PXInv_perm bi).
    - exact (PSOK_perm bi).
  Qed.

  Theorem ps_exec_refines ops st :
    forallb (q_op_ok fixed pfixed) ops = true -> PInv st ->
    PInv (fst (exec (ps_run bi pfixed fixed) ops st))
    /\ q_seq (fst (exec (ps_run bi pfixed fixed) ops st)) = fst (exec (s_run (pconf bi)) ops (q_seq st))
    /\ snd (exec (ps_run bi pfixed fixed) ops st) = snd (exec (s_run (pconf bi)) ops (q_seq st)).
  Proof.
    apply (q_exec_refines (pred_hooks bi pfixed) fixed pfixed (pconf bi) PXInv PSOK).
    - exact pred_cont'.
    - intros l x arr leav HX _ Hlen. apply p_check_ok; [exact HX|right; exact Hlen].
    - intros Hf l x arr leav HX _. apply p_check_ok; [exact HX|left; exact Hf].
    - exact pred_done.
    - exact (pred_sok bi).
    - exact (pconf_nil bi).
    - intros x r p. simpl. split; [discriminate|intros [[] _]].
    - intros p q [].
    - exact (PXInv_perm bi).
    - exact (PSOK_perm bi).
  Qed.

  (* after ANY admissible operation sequence from the empty store: *)
  Theorem predicates_no_conflict ops :
    forallb (q_op_ok fixed pfixed) ops = true ->
    let st := fst (exec (ps_run bi pfixed fixed) ops ps_init) in
    forall p q, In p (q_seq st) -> In q (q_seq st) -> bi p = bi q -> p = q.
  Proof.
    intros Hok st. destruct (ps_exec_refines ops ps_init Hok PInv_init) as ((_ & _ & _ & HK) & _). exact HK.
  Qed.

  Theorem predicates_lookup_total ops :
    forallb (q_op_ok fixed pfixed) ops = true ->
    let st := fst (exec (ps_run bi pfixed fixed) ops ps_init) in
    (forall p r, In p (q_seq st) -> In r (keys bi p) -> p_get r st = Some p)
    /\ (forall r p, p_get r st = Some p -> In p (q_seq st) /\ In r (keys bi p)).
  Proof.
    intros Hok st. destruct (ps_exec_refines ops ps_init Hok PInv_init) as ((_ & _ & HX & _) & _).
    split; [intros p r Hp Hr; apply HX; split; assumption|intros r p E; apply HX; exact E].
  Qed.
End PredInst.

(* the code as it is: slice assignment can store two predicates with one symbol *)
Theorem ps_setslice_refuted :
  exists st idxs vs, PInv Nat.div2 st /\
    let st' := fst (ps_run Nat.div2 false false (OSetSlice idxs vs) st) in
    ~ PSOK Nat.div2 (q_seq st').
Proof.
  exists (fst (exec (ps_run Nat.div2 false false) [OExtend [2; 4]] (ps_init))), [0; 1], [0; 1]. split.
  - apply (ps_exec_refines Nat.div2 false false [OExtend [2; 4]] ps_init); [reflexivity|apply PInv_init].
  - vm_compute. intros HK. specialize (HK 0 1 (or_introl eq_refl) (or_intror (or_introl eq_refl)) eq_refl). discriminate.
Qed.
