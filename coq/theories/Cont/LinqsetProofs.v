(* C18 — refinement proof for the linqset model: chain, length counter and hash
   table stay in step under every operation of the repaired variant, and under
   every operation except item/slice assignment for the code as it is. *)
From Coq Require Import List Bool Arith ZArith Lia Permutation.
From PT Require Import Cont.Common Cont.ListFacts Cont.Spec Cont.Qset Cont.QsetProofs Cont.Linqset.
Import ListNotations.

(* representation invariant: distinct values, table keys = chain values, counter = length *)
Definition LInv (st : lstate) : Prop :=
  NoDup (l_chain st) /\ set_eq (l_table st) (l_chain st) /\ l_len st = length (l_chain st).

Definition lrefines1 (r : res lstate) (s : res (list V)) : Prop :=
  LInv (fst r) /\ l_chain (fst r) = fst s /\ snd r = snd s.

Lemma LInv_init : LInv ls_init.
Proof. unfold LInv, set_eq; simpl. split; [constructor|split; [tauto|reflexivity]]. Qed.

Lemma insert_at_nil k v : insert_at k v [] = [v].
Proof. destruct k; reflexivity. Qed.

Lemma mem_single v x : mem v [x] = Nat.eqb v x.
Proof. unfold mem. simpl. apply orb_false_r. Qed.

Section LRefine.
  Variable fixed : bool.

  Lemma l_contains_ok st v : LInv st -> l_contains st v = mem v (l_chain st).
  Proof.
    intros (_ & Hs & _). unfold l_contains. destruct (mem v (l_chain st)) eqn:E.
    - apply mem_In. apply Hs. apply mem_In. exact E.
    - apply mem_false. intros Hy. apply Hs in Hy. apply mem_false in E. contradiction.
  Qed.

  Lemma lstay st e : LInv st -> lrefines1 (st, Some e) (l_chain st, Some e).
  Proof. intros HI. split; [exact HI|split; reflexivity]. Qed.
  Lemma lstay0 st : LInv st -> lrefines1 (st, None) (l_chain st, None).
  Proof. intros HI. split; [exact HI|split; reflexivity]. Qed.

  Lemma l_hook_check_ok st arr dep : LInv st ->
    l_hook_check st arr dep =
    if existsb (fun v => mem v (l_chain st) && negb (mem v dep)) arr then Some EDup else None.
  Proof.
    intros HI. unfold l_hook_check.
    rewrite (existsb_ext' _ (fun v => mem v (l_chain st) && negb (mem v dep)))
      by (intros v; rewrite (l_contains_ok st v HI); reflexivity).
    reflexivity.
  Qed.

  (* generic update of the three parts *)
  Lemma lframe st arr leav rest chain' table' n' :
    LInv st -> Permutation (l_chain st) (leav ++ rest) -> Permutation chain' (arr ++ rest) ->
    NoDup (arr ++ rest) ->
    (forall y, In y table' <-> In y arr \/ (In y (l_table st) /\ ~ In y leav)) ->
    n' = length chain' ->
    LInv {| l_chain := chain'; l_table := table'; l_len := n' |}.
  Proof.
    intros (Hn & Hs & Hl) P1 P2 Hnd Hset Hn'.
    assert (Hd : NoDup (leav ++ rest)) by (eapply Permutation_NoDup; [exact P1|exact Hn]).
    unfold LInv; simpl. split; [|split; [|exact Hn']].
    - eapply Permutation_NoDup; [apply Permutation_sym; exact P2|exact Hnd].
    - intros y. split.
      + intros Hy. apply Hset in Hy. eapply Permutation_in; [apply Permutation_sym; exact P2|].
        apply in_or_app. destruct Hy as [Hy|[Hy Hnl]]; [left; exact Hy|right].
        apply Hs in Hy. apply (Permutation_in _ P1) in Hy. apply in_app_or in Hy.
        destruct Hy as [Hy|Hy]; [contradiction|exact Hy].
      + intros Hy. apply Hset. apply (Permutation_in _ P2) in Hy. apply in_app_or in Hy.
        destruct Hy as [Hy|Hy]; [left; exact Hy|right]. split.
        * apply Hs. eapply Permutation_in; [apply Permutation_sym; exact P1|]. apply in_or_app. right. exact Hy.
        * intros Hc. exact (NoDup_app_disj _ _ Hd y Hc Hy).
  Qed.

  Lemma l_place_inv k v st : LInv st -> mem v (l_chain st) = false -> LInv (l_place k v st).
  Proof.
    intros HI Em. pose proof HI as (Hn & Hs & Hl). unfold l_place.
    apply (lframe st [v] [] (l_chain st)); simpl; auto.
    - apply insert_at_perm.
    - constructor; [apply mem_false; exact Em|exact Hn].
    - intros y. rewrite set_add_In. split; [intros [->|Hy]; [left; left; reflexivity|right; split; [exact Hy|intros []]]|].
      intros [[<-|[]]|[Hy _]]; [left; reflexivity|right; exact Hy].
    - rewrite Hl. symmetry. exact (Permutation_length (insert_at_perm k v (l_chain st))).
  Qed.

  Lemma l_insert_ref i v st : LInv st -> lrefines1 (l_insert i v st) (s_insert no_conf i v (l_chain st)).
  Proof.
    intros HI. unfold l_insert, s_insert, no_conf. rewrite (l_hook_check_ok st [v] [] HI). simpl.
    rewrite andb_true_r, orb_false_r.
    destruct (mem v (l_chain st)) eqn:Em; [apply lstay; exact HI|].
    pose proof HI as (Hn & Hs & Hl). rewrite Hl.
    set (n := length (l_chain st)).
    set (j := (if (i <? 0)%Z then (Z.of_nat n + i)%Z else i)).
    assert (Hpos : forall p, insert_at p v (l_chain st) = insert_at (clamp_idx n i) v (l_chain st) ->
                   lrefines1 (l_place p v st, None) (insert_at (clamp_idx n i) v (l_chain st), None)).
    { intros p Hp. split; [cbn [fst]; apply l_place_inv; [exact HI|exact Em]|split; [cbn [fst]; exact Hp|reflexivity]]. }
    assert (Hc : clamp_idx n i = if (j <? 0)%Z then 0 else if (Z.of_nat n <? j)%Z then n else Z.to_nat j).
    { unfold clamp_idx, j. destruct (i <? 0)%Z; [rewrite Z.add_comm|]; reflexivity. }
    destruct (n =? 0) eqn:E0.
    - apply Nat.eqb_eq in E0. apply Hpos. unfold n in E0. apply length_zero_iff_nil in E0. rewrite E0.
      rewrite !insert_at_nil. reflexivity.
    - apply Nat.eqb_neq in E0. destruct (Z.of_nat n <=? j)%Z eqn:E1.
      + apply Z.leb_le in E1. apply Hpos. rewrite Hc.
        destruct (j <? 0)%Z eqn:E2; [apply Z.ltb_lt in E2; lia|].
        destruct (Z.of_nat n <? j)%Z eqn:E3; [reflexivity|].
        apply Z.ltb_ge in E3. replace (Z.to_nat j) with n by lia. reflexivity.
      + apply Z.leb_gt in E1. destruct (j <=? 0)%Z eqn:E2.
        * apply Z.leb_le in E2. apply Hpos. rewrite Hc.
          destruct (j <? 0)%Z eqn:E3; [reflexivity|]. apply Z.ltb_ge in E3.
          destruct (Z.of_nat n <? j)%Z eqn:E4; [apply Z.ltb_lt in E4; lia|].
          replace j with 0%Z by lia. reflexivity.
        * apply Z.leb_gt in E2. apply Hpos. rewrite Hc.
          destruct (j <? 0)%Z eqn:E3; [apply Z.ltb_lt in E3; lia|].
          destruct (Z.of_nat n <? j)%Z eqn:E4; [apply Z.ltb_lt in E4; lia|]. reflexivity.
  Qed.

  Lemma l_append_ref v st : LInv st -> lrefines1 (l_append v st) (s_append no_conf v (l_chain st)).
  Proof.
    intros HI. unfold l_append, s_append. pose proof HI as (Hn & Hs & Hl). rewrite Hl.
    apply l_insert_ref. exact HI.
  Qed.

  Lemma lcatch_dup_ref r s : lrefines1 r s -> lrefines1 (catch_dup r) (catch_dup s).
  Proof.
    destruct r as [st e], s as [l e']. intros (A & B & C). simpl in *. subst e'.
    destruct e as [[]|]; simpl; (split; [exact A|split; [exact B|reflexivity]]).
  Qed.

  Lemma l_add_ref v st : LInv st -> lrefines1 (l_add v st) (s_add no_conf v (l_chain st)).
  Proof. intros HI. apply lcatch_dup_ref. apply l_append_ref. exact HI. Qed.

  Lemma l_unlink_ref k st : LInv st -> k < length (l_chain st) ->
    lrefines1 (l_unlink k st) (remove_at k (l_chain st), None).
  Proof.
    intros HI Hk. pose proof HI as (Hn & Hs & Hl). unfold l_unlink.
    assert (Hm : mem (nthv k (l_chain st)) (l_table st) = true).
    { apply mem_In. apply Hs. unfold nthv. apply nth_In. exact Hk. }
    rewrite Hm. simpl. split; [|split; reflexivity]. simpl.
    pose proof (remove_at_perm k (l_chain st) Hk) as P1.
    pose proof (Permutation_NoDup P1 Hn) as Hd.
    apply (lframe st [] [nthv k (l_chain st)] (remove_at k (l_chain st))); simpl; auto.
    - inversion Hd; assumption.
    - intros y. rewrite set_del_In. split.
      + intros [A B]. right. split; [exact A|intros [C|[]]; apply B; symmetry; exact C].
      + intros [[]|[A B]]. split; [exact A|intros C; apply B; left; symmetry; exact C].
    - rewrite Hl. pose proof (Permutation_length P1) as E. simpl in E. rewrite E. reflexivity.
  Qed.

  Lemma l_remove_ref v st : LInv st -> lrefines1 (l_remove v st) (s_remove v (l_chain st)).
  Proof.
    intros HI. unfold l_remove, l_link_of, s_remove. fold (l_contains st v). rewrite (l_contains_ok st v HI).
    destruct (mem v (l_chain st)) eqn:Em.
    - destruct (index_of_mem _ _ Em) as [k Ek]. rewrite Ek.
      apply l_unlink_ref; [exact HI|]. exact (proj1 (index_of_Some _ _ _ Ek)).
    - rewrite (index_of_not_mem _ _ Em). apply lstay. exact HI.
  Qed.

  Lemma l_discard_ref v st : LInv st -> lrefines1 (l_discard v st) (s_discard v (l_chain st)).
  Proof.
    intros HI. unfold l_discard, s_discard. rewrite (l_contains_ok st v HI).
    destruct (mem v (l_chain st)); [apply l_remove_ref; exact HI|apply lstay0; exact HI].
  Qed.

  Lemma l_delidx_ref i st : LInv st -> lrefines1 (l_delidx i st) (s_delidx i (l_chain st)).
  Proof.
    intros HI. unfold l_delidx, s_delidx. pose proof HI as (Hn & Hs & Hl). rewrite Hl.
    destruct (norm_idx (length (l_chain st)) i) as [k|] eqn:En; [|apply lstay; exact HI].
    apply l_unlink_ref; [exact HI|]. exact (norm_idx_lt _ _ _ En).
  Qed.

  Lemma values_at_length idxs l : length (values_at idxs l) = length idxs.
  Proof. unfold values_at. apply map_length. Qed.

  Lemma l_delslice_ref idxs st : LInv st -> lrefines1 (l_delslice idxs st) (s_delslice idxs (l_chain st)).
  Proof.
    intros HI. unfold l_delslice, s_delslice. pose proof HI as (Hn & Hs & Hl). rewrite Hl.
    destruct (valid_idxs (length (l_chain st)) idxs) eqn:Ev; simpl; [|apply lstay; exact HI].
    destruct (valid_idxs_spec _ _ Ev) as [Hnd Hlt].
    pose proof (values_remove_perm idxs (l_chain st) Hnd Hlt) as P1.
    assert (Hall : forallb (fun v => mem v (l_table st)) (values_at idxs (l_chain st)) = true).
    { apply forallb_forall. intros v Hv. apply mem_In. apply Hs.
      eapply Permutation_in; [apply Permutation_sym; exact P1|]. apply in_or_app. left. exact Hv. }
    rewrite Hall. simpl. split; [|split; reflexivity]. simpl.
    pose proof (Permutation_NoDup P1 Hn) as Hd.
    apply (lframe st [] (values_at idxs (l_chain st)) (remove_idxs idxs (l_chain st))); simpl; auto.
    - apply NoDup_app_remove_l in Hd. exact Hd.
    - intros y. rewrite set_diff_In. split; [intros A; right; exact A|intros [[]|A]; exact A].
    - pose proof (Permutation_length P1) as E. rewrite app_length, values_at_length in E. lia.
  Qed.

  Lemma l_setidx_ref i v st : fixed = true -> LInv st ->
    lrefines1 (l_setidx fixed i v st) (s_setidx no_conf i v (l_chain st)).
  Proof.
    intros Hfx HI. unfold l_setidx, s_setidx, no_conf. pose proof HI as (Hn & Hs & Hl). rewrite Hl.
    destruct (norm_idx (length (l_chain st)) i) as [k|] eqn:En; [|apply lstay; exact HI].
    apply norm_idx_lt in En. cbv zeta.
    rewrite (l_hook_check_ok st [v] [nthv k (l_chain st)] HI). simpl. rewrite !orb_false_r.
    destruct (mem v (l_chain st) && negb (Nat.eqb v (nthv k (l_chain st)))) eqn:Ed; [apply lstay; exact HI|].
    rewrite Hfx. split; [|split; reflexivity]. simpl.
    pose proof (remove_at_perm k (l_chain st) En) as P1.
    pose proof (Permutation_NoDup P1 Hn) as Hd.
    apply (lframe st [v] [nthv k (l_chain st)] (remove_at k (l_chain st))); simpl; auto.
    - apply set_nth_perm. exact En.
    - inversion Hd as [|? ? Hx Hd']; subst. constructor; [|exact Hd'].
      apply andb_false_iff in Ed. destruct Ed as [Ed|Ed].
      + apply mem_false in Ed. intros Hy. apply Ed. eapply Permutation_in; [apply Permutation_sym; exact P1|].
        right. exact Hy.
      + apply negb_false_iff, Nat.eqb_eq in Ed. rewrite Ed. exact Hx.
    - intros y. rewrite set_add_In, set_del_In. split.
      + intros [->|[A B]]; [left; left; reflexivity|right; split; [exact A|intros [C|[]]; apply B; symmetry; exact C]].
      + intros [[<-|[]]|[A B]]; [left; reflexivity|right; split; [exact A|intros C; apply B; left; symmetry; exact C]].
    - rewrite set_nth_length. reflexivity.
  Qed.

  Lemma set_idxs_length : forall idxs vs l, length (set_idxs idxs vs l) = length l.
  Proof.
    induction idxs as [|i it IH]; intros [|v vt] l; simpl; try reflexivity.
    rewrite IH. apply set_nth_length.
  Qed.

  Lemma l_setslice_ref idxs vs st : fixed = true -> LInv st ->
    lrefines1 (l_setslice fixed idxs vs st) (s_setslice no_conf idxs vs (l_chain st)).
  Proof.
    intros Hfx HI. unfold l_setslice, s_setslice, no_conf. pose proof HI as (Hn & Hs & Hl). rewrite Hl.
    destruct (valid_idxs (length (l_chain st)) idxs) eqn:Ev; simpl; [|apply lstay; exact HI].
    destruct (valid_idxs_spec _ _ Ev) as [Hnd Hlt].
    destruct (length idxs =? length vs) eqn:El; simpl; [|apply lstay; exact HI].
    apply Nat.eqb_eq in El.
    destruct idxs as [|i0 it] eqn:Eidx.
    - destruct vs; [|discriminate]. simpl. apply lstay0. exact HI.
    - rewrite <- Eidx in *. clear Eidx.
      rewrite (l_hook_check_ok st vs (values_at idxs (l_chain st)) HI).
      destruct (existsb (fun v => mem v (l_chain st) && negb (mem v (values_at idxs (l_chain st)))) vs) eqn:Ex;
        [apply lstay; exact HI|].
      rewrite Hfx. simpl. destruct (nodupb vs) eqn:Evs; simpl; [|apply lstay; exact HI].
      split; [|split; reflexivity]. simpl.
      pose proof (values_remove_perm idxs (l_chain st) Hnd Hlt) as P1.
      pose proof (Permutation_NoDup P1 Hn) as Hd.
      apply (lframe st vs (values_at idxs (l_chain st)) (remove_idxs idxs (l_chain st))); simpl; auto.
      + apply set_idxs_perm; assumption.
      + apply NoDup_app_intro.
        * apply nodupb_NoDup. exact Evs.
        * apply NoDup_app_remove_l in Hd. exact Hd.
        * intros y Hy1 Hy2.
          assert (Hyl : In y (l_chain st)).
          { eapply Permutation_in; [apply Permutation_sym; exact P1|]. apply in_or_app. right. exact Hy2. }
          assert (Hyn : ~ In y (values_at idxs (l_chain st))).
          { intros Hc. exact (NoDup_app_disj _ _ Hd y Hc Hy2). }
          assert (Ht : existsb (fun v => mem v (l_chain st) && negb (mem v (values_at idxs (l_chain st)))) vs = true).
          { apply existsb_exists. exists y. split; [exact Hy1|]. apply andb_true_iff.
            split; [apply mem_In; exact Hyl|]. apply negb_true_iff, mem_false. exact Hyn. }
          congruence.
      + intros y. rewrite set_union_In, set_diff_In. reflexivity.
      + rewrite set_idxs_length. reflexivity.
  Qed.

  Lemma lperm_inv st l' : LInv st -> Permutation (l_chain st) l' ->
    LInv {| l_chain := l'; l_table := l_table st; l_len := l_len st |}.
  Proof.
    intros (Hn & Hs & Hl) P. unfold LInv; simpl. split; [|split].
    - eapply Permutation_NoDup; eauto.
    - intros y. split; intros Hy.
      + eapply Permutation_in; [exact P|]. apply Hs. exact Hy.
      + apply Hs. eapply Permutation_in; [apply Permutation_sym; exact P|exact Hy].
    - rewrite Hl. apply Permutation_length. exact P.
  Qed.

  Lemma l_wedge_ref v nb rel st : LInv st -> lrefines1 (l_wedge v nb rel st) (s_wedge v nb rel (l_chain st)).
  Proof.
    intros HI. unfold l_wedge, s_wedge.
    destruct ((rel =? -1)%Z || (rel =? 1)%Z); simpl; [|apply lstay; exact HI].
    unfold l_link_of. fold (l_contains st nb). rewrite (l_contains_ok st nb HI), (l_contains_ok st v HI).
    destruct (mem nb (l_chain st)) eqn:Enb.
    - destruct (index_of_mem _ _ Enb) as [k Ek]. rewrite Ek.
      destruct (mem v (l_chain st)) eqn:Em; [apply lstay; exact HI|].
      split; [apply l_place_inv; assumption|split; reflexivity].
    - rewrite (index_of_not_mem _ _ Enb). apply lstay. exact HI.
  Qed.

  Definition lstep_ref (f : V -> lstate -> res lstate) (g : V -> list V -> res (list V)) : Prop :=
    forall v st, LInv st -> LInv (fst (f v st)) /\ l_chain (fst (f v st)) = fst (g v (l_chain st))
                            /\ snd (f v st) = snd (g v (l_chain st)).

  Lemma lbulk_ref f g vs st : lstep_ref f g -> LInv st -> lrefines1 (bulk f vs st) (bulk g vs (l_chain st)).
  Proof. intros Hs HI. exact (bulk_refines LInv l_chain f g Hs vs st HI). Qed.

  Lemma l_from_iter_ref vs : lrefines1 (l_from_iter vs) (s_from_iter no_conf vs).
  Proof.
    unfold l_from_iter, s_from_iter.
    exact (lbulk_ref l_add (s_add no_conf) vs ls_init (fun v s => l_add_ref v s) LInv_init).
  Qed.

  Lemma l_iand_ref vs st : LInv st -> lrefines1 (l_iand vs st) (s_iand no_conf vs (l_chain st)).
  Proof.
    intros HI. unfold l_iand, s_iand. destruct (l_from_iter_ref vs) as (A & B & C).
    destruct (l_from_iter vs) as [o e]. destruct (s_from_iter no_conf vs) as [ol e'].
    simpl in *. subst e' ol. destruct e; [apply lstay; exact HI|].
    rewrite (filter_ext _ (fun v => negb (mem v (l_chain o)))) by (intros v; rewrite (l_contains_ok o v A); reflexivity).
    apply lbulk_ref; [|exact HI]. intros v s Hs. apply l_discard_ref. exact Hs.
  Qed.

  Lemma l_ixor_ref vs st : LInv st -> lrefines1 (l_ixor vs st) (s_ixor no_conf vs (l_chain st)).
  Proof.
    intros HI. unfold l_ixor, s_ixor. destruct (l_from_iter_ref vs) as (A & B & C).
    destruct (l_from_iter vs) as [o e]. destruct (s_from_iter no_conf vs) as [ol e'].
    simpl in *. subst e' ol. destruct e; [apply lstay; exact HI|].
    apply lbulk_ref; [|exact HI]. intros v s Hs. rewrite (l_contains_ok s v Hs).
    destruct (mem v (l_chain s)); [apply l_discard_ref|apply l_add_ref]; exact Hs.
  Qed.

  Definition l_op_ok (o : op) : bool :=
    match o with
    | OSetIdx _ _ | OSetSlice _ _ => fixed
    | OSort _ => false                 (* not a linqset method *)
    | _ => true
    end.

  Theorem l_run_refines o st :
    l_op_ok o = true -> LInv st -> lrefines1 (l_run fixed o st) (s_run no_conf o (l_chain st)).
  Proof.
    intros Hok HI. destruct o; simpl in *; try discriminate.
    - apply l_append_ref; exact HI.
    - apply l_add_ref; exact HI.
    - apply l_insert_ref; exact HI.
    - apply l_remove_ref; exact HI.
    - apply l_discard_ref; exact HI.
    - apply l_delidx_ref; exact HI.
    - apply l_delidx_ref; exact HI.
    - apply l_delslice_ref; exact HI.
    - apply l_setidx_ref; assumption.
    - apply l_setslice_ref; assumption.
    - split; [|split; reflexivity]. apply lperm_inv; [exact HI|]. apply Permutation_rev.
    - split; [exact LInv_init|split; reflexivity].
    - split; [|split; reflexivity]. destruct HI as (Hn & Hs & Hl). unfold LInv; simpl.
      split; [exact Hn|split; [|exact Hl]]. intros y. rewrite set_union_In. simpl. tauto.
    - apply lbulk_ref; [|exact HI]. intros v s Hs. apply l_append_ref; exact Hs.
    - apply lbulk_ref; [|exact HI]. intros v s Hs. apply l_add_ref; exact Hs.
    - apply lbulk_ref; [|exact HI]. intros v s Hs. apply l_discard_ref; exact Hs.
    - apply l_iand_ref; exact HI.
    - apply l_ixor_ref; exact HI.
    - apply l_wedge_ref; exact HI.
  Qed.

  Lemma l_fold_refines ops : forall st tr,
    forallb l_op_ok ops = true -> LInv st ->
    let r := fold_left (step (l_run fixed)) ops (st, tr) in
    let s := fold_left (step (s_run no_conf)) ops (l_chain st, tr) in
    LInv (fst r) /\ l_chain (fst r) = fst s /\ snd r = snd s.
  Proof.
    induction ops as [|o t IH]; simpl; intros st tr Hok HI; [auto|].
    apply andb_true_iff in Hok. destruct Hok as [Ho Ht].
    destruct (l_run_refines o st Ho HI) as (A & B & C).
    rewrite !step_eq.
    destruct (l_run fixed o st) as [st' e]. destruct (s_run no_conf o (l_chain st)) as [l' e'].
    simpl in *. subst e' l'. apply IH; assumption.
  Qed.

  Theorem l_exec_refines ops st :
    forallb l_op_ok ops = true -> LInv st ->
    LInv (fst (exec (l_run fixed) ops st))
    /\ l_chain (fst (exec (l_run fixed) ops st)) = fst (exec (s_run no_conf) ops (l_chain st))
    /\ snd (exec (l_run fixed) ops st) = snd (exec (s_run no_conf) ops (l_chain st)).
  Proof. intros Hok HI. exact (l_fold_refines ops st [] Hok HI). Qed.

  Theorem l_observations_agree st v i : LInv st ->
    l_len st = length (l_chain st)
    /\ l_contains st v = mem v (l_chain st)
    /\ l_index v st = s_index v (l_chain st)
    /\ l_get i st = s_get i (l_chain st).
  Proof.
    intros HI. pose proof HI as (Hn & Hs & Hl). split; [exact Hl|]. split; [apply l_contains_ok; exact HI|].
    split; [|unfold l_get, s_get; rewrite Hl; reflexivity].
    unfold l_index, s_index. rewrite (l_contains_ok st v HI).
    destruct (mem v (l_chain st)) eqn:Em.
    - destruct (index_of_mem _ _ Em) as [k Ek]. rewrite Ek. reflexivity.
    - rewrite (index_of_not_mem _ _ Em). reflexivity.
  Qed.

  (* ---- failed single-element operation is a no-op (needs the invariant: _unlink deletes the
     table key after it has already changed the chain) ---- *)
  Definition lnoop (r : res lstate) (st : lstate) : Prop := forall e, snd r = Some e -> fst r = st.

  Ltac lcrush :=
    repeat match goal with
           | |- context [if ?c then _ else _] => destruct c
           | |- context [match ?c with _ => _ end] => destruct c
           end;
    simpl; intros e' E'; try discriminate; reflexivity.

  Lemma l_insert_noop i v st : lnoop (l_insert i v st) st.
  Proof. unfold lnoop, l_insert. lcrush. Qed.

  Lemma l_unlink_noop k st : LInv st -> k < length (l_chain st) -> lnoop (l_unlink k st) st.
  Proof.
    intros HI Hk e E. destruct (l_unlink_ref k st HI Hk) as (_ & _ & C). simpl in C. congruence.
  Qed.

  Lemma l_remove_noop v st : LInv st -> lnoop (l_remove v st) st.
  Proof.
    intros HI. unfold l_remove, l_link_of.
    destruct (mem v (l_table st)); [|intros e _; reflexivity].
    destruct (index_of v (l_chain st)) as [k|] eqn:Ek; [|intros e _; reflexivity].
    apply l_unlink_noop; [exact HI|]. exact (proj1 (index_of_Some _ _ _ Ek)).
  Qed.

  Lemma l_delidx_noop i st : LInv st -> lnoop (l_delidx i st) st.
  Proof.
    intros HI. unfold l_delidx. destruct (norm_idx (l_len st) i) as [k|] eqn:En; [|intros e _; reflexivity].
    apply l_unlink_noop; [exact HI|]. destruct HI as (_ & _ & Hl). rewrite Hl in En.
    exact (norm_idx_lt _ _ _ En).
  Qed.

  Lemma l_setidx_noop i v st : lnoop (l_setidx fixed i v st) st.
  Proof. unfold lnoop, l_setidx. lcrush. Qed.

  Lemma l_wedge_noop v nb rel st : lnoop (l_wedge v nb rel st) st.
  Proof. unfold lnoop, l_wedge. lcrush. Qed.

  Theorem l_failed_single_op_is_noop o st e :
    LInv st -> single_op o = true -> snd (l_run fixed o st) = Some e -> fst (l_run fixed o st) = st.
  Proof.
    intros HI Hs. destruct o; simpl in *; try discriminate; intros E.
    - exact (l_insert_noop _ _ _ _ E).
    - unfold l_add, catch_dup in *. pose proof (l_insert_noop (Z.of_nat (l_len st)) v st) as N.
      unfold l_append in *. destruct (l_insert (Z.of_nat (l_len st)) v st) as [st' [[]|]];
        simpl in *; try discriminate; exact (N _ eq_refl).
    - exact (l_insert_noop _ _ _ _ E).
    - exact (l_remove_noop _ _ HI _ E).
    - unfold l_discard in *. destruct (l_contains st v); [exact (l_remove_noop _ _ HI _ E)|reflexivity].
    - exact (l_delidx_noop _ _ HI _ E).
    - exact (l_delidx_noop _ _ HI _ E).
    - exact (l_setidx_noop _ _ _ _ E).
    - reflexivity.
    - exact (l_wedge_noop _ _ _ _ _ E).
  Qed.
End LRefine.

(* ---- the code as it is: item and slice assignment leave the table stale ---- *)
Theorem l_setitem_refuted :
  (exists st i v, LInv st /\
     let st' := fst (l_run false (OSetIdx i v) st) in
     ~ LInv st' /\ l_contains st' v = false /\ mem v (l_chain st') = true)
  /\ (exists st idxs vs, LInv st /\
     let st' := fst (l_run false (OSetSlice idxs vs) st) in ~ NoDup (l_chain st')).
Proof.
  assert (I123 : LInv {| l_chain := [1; 2; 3]; l_table := [3; 2; 1]; l_len := 3 |}).
  { unfold LInv, set_eq; simpl. split; [repeat constructor; simpl; intuition lia|split; [intuition|reflexivity]]. }
  split.
  - exists {| l_chain := [1; 2; 3]; l_table := [3; 2; 1]; l_len := 3 |}, 0%Z, 9. split; [exact I123|].
    vm_compute. split; [|split; reflexivity]. intros (_ & Hs & _). specialize (Hs 9). simpl in Hs.
    destruct Hs as [_ Hs]. specialize (Hs (or_introl eq_refl)). intuition lia.
  - exists {| l_chain := [1; 2; 3]; l_table := [3; 2; 1]; l_len := 3 |}, [0; 1], [7; 7]. split; [exact I123|].
    vm_compute. intros Hn. inversion Hn as [|? ? Hx _]; subst. apply Hx. left. reflexivity.
Qed.

Example LInv_example :
  LInv (fst (exec (l_run false) [OExtend [1; 2; 3]; OWedge 5 2 1%Z; OReverse; ODelSlice [0; 2]] ls_init)).
Proof.
  apply (l_exec_refines false [OExtend [1; 2; 3]; OWedge 5 2 1%Z; OReverse; ODelSlice [0; 2]] ls_init);
    [reflexivity|apply LInv_init].
Qed.
