(* C18 — what the correspondence harness evaluates: operation sequences run on
   the three models and on the specification, with every observation encoded
   as lists of numbers (compact to print, trivial to parse). *)
From Coq Require Import List Bool Arith ZArith Lia.
From PT Require Import Cont.Common Cont.Spec Cont.Qset Cont.Linqset Cont.Predicates.
Import ListNotations.

Definition enc_exn (e : option exn) : nat :=
  match e with
  | None => 0 | Some EDup => 1 | Some EMissing => 2 | Some EIndex => 3 | Some EValue => 4
  | Some EKey => 5 | Some EType => 6 | Some EAttr => 7
  end.
(* numbers are kept small: unary nat results are read back and printed node by node *)
Definition enc_sum (r : nat + exn) : nat :=
  match r with inl k => 8 + k | inr e => enc_exn (Some e) end.
Definition b2n (b : bool) : nat := if b then 1 else 0.
Definition enc_opt (o : option V) : nat := match o with Some p => S p | None => 0 end.

(* observation vector: [iteration order; [len]; membership; index; subscript] (+ [get(ref)]) *)
Definition obs := list (list nat).

Section Obs.
  Variable univ : list V.
  Variable gidx : list Z.

  Definition obs_q {X} (H : hooks X) (st : qstate X) : obs :=
    [ q_seq st; [length (q_seq st)];
      map (fun v => b2n (q_contains H st v)) univ;
      map (fun v => enc_sum (q_index H v st)) univ;
      map (fun i => enc_sum (q_get i st)) gidx ].

  Definition obs_l (st : lstate) : obs :=
    [ l_chain st; [l_len st];
      map (fun v => b2n (l_contains st v)) univ;
      map (fun v => enc_sum (l_index v st)) univ;
      map (fun i => enc_sum (l_get i st)) gidx ].

  Definition obs_s (l : list V) : obs :=
    [ l; [length l];
      map (fun v => b2n (mem v l)) univ;
      map (fun v => enc_sum (s_index v l)) univ;
      map (fun i => enc_sum (s_get i l)) gidx ].

  (* predicate store: additionally get(ref) for every reference of every universe predicate *)
  Definition all_refs (bi : V -> nat) : list ref :=
    flat_map (fun p => keys bi p) univ.
  Definition s_pget (bi : V -> nat) (r : ref) (l : list V) : option V :=
    find (fun p => existsb (ref_eqb r) (keys bi p)) l.
  Definition obs_p (bi : V -> nat) (st : qstate lookup) : obs :=
    obs_q (pred_hooks bi false) st ++ [map (fun r => enc_opt (p_get r st)) (all_refs bi)].
  Definition obs_sp (bi : V -> nat) (l : list V) : obs :=
    obs_s l ++ [map (fun r => enc_opt (s_pget bi r l)) (all_refs bi)].
End Obs.

(* per-step trace: (exception code, observation) after every operation *)
Fixpoint texec {S : Type} (run : op -> S -> res S) (ob : S -> obs) (ops : list op) (st : S)
  : list (nat * obs) :=
  match ops with
  | [] => []
  | o :: t => let (st', e) := run o st in (enc_exn e, ob st') :: texec run ob t st'
  end.

(* final: exception codes of all steps and the last observation *)
Definition fexec {S : Type} (run : op -> S -> res S) (ob : S -> obs) (ops : list op) (st : S)
  : list nat * obs :=
  let (st', es) := exec run ops st in (map enc_exn es, ob st').

Definition pbi : V -> nat := Nat.div2.

(* `fx` selects the repaired variant; Predicates: `pf` the hook, `qf` the inherited slice assignment *)
Definition trace_q (fx : bool) univ gidx ops := texec (qs_run fx) (obs_q univ gidx plain_hooks) ops qs_init.
Definition trace_l (fx : bool) univ gidx ops := texec (l_run fx) (obs_l univ gidx) ops ls_init.
Definition trace_p (pf qf : bool) univ gidx ops :=
  texec (ps_run pbi pf qf) (obs_p univ gidx pbi) ops ps_init.
Definition trace_s univ gidx ops := texec (s_run no_conf) (obs_s univ gidx) ops [].
Definition trace_sp univ gidx ops := texec (s_run (pconf pbi)) (obs_sp univ gidx pbi) ops [].

Definition final_q (fx : bool) univ gidx ops := fexec (qs_run fx) (obs_q univ gidx plain_hooks) ops qs_init.
Definition final_l (fx : bool) univ gidx ops := fexec (l_run fx) (obs_l univ gidx) ops ls_init.
Definition final_p (pf qf : bool) univ gidx ops :=
  fexec (ps_run pbi pf qf) (obs_p univ gidx pbi) ops ps_init.
Definition final_s univ gidx ops := fexec (s_run no_conf) (obs_s univ gidx) ops [].
Definition final_sp univ gidx ops := fexec (s_run (pconf pbi)) (obs_sp univ gidx pbi) ops [].

(* full hidden state, used by the harness only as a key to memoise transitions *)
Definition state_q (fx : bool) ops := fst (exec (qs_run fx) ops qs_init).
Definition state_l (fx : bool) ops := fst (exec (l_run fx) ops ls_init).
Definition state_p (pf qf : bool) ops := fst (exec (ps_run pbi pf qf) ops ps_init).
