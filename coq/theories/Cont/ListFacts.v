(* C18 — facts about the list vocabulary of Common.v.  The uniform shape:
   every positional update of a list is a permutation of
   "arriving values ++ the elements that stay", which carries NoDup and
   membership across. *)
From Coq Require Import List Bool Arith ZArith Lia Permutation.
From PT Require Import Cont.Common.
Import ListNotations.

Lemma mem_In v l : mem v l = true <-> In v l.
Proof.
  unfold mem. rewrite existsb_exists. split.
  - intros [x [Hx E]]. apply Nat.eqb_eq in E. subst. exact Hx.
  - intros Hx. exists v. split; [exact Hx|apply Nat.eqb_refl].
Qed.

Lemma mem_false v l : mem v l = false <-> ~ In v l.
Proof. rewrite <- mem_In. destruct (mem v l); split; congruence. Qed.

Lemma memn_In k l : memn k l = true <-> In k l.
Proof. exact (mem_In k l). Qed.

Lemma mem_perm v l l' : Permutation l l' -> mem v l = mem v l'.
Proof.
  intros P. destruct (mem v l') eqn:E.
  - apply mem_In. apply mem_In in E. eapply Permutation_in; [apply Permutation_sym; exact P|exact E].
  - apply mem_false. apply mem_false in E. intros Hx. apply E. eapply Permutation_in; eauto.
Qed.

Lemma nodupb_NoDup l : nodupb l = true <-> NoDup l.
Proof.
  induction l as [|x t IH]; simpl.
  - split; [constructor|reflexivity].
  - rewrite andb_true_iff, negb_true_iff, IH. split.
    + intros [Hm Ht]. constructor; [|exact Ht]. apply (mem_false x t). exact Hm.
    + intros Hn. inversion Hn; subst. split; [apply (mem_false x t); assumption|assumption].
Qed.

Lemma valid_idxs_spec n idxs :
  valid_idxs n idxs = true -> NoDup idxs /\ (forall i, In i idxs -> i < n).
Proof.
  unfold valid_idxs. rewrite andb_true_iff, nodupb_NoDup, forallb_forall.
  intros [Hn Hf]. split; [exact Hn|]. intros i Hi. apply Nat.ltb_lt. apply Hf. exact Hi.
Qed.

(* ---- index_of ------------------------------------------------------------- *)
Lemma index_of_Some v l k : index_of v l = Some k -> k < length l /\ nthv k l = v.
Proof.
  revert k. induction l as [|x t IH]; simpl; intros k Hk; [discriminate|].
  destruct (Nat.eqb v x) eqn:E.
  - injection Hk as <-. apply Nat.eqb_eq in E. subst. split; [lia|reflexivity].
  - destruct (index_of v t) as [j|] eqn:Ej; [|discriminate]. injection Hk as <-.
    destruct (IH j eq_refl) as [Hl Hn]. split; [lia|exact Hn].
Qed.

Lemma index_of_None v l : index_of v l = None <-> ~ In v l.
Proof.
  induction l as [|x t IH]; simpl.
  - split; [intros _ []|reflexivity].
  - destruct (Nat.eqb v x) eqn:E.
    + apply Nat.eqb_eq in E. subst. split; [discriminate|]. intros Hn. exfalso. apply Hn. left. reflexivity.
    + apply Nat.eqb_neq in E. destruct (index_of v t) eqn:Ej.
      * split; [discriminate|]. intros Hn. exfalso.
        assert (Hc : ~ In v t) by (intros Hc; apply Hn; right; exact Hc).
        apply IH in Hc. discriminate.
      * split; [|reflexivity]. intros _ [Hx|Hx]; [congruence|]. apply (proj1 IH eq_refl). exact Hx.
Qed.

Lemma index_of_mem v l : mem v l = true -> exists k, index_of v l = Some k.
Proof.
  intros Hm. destruct (index_of v l) as [k|] eqn:E; [exists k; reflexivity|].
  apply index_of_None in E. apply mem_In in Hm. contradiction.
Qed.

Lemma index_of_not_mem v l : mem v l = false -> index_of v l = None.
Proof. intros Hm. apply index_of_None. apply mem_false. exact Hm. Qed.

(* ---- index normalisation -------------------------------------------------- *)
Lemma norm_idx_lt n i k : norm_idx n i = Some k -> k < n.
Proof.
  unfold norm_idx. destruct (i <? 0)%Z eqn:E1.
  - destruct ((i + Z.of_nat n <? 0)%Z || (Z.of_nat n <=? i + Z.of_nat n)%Z) eqn:E2; [discriminate|].
    intros Hk. injection Hk as <-. apply orb_false_iff in E2. destruct E2 as [A B].
    apply Z.ltb_ge in A. apply Z.leb_gt in B. lia.
  - destruct ((i <? 0)%Z || (Z.of_nat n <=? i)%Z) eqn:E2; [discriminate|].
    intros Hk. injection Hk as <-. apply orb_false_iff in E2. destruct E2 as [A B].
    apply Z.ltb_ge in A. apply Z.leb_gt in B. lia.
Qed.

Lemma norm_idx_of_nat n k : k < n -> norm_idx n (Z.of_nat k) = Some k.
Proof.
  intros Hk. unfold norm_idx.
  assert (E1 : (Z.of_nat k <? 0)%Z = false) by (apply Z.ltb_ge; lia).
  assert (E2 : (Z.of_nat n <=? Z.of_nat k)%Z = false) by (apply Z.leb_gt; lia).
  cbv zeta. rewrite E1. rewrite E1, E2. cbn [orb]. rewrite Nat2Z.id. reflexivity.
Qed.

(* ---- positional updates are permutations ----------------------------------- *)
Lemma insert_at_perm k v l : Permutation (insert_at k v l) (v :: l).
Proof.
  revert k. induction l as [|x t IH]; intros [|k]; simpl; try apply Permutation_refl.
  eapply perm_trans; [apply perm_skip; apply IH|apply perm_swap].
Qed.

Lemma remove_at_perm k l : k < length l -> Permutation l (nthv k l :: remove_at k l).
Proof.
  revert k. induction l as [|x t IH]; simpl; intros k Hk; [lia|].
  destruct k as [|k]; simpl; [apply Permutation_refl|].
  unfold nthv in *. simpl.
  eapply perm_trans; [apply perm_skip; apply (IH k); lia|apply perm_swap].
Qed.

Lemma set_nth_perm k v l : k < length l -> Permutation (set_nth k v l) (v :: remove_at k l).
Proof.
  revert k. induction l as [|x t IH]; simpl; intros k Hk; [lia|].
  destruct k as [|k]; simpl; [apply Permutation_refl|].
  eapply perm_trans; [apply perm_skip; apply IH; lia|apply perm_swap].
Qed.

Lemma set_nth_length k v l : length (set_nth k v l) = length l.
Proof. revert k. induction l as [|x t IH]; intros [|k]; simpl; auto. Qed.

Lemma set_nth_same k l : set_nth k (nthv k l) l = l.
Proof.
  revert k. induction l as [|x t IH]; intros [|k]; simpl; auto.
  unfold nthv in *. simpl. rewrite IH. reflexivity.
Qed.

(* the key slice lemma: overwriting position i and then deleting the positions `it`
   keeps the new value and otherwise deletes i as well *)
Lemma rif_set_nth it v : forall l pos i,
  ~ In (pos + i) it -> i < length l ->
  Permutation (remove_idxs_from pos it (set_nth i v l))
              (v :: remove_idxs_from pos ((pos + i) :: it) l).
Proof.
  induction l as [|x t IH]; simpl; intros pos i Hni Hi; [lia|].
  destruct i as [|i]; simpl.
  - rewrite Nat.add_0_r in *. rewrite Nat.eqb_refl. simpl.
    destruct (memn pos it) eqn:E; [apply memn_In in E; contradiction|].
    apply perm_skip.
    assert (G : forall l' p, pos < p -> remove_idxs_from p it l' = remove_idxs_from p (pos :: it) l').
    { induction l' as [|y u IHu]; simpl; intros p Hp; [reflexivity|].
      destruct (Nat.eqb p pos) eqn:Ep; [apply Nat.eqb_eq in Ep; lia|]. simpl.
      rewrite (IHu (S p)) by lia. reflexivity. }
    rewrite (G t (S pos)) by lia. apply Permutation_refl.
  - replace (pos + S i) with (S pos + i) in * by lia.
    destruct (Nat.eqb pos (S pos + i)) eqn:Ep; [apply Nat.eqb_eq in Ep; lia|]. simpl.
    destruct (memn pos it) eqn:E.
    + apply IH; [exact Hni|lia].
    + eapply perm_trans; [apply perm_skip; apply IH; [exact Hni|lia]|apply perm_swap].
Qed.

Lemma remove_idxs_cons i it l :
  ~ In i it -> i < length l ->
  Permutation (remove_idxs it l) (nthv i l :: remove_idxs (i :: it) l).
Proof.
  intros Hni Hi. unfold remove_idxs.
  pose proof (rif_set_nth it (nthv i l) l 0 i Hni Hi) as P.
  rewrite set_nth_same in P. exact P.
Qed.

Lemma remove_idxs_nil l : remove_idxs [] l = l.
Proof.
  unfold remove_idxs. generalize 0. induction l as [|x t IH]; simpl; intros p; [reflexivity|].
  rewrite IH. reflexivity.
Qed.

Lemma values_remove_perm idxs l :
  NoDup idxs -> (forall i, In i idxs -> i < length l) ->
  Permutation l (values_at idxs l ++ remove_idxs idxs l).
Proof.
  induction idxs as [|i it IH]; intros Hn Hlt; simpl.
  - rewrite remove_idxs_nil. apply Permutation_refl.
  - inversion Hn as [|? ? Hni Hn']; subst.
    eapply perm_trans; [apply IH; [exact Hn'|intros j Hj; apply Hlt; right; exact Hj]|].
    eapply perm_trans; [apply Permutation_app_head; apply (remove_idxs_cons i it l Hni); apply Hlt; left; reflexivity|].
    apply Permutation_sym. apply Permutation_cons_app. apply Permutation_refl.
Qed.

Lemma set_idxs_perm : forall idxs vs l,
  NoDup idxs -> (forall i, In i idxs -> i < length l) -> length idxs = length vs ->
  Permutation (set_idxs idxs vs l) (vs ++ remove_idxs idxs l).
Proof.
  induction idxs as [|i it IH]; intros vs l Hn Hlt Hlen; destruct vs as [|v vt]; simpl in *; try discriminate.
  - rewrite remove_idxs_nil. apply Permutation_refl.
  - inversion Hn as [|? ? Hni Hn']; subst.
    eapply perm_trans.
    + apply IH; [exact Hn'| |lia]. intros j Hj. rewrite set_nth_length. apply Hlt. right. exact Hj.
    + pose proof (rif_set_nth it v l 0 i Hni (Hlt i (or_introl eq_refl))) as P. simpl in P.
      unfold remove_idxs.
      eapply perm_trans; [apply Permutation_app_head; exact P|].
      apply Permutation_sym. apply Permutation_cons_app. apply Permutation_refl.
Qed.

(* ---- sorting ---------------------------------------------------------------- *)
Lemma ins_sorted_perm v l : Permutation (ins_sorted v l) (v :: l).
Proof.
  induction l as [|x t IH]; simpl; [apply Permutation_refl|].
  destruct (v <=? x); [apply Permutation_refl|].
  eapply perm_trans; [apply perm_skip; exact IH|apply perm_swap].
Qed.

Lemma isort_perm l : Permutation (isort l) l.
Proof.
  induction l as [|x t IH]; simpl; [apply Permutation_refl|].
  eapply perm_trans; [apply ins_sorted_perm|apply perm_skip; exact IH].
Qed.

Lemma sort_list_perm r l : Permutation (sort_list r l) l.
Proof.
  unfold sort_list. destruct r; [|apply isort_perm].
  eapply perm_trans; [apply Permutation_sym; apply Permutation_rev|apply isort_perm].
Qed.

(* ---- the set part ------------------------------------------------------------ *)
Lemma set_add_In v s y : In y (set_add v s) <-> y = v \/ In y s.
Proof.
  unfold set_add. destruct (mem v s) eqn:E; simpl.
  - apply mem_In in E. split; [auto|]. intros [->|Hy]; assumption.
  - split; intros [Hy|Hy]; auto.
Qed.

Lemma set_del_In v s y : In y (set_del v s) <-> In y s /\ y <> v.
Proof.
  unfold set_del. rewrite filter_In, negb_true_iff, Nat.eqb_neq. split; intros [A B]; split; auto.
Qed.

Lemma set_diff_In vs s y : In y (set_diff vs s) <-> In y s /\ ~ In y vs.
Proof. unfold set_diff. rewrite filter_In, negb_true_iff, mem_false. reflexivity. Qed.

Lemma set_union_In vs : forall s y, In y (set_union vs s) <-> In y vs \/ In y s.
Proof.
  unfold set_union. induction vs as [|v t IH]; simpl; intros s y.
  - split; [auto|intros [[]|Hy]; exact Hy].
  - rewrite IH, set_add_In. split; [intros [A|[A|A]]|intros [[A|A]|A]]; auto.
Qed.

(* ---- bulk loops --------------------------------------------------------------- *)
Lemma bulk_refines {S : Type} (Inv : S -> Prop) (ab : S -> list V)
      (f : V -> S -> res S) (g : V -> list V -> res (list V)) :
  (forall v st, Inv st -> Inv (fst (f v st)) /\ ab (fst (f v st)) = fst (g v (ab st))
                           /\ snd (f v st) = snd (g v (ab st))) ->
  forall vs st, Inv st ->
    Inv (fst (bulk f vs st)) /\ ab (fst (bulk f vs st)) = fst (bulk g vs (ab st))
    /\ snd (bulk f vs st) = snd (bulk g vs (ab st)).
Proof.
  intros Hstep. induction vs as [|v t IH]; simpl; intros st Hi; [auto|].
  destruct (Hstep v st Hi) as [A [B C]].
  destruct (f v st) as [st' e] eqn:Ef. destruct (g v (ab st)) as [l' e'] eqn:Eg.
  simpl in *. subst e'. destruct e as [e|].
  - simpl. auto.
  - rewrite <- B. apply IH. exact A.
Qed.
