(* C18 — executable model of `qset` (pytableaux/tools/hybrids.py): the pair
   (_seq_ : list, _set_ : set) plus the three hooks, and whatever extra state
   the hooks maintain (none for qset; the lookup index for Predicates).

   Each definition mirrors the method of the same name: which of the two parts
   it reads, which it writes, and in which order it raises.  `fixed = false`
   is the code as it is; `fixed = true` adds the repeated-arrival check to
   `__setitem_slice__` (fixes/c18-*.diff).

   Modelled, not verified: `self[slice]`/`_from_iterable` of values that are
   already distinct is taken to be those values; `copy` is the identity on
   the value level (aliasing is checked by the harness only); `_hook_cast` is
   the identity on model values. *)
From Coq Require Import List Bool Arith ZArith Lia.
From PT Require Import Cont.Common.
Import ListNotations.

Record hooks (X : Type) := {
  h_contains : list V -> X -> V -> bool;        (* __contains__ : given _set_ and the extra state *)
  h_check : X -> list V -> list V -> option exn; (* _hook_check(arriving, leaving) *)
  h_done : X -> list V -> list V -> X;          (* _hook_done(arriving, leaving) *)
  h_clear : X -> X                              (* extra work of clear() *)
}.
Arguments h_contains {X}. Arguments h_check {X}. Arguments h_done {X}. Arguments h_clear {X}.

Record qstate (X : Type) := { q_seq : list V; q_set : list V; q_x : X }.
Arguments q_seq {X}. Arguments q_set {X}. Arguments q_x {X}.
Arguments Build_qstate {X}.

Section Qset.
  Context {X : Type}.
  Variable H : hooks X.
  Variable fixed : bool.
  Notation st_t := (qstate X).

  Definition q_contains (st : st_t) (v : V) : bool := h_contains H (q_set st) (q_x st) v.

  (* qset.insert *)
  Definition q_insert (i : Z) (v : V) (st : st_t) : res st_t :=
    if q_contains st v then (st, Some EDup) else
    match h_check H (q_x st) [v] [] with
    | Some e => (st, Some e)
    | None => (Build_qstate (insert_at (clamp_idx (length (q_seq st)) i) v (q_seq st))
                            (set_add v (q_set st))
                            (h_done H (q_x st) [v] []), None)
    end.

  (* MutableSequence.append: self.insert(len(self), value) *)
  Definition q_append (v : V) (st : st_t) := q_insert (Z.of_nat (length (q_seq st))) v st.
  (* MutableSequenceSet.add *)
  Definition q_add (v : V) (st : st_t) := catch_dup (q_append v st).

  (* SequenceSet.index: membership first, then the linear scan of Sequence.index *)
  Definition q_index (v : V) (st : st_t) : nat + exn :=
    if q_contains st v then
      match index_of v (q_seq st) with Some k => inl k | None => inr EValue end
    else inr EMissing.

  (* qset.__delitem__ (index) *)
  Definition q_delidx (i : Z) (st : st_t) : res st_t :=
    match norm_idx (length (q_seq st)) i with
    | None => (st, Some EIndex)
    | Some k =>
        let values := [nthv k (q_seq st)] in
        match h_check H (q_x st) [] values with
        | Some e => (st, Some e)
        | None => (Build_qstate (remove_at k (q_seq st)) (set_diff values (q_set st))
                                (h_done H (q_x st) [] values), None)
        end
    end.

  (* MutableSequence.remove: del self[self.index(value)] *)
  Definition q_remove (v : V) (st : st_t) : res st_t :=
    match q_index v st with
    | inl k => q_delidx (Z.of_nat k) st
    | inr e => (st, Some e)
    end.

  (* qset.discard -> MutableSequenceSet.discard *)
  Definition q_discard (v : V) (st : st_t) : res st_t :=
    if q_contains st v then q_remove v st else (st, None).

  (* qset.__delitem__ (slice) *)
  Definition q_delslice (idxs : list nat) (st : st_t) : res st_t :=
    if negb (valid_idxs (length (q_seq st)) idxs) then (st, Some EIndex) else
    let values := values_at idxs (q_seq st) in
    match h_check H (q_x st) [] values with
    | Some e => (st, Some e)
    | None => (Build_qstate (remove_idxs idxs (q_seq st)) (set_diff values (q_set st))
                            (h_done H (q_x st) [] values), None)
    end.

  (* qset.__setitem_index__ *)
  Definition q_setidx (i : Z) (v : V) (st : st_t) : res st_t :=
    match norm_idx (length (q_seq st)) i with
    | None => (st, Some EIndex)
    | Some k =>
        let old := nthv k (q_seq st) in
        if q_contains st v && negb (Nat.eqb v old) then (st, Some EDup) else
        match h_check H (q_x st) [v] [old] with
        | Some e => (st, Some e)
        | None =>
            if negb (mem old (q_set st)) then (st, Some EKey)       (* self._set_.remove(old) *)
            else (Build_qstate (set_nth k v (q_seq st)) (set_add v (set_del old (q_set st)))
                               (h_done H (q_x st) [v] [old]), None)
        end
    end.

  (* qset.__setitem_slice__ *)
  Definition q_setslice (idxs : list nat) (vs : list V) (st : st_t) : res st_t :=
    if negb (valid_idxs (length (q_seq st)) idxs) then (st, Some EIndex) else
    if negb (length idxs =? length vs) then (st, Some EValue) else       (* slicerange, strict *)
    let leaving := values_at idxs (q_seq st) in
    if existsb (fun v => q_contains st v && negb (mem v leaving)) vs then (st, Some EDup) else
    if fixed && negb (nodupb vs) then (st, Some EDup) else               (* the repair *)
    match h_check H (q_x st) vs leaving with
    | Some e => (st, Some e)
    | None => (Build_qstate (set_idxs idxs vs (q_seq st))
                            (set_union vs (set_diff leaving (q_set st)))
                            (h_done H (q_x st) vs leaving), None)
    end.

  Definition q_sort (r : bool) (st : st_t) : res st_t :=
    (Build_qstate (sort_list r (q_seq st)) (q_set st) (q_x st), None).
  Definition q_reverse (st : st_t) : res st_t :=
    (Build_qstate (rev (q_seq st)) (q_set st) (q_x st), None).
  Definition q_clear (st : st_t) : res st_t :=
    (Build_qstate [] [] (h_clear H (q_x st)), None).

  Definition q_empty (st : st_t) : st_t := Build_qstate [] [] (h_clear H (q_x st)).
  (* cls(it): update into a fresh instance *)
  Definition q_from_iter (vs : list V) (st : st_t) : res st_t := bulk q_add vs (q_empty st).

  (* MutableSet.__iand__: for value in (self - it): self.discard(value) *)
  Definition q_iand (vs : list V) (st : st_t) : res st_t :=
    match q_from_iter vs st with
    | (_, Some e) => (st, Some e)
    | (o, None) => bulk q_discard (filter (fun v => negb (q_contains o v)) (q_seq st)) st
    end.

  (* MutableSet.__ixor__ *)
  Definition q_ixor (vs : list V) (st : st_t) : res st_t :=
    match q_from_iter vs st with
    | (_, Some e) => (st, Some e)
    | (o, None) =>
        bulk (fun v st' => if q_contains st' v then q_discard v st' else q_add v st') (q_seq o) st
    end.

  Definition q_run (o : op) (st : st_t) : res st_t :=
    match o with
    | OAppend v => q_append v st
    | OAdd v => q_add v st
    | OInsert i v => q_insert i v st
    | ORemove v => q_remove v st
    | ODiscard v => q_discard v st
    | ODelIdx i => q_delidx i st
    | OPop i => q_delidx i st          (* MutableSequence.pop: v = self[i]; del self[i] *)
    | ODelSlice idxs => q_delslice idxs st
    | OSetIdx i v => q_setidx i v st
    | OSetSlice idxs vs => q_setslice idxs vs st
    | OSort r => q_sort r st
    | OReverse => q_reverse st
    | OClear => q_clear st
    | OCopy => (st, None)
    | OExtend vs => bulk q_append vs st
    | OUpdate vs => bulk q_add vs st
    | OIsub vs => bulk q_discard vs st
    | OIand vs => q_iand vs st
    | OIxor vs => q_ixor vs st
    | OWedge _ _ _ => (st, Some EAttr)  (* qset has no wedge *)
    end.

  (* observations *)
  Definition q_get (i : Z) (st : st_t) : V + exn :=
    match norm_idx (length (q_seq st)) i with Some k => inl (nthv k (q_seq st)) | None => inr EIndex end.
End Qset.

(* ---- plain qset: no extra state, hooks do nothing ------------------------- *)
Definition plain_hooks : hooks unit :=
  {| h_contains := fun s _ v => mem v s;
     h_check := fun _ _ _ => None;
     h_done := fun _ _ _ => tt;
     h_clear := fun _ => tt |}.

Definition qs_init : qstate unit := Build_qstate [] [] tt.
Definition qs_run (fixed : bool) := q_run plain_hooks fixed.
