(* C18 — executable model of `linqset` (pytableaux/tools/linked.py): the link
   chain (first -> ... -> last) as the list of link values, the private length
   counter `__len`, and the hash table `__table` as its list of keys.

   Each definition mirrors the method of the same name: it says what happens to
   the chain, to the counter and to the table.  `fixed = false` is the code as
   it is (`__setitem__` writes link.value and never touches the table);
   `fixed = true` is the repaired `__setitem__`.

   Modelled, not verified: the pointer walk of `_link_at`/`iter_links` is taken
   to reach the link at the normalised position; `iter_links_sliced` is taken
   to visit the links at `range( *slice.indices(len))`; a link found through the
   table is located in the chain by its value (exact whenever values are
   distinct, i.e. under the invariant). *)
From Coq Require Import List Bool Arith ZArith Lia.
From PT Require Import Cont.Common.
Import ListNotations.

Record lstate := { l_chain : list V; l_table : list V; l_len : nat }.

Definition ls_init : lstate := {| l_chain := []; l_table := []; l_len := 0 |}.

Section Linqset.
  Variable fixed : bool.

  Definition l_contains (st : lstate) (v : V) : bool := mem v (l_table st).

  (* linqset._hook_check *)
  Definition l_hook_check (st : lstate) (arr dep : list V) : option exn :=
    if existsb (fun v => l_contains st v && negb (mem v dep)) arr then Some EDup else None.

  (* _seed / _spot (linkseq part, then the linqset override adds the table entry) *)
  Definition l_place (k : nat) (v : V) (st : lstate) : lstate :=
    {| l_chain := insert_at k v (l_chain st);
       l_table := set_add v (l_table st);
       l_len := S (l_len st) |}.

  (* linkseq.insert *)
  Definition l_insert (i : Z) (v : V) (st : lstate) : res lstate :=
    let n := l_len st in
    let j := (if i <? 0 then Z.of_nat n + i else i)%Z in          (* absindex(..., strict=False) *)
    match l_hook_check st [v] [] with
    | Some e => (st, Some e)
    | None =>
        if n =? 0 then (l_place 0 v st, None)                                 (* _seed *)
        else if (Z.of_nat n <=? j)%Z then (l_place (length (l_chain st)) v st, None)  (* after last *)
        else if (j <=? 0)%Z then (l_place 0 v st, None)                       (* before first *)
        else (l_place (Z.to_nat j) v st, None)                                (* before _link_at(j) *)
    end.

  Definition l_append (v : V) (st : lstate) := l_insert (Z.of_nat (l_len st)) v st.
  Definition l_add (v : V) (st : lstate) := catch_dup (l_append v st).

  (* _unlink of the link at chain position k: linkseq part, then del table[link.value] *)
  Definition l_unlink (k : nat) (st : lstate) : res lstate :=
    let v := nthv k (l_chain st) in
    let st1 := {| l_chain := remove_at k (l_chain st); l_table := l_table st; l_len := pred (l_len st) |} in
    if mem v (l_table st) then
      ({| l_chain := l_chain st1; l_table := set_del v (l_table st); l_len := l_len st1 |}, None)
    else (st1, Some EKey).

  (* linqset._link_of: through the table *)
  Definition l_link_of (v : V) (st : lstate) : nat + exn :=
    if mem v (l_table st) then
      match index_of v (l_chain st) with Some k => inl k | None => inr EKey end
    else inr EMissing.

  (* linkseq.remove *)
  Definition l_remove (v : V) (st : lstate) : res lstate :=
    match l_link_of v st with inl k => l_unlink k st | inr e => (st, Some e) end.

  (* MutableSequenceSet.discard *)
  Definition l_discard (v : V) (st : lstate) : res lstate :=
    if l_contains st v then l_remove v st else (st, None).

  (* linkseq.__delitem__ (index) *)
  Definition l_delidx (i : Z) (st : lstate) : res lstate :=
    match norm_idx (l_len st) i with
    | None => (st, Some EIndex)
    | Some k => l_unlink k st
    end.

  (* linkseq.__delitem__ (slice): the links at the selected positions of the ORIGINAL chain are
     unlinked one after the other (an unlinked link keeps its own pointers, so the walk goes on);
     the net effect on the three parts, given that every `del table[link.value]` finds its key *)
  Definition l_delslice (idxs : list nat) (st : lstate) : res lstate :=
    if negb (valid_idxs (l_len st) idxs) then (st, Some EIndex) else
    let values := values_at idxs (l_chain st) in
    if negb (forallb (fun v => mem v (l_table st)) values) then
      (* some key is missing: KeyError part-way (only from a state that is already out of step) *)
      ({| l_chain := remove_idxs idxs (l_chain st); l_table := set_diff values (l_table st);
          l_len := l_len st - length idxs |}, Some EKey)
    else
      ({| l_chain := remove_idxs idxs (l_chain st); l_table := set_diff values (l_table st);
          l_len := l_len st - length idxs |}, None).

  (* linkseq.__setitem__ (index) *)
  Definition l_setidx (i : Z) (v : V) (st : lstate) : res lstate :=
    match norm_idx (l_len st) i with
    | None => (st, Some EIndex)
    | Some k =>
        let old := nthv k (l_chain st) in
        match l_hook_check st [v] [old] with
        | Some e => (st, Some e)
        | None =>
            ({| l_chain := set_nth k v (l_chain st);
                l_table := if fixed then set_add v (set_del old (l_table st)) else l_table st;
                l_len := l_len st |}, None)
        end
    end.

  (* linkseq.__setitem__ (slice) *)
  Definition l_setslice (idxs : list nat) (vs : list V) (st : lstate) : res lstate :=
    if negb (valid_idxs (l_len st) idxs) then (st, Some EIndex) else
    if negb (length idxs =? length vs) then (st, Some EValue) else      (* slicerange, strict *)
    match idxs with
    | [] => (st, None)                                                  (* if not len(range_): return *)
    | _ =>
        let leaving := values_at idxs (l_chain st) in
        match l_hook_check st vs leaving with
        | Some e => (st, Some e)
        | None =>
            if fixed && negb (nodupb vs) then (st, Some EDup) else
            ({| l_chain := set_idxs idxs vs (l_chain st);
                l_table := if fixed then set_union vs (set_diff leaving (l_table st)) else l_table st;
                l_len := l_len st |}, None)
        end
    end.

  Definition l_reverse (st : lstate) : res lstate :=
    ({| l_chain := rev (l_chain st); l_table := l_table st; l_len := l_len st |}, None).

  Definition l_clear (st : lstate) : res lstate := (ls_init, None).

  (* linqset.copy: new links from iteration, len(self), table rebuilt from the new chain *)
  Definition l_copy (st : lstate) : res lstate :=
    ({| l_chain := l_chain st; l_table := set_union (l_chain st) []; l_len := l_len st |}, None).

  (* linqset.wedge *)
  Definition l_wedge (v nb : V) (rel : Z) (st : lstate) : res lstate :=
    if negb ((rel =? -1)%Z || (rel =? 1)%Z) then (st, Some EValue) else   (* LinkRel(rel); rel is self *)
    match l_link_of nb st with
    | inr e => (st, Some e)
    | inl k => if l_contains st v then (st, Some EDup)
               else (l_place (if (rel =? 1)%Z then S k else k) v st, None)
    end.

  Definition l_from_iter (vs : list V) : res lstate := bulk l_add vs ls_init.

  Definition l_iand (vs : list V) (st : lstate) : res lstate :=
    match l_from_iter vs with
    | (_, Some e) => (st, Some e)
    | (o, None) => bulk l_discard (filter (fun v => negb (l_contains o v)) (l_chain st)) st
    end.

  Definition l_ixor (vs : list V) (st : lstate) : res lstate :=
    match l_from_iter vs with
    | (_, Some e) => (st, Some e)
    | (o, None) =>
        bulk (fun v st' => if l_contains st' v then l_discard v st' else l_add v st') (l_chain o) st
    end.

  Definition l_run (o : op) (st : lstate) : res lstate :=
    match o with
    | OAppend v => l_append v st
    | OAdd v => l_add v st
    | OInsert i v => l_insert i v st
    | ORemove v => l_remove v st
    | ODiscard v => l_discard v st
    | ODelIdx i => l_delidx i st
    | OPop i => l_delidx i st
    | ODelSlice idxs => l_delslice idxs st
    | OSetIdx i v => l_setidx i v st
    | OSetSlice idxs vs => l_setslice idxs vs st
    | OSort _ => (st, Some EAttr)      (* linqset has no sort *)
    | OReverse => l_reverse st
    | OClear => l_clear st
    | OCopy => l_copy st
    | OExtend vs => bulk l_append vs st
    | OUpdate vs => bulk l_add vs st
    | OIsub vs => bulk l_discard vs st
    | OIand vs => l_iand vs st
    | OIxor vs => l_ixor vs st
    | OWedge v nb rel => l_wedge v nb rel st
    end.

  (* observations: iteration walks the chain; len is the counter; `in` is the table;
     index is SequenceSet.index (table, then scan by subscript); subscript uses the counter *)
  Definition l_index (v : V) (st : lstate) : nat + exn :=
    if l_contains st v then
      match index_of v (l_chain st) with Some k => inl k | None => inr EValue end
    else inr EMissing.
  Definition l_get (i : Z) (st : lstate) : V + exn :=
    match norm_idx (l_len st) i with Some k => inl (nthv k (l_chain st)) | None => inr EIndex end.
End Linqset.
