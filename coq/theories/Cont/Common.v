(* C18 — ordered-set containers: shared vocabulary.

   Values are natural numbers (the harness maps container elements to nat; for
   the predicate store see Predicates.v).  Exceptions are recorded by TYPE.
   Index arithmetic is CPython's (list.insert clamps, subscript raises
   IndexError); a slice is passed already resolved to its explicit index list
   `range( *slice.indices(len))` (slice arithmetic is CPython's, trusted). *)
From Coq Require Import List Bool Arith ZArith Lia.
Import ListNotations.

Definition V := nat.

Inductive exn := EDup | EMissing | EIndex | EValue | EKey | EType | EAttr.

Definition res (S : Type) : Type := (S * option exn)%type.

(* ---- the operation menu -------------------------------------------------- *)
Inductive op :=
| OAppend (v : V) | OAdd (v : V) | OInsert (i : Z) (v : V)
| ORemove (v : V) | ODiscard (v : V)
| ODelIdx (i : Z) | OPop (i : Z) | ODelSlice (idxs : list nat)
| OSetIdx (i : Z) (v : V) | OSetSlice (idxs : list nat) (vs : list V)
| OSort (r : bool) | OReverse | OClear | OCopy
| OExtend (vs : list V) | OUpdate (vs : list V)
| OIsub (vs : list V) | OIand (vs : list V) | OIxor (vs : list V)
| OWedge (v nb : V) (rel : Z).

(* single-element operations: a failure must leave the container unchanged *)
Definition single_op (o : op) : bool :=
  match o with
  | OAppend _ | OAdd _ | OInsert _ _ | ORemove _ | ODiscard _ | ODelIdx _ | OPop _
  | OSetIdx _ _ | OSort _ | OReverse | OClear | OCopy | OWedge _ _ _ => true
  | _ => false
  end.

(* ---- list vocabulary ------------------------------------------------------ *)
Definition mem (v : V) (l : list V) : bool := existsb (Nat.eqb v) l.

Fixpoint index_of (v : V) (l : list V) : option nat :=
  match l with
  | [] => None
  | x :: t => if Nat.eqb v x then Some 0
              else match index_of v t with Some k => Some (S k) | None => None end
  end.

(* Python subscript: negative counts from the end, out of range raises *)
Definition norm_idx (n : nat) (i : Z) : option nat :=
  let j := (if i <? 0 then i + Z.of_nat n else i)%Z in
  if ((j <? 0) || (Z.of_nat n <=? j))%Z then None else Some (Z.to_nat j).

(* list.insert / absindex(strict=False) + the three-way branch of linkseq.insert *)
Definition clamp_idx (n : nat) (i : Z) : nat :=
  let j := (if i <? 0 then i + Z.of_nat n else i)%Z in
  if (j <? 0)%Z then 0 else if (Z.of_nat n <? j)%Z then n else Z.to_nat j.

Fixpoint insert_at (k : nat) (v : V) (l : list V) : list V :=
  match k, l with
  | 0, _ => v :: l
  | S k', x :: t => x :: insert_at k' v t
  | S _, [] => [v]
  end.

Fixpoint remove_at (k : nat) (l : list V) : list V :=
  match k, l with
  | _, [] => []
  | 0, _ :: t => t
  | S k', x :: t => x :: remove_at k' t
  end.

Fixpoint set_nth (k : nat) (v : V) (l : list V) : list V :=
  match k, l with
  | _, [] => []
  | 0, _ :: t => v :: t
  | S k', x :: t => x :: set_nth k' v t
  end.

Definition nthv (k : nat) (l : list V) : V := nth k l 0.

Definition memn (k : nat) (l : list nat) : bool := existsb (Nat.eqb k) l.

Fixpoint nodupb (l : list nat) : bool :=
  match l with [] => true | x :: t => negb (memn x t) && nodupb t end.

(* what CPython's range( *slice.indices(n)) always yields: distinct, in range *)
Definition valid_idxs (n : nat) (idxs : list nat) : bool :=
  nodupb idxs && forallb (fun i => i <? n) idxs.

(* del seq[slice]: keep the positions not selected *)
Fixpoint remove_idxs_from (pos : nat) (idxs : list nat) (l : list V) : list V :=
  match l with
  | [] => []
  | x :: t => if memn pos idxs then remove_idxs_from (S pos) idxs t
              else x :: remove_idxs_from (S pos) idxs t
  end.
Definition remove_idxs (idxs : list nat) (l : list V) : list V := remove_idxs_from 0 idxs l.

(* seq[slice] = values, sizes equal: pointwise *)
Fixpoint set_idxs (idxs : list nat) (vs : list V) (l : list V) : list V :=
  match idxs, vs with
  | i :: it, v :: vt => set_idxs it vt (set_nth i v l)
  | _, _ => l
  end.

Definition values_at (idxs : list nat) (l : list V) : list V := map (fun k => nthv k l) idxs.

(* insertion sort: list.sort with the default key on distinct values *)
Fixpoint ins_sorted (v : V) (l : list V) : list V :=
  match l with
  | [] => [v]
  | x :: t => if v <=? x then v :: l else x :: ins_sorted v t
  end.
Definition isort (l : list V) : list V := fold_right ins_sorted [] l.
Definition sort_list (r : bool) (l : list V) : list V := if r then rev (isort l) else isort l.

(* Python set as a list of keys (only membership is ever observed) *)
Definition set_add (v : V) (s : list V) : list V := if mem v s then s else v :: s.
Definition set_del (v : V) (s : list V) : list V := filter (fun x => negb (Nat.eqb v x)) s.
Definition set_diff (vs s : list V) : list V := filter (fun x => negb (mem x vs)) s.
Definition set_union (vs s : list V) : list V := fold_left (fun acc v => set_add v acc) vs s.

(* bulk loops: apply f to each value, stop at the first raise (a prefix stays applied) *)
Fixpoint bulk {S : Type} (f : V -> S -> res S) (vs : list V) (st : S) : res S :=
  match vs with
  | [] => (st, None)
  | v :: t => match f v st with
              | (st', None) => bulk f t st'
              | r => r
              end
  end.

(* `try: ... except DuplicateValueError: pass` *)
Definition catch_dup {S : Type} (r : res S) : res S :=
  match r with (st, Some EDup) => (st, None) | _ => r end.

(* running an operation sequence, recording the exception (type) of every step *)
Definition step {S : Type} (run : op -> S -> res S) (acc : S * list (option exn)) (o : op)
  : S * list (option exn) :=
  let (st', e) := run o (fst acc) in (st', snd acc ++ [e]).
Definition exec {S : Type} (run : op -> S -> res S) (ops : list op) (st : S)
  : S * list (option exn) :=
  fold_left (step run) ops (st, []).
