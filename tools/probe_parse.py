"""Runs inside the implementation's interpreter (PYTHONPATH=/repo, hooks on).
Reads the parser / writer tables and runs the real parsers and writers on the
inputs given on stdin.  Prints JSON only; decides nothing.

  probe_parse.py tables            parse tables, string tables, arities, maxi
  probe_parse.py parse   < jobs    [{notation, preds, auto, frozen, mode, inputs, opts}]
  probe_parse.py write   < jobs    [{notation, format, dialect, opts, sents, parse:{...}}]
  probe_parse.py argstr  < jobs    [[sent, ...], ...]   (conclusion first)

Sentences travel as nested JSON lists (never through the writer under test):
  ["A",i,s] ["P",[i,s,a]|"Identity"|"Existence",[param..]] ["Q",name,[i,s],body]
  ["U",name,a] ["B",name,a,b];  param = ["c",i,s] | ["v",i,s];
  a subscript is an int or {"rep1": k} (= the k-digit number 11..1).
The canonical text of a sentence (ser) is the one of coq/theories/Lang/PShow.v.
"""
from __future__ import annotations

import json
import sys

sys.setrecursionlimit(1000)  # CPython default, stated explicitly


def b(n: int) -> str:
    return format(n, 'b')


UOP = dict(Assertion='As', Negation='Ne', Possibility='Po', Necessity='Nc')
BOP = dict(Conjunction='Cj', Disjunction='Dj', MaterialConditional='Mc', MaterialBiconditional='Mb',
           Conditional='Cd', Biconditional='Bc')
QNT = dict(Existential='Ex', Universal='Un')


def ser(s) -> str:
    """Structural serialisation, iterative (no recursion limit of its own)."""
    from pytableaux.lang import Atomic, Constant, Operated, Predicated, Quantified, Variable
    out = []
    stack = [s]
    while stack:
        x = stack.pop()
        if isinstance(x, str):
            out.append(x)
            continue
        t = type(x)
        if t is Atomic:
            out.append(f'A{b(x.index)}.{b(x.subscript)}')
        elif t is Predicated:
            p = x.predicate
            if p.index == -1:
                ps = 'Id'
            elif p.index == -2:
                ps = 'Et'
            else:
                ps = f'P{b(p.index)}.{b(p.subscript)}/{b(p.arity)}'
            prm = []
            for q in x.params:
                tq = type(q)
                k = 'c' if tq is Constant else 'v' if tq is Variable else '?'
                prm.append(f'{k}{b(q.index)}.{b(q.subscript)}')
            out.append(ps + '(' + ','.join(prm) + ')')
        elif t is Quantified:
            v = x.variable
            out.append(f'{QNT[x.quantifier.name]} v{b(v.index)}.{b(v.subscript)}[')
            stack.append(']')
            stack.append(x.sentence)
        elif t is Operated:
            ops = x.operands
            if len(ops) == 1:
                out.append(UOP[x.operator.name] + '[')
                stack.append(']')
                stack.append(ops[0])
            elif len(ops) == 2:
                out.append(BOP[x.operator.name] + '[')
                stack.append(']')
                stack.append(ops[1])
                stack.append('|')
                stack.append(ops[0])
            else:
                out.append(f'?arity{len(ops)}')
        else:
            out.append(f'?{t.__name__}')
    return ''.join(out)


def ser_store(preds) -> str:
    return ';'.join(f'{b(p.index)}.{b(p.subscript)}/{b(p.arity)}' for p in preds)


def sub(x) -> int:
    if isinstance(x, dict):
        return (10 ** x['rep1'] - 1) // 9
    return x


def build(j):
    from pytableaux.lang import (Atomic, Constant, Operator, Predicate, Predicated, Quantified,
                                 Quantifier, Variable, Operated)
    k = j[0]
    if k == 'A':
        return Atomic(j[1], sub(j[2]))
    if k == 'P':
        p = j[1]
        pred = Predicate(p) if isinstance(p, str) else Predicate(p[0], sub(p[1]), p[2])
        params = tuple((Constant if q[0] == 'c' else Variable)(q[1], sub(q[2])) for q in j[2])
        return Predicated(pred, params)
    if k == 'Q':
        return Quantified(Quantifier[j[1]], Variable(j[2][0], sub(j[2][1])), build(j[3]))
    if k == 'U':
        return Operated(Operator[j[1]], (build(j[2]),))
    if k == 'B':
        return Operated(Operator[j[1]], (build(j[2]), build(j[3])))
    raise ValueError(k)


def outcome(fn):
    try:
        return 'OK ' + ser(fn())
    except RecursionError:
        return 'E RecursionError'
    except Exception as e:  # noqa: BLE001 - the type IS the observation
        return 'E ' + type(e).__name__


def mk_parser(job):
    from pytableaux.lang import Parser, Predicate, Predicates
    preds = [tuple(p) for p in job.get('preds', [])]
    if job.get('frozen_from_store') is not None:
        # frozen from a live Predicates object that is mutated afterwards: the frozen store must not follow it
        src = Predicates(preds)
        store = Predicates.Frozen(src) if job.get('frozen_how') == 'class' else src.frozen()
        for q in job['frozen_from_store']:
            src.add(tuple(q))
    elif job.get('frozen') or not preds:
        store = Predicates.Frozen(preds) if job.get('frozen') else Predicates(preds)
    else:
        # "predicate-store contents", not their history: the same declarations reached by construction,
        # by in-place replacement of a same-symbol predicate of another arity, or by add/remove/insert
        route = sum(map(ord, json.dumps(job, sort_keys=True))) % 3
        first = preds[0]
        decoy = (first[0], first[1], first[2] + 1)
        if route == 0:
            store = Predicates(preds)
        elif route == 1:
            store = Predicates([decoy] + preds[1:])
            store[0] = first
        else:
            store = Predicates([decoy] + preds[1:])
            store.remove(Predicate(decoy))
            store.insert(0, first)
        assert [tuple(q.spec) for q in store] == preds, 'store route changed the declarations'
    opts = dict(job.get('opts') or {})
    return Parser(job['notation'], store, auto_preds=bool(job.get('auto', True)), **opts)


def cmd_tables():
    from pytableaux.lang import (Atomic, Constant, LexType, Marking, Notation, Operator, Predicate,
                                 Quantifier, Variable)
    from pytableaux.lang.parsing import ParseTable
    from pytableaux.lang.writing import StringTable
    kinds = {Operator: 'Operator', Quantifier: 'Quantifier', Predicate.System: 'System',
             Variable: 'Variable', Constant: 'Constant', Predicate: 'Predicate', Atomic: 'Atomic',
             Marking.whitespace: 'whitespace', Marking.digit: 'digit',
             Marking.paren_open: 'paren_open', Marking.paren_close: 'paren_close'}

    def val(v):
        if isinstance(v, (Operator, Quantifier)):
            return v.name
        if isinstance(v, Predicate):
            return v.name
        if isinstance(v, bool) or not isinstance(v, int):
            return {'unexpected': repr(v)}
        return v
    res = dict(parse={}, strings=[], operators={o.name: o.arity for o in Operator},
               quantifiers=[q.name for q in Quantifier],
               system={p.name: list(p.spec) for p in Predicate.System},
               maxi={t.name: t.maxi for t in LexType if t.maxi is not None})
    for notn in Notation:
        tb = ParseTable.fetch(notn)
        rows = []
        for ch, (typ, v) in tb.items():
            kind = None
            for k, name in kinds.items():
                if typ is k:
                    kind = name
            rows.append([[ord(c) for c in ch], kind if kind else {'unexpected': repr(typ)}, val(v)])
        res['parse'][notn.name] = rows
        rev = {}
        for k in (Marking.paren_open, Marking.paren_close, Marking.whitespace):
            try:
                v = tb.reversed[k]
                rev[k.name] = [ord(c) for c in v] if isinstance(v, str) else {'unexpected': repr(v)}
            except KeyError:
                rev[k.name] = None
        res.setdefault('reversed', {})[notn.name] = rev

    def key(k):
        if isinstance(k, (Operator, Quantifier)):
            return [type(k).__name__, k.name]
        if isinstance(k, Predicate):
            return ['System', k.name]
        if isinstance(k, Marking):
            return ['Marking', k.name]
        if isinstance(k, tuple):
            out = []
            for x in k:
                if isinstance(x, type):
                    out.append(x.__name__)
                elif isinstance(x, (Operator, Quantifier)):
                    out.append(x.name)
                elif isinstance(x, Predicate):
                    out.append(x.name)
                elif isinstance(x, Marking):
                    out.append('Marking.' + x.name)
                else:
                    out.append(x)
            return ['tuple', out]
        return ['other', repr(k)]
    for (fmt, notn, dialect), st in StringTable._instances.items():
        ent = dict(format=fmt, notation=notn.name, dialect=dialect, strings=[])
        for k, v in st.items():
            ent['strings'].append([key(k), [ord(c) for c in v] if isinstance(v, str) else {'unexpected': repr(v)}])
        res['strings'].append(ent)
    print(json.dumps(res))


def cmd_parse():
    jobs = json.load(sys.stdin)
    out = []
    for job in jobs:
        inputs = [''.join(map(chr, i)) if isinstance(i, list) else i for i in job['inputs']]
        rep = job.get('rep')           # [prefix, unit, count, suffix]: big inputs built here
        if rep:
            inputs = [rep[0] + rep[1] * rep[2] + rep[3]]
        if job.get('mode') == 'fresh':
            rs, stores = [], []
            for i in inputs:
                p = mk_parser(job)
                rs.append(outcome(lambda: p(i)))
                stores.append(ser_store(p.predicates))
            out.append(dict(results=rs, stores=stores))
        else:
            p = mk_parser(job)
            rs = [outcome(lambda: p(i)) for i in inputs]
            out.append(dict(results=rs, store=ser_store(p.predicates)))
    print(json.dumps(out))


def cmd_write():
    from pytableaux.lang import LexWriter, Parser, Predicates
    jobs = json.load(sys.stdin)
    out = []
    for job in jobs:
        lw = LexWriter(job['notation'], job.get('format', 'text'), job.get('dialect'), **(job.get('opts') or {}))
        res = []
        for sj in job['sents']:
            ent = {}
            try:
                s = build(sj)
            except Exception as e:  # noqa: BLE001
                res.append(dict(build='E ' + type(e).__name__))
                continue
            ent['ser'] = ser(s)
            try:
                w = lw(s)
                ent['written'] = [ord(c) for c in w]
            except RecursionError:
                ent['written'] = 'E RecursionError'
                w = None
            except Exception as e:  # noqa: BLE001
                ent['written'] = 'E ' + type(e).__name__
                w = None
            pj = job.get('parse')
            if w is not None and pj is not None:
                for label in ('declared', 'auto'):
                    try:
                        preds = Predicates(sorted(q for q in s.predicates if not q.is_system)
                                           if label == 'declared' else ())
                    except Exception as e:  # noqa: BLE001  (conflicting arities)
                        ent['parsed_' + label] = 'STORE ' + type(e).__name__
                        continue
                    p = Parser(pj.get('notation', job['notation']), preds, auto_preds=(label == 'auto'))
                    ent['parsed_' + label] = outcome(lambda: p(w))
            res.append(ent)
        out.append(res)
    print(json.dumps(out))


def cmd_argstr():
    from pytableaux.lang import Argument
    jobs = json.load(sys.stdin)
    out = []
    for sents in jobs:
        ent = {}
        try:
            arg = Argument(build(sents[0]), [build(x) for x in sents[1:]])
            a = arg.argstr()
            ent['argstr'] = [ord(c) for c in a]
            back = Argument(a)
            ent['back'] = [ser(x) for x in back]
            ent['orig'] = [ser(x) for x in arg]
            ent['equal'] = bool(back == arg) and hash(back) == hash(arg)
        except RecursionError:
            ent['error'] = 'RecursionError'
        except Exception as e:  # noqa: BLE001
            ent['error'] = type(e).__name__
        out.append(ent)
    print(json.dumps(out))


if __name__ == '__main__':
    {'tables': cmd_tables, 'parse': cmd_parse, 'write': cmd_write, 'argstr': cmd_argstr}[sys.argv[1]]()
