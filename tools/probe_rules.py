"""Runs in the implementation's interpreter.  Applies every non-closure rule
class of every logic, through the public rule API, to the *generic principal
node* of its shape and abstracts the produced nodes into the schema language
(see DESIGN 2.2/2.5).  Output: JSON {logic: {rules: [...], closure: [...]}}.

Sentence schema (JSON):  {"opd": i} | {"un": op, "a": s} | {"bin": op, "a": s, "b": s}
  | {"mod": op, "a": s} | {"q": quant, "a": s}   (body of the probed quantifier, bound var)
  | {"body": "bvar"|"new"|"any"}          (the body applied to bound var / new constant / existing constant)
Node schema:  {"s": sch, "d": true|false|null, "w": "same"|"new"|"acc"|null}
            | {"acc": [w1, w2]} with w in "same"|"new"|"acc"   | {"flag": name}
"""
from __future__ import annotations

import json
import os
import sys


def setup():
    from pytableaux.lang import (Atomic, Constant, Operated, Operator, Predicate, Predicated,
                                 Quantified, Quantifier, Variable)
    from pytableaux.logics import registry
    registry.import_all()
    return registry


class Ctx:
    """The generic operands: atoms A, B; body F x with a reserved unary predicate."""

    def __init__(self, A=None, B=None, body=None, x=None):
        from pytableaux.lang import Atomic, Constant, Predicate, Predicated, Variable
        self.x = x or Variable(0, 0)
        self.A = A or Atomic(0, 0)
        self.B = B or Atomic(1, 0)
        self.F = Predicate(0, 0, 1)
        # body: a function from a parameter to a sentence
        self.body = body or (lambda p: Predicated(self.F, (p,)))
        self.ca = Constant(0, 0)


def rule_info(rcls, gi):
    return dict(name=rcls.name, group=gi,
                operator=getattr(rcls, 'operator', None) and rcls.operator.name,
                quantifier=getattr(rcls, 'quantifier', None) and rcls.quantifier.name,
                negated=bool(getattr(rcls, 'negated', None)),
                designation=getattr(rcls, 'designation', None),
                ticking=bool(getattr(rcls, 'ticking', False)),
                branching=getattr(rcls, 'branching', None),
                bases=[c.__name__ for c in rcls.__mro__[1:6]],
                defined_in=rcls.__module__.split('.')[-1])


def principal(info, ctx):
    from pytableaux.lang import Operated, Operator, Quantified, Quantifier
    if info['quantifier']:
        s = Quantified(Quantifier[info['quantifier']], ctx.x, ctx.body(ctx.x))
        kind = 'quant'
    elif info['operator'] in ('Possibility', 'Necessity'):
        s = Operated(Operator[info['operator']], (ctx.A,))
        kind = 'modal'
    elif info['operator']:
        o = Operator[info['operator']]
        s = Operated(o, (ctx.A,) if o.arity == 1 else (ctx.A, ctx.B))
        kind = 'op'
    else:
        return None, 'special'
    if info['negated']:
        s = ~s
    return s, kind


def apply_rule(logic, info, ctx, setup_name, s, extra_nodes=None):
    """Apply the rule to the principal node on a fresh branch.  Returns a list of raw applications:
    dict(adds=[[node mapping...]], target facts) plus the context needed to classify constants/worlds."""
    from pytableaux.lang import Predicate, Predicated
    from pytableaux.proof import Tableau, anode, sdwnode
    modal = bool(logic.Meta.modal)
    w0 = 0 if modal else None
    tab = Tableau(logic)
    b = tab.branch()
    node = sdwnode(s, info['designation'], w0)
    extra = []
    if setup_name == 'consts':
        extra = [sdwnode(Predicated(Predicate(1, 0, 1), (ctx.ca,)), info['designation'], w0)]
    if setup_name == 'consts_desc':
        # a higher constant mentioned BEFORE a lower one (freshness must not depend on the order of mention)
        from pytableaux.lang import Constant
        extra = [sdwnode(Predicated(Predicate(1, 0, 1), (Constant(1, 0),)), info['designation'], w0),
                 sdwnode(Predicated(Predicate(1, 0, 1), (ctx.ca,)), info['designation'], w0)]
    if setup_name == 'access':
        extra = [anode(0, 1)]
    for e in extra + list(extra_nodes or ()):
        b.append(e)
    b.append(node)
    env = dict(w=w0, old_consts=set(b.constants), old_worlds=set(b.worlds))
    rule = tab.rules.get(info['name'])
    if setup_name == 'consts_desc' or extra_nodes:
        # no trunk was built, so the projected constant limit defaults to 1: raise it for this hand-made branch
        from pytableaux.proof.helpers import MaxConsts
        try:
            rule[MaxConsts][b.origin] = 8
        except Exception:
            pass
    applied = []
    for _ in range(4):
        target = rule.target(b)
        if not target:
            break
        if target.get('flag'):
            applied.append({'flag': True})
            break
        if target.get('node') is not None and target.get('node') is not node:
            break       # the rule moved on to a node it produced itself
        applied.append(dict(
            raw=[[dict(n) for n in g] for g in target['adds']],
            node_is_principal=target.get('node') is node,
            constant=('constant' in target),
            world=target.get('world') is not None,
            nodes=len(target.get('nodes') or ())))
        rule.apply(target)
        if rule.ticking:
            break
    return applied, env


def abstract_sentence(s, ctx, env):
    from pytableaux.lang import Operated, Predicated, Quantified
    if s == ctx.A:
        return {'opd': 0}
    if s == ctx.B:
        return {'opd': 1}
    if type(s) is Predicated and s.predicate == ctx.F:
        p = s.params[0]
        if p == ctx.x:
            return {'body': 'bvar'}
        if p in env['old_consts']:
            return {'body': 'any'}
        return {'body': 'new'}
    if type(s) is Operated:
        o = s.operator
        if o.name in ('Possibility', 'Necessity'):
            return {'mod': o.name, 'a': abstract_sentence(s.lhs, ctx, env)}
        if o.arity == 1:
            return {'un': o.name, 'a': abstract_sentence(s.lhs, ctx, env)}
        return {'bin': o.name, 'a': abstract_sentence(s.lhs, ctx, env), 'b': abstract_sentence(s.rhs, ctx, env)}
    if type(s) is Quantified:
        if s.variable != ctx.x:
            raise ValueError(f'unexpected bound variable in {s}')
        return {'q': s.quantifier.name, 'a': abstract_sentence(s.sentence, ctx, env)}
    raise ValueError(f'cannot abstract sentence {s!r}')


def abstract_world(w, env):
    if w is None:
        # a node without a world is only right in a logic without worlds
        return None if env['w'] is None else 'missing'
    if w == env['w']:
        return 'same'
    if w in env['old_worlds']:
        return 'acc'
    return 'new'


def abstract_node(n, ctx, env):
    if 'sentence' in n:
        return {'s': abstract_sentence(n['sentence'], ctx, env), 'd': n.get('designated'),
                'w': abstract_world(n.get('world'), env)}
    if 'world1' in n:
        return {'acc': [abstract_world(n['world1'], env), abstract_world(n['world2'], env)]}
    if 'flag' in n:
        return {'flag': str(n['flag'])}
    raise ValueError(f'cannot abstract node {dict(n)!r}')


SETUPS = {'op': ['plain'], 'quant': ['empty', 'consts'], 'modal': ['noaccess', 'access']}


def probe_logic(logic):
    ctx = Ctx()
    ent = {'rules': [], 'closure': [r.name for r in logic.Rules.closure]}
    for gi, grp in enumerate(logic.Rules.groups):
        for rcls in grp:
            info = rule_info(rcls, gi)
            try:
                s, kind = principal(info, ctx)
                info['kind'] = kind
                if kind == 'special':
                    ent['rules'].append(info)
                    continue
                variants = []
                for setup_name in SETUPS[kind]:
                    applied, env = apply_rule(logic, info, ctx, setup_name, s)
                    out = []
                    for a in applied:
                        if 'raw' in a:
                            a = dict(a)
                            a['adds'] = [[abstract_node(n, ctx, env) for n in g] for g in a.pop('raw')]
                        out.append(a)
                    variants.append(dict(setup=setup_name, applied=out))
                info['variants'] = variants
            except Exception as e:
                info['error'] = f'{type(e).__name__}: {e}'
            ent['rules'].append(info)
    return ent


def fanout(items, work, nproc=None):
    """fork-based fan-out over items; work(item) -> JSON-able; returns list in order."""
    nproc = nproc or int(os.environ.get('VERIF_NPROC') or 12)
    if nproc <= 1 or len(items) <= 2:
        return [work(it) for it in items]
    idx = list(range(len(items)))
    slices = [idx[i::nproc] for i in range(nproc)]
    kids = []
    for sl in slices:
        if not sl:
            continue
        r, w = os.pipe()
        pid = os.fork()
        if pid == 0:
            os.close(r)
            try:
                data = json.dumps({str(i): work(items[i]) for i in sl}).encode()
            except BaseException as e:
                import traceback
                data = json.dumps({'__error__': f'{type(e).__name__}: {e}\n{traceback.format_exc()}'}).encode()
            with os.fdopen(w, 'wb') as f:
                f.write(data)
            os._exit(0)
        os.close(w)
        kids.append((pid, r))
    res = {}
    for pid, r in kids:
        with os.fdopen(r, 'rb') as f:
            data = json.loads(f.read().decode())
        os.waitpid(pid, 0)
        if '__error__' in data:
            raise RuntimeError(data['__error__'])
        res.update(data)
    return [res[str(i)] for i in idx]


def main():
    registry = setup()
    only = sys.argv[1:]
    mods = [m for m in sorted(registry.modules) if not only or registry(m).Meta.name in only]
    outs = fanout(mods, lambda m: [registry(m).Meta.name, probe_logic(registry(m))])
    res = {k: v for k, v in outs}
    json.dump({k: res[k] for k in sorted(res)}, sys.stdout)


if __name__ == '__main__':
    main()
