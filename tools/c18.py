"""C18 — ordered-set containers stay a set and a sequence at once.

Theorems (coq/Props/C18.v) are about executable models of qset / linqset /
Predicates and a plain-list specification.  This driver ties them to /repo:

* variant detection: the three known-defect witnesses are run on the
  implementation; the model variant (code as it is / repaired) is chosen
  accordingly, so the check stays valid once a fix is applied;
* exhaustive: every operation sequence over the menu to depth 3 (quick) / 4
  (thorough) whose proper prefixes are defect-free, on each container kind.
  The model and the specification are evaluated in Coq (vm_compute); because
  both are deterministic functions of the state, the transitions are memoised
  per distinct (hidden model state, operation) — every expected value used
  below was printed by Coq;
* random: sequences of 40 operations over a larger universe, compared after
  every operation; an operation at which the implementation leaves the
  specification is removed and the sequence re-run, so the later operations
  are still exercised;
* after every operation: list(c), len, membership and index of every universe
  value, c[i], (Predicates: get(ref) for every reference) and the exception
  TYPE are compared with the specification (the property) and with the model
  (its faithfulness); the probe checks failed-single-op-is-noop and copy
  aliasing directly on the implementation.
"""
from __future__ import annotations

import ast
import itertools
import json
import random
import re
from concurrent.futures import ThreadPoolExecutor

import vlib
from vlib import (Check, MachineryError, coq_eval_cases, ensure_theory, probe_json,
                  props_assumptions)

vlib.NCPU = min(vlib.NCPU, 8)          # coq_eval_cases uses NCPU // 2 workers: at most 4

HEADER = ('From Coq Require Import List Bool ZArith.\nImport ListNotations.\n'
          'From PT Require Import Cont.Common Cont.Spec Cont.Qset Cont.Linqset Cont.Predicates Cont.Run.\n')

KINDS = ('qset', 'linqset', 'Predicates')
SUFFIX = {'qset': 'q', 'linqset': 'l', 'Predicates': 'p'}
SPEC = {'qset': 's', 'linqset': 's', 'Predicates': 'sp'}

METHOD = {'append': 'append', 'add': 'add', 'insert': 'insert', 'remove': 'remove', 'discard': 'discard',
          'delidx': '__delitem__', 'pop': 'pop', 'delslice': '__delitem__[slice]', 'setidx': '__setitem__',
          'setslice': '__setitem__[slice]', 'sort': 'sort', 'reverse': 'reverse', 'clear': 'clear',
          'copy': 'copy', 'extend': 'extend', 'update': 'update', 'isub': '__isub__', 'iand': '__iand__',
          'ixor': '__ixor__', 'wedge': 'wedge'}
EXN_NAME = {0: None, 1: 'DuplicateValueError', 2: 'MissingValueError', 3: 'IndexError', 4: 'ValueError',
            5: 'KeyError', 6: 'TypeError', 7: 'AttributeError'}


def owner(kind: str, opk: str) -> str:
    if kind == 'linqset' and opk in ('setidx', 'setslice'):
        return 'linkseq'            # linqset inherits __setitem__ from linkseq
    return kind


# ---------------------------------------------------------------------------
# Coq syntax

def zlit(i: int) -> str:
    return f'({i})%Z'


def nlist(xs) -> str:
    return '[' + '; '.join(str(int(x)) for x in xs) + ']'


def unspec(v):
    return v['spec'] if isinstance(v, dict) else v


def coq_op(op, n: int) -> str:
    """JSON op -> Gallina op; a slice is resolved with CPython's slice.indices against length n."""
    k = op[0]
    if k in ('append', 'add', 'remove', 'discard'):
        return f"O{k.capitalize()} {unspec(op[1])}"
    if k == 'insert':
        return f'OInsert {zlit(op[1])} {unspec(op[2])}'
    if k == 'delidx':
        return f'ODelIdx {zlit(op[1])}'
    if k == 'pop':
        return f'OPop {zlit(op[1])}'
    if k == 'delslice':
        return f'ODelSlice {nlist(range(*slice(op[1], op[2], op[3]).indices(n)))}'
    if k == 'setidx':
        return f'OSetIdx {zlit(op[1])} {unspec(op[2])}'
    if k == 'setslice':
        return (f'OSetSlice {nlist(range(*slice(op[1], op[2], op[3]).indices(n)))} '
                f'{nlist(map(unspec, op[4]))}')
    if k == 'sort':
        return f"OSort {'true' if op[1] else 'false'}"
    if k in ('reverse', 'clear', 'copy'):
        return 'O' + k.capitalize()
    if k in ('extend', 'update', 'isub', 'iand', 'ixor'):
        return f"O{k.capitalize()} {nlist(map(unspec, op[1]))}"
    if k == 'wedge':
        return f'OWedge {unspec(op[1])} {unspec(op[2])} {zlit(op[3])}'
    raise ValueError(k)


def parse_nat(ans: str):
    return ast.literal_eval(ans.replace(';', ','))


def fxs(kind: str, fx) -> str:
    b = lambda x: 'true' if x else 'false'
    if kind == 'Predicates':
        return f'{b(fx[0])} {b(fx[1])}'
    return b(fx)


def model_final(kind, fx, univ, gidx, ops: list[str]) -> str:
    return f"final_{SUFFIX[kind]} {fxs(kind, fx)} {nlist(univ)} {zl(gidx)} [{'; '.join(ops)}]"


def zl(gidx) -> str:
    return '[' + '; '.join(zlit(i) for i in gidx) + ']'


# ---------------------------------------------------------------------------
# menus

def menu_for(kind: str):
    m = [['append', 0], ['append', 1], ['append', 2], ['add', 1],
         ['insert', 0, 2], ['insert', 1, 0], ['insert', -1, 1],
         ['remove', 0], ['remove', 2], ['discard', 1],
         ['delidx', 0], ['delidx', -1], ['pop', 1],
         ['delslice', 0, 2, None], ['delslice', None, None, 2],
         ['setidx', 0, 1], ['setidx', -1, 0], ['setidx', 1, 2],
         ['setslice', 0, 2, None, [2, 0]], ['setslice', 0, 2, None, [1, 1]],
         ['setslice', None, None, -1, [0, 1]],
         ['reverse'], ['clear'], ['copy'],
         ['extend', [1, 2]], ['update', [0, 2]], ['isub', [0, 1]], ['iand', [0, 2]], ['ixor', [1, 2]]]
    if kind == 'linqset':
        m += [['wedge', 2, 0, 1], ['wedge', 1, 2, -1]]
    else:
        m += [['sort', False], ['sort', True]]
    if kind == 'Predicates':
        m += [['add', {'spec': 0}], ['discard', {'spec': 2}]]
    return m


def random_op(rng: random.Random, kind: str, U: int):
    v = lambda: rng.randrange(U)
    vs = lambda: [v() for _ in range(rng.choice((0, 1, 1, 2, 2, 3)))]
    idx = lambda: rng.randint(-U - 1, U)
    sl = lambda: [rng.choice((None, None, *range(-U, U + 1))), rng.choice((None, None, *range(-U, U + 1))),
                  rng.choice((None, None, 1, 2, -1, -2, 3))]
    kinds = ['append', 'append', 'add', 'add', 'insert', 'insert', 'remove', 'discard', 'delidx', 'pop',
             'delslice', 'setidx', 'setslice', 'reverse', 'copy', 'extend', 'update', 'update', 'isub',
             'iand', 'ixor']
    kinds += ['wedge', 'wedge'] if kind == 'linqset' else ['sort', 'sort']
    if rng.random() < 0.02:
        return ['clear']
    k = rng.choice(kinds)
    cast = (lambda x: {'spec': x} if rng.random() < 0.3 else x) if kind == 'Predicates' else (lambda x: x)
    if k in ('append', 'add', 'discard'):
        return [k, cast(v())]
    if k == 'remove':
        return [k, v()]
    if k == 'insert':
        return [k, idx(), cast(v())]
    if k in ('delidx', 'pop'):
        return [k, idx()]
    if k == 'delslice':
        return [k, *sl()]
    if k == 'setidx':
        return [k, idx(), cast(v())]
    if k == 'setslice':
        return [k, *sl(), [cast(x) for x in vs()]]
    if k == 'sort':
        return [k, rng.random() < 0.5]
    if k in ('reverse', 'copy'):
        return [k]
    if k in ('extend', 'update', 'isub', 'iand', 'ixor'):
        return [k, [cast(x) for x in vs()]]
    if k == 'wedge':
        return [k, v(), v(), rng.choice((-1, 1, 1, -1, 0, 2))]
    raise ValueError(k)


# ---------------------------------------------------------------------------
# probe plumbing

def probe(kind, univ, gidx, mode, seqs=None, menu=None, iseqs=None, chunk=40000):
    reqs = []
    if menu is not None:
        for i in range(0, len(iseqs), chunk):
            reqs.append(dict(kind=kind, universe=univ, gidx=gidx, mode=mode, menu=menu,
                             iseqs=iseqs[i:i + chunk]))
    else:
        for i in range(0, len(seqs), chunk):
            reqs.append(dict(kind=kind, universe=univ, gidx=gidx, mode=mode, seqs=seqs[i:i + chunk]))
    with ThreadPoolExecutor(max_workers=4) as ex:
        outs = list(ex.map(lambda r: probe_json('probe_containers.py', stdin=json.dumps(r), timeout=3000), reqs))
    return [x for o in outs for x in o]


def detect_variants():
    """Which of the known defects does the implementation exhibit?  (True = repaired)"""
    univ, gidx = [0, 1, 2], [0]
    l = probe('linqset', univ, gidx, 'final', seqs=[[['extend', [0, 1]], ['setidx', 0, 2]]])[0]
    q = probe('qset', univ, gidx, 'final', seqs=[[['extend', [0, 1]], ['setslice', 0, 2, None, [2, 2]]]])[0]
    p = probe('Predicates', univ + [3, 4, 5], gidx, 'final',
              seqs=[[['extend', [2, 4]], ['setslice', 0, 2, None, [0, 1]]],
                    [['extend', [2, 4]], ['setslice', 0, 2, None, [0, 0]]]])
    lfx = l[1][2] == [0, 1, 1]               # membership follows the chain
    qfx = q[0] == 1                          # DuplicateValueError
    pfx = (p[0][0] == 4, p[1][0] == 1)       # (hook fixed, qset part fixed)
    return {'linqset': lfx, 'qset': qfx, 'Predicates': pfx}


# ---------------------------------------------------------------------------
# classification

STALE = {'qset': 'stale-set', 'linqset': 'stale-table', 'Predicates': 'stale-lookup'}


def classify(kind, ie, io, se, so) -> str | None:
    """Class of the difference between implementation (ie, io) and specification (se, so)."""
    if ie != se:
        if se == 1:
            # a duplicate arrival that the implementation did not reject as a duplicate (it went
            # through, or a later check raised something else first)
            return 'duplicates'
        if ie == 0 and se == 4 and kind == 'Predicates':
            return 'conflicting-arrivals'
        return 'exception'
    if io == so:
        return None
    if io[0] != so[0]:
        return 'order'
    if io[1] != so[1]:
        return 'len'
    if io[2] != so[2] or io[3] != so[3]:
        return STALE[kind]
    if io[4] != so[4]:
        return 'subscript'
    return 'lookup'


def describe(kind, seq, ie, io, se, so) -> str:
    return (f'{kind}: after {json.dumps(seq)} the implementation has exception={EXN_NAME.get(ie, ie)} '
            f'list={io[0]} len={io[1][0]} membership={io[2]} index={io[3]}; a list without duplicates has '
            f'exception={EXN_NAME.get(se, se)} list={so[0]} len={so[1][0]} membership={so[2]} index={so[3]}')


class Judge:
    """Compares one implementation step with the specification and the model."""

    def __init__(self, chk: Check, kind: str, univ, gidx, fx):
        self.chk, self.kind, self.univ, self.gidx, self.fx = chk, kind, univ, gidx, fx
        self.keys_seen: dict[str, list] = {}
        self.to_shrink: set[str] = set()
        self.shrunk = 0

    def step(self, seq, impl, model, spec, phase) -> str | None:
        """seq: ops up to and including this step.  Returns the violation key if the
        implementation leaves the specification here."""
        chk, kind = self.chk, self.kind
        ie, io, noop_ok, alias_ok, rep_ok = impl
        (me, mo), (se, so) = model, spec
        opk = seq[-1][0]
        base = f'{owner(kind, opk)}.{METHOD[opk]}'
        rep = dict(kind_of_case='op_sequence', container=kind, ops=seq, universe=self.univ, gidx=self.gidx,
                   phase=phase)
        if not noop_ok:
            chk.violation(f'{base}/failed-op-not-noop',
                          f'{kind}: {json.dumps(seq[-1])} raised {EXN_NAME.get(ie, ie)} but changed the container '
                          f'(sequence {json.dumps(seq)})', dict(rep, clause='failed_single_op_is_noop'))
        if not alias_ok:
            chk.violation(f'{kind}.copy/aliasing',
                          f'{kind}: mutating a copy changed the original (sequence {json.dumps(seq)})',
                          dict(rep, clause='copy'))
        cls = classify(kind, ie, io, se, so)
        if cls is None and not rep_ok:
            # observations still agree but the parts are already out of step with each other
            cls = STALE[kind]
        if cls is not None:
            key = f'{base}/{cls}'
            if key not in self.keys_seen:
                self.keys_seen[key] = seq
                if phase == 'random':
                    self.to_shrink.add(key)
            hidden = '' if classify(kind, ie, io, se, so) else ' [observations agree, but the internal parts are out of step with each other]'
            note = '' if (ie, io) == (me, mo) else ' (the model of the current code predicted otherwise)'
            chk.violation(key, describe(kind, seq, ie, io, se, so) + hidden + note,
                          dict(rep, clause='refines', divergence=cls, expected=dict(exn=se, obs=so),
                               observed=dict(exn=ie, obs=io)))
            return key
        if (ie, io) != (me, mo):
            chk.violation(f'model:{base}',
                          f'{kind}: implementation agrees with the specification but not with the model of the '
                          f'code after {json.dumps(seq)}: model exception={EXN_NAME.get(me, me)} obs={mo}',
                          dict(rep, clause='model-correspondence', model=dict(exn=me, obs=mo),
                               observed=dict(exn=ie, obs=io)), found_input=False)
        return None


# ---------------------------------------------------------------------------
# exhaustive phase: memoised transitions

class Automaton:
    def __init__(self, kind, fx, univ, gidx, menu):
        self.kind, self.fx, self.univ, self.gidx, self.menu = kind, fx, univ, gidx, menu
        self.rep: dict[str, list[str]] = {'init': []}      # state key -> representative Coq op list
        self.len: dict[str, int] = {'init': 0}
        self.trans: dict[tuple[str, int], tuple] = {}       # (state, op index) -> (next|None, model, spec)
        self.evals = 0

    def grow(self, depth: int):
        frontier = ['init']
        sfx, spec = SUFFIX[self.kind], SPEC[self.kind]
        for _ in range(depth):
            todo, exprs = [], []
            for st in frontier:
                for oi, op in enumerate(self.menu):
                    ops = self.rep[st] + [coq_op(op, self.len[st])]
                    body = '[' + '; '.join(ops) + ']'
                    exprs.append(f'(final_{sfx} {fxs(self.kind, self.fx)} {nlist(self.univ)} {zl(self.gidx)} {body}, '
                                 f'final_{spec} {nlist(self.univ)} {zl(self.gidx)} {body})')
                    exprs.append(f'state_{sfx} {fxs(self.kind, self.fx)} {body}')
                    todo.append((st, oi, ops))
            if not exprs:
                break
            ans = coq_eval_cases('C18', HEADER, exprs, shard=600, name=f'Auto_{sfx}_')
            self.evals += len(exprs)
            new = []
            for j, (st, oi, ops) in enumerate(todo):
                mes, mo, (ses, so) = parse_nat(ans[2 * j])     # Coq prints ((a, b), c) as (a, b, c)
                me, se = mes[-1], ses[-1]
                mo, so = list(map(list, mo)), list(map(list, so))
                clean = (me, mo) == (se, so)
                nxt = None
                if clean:
                    nxt = ans[2 * j + 1]
                    if nxt not in self.rep:
                        self.rep[nxt] = ops
                        self.len[nxt] = mo[1][0]
                        new.append(nxt)
                self.trans[(st, oi)] = (nxt, (me, mo), (se, so))
            frontier = new

    def paths(self, depth: int):
        """All index sequences of length 1..depth whose proper prefixes are clean, shortest first."""
        level = [((), 'init')]
        for _ in range(depth):
            nxt_level = []
            for path, st in level:
                for oi in range(len(self.menu)):
                    t = self.trans.get((st, oi))
                    if t is None:
                        continue
                    p = path + (oi,)
                    yield p, t
                    if t[0] is not None:
                        nxt_level.append((p, t[0]))
            level = nxt_level


def exhaustive(chk: Check, kind, fx, depth) -> Judge:
    univ, gidx = [0, 1, 2], [-4, -3, -2, -1, 0, 1, 2, 3]
    menu = menu_for(kind)
    au = Automaton(kind, fx, univ, gidx, menu)
    au.grow(depth)
    items = list(au.paths(depth))
    res = probe(kind, univ, gidx, 'final', menu=menu, iseqs=[p for p, _ in items])
    if len(res) != len(items):
        raise MachineryError('probe answered a different number of sequences')
    judge = Judge(chk, kind, univ, gidx, fx)
    bad: set[tuple] = set()        # sequences at (or after) which the implementation left the specification
    for (p, (nxt, model, spec)), impl in zip(items, res):
        if p[:-1] in bad:
            bad.add(p)
            continue
        seq = [menu[i] for i in p]
        chk.case([kind, p], nontrivial=True,
                 sample=dict(container=kind, ops=seq, list=impl[1][0], exception=EXN_NAME.get(impl[0], impl[0]))
                 if len(p) == 3 and len(chk.samples) < 3 * (1 + KINDS.index(kind)) else None)
        chk.count('op:' + kind, menu[p[-1]][0])
        chk.count('depth:' + kind, str(len(p)))
        chk.count('exception:' + kind, str(EXN_NAME.get(impl[0], impl[0])))
        if judge.step(seq, impl, model, spec, 'exhaustive') is not None:
            bad.add(p)
    chk.notes.setdefault('automaton', {})[kind] = dict(
        distinct_clean_model_states=len(au.rep), coq_evaluations=au.evals, sequences=len(items), menu=len(menu))
    return judge


# ---------------------------------------------------------------------------
# random phase

def eval_traces(kind, fx, univ, gidx, seqs, impl):
    """Model and spec traces (Coq) for sequences whose slices are resolved with the implementation's
    length before each step (taken from the probe trace)."""
    exprs = []
    sfx, spec = SUFFIX[kind], SPEC[kind]
    for seq, tr in zip(seqs, impl):
        n = 0
        ops = []
        for op, stp in zip(seq, tr):
            ops.append(coq_op(op, n))
            n = max(0, stp[1][1][0])
        body = '[' + '; '.join(ops) + ']'
        exprs.append(f'(trace_{sfx} {fxs(kind, fx)} {nlist(univ)} {zl(gidx)} {body}, '
                     f'trace_{spec} {nlist(univ)} {zl(gidx)} {body})')
    ans = coq_eval_cases('C18', HEADER, exprs, shard=max(4, min(40, len(exprs) // 4 + 1)), name=f'Rand_{sfx}_')
    out = []
    for a in ans:
        m, s = parse_nat(a)
        out.append(([(e, list(map(list, o))) for e, o in m], [(e, list(map(list, o))) for e, o in s]))
    return out


def first_divergence(judge: Judge | None, kind, seq, tr, mtr, strc, phase, record=True):
    """Walk one traced sequence; returns (index, key) of the first step leaving the spec."""
    for k, (impl, model, spec) in enumerate(zip(tr, mtr, strc)):
        if record:
            key = judge.step(seq[:k + 1], impl, model, spec, phase)
        else:
            cls = classify(kind, impl[0], impl[1], spec[0], spec[1])
            if cls is None and not impl[4]:
                cls = STALE[kind]
            key = None if cls is None else f'{owner(kind, seq[k][0])}.{METHOD[seq[k][0]]}/{cls}'
        if key is not None:
            return k, key
    return None, None


def random_phase(chk: Check, kind, fx, judge: Judge, nseq: int, depth: int, seed: int, seqs=None, label='random'):
    U = 6
    univ = list(range(U))
    gidx = list(range(-U - 1, U + 1))
    rng = random.Random(f'{seed}:{kind}')
    if seqs is None:
        seqs = [[random_op(rng, kind, U) for _ in range(depth)] for _ in range(nseq)]
    nseq = len(seqs)
    rounds = 0
    steps = 0
    while seqs and rounds < 6:
        rounds += 1
        impl = probe(kind, univ, gidx, 'trace', seqs=seqs, chunk=max(50, len(seqs) // 4 + 1))
        both = eval_traces(kind, fx, univ, gidx, seqs, impl)
        again = []
        for seq, tr, (mtr, strc) in zip(seqs, impl, both):
            k, key = first_divergence(judge, kind, seq, tr, mtr, strc, 'random')
            upto = len(seq) if k is None else k + 1
            steps += upto
            for op in seq[:upto]:
                chk.count('op:' + kind, op[0])
            chk.case([kind, seq[:upto]], nontrivial=True)
            if k is not None:
                if key in judge.to_shrink:
                    judge.to_shrink.discard(key)
                    judge.shrunk += 1
                    # bound the time spent on minimisation per kind
                    small = shrink(kind, fx, univ, gidx, seq[:k + 1], key) if judge.shrunk <= 4 else seq[:k + 1]
                    if len(small) < len(judge.keys_seen[key]):
                        judge.keys_seen[key] = small
                        for f in chk.findings:
                            if f['key'] == key:
                                f['replay']['ops'] = small
                                f['replay']['shrunk_from'] = len(seq[:k + 1])
                rest = seq[:k] + seq[k + 1:]
                if len(rest) > k:
                    again.append(rest)
        seqs = again
    chk.notes.setdefault(label, {})[kind] = dict(sequences=nseq, depth=depth, universe=U, rounds=rounds,
                                                    steps_compared=steps)


def badindex_cases(chk: Check, kind: str):
    """A single-element operation that raises leaves the container unchanged - also when what is wrong is the
    index's type or size (implementation alone: list, length, membership and the internal tables before / after)."""
    ops = ['insert', 'setidx', 'delidx', 'pop'] + (['wedge'] if kind == 'linqset' else [])
    cases = [[init, o, b, v] for init in ([0, 2, 4], [2], []) for o in ops for b in ('none', 'str', 'float', 'huge')
             for v in ((1 if kind == 'Predicates' else 3), 5)]
    out = probe_json('probe_containers.py', stdin=json.dumps(dict(kind=kind, universe=list(range(6)), gidx=[0], mode='badindex', cases=cases)),
                     timeout=600)
    for (init, o, b, v), (exn, same, rep) in zip(cases, out):
        chk.case([kind, 'badindex', init, o, b, v], nontrivial=True)
        chk.count('op:' + kind, f'{o}(bad index)')
        if exn is None:
            continue        # the container accepted the index (e.g. pop() with None): nothing claimed here
        if str(exn).startswith('setup:'):
            raise MachineryError(f'badindex setup failed: {exn}')
        if not same or not rep:
            chk.violation(f'{kind}.{o}/failed-operation-changes-container',
                          f'{kind}({init}).{o} with a {b} index and value {v} raises {exn} but leaves the container changed '
                          f'(unchanged={same}, representation consistent={rep})',
                          dict(kind='badindex', container=kind, init=init, op=o, bad=b, value=v, exception=exn))


def keysort_cases(chk: Check, kind: str):
    """sort(key=..., reverse=...) with keys that produce ties: the container must end up in the order the plain
    list's own (stable) sort gives, and index() must agree (implementation against the list specification)."""
    import itertools
    cases = [[list(p), k, r] for n in (3, 4) for p in itertools.permutations(range(4 if kind == 'qset' else 6)[:n + 1], n)
             for k in ('mod2', 'const', 'div2', 'neg') for r in (0, 1)]
    if kind == 'Predicates':
        # one predicate per symbol only (2k and 2k+1 conflict)
        cases = [c for c in cases if len({x // 2 for x in c[0]}) == len(c[0])]
    out = probe_json('probe_containers.py', stdin=json.dumps(dict(kind=kind, universe=list(range(6)), gidx=[0], mode='keysort', cases=cases)),
                     timeout=600)
    for (elems, k, r), (got, want, idx, widx) in zip(cases, out):
        chk.case([kind, 'keysort', elems, k, r], nontrivial=True)
        chk.count('op:' + kind, 'sort(key,reverse)')
        if got != want or idx != widx:
            chk.violation(f'{kind}.sort/key-reverse-order',
                          f'{kind}({elems}).sort(key={k}, reverse={bool(r)}) gives {got} (index {idx}); a plain list gives {want} (index {widx})',
                          dict(kind='keysort', container=kind, elements=elems, key=k, reverse=bool(r), observed=got, expected=want))


def shrink(kind, fx, univ, gidx, seq, key, max_rounds=10):
    """Delta-debugging: remove chunks of operations (halving the chunk size) while the last step
    still leaves the specification with the same key."""
    cur = seq
    chunk = max(1, (len(cur) - 1) // 2)
    for _ in range(max_rounds):
        n = len(cur) - 1                      # the last operation stays
        cands = [cur[:i] + cur[i + chunk:] for i in range(0, n, chunk) if i + chunk <= n]
        hit = None
        if cands:
            impl = probe(kind, univ, gidx, 'trace', seqs=cands, chunk=1000)
            both = eval_traces(kind, fx, univ, gidx, cands, impl)
            for c, tr, (mtr, strc) in zip(cands, impl, both):
                k, kk = first_divergence(None, kind, c, tr, mtr, strc, 'shrink', record=False)
                if kk == key and k == len(c) - 1:
                    hit = c
                    break
        if hit is not None:
            cur = hit
            chunk = min(chunk, max(1, len(cur) - 1))
        elif chunk == 1:
            break
        else:
            chunk = max(1, chunk // 2)
    return cur


# ---------------------------------------------------------------------------

THEOREMS = ['C18_qset_refines', 'C18_qset_sequences', 'C18_qset_setslice_refuted',
            'C18_linqset_refines', 'C18_linqset_sequences', 'C18_linqset_setitem_refuted',
            'C18_predicates_refines', 'C18_predicates_sequences', 'C18_predicates_no_conflict',
            'C18_predicates_lookup_total', 'C18_predicates_setslice_refuted',
            'C18_observations_agree', 'C18_failed_single_op_is_noop']      # order of coq/Props/C18.v


def run(args) -> int:
    chk = Check('C18', args.tier, args.seed)
    chk.rule = ('one case = one operation sequence on one container kind, compared with the Coq-evaluated '
                'specification and model after its last operation (exhaustive) or after every operation (random); '
                'distinct = distinct (kind, sequence); every case is non-trivial (at least one operation)')
    ensure_theory()
    chk.assumptions = props_assumptions('C18')
    chk.theorems = THEOREMS
    if len(chk.assumptions) != len(THEOREMS):
        raise MachineryError(f'Props/C18.v: {len(chk.assumptions)} Print Assumptions answers for '
                             f'{len(THEOREMS)} theorems')
    for name, a in zip(THEOREMS, chk.assumptions):
        closed = a.startswith('Closed')
        chk.obligation(f'{name}: closed under the global context', closed)
        if not closed:
            chk.violation(f'theorem:{name}', f'{name} depends on {a}',
                          dict(kind_of_case='theorem', theorem=name, assumptions=a), found_input=False)
    fx = detect_variants()
    chk.notes['model_variant'] = {k: ('repaired' if (all(v) if isinstance(v, tuple) else v) else 'current code')
                                  for k, v in fx.items()}
    depth = 3 if args.tier == 'quick' else 4
    nrand, rdepth = (60, 40) if args.tier == 'quick' else (800, 40)
    import time
    for kind in KINDS:
        t0 = time.time()
        judge = exhaustive(chk, kind, fx[kind], depth)
        t1 = time.time()
        random_phase(chk, kind, fx[kind], judge, nrand, rdepth, args.seed)
        if kind == 'Predicates':
            # slice assignment with several arriving predicates, some conflicting with a member that leaves and some
            # with one that stays (value n = Predicate(n // 2, 0, 1 + n % 2): 2k and 2k+1 share a symbol)
            import itertools
            tseqs = []
            for init in ([0, 2, 4], [1, 2, 5], [0, 3, 4], [0, 2]):
                for i, j in ((0, 2), (1, 3), (0, 3), (0, 1), (2, 3), (1, 2)):
                    vals = list(itertools.permutations(range(6), 2)) + list(itertools.permutations(range(6), 3))[::3]
                    for vs in vals:
                        tseqs.append([['extend', list(init)], ['setslice', i, j, None, list(vs)]])
            random_phase(chk, kind, fx[kind], judge, 0, 2, args.seed, seqs=tseqs, label='targeted-slice-conflicts')
        if kind in ('qset', 'Predicates'):
            keysort_cases(chk, kind)
        badindex_cases(chk, kind)
        chk.notes.setdefault('timing_s', {})[kind] = dict(exhaustive=round(t1 - t0, 1),
                                                          random=round(time.time() - t1, 1))
    chk.exhaustive = False
    chk.checker_cmd = ('coqc coq/Props/C18.v (theorems); coqc coq/gen/C18/*.v (vm_compute of model and '
                       'specification on every compared sequence); tools/probe_containers.py (implementation)')
    chk.trusted += ['CPython slice.indices / range (a slice reaches the model as its explicit index list)',
                    'coq/theories/Cont/{Qset,Linqset,Predicates}.v transcribe the methods by hand; tied to '
                    '/repo only by the correspondence run',
                    'coq/theories/Cont/Spec.v: the list-without-duplicates specification']
    chk.notes['explanation'] = (
        'obligations = the Print Assumptions answers of the property theorems (must be closed). The theorems '
        'state, for ALL operation sequences, that the models of qset/linqset/Predicates refine the plain-list '
        'specification for every operation except the ones named in the *_refuted theorems (current code), and '
        'for every operation in the repaired variants. cases = implementation runs compared with Coq-evaluated '
        'expectations. A known finding is an operation at which the implementation leaves the specification '
        'exactly as the refuted theorem predicts.')
    return chk.finish()


def replay(path: str) -> int:
    rep = json.load(open(path))
    kind, seq, univ, gidx = rep['container'], rep['ops'], rep['universe'], rep['gidx']
    ensure_theory()
    fx = detect_variants()[kind]
    tr = probe(kind, univ, gidx, 'trace', seqs=[seq])[0]
    mtr, strc = eval_traces(kind, fx, univ, gidx, [seq], [tr])[0]
    bad = False
    for k, (impl, model, spec) in enumerate(zip(tr, mtr, strc)):
        cls = classify(kind, impl[0], impl[1], spec[0], spec[1])
        if cls is None and not impl[4]:
            cls = STALE[kind]
        if cls is not None or not impl[2] or not impl[3]:
            print(f'replay: step {k} {json.dumps(seq[k])}: ' +
                  (describe(kind, seq[:k + 1], impl[0], impl[1], spec[0], spec[1]) if cls else
                   f'noop_ok={impl[2]} alias_ok={impl[3]}'))
            bad = True
            break
        if rep.get('clause') == 'model-correspondence' and (impl[0], impl[1]) != tuple(model):
            print(f'replay: step {k}: implementation {impl[:2]} vs model {model}')
            bad = True
            break
    if bad:
        print(f'VIOLATION property=C18 replay={path}')
        return 1
    print('replay: the sequence now agrees with the specification')
    return 0
