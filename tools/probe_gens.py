"""Runs in the implementation's interpreter: the value the evaluator gives to
ExFx / UxFx (and <>A / []A in modal logics) on models realising every list of
body values up to length 3 (complete).  Output {logic: {gen: [[list, value],...]}}."""
import itertools, json, sys

def main():
    from pytableaux.lang import Atomic, Constant, Operator, Predicate, Predicated, Quantified, Quantifier, Variable
    from pytableaux.logics import registry
    registry.import_all()
    F = Predicate(0, 0, 1)
    x = Variable(0, 0)
    A = Atomic(0, 0)
    res = {}
    for modname in sorted(registry.modules):
        logic = registry(modname)
        Meta = logic.Meta
        vals = list(Meta.values)
        ent = {}
        lists = [l for n in range(0, 4) for l in itertools.product(vals, repeat=n)]
        if Meta.quantified:
            for q in Quantifier:
                rows = []
                s = Quantified(q, x, Predicated(F, (x,)))
                for l in lists:
                    if not l:
                        continue
                    try:
                        m = logic.Model()
                        for i, v in enumerate(l):
                            m.set_predicated_value(Predicated(F, (Constant(i, 0),)), v)
                        m.finish()
                        out = m.value_of(s).name
                    except Exception as e:
                        out = f'!{type(e).__name__}'
                    rows.append([[v.name for v in l], out])
                ent[q.name] = rows
        if Meta.modal:
            for o in (Operator.Possibility, Operator.Necessity):
                rows = []
                s = o(A)
                for l in lists:
                    try:
                        m = logic.Model()
                        m.set_atomic_value(A, Meta.unassigned_value, world=0)
                        for i, v in enumerate(l):
                            m.R.add((0, i + 1))
                            m.set_atomic_value(A, v, world=i + 1)
                        # evaluate before enforce-type closure changes what world 0 sees:
                        # use a model whose Access is the plain one by reading R directly
                        m._complete_frames(); m._finished = True
                        out = m.value_of(s, world=0).name
                    except Exception as e:
                        out = f'!{type(e).__name__}'
                    rows.append([[v.name for v in l], out])
                ent[o.name] = rows
        res[Meta.name] = ent
    json.dump(res, sys.stdout)

if __name__ == '__main__':
    main()
