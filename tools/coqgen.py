"""Emit Gallina literals for the facts extracted from /repo (fail-closed)."""
from __future__ import annotations

from vlib import coq_list, coq_string

VALS = ['F', 'N', 'B', 'T']
UOPS = ['Assertion', 'Negation']
BOPS = ['Conjunction', 'Disjunction', 'MaterialConditional', 'MaterialBiconditional',
        'Conditional', 'Biconditional']
MOPS = ['Possibility', 'Necessity']


class Inexpressible(Exception):
    "The extracted fact cannot be expressed in the model's vocabulary."


def V(name: str) -> str:
    if name not in VALS:
        raise Inexpressible(f'value {name!r} outside the four-valued vocabulary')
    return 'V' + name


def ident(name: str) -> str:
    out = ''.join(ch if ch.isalnum() else '_' for ch in name)
    return out


def emit_fun1(rows: dict) -> str:
    "rows: {a: out}; total on the 4 values (missing -> VF, never consulted on the value set)."
    arms = ' | '.join(f'{V(a)} => {V(rows[a])}' for a in VALS if a in rows)
    dflt = '' if all(a in rows for a in VALS) else ' | _ => VF'
    return f'(fun a => match a with {arms}{dflt} end)'


def emit_fun2(rows: dict) -> str:
    arms = ' | '.join(f'{V(a)}, {V(b)} => {V(o)}' for (a, b), o in rows.items())
    dflt = '' if len(rows) == 16 else ' | _, _ => VF'
    return f'(fun a b => match a, b with {arms}{dflt} end)'


def emit_tables(L: dict, source: str = 'tables') -> str:
    """Gallina `tables` record for one logic from its extracted truth tables."""
    vals = L['values']
    tabs = L[source]
    un = {}
    for o in UOPS:
        rows = tabs.get(o)
        if not isinstance(rows, list):
            raise Inexpressible(f"{L['name']}: no table for {o}: {rows}")
        un[o] = {inp[0]: out for inp, out in rows}
        if set(un[o]) != set(vals):
            raise Inexpressible(f"{L['name']}: table for {o} not total")
    bi = {}
    for o in BOPS:
        rows = tabs.get(o)
        if not isinstance(rows, list):
            raise Inexpressible(f"{L['name']}: no table for {o}: {rows}")
        bi[o] = {(inp[0], inp[1]): out for inp, out in rows}
        if len(bi[o]) != len(vals) ** 2:
            raise Inexpressible(f"{L['name']}: table for {o} not total")
    des = ' | '.join(V(d) for d in L['designated'])
    des_f = f'(fun v => match v with {des} => true | _ => false end)' if des else '(fun _ => false)'
    un_f = 'fun o => match o with ' + ' | '.join(f'{o} => {emit_fun1(un[o])}' for o in UOPS) + ' end'
    bi_f = 'fun o => match o with ' + ' | '.join(f'{o} => {emit_fun2(bi[o])}' for o in BOPS) + ' end'
    return ('{| t_vals := ' + coq_list([V(v) for v in vals]) + ';\n'
            f'   t_des := {des_f};\n   t_un := {un_f};\n   t_bin := {bi_f} |}}')
