"""Runs in the implementation's interpreter (C06): steps real tableaux and reports, for every
rule application, the constants / worlds it introduced and whether they occurred on the target
branch before the step; after every step re-derives each branch's constants/worlds from its
nodes and compares with what the branch reports.  Decides nothing.

stdin JSON: {"cases": [[logic, argstr(polish, 'conc:prem:prem')]...], "max_steps": int, "export_branches": int}
stdout JSON: {"static": {logic: {rule: ["const"|"world"...]}},
              "cases": [{"logic","arg","steps","error","intro":[...], "bad":[...], "branch_bad":[...], "branches":[...]}]}
"""
import inspect
import json
import re
import sys


def main():
    from pytableaux.lang import Argument
    from pytableaux.logics import registry
    from pytableaux.proof import Tableau
    from pytableaux.proof.common import Modal, SentenceNode
    if '--meta' in sys.argv:
        from pytableaux import examples
        registry.import_all()
        json.dump(dict(logics=[dict(name=registry(m).Meta.name, modal=bool(registry(m).Meta.modal),
                                    quantified=bool(registry(m).Meta.quantified)) for m in sorted(registry.modules)],
                       examples=[a.argstr() for a in examples.arguments.values()]), sys.stdout)
        return
    req = json.load(sys.stdin)
    max_steps = req.get('max_steps', 150)
    export = req.get('export_branches', 0)

    def nsent(n):
        try:
            return n.get('sentence')
        except Exception:
            return None

    def nconsts(n):
        s = nsent(n)
        return set(s.constants) if s is not None else set()

    def nworlds(n):
        return set(w for w in (n.get('world'), n.get('world1'), n.get('world2')) if isinstance(w, int))

    def derive(b):
        cons, wor = set(), set()
        for n in b:
            if isinstance(n, SentenceNode):
                cons |= set(n['sentence'].constants)
            if isinstance(n, Modal):
                wor |= set(n.worlds())
        return cons, wor

    cpair = lambda c: [c.index, c.subscript]
    ckey = lambda c: (c.subscript, c.index)

    def absnode(n):
        f = n.get('flag')
        s = nsent(n)
        return dict(flag=None if f is None else (f if f in ('closure', 'quit') else 'other'),
                    consts=None if s is None else [cpair(c) for c in sorted(s.constants, key=ckey)],
                    des=n.get('designated') is not None,
                    world=n.get('world'), world1=n.get('world1'), world2=n.get('world2'))

    # rules whose own source asks the branch for a new constant / world
    static = {}

    def scan(logic):
        name = logic.Meta.name
        if name in static:
            return
        res = {}
        for cls in logic.Rules.all():
            kinds = set()
            for meth in ('_get_node_targets', '_get_targets', '_get_constant_nodes', '_get_sdw_targets'):
                fn = getattr(cls, meth, None)
                fn = getattr(fn, '__wrapped__', fn)
                try:
                    src = inspect.getsource(fn)
                except Exception:
                    continue
                src = '\n'.join(l for l in src.splitlines() if not l.lstrip().startswith('#'))
                if re.search(r'\.new_constant\(\)', src):
                    kinds.add('const')
                if re.search(r'\.new_world\(\)', src):
                    kinds.add('world')
            if kinds:
                res[cls.name] = sorted(kinds)
        static[name] = res

    out = []
    exported = 0
    for logic_name, argstr in req['cases']:
        rec = dict(logic=logic_name, arg=argstr, steps=0, error=None, intro=[], bad=[], branch_bad=[], branches=[])
        out.append(rec)
        try:
            logic = registry(logic_name)
            scan(logic)
            try:
                from pytableaux.proof import common as _common
                _common._verif_serial[0] = 0       # same node hashes in a replay of this case alone
            except Exception:
                pass
            tab = Tableau(logic, Argument(argstr), max_steps=max_steps)

            def check_branches(step, which=None):
                # closed branches never change again: only the given branches are re-derived
                for bi, b in (enumerate(tab) if which is None else which):
                    cons, wor = derive(b)
                    nc, nw = b.new_constant(), b.new_world()
                    what = []
                    if nc in cons:
                        what.append('new_constant-on-branch')
                    if any(w >= nw for w in wor):
                        what.append('new_world-on-branch')
                    if set(b.constants) != cons:
                        what.append('constants-set')
                    if set(b.worlds) != wor:
                        what.append('worlds-set')
                    if what:
                        rec['branch_bad'].append(dict(step=step, branch=bi, what=what, nc=cpair(nc), nw=nw))

            check_branches(0)
            import time as _time
            t_end = _time.time() + float(req.get('budget_s', 5))
            while True:
                if _time.time() > t_end:
                    rec['cut'] = True      # wall-clock budget of the probe, not a property of the tableau
                    break
                snap = {}
                live = [(None, b) for b in tab.open]
                nb = len(tab)
                for _, b in live:
                    cons, wor = derive(b)
                    snap[id(b)] = (cons, wor, b.new_constant(), b.new_world())
                e = tab.step()
                if not e:
                    break
                rec['steps'] += 1
                t = e.target
                rule = e.rule.name
                pre = snap.get(id(t.branch))
                if pre is not None:
                    princ = [n for n in ([t.get('node')] + list(t.get('nodes') or ())) if n is not None]
                    pc, pw = set(), set()
                    for n in princ:
                        pc |= nconsts(n)
                        pw |= nworlds(n)
                    if t.get('constant') is not None:
                        pc.add(t['constant'])
                    for k in ('world', 'world1', 'world2'):
                        if isinstance(t.get(k), int):
                            pw.add(t[k])
                    ac, aw = set(), set()
                    for grp in (t.get('adds') or ()):
                        for n in grp:
                            ac |= nconsts(n)
                            aw |= nworlds(n)
                    for c in sorted(ac - pc, key=ckey):
                        item = dict(rule=rule, kind='const', item=cpair(c), step=rec['steps'],
                                    is_offer=(c == pre[2]), on_branch=(c in pre[0]))
                        rec['intro'].append(item)
                        if c in pre[0]:
                            rec['bad'].append(item)
                    for w in sorted(aw - pw):
                        item = dict(rule=rule, kind='world', item=w, step=rec['steps'],
                                    is_offer=(w == pre[3]), on_branch=(w in pre[1]))
                        rec['intro'].append(item)
                        if w in pre[1]:
                            rec['bad'].append(item)
                index = {id(b): i for i, b in enumerate(tab)}
                check_branches(rec['steps'], [(index.get(id(b), -1), b) for _, b in live] +
                               [(i, tab[i]) for i in range(nb, len(tab))])
            rec['verdict'] = dict(valid=tab.valid, invalid=tab.invalid, premature=tab.premature)
            if exported < export:
                for b in tab:
                    if exported >= export:
                        break
                    exported += 1
                    nc = b.new_constant()
                    rec['branches'].append(dict(
                        nodes=[absnode(n) for n in b],
                        obs=dict(nc=cpair(nc), nw=b.new_world(),
                                 consts=[cpair(c) for c in sorted(b.constants, key=ckey)],
                                 worlds=sorted(b.worlds), closed=bool(b.closed))))
        except Exception as ex:  # noqa
            rec['error'] = f'{type(ex).__name__}: {ex}'[:300]
    json.dump(dict(static=static, cases=out), sys.stdout)


if __name__ == '__main__':
    main()
