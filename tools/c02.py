"""C02 — an 'invalid' verdict comes with a genuine countermodel."""
from __future__ import annotations

import json
import random
import re

import coqgen
import c01
from vlib import (Check, MachineryError, coq_eval_cases, coqc, ensure_theory, gen_dir, probe_json,
                  props_assumptions)

HEADER = c01.HEADER.replace('Tab.FullTab Tab.FullSound.', 'Tab.FullTab Tab.FullSound Tab.Saturate Tab.PropTerm Tab.FullComplete.')
CLAUSE = {1: 'unticked-compound', 2: 'no-extension-on-branch', 3: 'missing-instance', 4: 'frame-rule-unapplied',
          5: 'no-rule-for-shape', 6: 'serial-successor-missing'}
FDE_FAMILY = {'FDE', 'KFDE', 'TFDE', 'S4FDE', 'S5FDE'}


PER_WORLD = {'NecessityDesignated', 'NecessityNegatedUndesignated', 'PossibilityUndesignated', 'PossibilityNegatedDesignated',
             'Necessity', 'PossibilityNegated'}


def clause_key(logic, c, shape, over=True, ob=None):
    "Stable key of an unsaturation: the shared call site where one exists, else (logic, clause, shape)."
    if c == 3 and shape in PER_WORLD:
        return 'unsaturated:missing-instance:kfde.NecessityDesignated(NodeCount.isleast/MaxWorlds)'
    if c == 4:
        if not over:
            # the known defect only bites once the branch has MORE worlds than projected
            return f'unsaturated:{logic}:frame-rule-unapplied-within-world-projection'
        return 'unsaturated:frame-rule-unapplied:rules.AccessNodeRule(MaxWorlds silent stop)'
    if c == 6:
        ls = (ob or {}).get('last_step') or {}
        if ob is not None and not (ls.get('rule') == 'Serial' and ls.get('same_branch')):
            # the known defect (no two Serial steps in a row on a branch) only bites when the tableau's very last
            # step was a Serial step on this same branch
            return f'unsaturated:{logic}:serial-successor-missing:not-after-own-serial-step'
        return 'unsaturated:serial-successor-missing:rules.access.Serial(_should_apply)'
    if c == 7:
        return 'unsaturated:identity-symmetry:cpl.IdentityIndiscernability(never yields b = a from a = b)'
    if c == 8:
        return 'unsaturated:identity-single-occurrence:cpl.IdentityIndiscernability(replaces all occurrences at once)'
    if c == 9:
        return f'unsaturated:{logic}:identity-substitution-unapplied'
    return f'unsaturated:{logic}:{CLAUSE.get(c, str(c))}:{shape}'


def emit_complete(chk, g, facts, rules):
    "Per logic: FLC_<L> (all expressible rules), general weights (untrusted hint) and the lemma complete_okF."
    import rulegen, weights, c04, c05
    from vlib import coq_string, write_if_changed
    logics = facts['logics']
    data = c04.gather(facts, rules)
    exprs, hints = [], {}
    for L in logics:
        n = L['name']
        i = coqgen.ident(n)
        ops = [it['rule'] for it in data[n] if it['kind'] == 'op' and it['term'] and not it['error'] and not it['problems']]
        gst = []
        for it in data[n]:
            if it['kind'] in ('quant', 'modal') and it['term'] and not it['error'] and not it['problems']:
                gst.append(rulegen.qrule_struct(it['rule']))
        ws = weights.search_general(ops, gst)
        hints[n] = ws
        if ws is None:
            continue
        t = f'(s_t (fl_S FLA_{i}))'
        exprs.append((n, f'(forallb rule_two_opd (fl_rules FLA_{i}) && '
                         f'forallb (fun r => is_none (tf_complete {t} r)) (fl_rules FLA_{i}) && '
                         f'forallb (fun gr => is_none (q_complete {t} (s_ge (fl_S FLA_{i})) (s_gu (fl_S FLA_{i})) (g_isq gr) (gq gr)) '
                         f'&& wit_ok gr && (if g_isq gr then s_quant (fl_S FLA_{i}) else s_modal (fl_S FLA_{i}))) (fl_grules FLA_{i}) && '
                         f'is_none (closure_complete {t} (fl_hd FLA_{i}) (fl_ks FLA_{i})) && closed_ok {t} && gen_closed (fl_S FLA_{i}) && '
                         f'vmem V{L["unassigned"]} (t_vals {t}) && gws_ok ({weights.coq_gwspec(ws)}) && '
                         f'forallb (tf_node_decreases ({weights.coq_gwspec(ws)})) (fl_rules FLA_{i}) && '
                         f'forallb (grule_decreases ({weights.coq_gwspec(ws)})) (fl_grules FLA_{i}))'))
    hdr = HEADER + 'Require Import GC02.Rules GC02.Logics.\n'
    answers = coq_eval_cases('C02', hdr, [e for _, e in exprs], shard=12, name='CStatus')
    defs = [hdr, 'From PTProps Require C02.\n']
    has = {}
    for (n, _), ans in zip(exprs, answers):
        i = coqgen.ident(n)
        L = next(x for x in logics if x['name'] == n)
        ok = ans.strip() == 'true'
        has[n] = ok
        chk.obligation(f'{n}:complete_okF(all rules: if-direction, closure completeness, decreasing weights)', ok)
        if ok:
            defs.append(f'Definition WSG_{i} : gwspec := {weights.coq_gwspec(hints[n])}.\n'
                        f'Lemma cok_{i} : complete_okF FLA_{i} V{L["unassigned"]} WSG_{i}.\n'
                        'Proof. constructor; vm_compute; auto 10. Qed.\n'
                        f'Definition C02_{i} := fun b tk => C02.C02_saturated_branch FLA_{i} V{L["unassigned"]} WSG_{i} b tk cok_{i}.\n')
        else:
            chk.violation(f'complete:{n}:obligations',
                          f'{n}: the completeness obligations (if-direction of a rule, closure completeness or weight decrease) are refuted',
                          dict(kind='obligation', logic=n, obligation=f'complete_okF FLA_{i}'), found_input=False)
    write_if_changed(g / 'Complete.v', '\n'.join(defs) + '\n')
    rc, out = coqc(g / 'Complete.v', timeout=900)
    if rc:
        raise MachineryError('generated Complete.v does not compile:\n' + out[-3000:])
    chk.notes['logics_without_decreasing_weights'] = sorted(n for n, w in hints.items() if w is None)
    return has


def gen_jobs(logics, examples, tier, seed):
    rng = random.Random(seed)
    jobs = []
    per_logic_ex = 30 if tier == 'quick' else len(examples)
    n_rand = 14 if tier == 'quick' else 150
    for L in logics:
        n = L['name']
        exs = list(examples)
        if per_logic_ex < len(exs):
            exs = rng.sample(exs, per_logic_ex)
        for e in exs:
            jobs.append(dict(logic=n, example=e, kind='example', models=True))
        for _ in range(n_rand):
            prems, concl = c01.rand_arg(rng, L['modal'], L['quantified'])
            jobs.append(dict(logic=n, premises=prems, conclusion=concl, kind='random', models=True))
        if L['modal'] and L['quantified']:
            # quantified sentences under modal operators: instances must be evaluated at the world of the node
            for a in ('e:MSxFx', 'e:MMSxFx', 'e:MVxCFxGx:MFm', 'e:LSxFx:MNFm', 'SxLFx:MSxFx', 'e:MKSxFxNFm'):
                jobs.append(dict(logic=n, argstr=a, kind='modal-quantified', models=True))
        if 'SelfIdentityClosure' in L['closure'] and L['modal']:
            # identity is world-relative: a = b at one world says nothing about Fa / Fb at another
            for a in ('e:Imn:MKFmNFn', 'e:MImn:KFmNFn', 'e:Imn:MNImn'):
                jobs.append(dict(logic=n, argstr=a, kind='identity-worlds', models=True))
        if 'SelfIdentityClosure' in L['closure']:
            # identity: symmetry, single-occurrence substitution, transitivity through a mirror image
            for a in ('Imn:Inm', 'Fmn:Fmm:Imn', 'Imo:Inm:Ino', 'Fnm:Fmn:Imn', 'Gnn:Imn:Gmn', 'e:AaImn:Gmn:NGnn', 'Hnnn:Imn:Hmmm'):
                jobs.append(dict(logic=n, argstr=a, kind='identity', models=True))
    for i, j in enumerate(jobs):
        j['id'] = i
    return jobs


def run(args) -> int:
    chk = Check('C02', args.tier, args.seed)
    ensure_theory()
    facts = probe_json('probe_facts.py')
    rules = probe_json('probe_rules.py')
    logics = facts['logics']
    byname = {L['name']: L for L in logics}
    g = gen_dir('C02')
    info = c01.emit_logics(chk, g, facts, rules, pid='C02')
    chk.obligations = []          # the fsound_ok obligations belong to C01; C02 counts its own below
    # the propositional countermodel theorem's obligations (decide_ok) are those of C03: re-decided here
    import c03
    g3 = gen_dir('C02p')
    info3 = c03.emit_logics(chk, g3, facts, rules, pid='C02p')
    has_thm = emit_complete(chk, g, facts, rules)
    examples = probe_json('probe_examples.py')['titles']
    jobs = gen_jobs(logics, examples, args.tier, args.seed)
    # every truth-functional rule once in the trunk of an (almost always) invalid argument: the model read off the open
    # branches must satisfy the rule's principal node
    import c03 as _c03
    A_, B_, C_ = ['A', 0], ['A', 1], ['A', 2]
    per_rule_base, per_rule_more = [], []
    for n_, ent in rules.items():
        for rule in ent['rules']:
            if rule.get('kind') != 'op' or 'error' in rule:
                continue
            o = rule['operator']
            phi = ['U', o, A_] if o in _c03.TF_OPS_U else ['B', o, A_, B_]
            if rule['negated']:
                phi = ['U', 'Negation', phi]
            lits = [A_, B_, ['U', 'Negation', A_], ['U', 'Negation', B_]]
            for extra in ([], [lits[0]], [lits[1]], [lits[2]], [lits[3]], [lits[2], lits[3]], [lits[0], lits[3]], [lits[2], lits[1]]):
                if rule['designation'] is not False:
                    j_ = dict(logic=n_, premises=[phi] + extra, conclusion=C_, kind='per-rule', models=True, rule=rule['name'])
                else:
                    j_ = dict(logic=n_, premises=extra, conclusion=phi, kind='per-rule', models=True, rule=rule['name'])
                (per_rule_base if not extra else per_rule_more).append(j_)
    _rng = random.Random(f'{args.seed}:per-rule')
    # rules whose exactness obligation (C03/C04) is refuted and that are not recorded there as known findings get
    # every operand-forcing variant in the quick tier too (the failing-input search for the Hintikka step)
    known_rule_keys = {k for (pid_, k), f in chk.known.items() if f.get('status') == 'open' and pid_ in ('C03', 'C04', 'C01')}
    suspects = {(n_, rn) for n_, v in info3.items() for rn in v.get('bad_rules', ())
                if not any(k.endswith(f'{n_}:{rn}') or f':{n_}:{rn}:' in k for k in known_rule_keys)}
    targeted = [j_ for j_ in per_rule_more if (j_['logic'], j_['rule']) in suspects]
    rest = [j_ for j_ in per_rule_more if (j_['logic'], j_['rule']) not in suspects]
    jobs += per_rule_base + targeted + (rest if args.tier != 'quick' else _rng.sample(rest, min(len(rest), 500)))
    chk.notes['per_rule_targeted'] = sorted(f'{a}:{b}' for a, b in suspects)
    for i_, j_ in enumerate(jobs):
        j_['id'] = i_
    orders = [0] if args.tier == 'quick' else [0, 1, 2]
    n_branches = n_cert = 0
    model_err_unattributed, model_err_attributed = {}, set()
    for order in orders:
        res = probe_json('probe_gproofs.py', stdin=json.dumps(dict(jobs=jobs)), timeout=6000, order=order)['results']
        exprs, idx = [], []
        for job, r in zip(jobs, res):
            n = job['logic']
            chk.count('kind', job['kind'])
            if not r.get('ok'):
                chk.violation(f'run:{n}:exception:{r.get("error", "").split(":")[0]}',
                              f"{n}: building the tableau / its models raised {r.get('error')}",
                              dict(kind='proof', job=job, order=order, error=r.get('error'), tb=r.get('tb')))
                continue
            if r.get('timeout') or not r.get('invalid'):
                chk.count('not_invalid', 'valid/timeout/unfinished')
                continue
            i = coqgen.ident(n)
            for ob in r.get('open_branches') or []:
                if ob['limit_flag']:
                    chk.count('branches', 'limit-flag (excluded)')
                    continue
                chk.count('branches', 'limit-free open')
                if ob.get('model') is None and not r.get('model_error'):
                    chk.violation(f'model:{n}:missing', f'{n}: an open branch of an invalid tableau has no model',
                                  dict(kind='branch', job=job, order=order, branch=ob['index']))
                    continue
                S = f'(fl_S FL_{i})'
                sat = (f'unsaturated FLA_{i} {ob["nodes"]} {ob["ticked"]}, branch_okb FLA_{i} {ob["nodes"]} {ob["ticked"]}, '
                       f'List.app (ident_unsaturated FLA_{i} {ob["nodes"]}) (if ident_conflict FLA_{i} {ob["nodes"]} then [(0, 99)] else [])')
                if ob.get('model') is None:
                    # the model builder raised ModelValueError for this tableau: no model to evaluate, saturation only
                    exprs.append(f'(@nil nat, true, {sat})')
                else:
                    M = f'(model_of {ob["model"]})'
                    exprs.append(f'(failing_from {S} {M} 0 {ob["nodes"]}, is_countermodel {S} {M} {r["prems"]} {r["concl"]}, {sat})')
                idx.append((job, r, ob))
        answers = coq_eval_cases('C02', HEADER + 'Require Import GC02.Rules GC02.Logics.\n', exprs, shard=200,
                                 name=f'Branches{order}_')
        for (job, r, ob), ans in zip(idx, answers):
            n = job['logic']
            n_branches += 1
            m = re.match(r'\(\[(.*?)\], (true|false), \[(.*?)\], (true|false), \[(.*)\]\)$', ans)
            if not m:
                raise MachineryError(f'cannot parse branch status: {ans[:200]}')
            failing = [int(x) for x in m.group(1).split(';') if x.strip()]
            cm = m.group(2) == 'true'
            unsat = [(int(a), int(b_)) for a, b_ in re.findall(r'\((\d+), (\d+)\)', m.group(3))]
            ident = [(int(a), int(b_)) for a, b_ in re.findall(r'\((\d+), (\d+)\)', m.group(5))]
            id_conflict = (0, 99) in ident           # the branch would close under the full identity rule
            ident = [x for x in ident if x != (0, 99)]
            unsat_all = unsat + ident
            if m.group(4) == 'true' and has_thm.get(n):
                chk.count('branches', 'under theorem C02_saturated_branch')
            label = job.get('example') or [job.get('premises'), job.get('conclusion')]
            nontriv = ob['n_nodes'] >= 4
            chk.case([n, label, ob['index'], order], nontrivial=nontriv,
                     sample=dict(logic=n, argument=r['argstr'], branch=ob['index'], nodes=ob['n_nodes'],
                                 countermodel=cm, unsaturated=unsat[:3]) if nontriv and len(chk.samples) < 8 else None)
            rep = dict(kind='branch', logic=n, example=job.get('example'), premises=job.get('premises'),
                       conclusion=job.get('conclusion'), argstr=r['argstr'], order=order, branch=ob['index'],
                       failing_nodes=failing, countermodel=cm, unsaturated=unsat, lib_node_ok=ob.get('lib_node_ok'),
                       lib_countermodel=ob.get('lib_countermodel'))
            lib_fail = [k for k, v in enumerate(ob.get('lib_node_ok') or []) if v is not True]
            coq_bad = bool(failing) or not cm
            lib_bad = bool(lib_fail) or ob.get('lib_countermodel') is not True
            over = ob.get('max_worlds') is not None and ob.get('n_worlds', 0) > ob['max_worlds']
            keys = sorted({clause_key(n, c, ('frame' if c in (4, 6, 7, 8, 9) else ob['shapes'][k]), over, ob) for k, c in unsat_all})
            if ob.get('model') is None:
                # ModelValueError while reading this tableau's open branches
                rep.update(model_error=r.get('model_error'), tb=r.get('model_tb'))
                explained = bool(unsat) or (bool(ident) and id_conflict)
                if not explained:
                    # saturated - or unsaturated only in ways that do not make the branch unsatisfiable: the refusal is
                    # not explained by a missing rule instance
                    model_err_unattributed.setdefault((n, r['argstr'], order), rep)
                    continue
                model_err_attributed.add((n, r['argstr'], order))
                lib_bad = True
            unsat = unsat_all
            if not coq_bad and not lib_bad and not unsat:
                n_cert += 1
                continue
            if n in FDE_FAMILY and coq_bad != lib_bad and not unsat:
                # the library evaluates with the linear-order tables, the documented semantics is the lattice: C07's finding
                chk.count('cross_referenced', 'C07 tt:FDE-family (N,B)')
                continue
            if unsat:
                for key in keys:
                    chk.violation(key,
                                  f"{n}: a 'completed' open branch calls for a rule instance that was never applied ({key}); "
                                  f"its model {'is not a countermodel / does not satisfy the branch' if (coq_bad or lib_bad) else 'happens to be a countermodel'}; "
                                  f"argument {r['argstr']}", rep)
                continue
            chk.violation(f'countermodel:{n}:saturated-branch-not-satisfied',
                          f"{n}: the model read off a saturated open branch does not satisfy nodes {failing or lib_fail} "
                          f"(countermodel: evaluator {cm}, library {ob.get('lib_countermodel')}); argument {r['argstr']}", rep)
    for k3, rep in model_err_unattributed.items():
        if k3 in model_err_attributed:
            continue    # some open branch of the same tableau explains the refusal (reported under its call-site key)
        chk.violation(f'run:{k3[0]}:exception:ModelValueError',
                      f"{k3[0]}: reading the models of the open branches of {k3[1]} raised {rep.get('model_error')} "
                      'although every open branch is saturated', rep)
    chk.notes['open_branches_certified'] = n_cert
    chk.notes['open_branches_examined'] = n_branches
    chk.notes['traces_validated_against_impl'] = n_cert
    for n, v in info3.items():
        pass
    chk.assumptions = props_assumptions('C02')
    chk.theorems = ['C02_saturated_branch', 'C02_saturated_branch_countermodel', 'C02_branch_model_frame', 'C02_countermodel_partial']
    chk.rule = ('invalid proofs of example and random arguments x logics (x hash-order seeds in thorough) with models built; '
                'every limit-free open branch: the library\'s model is exported as data and every branch node and the argument are '
                'evaluated by the Coq evaluator (Sem/Model.v eval) on it, saturation is decided by Tab/Saturate.v unsaturated; '
                'non-trivial = branch with >= 4 nodes')
    chk.checker_cmd = 'coqc gen/C02/{Rules,Logics,Branches*}.v, gen/C02p/* against coq/theories/{Sem,Tab}/*.v, Props/C02.v'
    chk.trusted += ['Sem/Model.v eval as the recursive semantics; probe_gproofs.py model export (frames, access, extensions read from the library\'s model object)']
    chk.notes['explanation'] = (
        'Theorem C02_saturated_branch (Hintikka lemma for the general calculus, modal and quantifier rules included): for every logic with '
        'complete_okF discharged, the model read off any open saturated branch (branch_okb, decided inside Coq per exported branch) satisfies '
        'every node; with C02_saturated_branch_countermodel and C02_branch_model_frame it is a countermodel with the right frame property. '
        'C02_countermodel_partial states the propositional case on certificates for all 57 logics. Per run: every exported open branch is '
        'checked against branch_okb (then the theorem applies to that very branch), the LIBRARY\'s model of it is evaluated inside Coq '
        'against every node and the argument, and saturation failures are reported with their call-site key. Logics whose rewriting rules '
        'admit no decreasing linear weight (logics_without_decreasing_weights) are covered by the per-branch evaluation only.')
    return chk.finish()


def replay(path: str) -> int:
    rep = json.load(open(path))
    class A: pass
    a = A(); a.tier = rep.get('tier', 'quick'); a.seed = rep.get('seed', 0)
    return run(a)
