"""Runs in the implementation's interpreter.  Frame rules: for sets of access
pairs over a small set of worlds (each world carrying a literal), run the real
rules to completion and compare the branch's access pairs with the closure the
logic's frame condition requires.  argv: tier seed."""
from __future__ import annotations

import itertools, json, random, sys
import probe_rules as pr


def closure(pairs, worlds, refl, trans, sym):
    r = set(pairs)
    if refl:
        r |= {(w, w) for w in worlds}
    changed = True
    while changed:
        changed = False
        if sym:
            for (a, b) in list(r):
                if (b, a) not in r:
                    r.add((b, a)); changed = True
        if trans:
            for (a, b) in list(r):
                for (c, d) in list(r):
                    if b == c and (a, d) not in r:
                        r.add((a, d)); changed = True
    return r


def main():
    tier = sys.argv[1] if len(sys.argv) > 1 else 'quick'
    seed = int(sys.argv[2]) if len(sys.argv) > 2 else 0
    registry = pr.setup()
    from pytableaux.lang import Atomic
    from pytableaux.proof import Tableau, anode, sdwnode
    A = Atomic(0, 0)

    def cases_for(name, rng):
        out = []
        sizes = [1, 2, 3]
        for k in sizes:
            worlds = list(range(k))
            allpairs = list(itertools.product(worlds, repeat=2))
            subsets = [c for n in range(len(allpairs) + 1) for c in itertools.combinations(allpairs, n)]
            if k == 3 and tier == 'quick':
                subsets = rng.sample(subsets, 40)
            out.extend((worlds, list(s)) for s in subsets)
        nrand = 10 if tier == 'quick' else 150
        for _ in range(nrand):
            k = rng.randint(4, 6)
            worlds = list(range(k))
            allpairs = list(itertools.product(worlds, repeat=2))
            out.append((worlds, rng.sample(allpairs, rng.randint(0, min(len(allpairs), 2 * k)))))
        return out

    def work(modname):
        logic = registry(modname)
        Meta = logic.Meta
        if not Meta.modal:
            return []
        rng = random.Random(f'{seed}:frames:{Meta.name}')
        names = {r.name for g in logic.Rules.groups for r in g}
        refl, trans, sym, serial = ('Reflexive' in names, 'Transitive' in names, 'Symmetric' in names, 'Serial' in names)
        # the documented frame condition, from the model's access class
        acc = logic.Model.Access.__name__
        need = dict(Access=(False, False, False, False), SerialAccess=(False, False, False, True),
                    ReflexiveAccess=(True, False, False, False),
                    ReflexiveTransitiveAccesss=(True, True, False, False),
                    GlobalAccess=(True, True, True, False))[acc]
        res = []
        # two independent statements of the logic's frame class must agree: the tableau's frame rules and the model's
        # access class (what finish() closes the relation under)
        rules_need = (refl, trans, sym, serial and not refl)
        if tuple(bool(x) for x in need) != tuple(bool(x) for x in rules_need):
            res.append(dict(logic=Meta.name, worlds=[], pairs=[], ok=False, why='frame-class-mismatch', steps=[], flags=[False] * 3,
                            branch_worlds=[],
                            got=f'model access class {acc} = (reflexive, transitive, symmetric, serial) {tuple(map(bool, need))}',
                            expected=f'frame rules {sorted(names & {"Reflexive", "Transitive", "Symmetric", "Serial"})} = {tuple(map(bool, rules_need))}'))
        base_cases = [(w_, p_, False) for w_, p_ in cases_for(Meta.name, rng)]
        # worlds that occur ONLY in access nodes (world 0 alone carries a sentence): the frame condition covers them too
        bare = [(w_, p_, True) for w_, p_, _ in base_cases
                if len(w_) in (2, 3) and p_ and {x for pr_ in p_ for x in pr_} | {0} == set(w_)]
        if tier == 'quick':
            bare = rng.sample(bare, min(len(bare), 25))
        for worlds, pairs, is_bare in base_cases + bare:
            rec = dict(logic=Meta.name, worlds=worlds, pairs=[list(p) for p in pairs], ok=True, why='')
            if is_bare:
                rec['bare'] = True
            try:
                tab = Tableau(logic)
                b = tab.branch()
                d = True if any(getattr(r, 'designation', None) is not None for g in logic.Rules.groups for r in g) else None
                for w in (worlds[:1] if is_bare else worlds):
                    b.append(sdwnode(A, d, w))
                for (w1, w2) in pairs:
                    b.append(anode(w1, w2))
                tab.build()
                if len(tab) != 1 or b.closed:
                    rec.update(ok=False, why='branching-or-closed', got=f'{len(tab)} branches closed={b.closed}', expected='one open branch')
                    res.append(rec); continue
                got = {tuple(n.pair()) for n in b if 'world1' in n}
                seq = [list(n.pair()) for n in b if 'world1' in n]
                rec['steps'] = seq[len(pairs):]
                rec['flags'] = [bool(need[0]), bool(need[1]), bool(need[2])]
                rec['branch_worlds'] = sorted({w for n in b for w in ([n['world']] if 'world' in n and n.get('world') is not None else []) + ([n['world1'], n['world2']] if 'world1' in n else [])})
                carried = {n['world'] for n in b if 'sentence' in n}
                if need[3]:
                    # serial: every world carrying a sentence has a successor; only (w, fresh) pairs are added
                    added = got - set(map(tuple, pairs))
                    fresh_ok = all(w2 not in worlds and w1 in worlds for (w1, w2) in added)
                    succ_ok = all(any(a == w for (a, _) in got) for w in carried)
                    if not (fresh_ok and succ_ok):
                        rec.update(ok=False, why='serial', got=sorted(map(list, got)),
                                   expected='a successor for every world carrying a sentence, only fresh successors added')
                else:
                    exp = closure(set(map(tuple, pairs)), worlds, need[0], need[1], need[2])
                    if got != exp:
                        rec.update(ok=False, why='closure', got=sorted(map(list, got)), expected=sorted(map(list, exp)))
            except Exception as e:
                rec.update(ok=False, why='exception', got=f'{type(e).__name__}: {e}', expected='no exception')
            res.append(rec)
        if need[3]:
            # serial, several branches: each branch's world gets its successor, whatever the other branches did last
            from pytableaux.lang import Argument
            for argstr, nb in (('c:Aab', 2), ('d:Aab:Acb', 4), ('c:AaLb:NMb', 2)):
                rec = dict(logic=Meta.name, worlds=[0], pairs=[], ok=True, why='', branches=nb, argument=argstr)
                try:
                    tab = Tableau(logic, Argument(argstr), max_steps=200)
                    tab.build()
                    opens = [b for b in tab if not b.closed]
                    missing = [list(tab).index(b) for b in opens
                               if not any('flag' in n for n in b)
                               and not all(any('world1' in n and n['world1'] == w for n in b)
                                           for w in {n['world'] for n in b if 'sentence' in n})]
                    rec['steps'] = []
                    rec['flags'] = [False, False, False]
                    rec['branch_worlds'] = [0]
                    if tab.premature or missing:
                        rec.update(ok=False, why='serial-other-branch',
                                   got=f'{len(tab)} branches (premature={bool(tab.premature)}), a world carrying a sentence without successor on branches {missing}',
                                   expected='a successor for every world carrying a sentence on every open branch')
                except Exception as e:
                    rec.update(ok=False, why='exception', got=f'{type(e).__name__}: {e}', expected='no exception')
                res.append(rec)
        return res

    mods = sorted(registry.modules)
    outs = pr.fanout(mods, work)
    json.dump(dict(cases=[r for o in outs for r in o]), sys.stdout)


if __name__ == '__main__':
    main()
