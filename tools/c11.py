"""C11 — declared logic extensions preserve validity."""
from __future__ import annotations

import json
import random
import re

import coqgen
import c01
import c03
from vlib import (Check, MachineryError, coq_eval_cases, coq_string, coqc, ensure_theory, gen_dir, probe_json,
                  props_assumptions, write_if_changed)

CFG = [dict(opts={}, mode='build', prems='orig')]


def general_candidates(rule, modal):
    "Small first-order (and modal) arguments around a quantifier / modal rule's principal shape."
    m_, x = ['c', 0, 0], ['v', 0, 0]
    Fm, Fx = ['P', 0, 0, [m_]], ['P', 0, 0, [x]]
    neg = lambda s_: ['U', 'Negation', s_]
    if rule.get('quantifier'):
        phi = ['Q', rule['quantifier'], 0, Fx]
    else:
        phi = ['M', rule['operator'], Fm]
    if rule['negated']:
        phi = neg(phi)
    others = [Fm, neg(Fm), ['Q', 'Existential', 0, Fx], ['Q', 'Universal', 0, Fx], neg(['Q', 'Existential', 0, Fx]),
              neg(['Q', 'Universal', 0, Fx]), ['A', 0, 0]]
    if modal:
        for o in ('Possibility', 'Necessity'):
            others += [['M', o, Fm], neg(['M', o, Fm]), ['M', o, ['M', o, Fm]], neg(['M', o, ['M', o, Fm]]),
                       ['M', o, ['Q', 'Existential', 0, Fx]], neg(['M', o, ['Q', 'Universal', 0, Fx]])]
    out = []
    for o in others:
        if rule['designation'] is not False:
            out.append(([phi], o))
            out.append(([phi, neg(o)], ['A', 1, 0]))
        else:
            out.append(([o], phi))
            out.append(([], ['B', 'Disjunction', phi, o]))
    return out


def run(args) -> int:
    chk = Check('C11', args.tier, args.seed)
    ensure_theory()
    facts = probe_json('probe_facts.py')
    rules = probe_json('probe_rules.py')
    logics = facts['logics']
    byname = {L['name']: L for L in logics}
    g = gen_dir('C11')
    info = c01.emit_logics(chk, g, facts, rules, pid='C11')       # fsound_ok L' : hypothesis of C11_general
    # declared pairs: L extends L'
    pairs = [(L['name'], lp) for L in logics for lp in L['extension_of']]
    hdr = (c01.HEADER.replace('Tab.FullTab Tab.FullSound.', 'Tab.FullTab Tab.FullSound Tab.Meta Sem.Extend.')
           + 'Require Import GC11.Rules GC11.Logics.\n')
    unknown = [(a, b) for a, b in pairs if b not in byname]
    for a, b in unknown:
        chk.obligation(f'{a}>{b}:declared-logic-exists', False)
        chk.violation(f'extension:{a}>{b}:unknown', f'{a} declares it extends {b}, which is not a registered logic',
                      dict(kind='obligation', pair=[a, b]), found_input=False)
    pairs = [(a, b) for a, b in pairs if b in byname]
    exprs = [f'(sub_sem (fl_S FL_{coqgen.ident(a)}) (fl_S FL_{coqgen.ident(b)}), frame_sub FL_{coqgen.ident(a)} FL_{coqgen.ident(b)})'
             for a, b in pairs]
    answers = coq_eval_cases('C11', hdr, exprs, shard=100, name='Pairs')
    ob = [hdr, 'From PTProps Require C11.\n']
    good_pairs = []
    for (a, b), ans in zip(pairs, answers):
        m = re.match(r'\((true|false), (true|false)\)$', ans)
        if not m:
            raise MachineryError(f'cannot parse pair status {ans}')
        s_ok, f_ok = m.group(1) == 'true', m.group(2) == 'true'
        chk.obligation(f'{a}>{b}:sub_sem', s_ok)
        chk.obligation(f'{a}>{b}:frame_sub', f_ok)
        ia, ib = coqgen.ident(a), coqgen.ident(b)
        if s_ok and f_ok and info[b]['ok']:
            ob.append(f'Lemma sub_{ia}_{ib} : sub_sem (fl_S FL_{ia}) (fl_S FL_{ib}) = true. Proof. vm_compute. reflexivity. Qed.\n'
                      f'Lemma frm_{ia}_{ib} : frame_sub FL_{ia} FL_{ib} = true. Proof. vm_compute. reflexivity. Qed.\n'
                      f'Definition C11_{ia}_{ib} := C11.C11_general FL_{ia} FL_{ib} ok_{ib} neg_{ib} sub_{ia}_{ib} frm_{ia}_{ib}.\n')
            good_pairs.append((a, b))
        if not s_ok:
            ob.append(f'Lemma nsub_{ia}_{ib} : sub_sem (fl_S FL_{ia}) (fl_S FL_{ib}) = false. Proof. vm_compute. reflexivity. Qed.')
        if not f_ok:
            ob.append(f'Lemma nfrm_{ia}_{ib} : frame_sub FL_{ia} FL_{ib} = false. Proof. vm_compute. reflexivity. Qed.')
        if not s_ok:
            chk.violation(f'extension:{a}>{b}:semantics',
                          f'{a} is declared to extend {b} but its semantics is not a sub-semantics of {b} '
                          '(values / designation / tables / generalisers differ on its value set)',
                          dict(kind='pair_obligation', pair=[a, b], obligation='sub_sem'), found_input=False)
        if not f_ok:
            chk.violation(f'extension:{a}>{b}:frame',
                          f'{a} is declared to extend {b} but its frame conditions do not imply those of {b}',
                          dict(kind='pair_obligation', pair=[a, b], obligation='frame_sub'), found_input=False)
    write_if_changed(g / 'Pairs.v', '\n'.join(ob) + '\n')
    rc, out = coqc(g / 'Pairs.v', timeout=900)
    if rc:
        raise MachineryError('generated Pairs.v does not compile:\n' + out[-3000:])

    # ---- correspondence: what the weaker logic proves must not be refuted in the stronger ----------
    examples = probe_json('probe_examples.py')['titles']
    rng = random.Random(args.seed)
    n_ex = 8 if args.tier == 'quick' else 60
    n_rand = 5 if args.tier == 'quick' else 40
    jobs = []
    for a, b in pairs:
        La, Lb = byname[a], byname[b]
        args_ = [dict(example=e) for e in rng.sample(examples, n_ex)]
        for _ in range(n_rand):
            prems, concl = c01.rand_arg(rng, Lb['modal'], Lb['quantified'])      # the weaker logic's vocabulary
            args_.append(dict(premises=prems, conclusion=concl))
        if Lb['modal'] and La['modal']:
            # nested modalities where an outer world already carries the inner operand (valid in every normal modal logic
            # whose designated contradictions close; decided by the weaker logic's own verdict)
            for a_ in ('b:a:MKMaLNa', 'MKcMAab:a:MKcMa', 'MMa:MMKab', 'b:a:MMKaLNMa', 'MAab:a:Ma',
                       # reflexivity-dependent, with a premise that brings the branch up to its projected number of worlds;
                       # literals of one letter at two worlds (closure is per world)
                       'LCLaa:LMb', 'LCLaa:LMb:LMc', 'AKabLNa:b', 'AKabMNa:b'):
                args_.append(dict(argstr=a_))
        if Lb['modal'] and La['modal'] and Lb['quantified'] and La['quantified']:
            # constant-domain interplay of quantifiers and modalities (Barcan-style), valid in every such logic
            for a_ in ('NMSxFx:NSxMFx', 'LVxFx:VxLFx', 'SxMFx:MSxFx', 'NMSxKFxGx:NSxMFx', 'MSxFx:SxMFx'):
                args_.append(dict(argstr=a_))
        if Lb['quantified'] and La['quantified']:
            Fa = ['P', 0, 0, [['c', 0, 0]]]
            Fx = ['P', 0, 0, [['v', 0, 0]]]
            args_.append(dict(premises=[Fa], conclusion=['Q', 'Existential', 0, Fx]))
            args_.append(dict(premises=[['Q', 'Universal', 0, Fx]], conclusion=Fa))
        for k, sp in enumerate(args_):
            gid = len(jobs)
            jobs.append(dict(sp, logic=b, role='weak', group=gid, pair=[a, b], configs=CFG, timeout_ms=2500))
            jobs.append(dict(sp, logic=a, role='strong', group=gid, pair=[a, b], configs=CFG, timeout_ms=2500))
    # a base logic with a rule outside the soundness theorem (C01's obligation refuted): C11_general says nothing
    # about what that rule proves, so look for an argument it proves that the extension refutes
    known_open = {k for (pid_, k), f in chk.known.items() if pid_ == 'C11' and f.get('status') == 'open'}
    rule_by = {(n, it['name']): it for n in rules for it in rules[n]['rules']}
    targeted = {}
    uncovered = []
    for a, b in pairs:
        if f'extension:{a}>{b}:validity-lost' in known_open:
            continue
        for rn in info[b]['bad_rules']:
            rule = rule_by.get((b, rn))
            if not rule:
                continue
            uncovered.append((a, b, rn))
            if rule.get('kind') == 'op':
                cands = c03.candidate_args(rule)
            else:
                cands = general_candidates(rule, byname[a]['modal'] and byname[b]['modal'])
            rng.shuffle(cands)
            for prems, concl in cands[:(80 if args.tier == 'quick' else 400)]:
                gid = len(jobs)
                sp = dict(premises=prems, conclusion=concl)
                jobs.append(dict(sp, logic=b, role='weak', group=gid, pair=[a, b], configs=CFG, timeout_ms=2500))
                jobs.append(dict(sp, logic=a, role='strong', group=gid, pair=[a, b], configs=CFG, timeout_ms=2500))
                targeted[gid] = rn
            chk.count('targeted_search', f'{a}>{b}:{rn}')
    for i, j in enumerate(jobs):
        j['id'] = i
    res = probe_json('probe_verdicts.py', stdin=json.dumps(dict(jobs=jobs)), timeout=6000)['results']
    groups = {}
    for job, r in zip(jobs, res):
        if not r.get('ok'):
            chk.violation(f'raise:{job["logic"]}:{r.get("error", "").split(":")[0]}', f"{job['logic']}: {r.get('error')}",
                          dict(kind='verdicts', job={k: v for k, v in job.items() if k != 'configs'}, error=r.get('error')))
            continue
        groups.setdefault(job['group'], {})[job['role']] = dict(cls=r['outcomes'][0]['cls'], argstr=r['argstr'], job=job)
    for gid, gr in groups.items():
        if 'weak' not in gr or 'strong' not in gr:
            continue
        a, b = gr['weak']['job']['pair']
        wk, st = gr['weak'], gr['strong']
        chk.count('weak_outcome', wk['cls'].split(':')[0])
        nontriv = wk['cls'] == 'valid'
        chk.case([a, b, wk['argstr']], nontrivial=nontriv,
                 sample=dict(extension=a, of=b, argument=wk['argstr'], verdicts=[wk['cls'], st['cls']]) if nontriv and len(chk.samples) < 8 else None)
        if wk['cls'] == 'valid' and st['cls'] == 'invalid':
            vocab_ok = True
            chk.violation(f'extension:{a}>{b}:validity-lost',
                          f"{wk['argstr']} is valid in {b} but refuted by a limit-free open branch in its declared extension {a}",
                          dict(kind='extension', pair=[a, b], argument=wk['argstr'], verdicts=[wk['cls'], st['cls']],
                               job={k: v for k, v in wk['job'].items() if k != 'configs'}))
    # base-logic rules outside the soundness theorem for which the search found no lost validity: the theorem still
    # does not cover what they prove
    lost = {f['key'] for f in chk.findings}
    for a, b, rn in uncovered:
        if f'extension:{a}>{b}:validity-lost' not in lost:
            chk.violation(f'extension:{a}>{b}:base-rule-outside-theorem:{rn}',
                          f'{b} (which {a} is declared to extend) applies the rule {rn} whose soundness obligation is refuted or which no longer '
                          f'fits the rule language: C11_general does not cover what {b} proves through it',
                          dict(kind='pair_obligation', pair=[a, b], rule=rn, obligation=f'fsound_ok covers {rn}'), found_input=False)
    chk.notes['declared_pairs'] = len(pairs)
    chk.notes['pairs_with_theorem'] = len(good_pairs)
    chk.assumptions = props_assumptions('C11')
    chk.theorems = ['C11_general', 'C11_same_evaluation']
    chk.rule = ('declared (extension, base) pairs regenerated from Meta.extension_of; per pair sub_sem and frame_sub decided by the kernel; '
                'correspondence: example and random arguments in the weaker logic\'s vocabulary run in both logics; non-trivial = valid in the weaker logic')
    chk.checker_cmd = 'coqc gen/C11/{Rules,Logics,Pairs*}.v against coq/theories/{Sem/Extend,Tab/Meta}.v, Props/C11.v'
    chk.notes['explanation'] = (
        'C11_general: if L is declared to extend L\' and sub_sem / frame_sub hold (kernel-decided on regenerated tables, generalisers and frame flags), '
        'every argument in L\'s vocabulary with an accepted closed L\'-certificate has no countermodel among L\'s models. With C03 the propositional '
        'clause (valid in L) follows for logics with decide_ok; the real prover is compared on both logics per run.')
    return chk.finish()


def replay(path: str) -> int:
    rep = json.load(open(path))
    class A: pass
    a = A(); a.tier = rep.get('tier', 'quick'); a.seed = rep.get('seed', 0)
    return run(a)
