"""Runs in the implementation's interpreter.  Builds real tableaux step by step
through the public API and exports each finished proof as a certificate tree
for the Coq checker (Tab/PropTab.v): at every step the branch that was
extended, the index of the expanded node on it, and the node groups that were
actually appended (read back from the branches, not from the rule's plan).

stdin: JSON {jobs: [{logic, premises: [stree], conclusion: stree, opts: {...}, mode: 'step'|'build'}]}
stree: ["A", n] | ["P", pred_index, pred_sub, [params]] | ["U", op, s] | ["B", op, a, b]
     | ["M", op, s] | ["Q", quant, var_index, s];  param: ["c", i, sub] | ["v", i, sub]
stdout: JSON {results: [...]}"""
from __future__ import annotations

import json
import sys

import probe_rules as pr


def reset_serial():
    "Hook: restart the node-hash counter so that a tableau's tie-break order does not depend on earlier jobs in this process."
    try:
        from pytableaux.proof import common
        common._verif_serial[0] = 0
    except Exception:
        pass

ACCESS_RULES = {'Reflexive', 'Transitive', 'Symmetric', 'Serial'}


def main():
    registry = pr.setup()
    from pytableaux.lang import (Argument, Atomic, Constant, Operated, Operator, Predicate, Predicated,
                                 Quantified, Quantifier, Variable)
    from pytableaux.proof import Tableau

    ATOM_W = Atomic.TYPE.maxi + 1 if hasattr(Atomic, 'TYPE') else 5
    CONST_W = Constant.TYPE.maxi + 1 if hasattr(Constant, 'TYPE') else 4
    VAR_W = Variable.TYPE.maxi + 1 if hasattr(Variable, 'TYPE') else 4

    def build(t):
        k = t[0]
        if k == 'A':
            return Atomic(t[1] % ATOM_W, t[1] // ATOM_W)
        if k == 'U' or k == 'M':
            return Operator[t[1]](build(t[2]))
        if k == 'B':
            return Operator[t[1]](build(t[2]), build(t[3]))
        if k == 'Q':
            return Quantified(Quantifier[t[1]], Variable(t[2] % VAR_W, t[2] // VAR_W), build(t[3]))
        if k == 'P':
            ps = tuple(Constant(p[1], p[2]) if p[0] == 'c' else Variable(p[1], p[2]) for p in t[3])
            if t[1] < 0:
                pred = {-1: Predicate.Identity, -2: Predicate.Existence}[t[1]] if hasattr(Predicate, 'Identity') else None
            else:
                pred = Predicate(t[1], t[2], len(ps))
            return Predicated(pred, ps)
        raise ValueError(t)

    def coq_term(p):
        if type(p).__name__ == 'Constant':
            return f'(TC {p.subscript * CONST_W + p.index})'
        return f'(TV {p.subscript * VAR_W + p.index})'

    def coq_sent(s):
        tn = type(s).__name__
        if tn == 'Atomic':
            return f'(Atom {s.subscript * ATOM_W + s.index})'
        if tn == 'Operated':
            o = s.operator.name
            if o in ('Possibility', 'Necessity'):
                return f'(Mod {o} {coq_sent(s.lhs)})'
            if s.operator.arity == 1:
                return f'(Un {o} {coq_sent(s.lhs)})'
            return f'(Bin {o} {coq_sent(s.lhs)} {coq_sent(s.rhs)})'
        if tn == 'Quantified':
            v = s.variable
            return f'(Qu {s.quantifier.name} {v.subscript * VAR_W + v.index} {coq_sent(s.sentence)})'
        if tn == 'Predicated':
            p = s.predicate
            # system predicates: 0 = Identity, 1 = Existence; user predicates from 2
            if p.index < 0:
                code = {-1: 0, -2: 1}[p.index]
            else:
                code = 2 + (p.subscript * 4 + p.index) * 8 + p.arity
            return f'(Pred {code} [' + '; '.join(coq_term(x) for x in s.params) + '])'
        raise ValueError(s)

    def coq_node(n):
        if 'sentence' in n:
            d = n.get('designated')
            w = n.get('world')
            return f"NS {coq_sent(n['sentence'])} {'false' if d is False else 'true'} {0 if w is None else int(w)}"
        if 'world1' in n:
            return f"NA {int(n['world1'])} {int(n['world2'])}"
        return None     # flag or other node: not expressible in the propositional checker

    def coq_list(xs):
        return '[' + '; '.join(xs) + ']'

    def tree_term(t):
        if t['kind'] == 'closed':
            return 'TClosed'
        if t['kind'] == 'open':
            return 'TOpen'
        gs = coq_list(coq_list(g) for g in t['groups'])
        ts = coq_list(tree_term(c) for c in t['children'])
        return f"(TStep ({t['step']}) {gs} {ts})"

    def run(job):
        logic = registry(job['logic'])
        prems = [build(p) for p in job['premises']]
        concl = build(job['conclusion'])
        arg = Argument(concl, prems)
        opts = dict(job.get('opts') or {})
        res = dict(logic=logic.Meta.name, id=job.get('id'))
        try:
            reset_serial()
            tab = Tableau(logic, arg, **opts)
            b0 = tab[0]
            trunk_nodes = [coq_node(n) for n in b0]
            root = {'kind': None}
            cursor = {b0: root}
            expressible = all(x is not None for x in trunk_nodes)
            rules_used = []
            nsteps = 0
            while True:
                lens = {br: len(br) for br in tab}
                nb = len(tab)
                entry = tab.step()
                if not entry:
                    break
                nsteps += 1
                rule, target = entry.rule, entry.target
                b = target.branch
                cur = cursor.get(b)
                rules_used.append(rule.name)
                if cur is None:
                    expressible = False
                    continue
                if getattr(rule, 'closure', False):
                    cur['kind'] = 'closed'
                    added = list(b)[lens[b]:]
                    if len(tab) != nb or not all(n.get('flag') == 'closure' for n in added):
                        expressible = False
                    continue
                L = lens[b]
                newbs = list(tab)[nb:]
                groups_raw = [list(b)[L:]] + [list(x)[L:] for x in newbs]
                groups = [[coq_node(n) for n in g] for g in groups_raw]
                if any(x is None for g in groups for x in g):
                    expressible = False
                if rule.name in ACCESS_RULES:
                    n0 = groups_raw[0][0] if groups_raw[0] else None
                    if n0 is None or 'world1' not in n0:
                        expressible = False
                        step = 'StAcc 0 0'
                    else:
                        step = f"StAcc {int(n0['world1'])} {int(n0['world2'])}"
                else:
                    node = target.get('node')
                    try:
                        idx = next(i for i, n in enumerate(b) if n is node)
                    except StopIteration:
                        idx = None
                    if idx is None or target.get('flag'):
                        expressible = False
                        step = 'StTF 0'
                    else:
                        step = f'StTF {idx}'
                    if getattr(rule, 'operator', None) is None or rule.operator.name in ('Possibility', 'Necessity') \
                            or getattr(rule, 'quantifier', None) is not None:
                        expressible = False
                children = [{'kind': None} for _ in groups]
                cur.update(kind='step', step=step, groups=[[x or 'NA 0 0' for x in g] for g in groups],
                           children=children)
                cursor[b] = children[0]
                for c, x in zip(children[1:], newbs):
                    cursor[x] = c
            # leaves
            def close_leaves(t, path):
                if t['kind'] is None:
                    t['kind'] = 'open'
                elif t['kind'] == 'step':
                    for c in t['children']:
                        close_leaves(c, path)
            close_leaves(root, ())
            flags = [str(n.get('flag')) for br in tab for n in br if 'flag' in n and n.get('flag') != 'closure']
            res.update(
                ok=True, expressible=expressible,
                trunk=coq_list(x or 'NA 0 0' for x in trunk_nodes),
                prems=coq_list(coq_sent(p) for p in prems), concl=coq_sent(concl),
                tree=tree_term(root) if expressible else None,
                valid=tab.valid, invalid=tab.invalid, premature=bool(tab.premature),
                finished=bool(tab.finished), steps=nsteps, history=len(tab.history),
                branches=len(tab), open=len(tab.open), flags=flags,
                rules=sorted(set(rules_used)),
                argstr=str(arg))
        except Exception as e:
            import traceback
            res.update(ok=False, error=f'{type(e).__name__}: {e}', tb=traceback.format_exc()[-800:])
        return res

    jobs = json.load(sys.stdin)['jobs']
    outs = pr.fanout(jobs, run)
    json.dump(dict(results=outs), sys.stdout)


if __name__ == '__main__':
    main()
