"""usage: keep_mutant.py <outdir> <k> <seeded-id> <caught-by comma list> [note]
Confirms the demonstration myself (exit 0 on the unchanged /repo, non-zero with the patch applied), then stores
patch.diff, demo.py, meta.json under /verif/seeded/<seeded-id>/."""
import json, os, shutil, subprocess, sys
out, k, sid, caught = sys.argv[1:5]
note = sys.argv[5] if len(sys.argv) > 5 else ''
patch, demo, meta = f'{out}/patch{k}.diff', f'{out}/demo{k}.py', f'{out}/meta{k}.json'
env = dict(os.environ, PYTHONPATH='/repo', PYTHONDONTWRITEBYTECODE='1')
env.pop('PYTABLEAUX_VERIF', None)
assert subprocess.run(['git', '-C', '/repo', 'status', '--porcelain'], capture_output=True, text=True).stdout == ''
r0 = subprocess.run(['/venv/bin/python', demo], env=env, capture_output=True, text=True, timeout=900)
subprocess.run(['git', '-C', '/repo', 'apply', patch], check=True)
try:
    r1 = subprocess.run(['/venv/bin/python', demo], env=env, capture_output=True, text=True, timeout=900)
finally:
    subprocess.run(['git', '-C', '/repo', 'checkout', '--', '.'], check=True)
print('demo unchanged rc', r0.returncode, '| patched rc', r1.returncode)
if r0.returncode != 0 or r1.returncode == 0:
    print('NOT CONFIRMED'); print(r0.stdout[-500:], r0.stderr[-500:], r1.stdout[-500:]); sys.exit(1)
d = f'/verif/seeded/{sid}'
os.makedirs(d, exist_ok=True)
shutil.copy(patch, f'{d}/patch.diff'); shutil.copy(demo, f'{d}/demo.py')
m = json.load(open(meta))
m.update(seeded_id=sid, confirmed=dict(demo_unchanged_rc=r0.returncode, demo_patched_rc=r1.returncode,
         demo_output_patched=(r1.stdout + r1.stderr)[-600:], suite=m.get('test_result'),
         ran='git -C /repo apply patch.diff; PYTHONPATH=/repo /venv/bin/python demo.py; ./check <id> --tier quick; git -C /repo checkout -- .'),
         caught_by=[c for c in caught.split(',') if c], note=note)
json.dump(m, open(f'{d}/meta.json', 'w'), indent=1)
print('kept', d)
