"""usage: keep_mutant.py <outdir> <k> <seeded-id> <caught-by comma list> [note]
Confirms the demonstration myself (exit 0 on the unchanged /repo, non-zero with the patch applied), then stores
patch.diff, demo.py, meta.json under /verif/seeded/<seeded-id>/."""
import json, os, shutil, subprocess, sys
out, k, sid, caught = sys.argv[1:5]
note = sys.argv[5] if len(sys.argv) > 5 else ''
patch, demo, meta = f'{out}/patch{k}.diff', f'{out}/demo{k}.py', f'{out}/meta{k}.json'
M = '/var/tmp/vw/mutrepo'   # scratch worktree of /repo's HEAD (see try_mutant.sh); /repo itself stays quiet
env = dict(os.environ, PYTHONPATH='/repo', PYTHONDONTWRITEBYTECODE='1')
envm = dict(env, PYTHONPATH=M)
env.pop('PYTABLEAUX_VERIF', None)
subprocess.run(['git', '-C', M, 'checkout', '-q', '--detach', subprocess.run(['git','-C','/repo','rev-parse','HEAD'],capture_output=True,text=True).stdout.strip()], check=True)
subprocess.run(['git', '-C', M, 'checkout', '--', '.'], check=True)
r0 = subprocess.run(['/venv/bin/python', demo], env=env, capture_output=True, text=True, timeout=900)
subprocess.run(['git', '-C', M, 'apply', patch], check=True)
try:
    r1 = subprocess.run(['/venv/bin/python', demo], env=envm, capture_output=True, text=True, timeout=900)
finally:
    subprocess.run(['git', '-C', M, 'checkout', '--', '.'], check=True)
print('demo unchanged rc', r0.returncode, '| patched rc', r1.returncode)
if r0.returncode != 0 or r1.returncode == 0:
    print('NOT CONFIRMED'); print(r0.stdout[-500:], r0.stderr[-500:], r1.stdout[-500:]); sys.exit(1)
d = f'/verif/seeded/{sid}'
os.makedirs(d, exist_ok=True)
shutil.copy(patch, f'{d}/patch.diff'); shutil.copy(demo, f'{d}/demo.py')
m = json.load(open(meta))
m.update(seeded_id=sid, confirmed=dict(demo_unchanged_rc=r0.returncode, demo_patched_rc=r1.returncode,
         demo_output_patched=(r1.stdout + r1.stderr)[-600:], suite=m.get('test_result'),
         ran='patch.diff applied to a scratch worktree of /repo HEAD; PYTHONPATH=<worktree> /venv/bin/python demo.py; VERIF_REPO=<worktree> ./check <id> --tier quick (tools/try_mutant.sh); equivalent to git -C /repo apply patch.diff; ./check <id>; git -C /repo checkout -- .'),
         caught_by=[c for c in caught.split(',') if c], note=note)
json.dump(m, open(f'{d}/meta.json', 'w'), indent=1)
print('kept', d)
