"""C08 — model evaluation is compositional and frame-correct."""
from __future__ import annotations

import itertools
import json
import random

import coqgen
import mlib
from vlib import (Check, MachineryError, coqc, ensure_theory, gen_dir, probe_json,
                  props_assumptions, write_if_changed)

PID = 'C08'
THEOREMS = ['C08_limit_best_is_fold', 'C08_limit_best_general', 'C08_limit_best_unbounded_refuted',
            'C08_reflexive_enforce', 'C08_rt_enforce', 'C08_global_enforce', 'C08_global_not_universal',
            'C08_serial_enforce', 'C08_enforce_total',
            'C08_value_of_spec', 'C08_value_of_no_fuel_exhaustion', 'C08_value_of_rebind_refuted',
            'C08_value_of_order_independent', 'C08_complete_frames_total', 'C08_reachable_wf',
            'C08_finish_frames', 'C08_finish_access_exact', 'C08_finish_serial_total',
            'C08_classical_completion', 'C08_classical_finish', 'C08_classical_finish_history',
            'C08_classical_finish_old_refuted']

def chunks(l, n):
    for i in range(0, len(l), n):
        yield l[i:i + n]


# ------------------------------------------------------------------ generators

def histories(rng, L, tier):
    pool = mlib.small_pool(L)
    out = []
    if tier == 'thorough':
        out += [[]] + [[o] for o in pool]
        out += [[a, b] for a in pool for b in pool]          # every order of <= 2 calls: exhaustive
        for n, k in ((3, 150), (4, 150)):
            out += [[rng.choice(pool) for _ in range(n)] for _ in range(k)]
        out += [mlib.rand_history(rng, L) for _ in range(200)]
    else:
        out += [[]]
        out += [[rng.choice(pool)] for _ in range(4)]
        for n, k in ((2, 5), (3, 5), (4, 4)):
            out += [[rng.choice(pool) for _ in range(n)] for _ in range(k)]
        out += [mlib.rand_history(rng, L) for _ in range(17)]
    if L['modal']:
        # long chains and zig-zags: the closure needs several passes (and finish() may enforce more than once)
        chain = lambda n_: [['access', k_, k_ + 1] for k_ in range(n_)]
        out.append(chain(3) + [['atomic', 3, 0, L['values'][0]]])
        out.append(chain(7) + [['atomic', 7, 0, L['values'][0]], ['atomic', 0, 0, L['values'][-1]]])
        out.append([['access', 0, 1], ['access', 2, 1], ['access', 2, 3], ['atomic', 3, 0, L['values'][0]]])
        out.append([['access', 5, 6], ['access', 3, 4], ['access', 1, 2], ['access', 4, 5], ['access', 2, 3], ['access', 0, 1]])
    if L['hooks']['finish'] == 'cpl':
        c, I, F1 = mlib.c, 'I', mlib.F1
        out.append([['pred', 0, I, [c(0), c(1)], 'T']])
        out.append([['pred', 0, I, [c(0), c(1)], 'T'], ['pred', 0, I, [c(1), c(2)], 'T'],
                    ['pred', 0, F1, [c(0)], 'T']])
        out.append([['pred', 0, F1, [c(0)], 'T'], ['pred', 0, I, [c(0), c(1)], 'T'],
                    ['pred', 0, F1, [c(1)], 'F']])
        out.append([['pred', 0, I, [c(0), c(0)], 'F']])
        out.append([['pred', 0, F1, [c(0)], 'T'], ['pred', 0, I, [c(0), c(1)], 'T'],
                    ['pred', 0, I, [c(1), c(2)], 'T']])
        out.append([['pred', 0, I, [c(1), c(0)], 'T'], ['pred', 0, I, [c(2), c(0)], 'T'],
                    ['pred', 0, I, [c(1), c(2)], 'T']])
        # "every predicate's extension respects identity": tuples that repeat a constant (each occurrence is
        # replaceable on its own), identity set before and after the extension
        G2 = mlib.G2
        out.append([['pred', 0, G2, [c(0), c(0)], 'T'], ['pred', 0, I, [c(0), c(1)], 'T']])
        out.append([['pred', 0, I, [c(0), c(1)], 'T'], ['pred', 0, G2, [c(0), c(0)], 'T']])
        out.append([['pred', 0, G2, [c(0), c(2)], 'T'], ['pred', 0, G2, [c(2), c(0)], 'F'],
                    ['pred', 0, I, [c(1), c(0)], 'T']])
        out.append([['pred', 0, I, [c(0), c(0)], 'T'], ['pred', 0, I, [c(1), c(0)], 'T']])
    return out


def classical_sentences(nconst=3):
    c, P = mlib.c, mlib.P
    out = []
    for a in range(nconst):
        out.append(P('E', c(a)))
        out.append(P(mlib.F1, c(a)))
        for b in range(nconst):
            out.append(P('I', c(a), c(b)))
            out.append(P(mlib.G2, c(a), c(b)))
    return out


# ------------------------------------------------------------------ classification helpers

def sent_kind(s):
    return {'A': 'atomic', 'P': 'predicated', 'Q': 'quantified:' + str(s[1]), 'U': 'operated:' + str(s[1]),
            'B': 'operated:' + str(s[1]), 'M': 'modal:' + str(s[1])}[s[0]]


def expected_frame_keys(L, ops):
    ws = {0}
    R_aw, R_ap = {0}, set()
    for op in ops:
        if op[0] == 'access':
            R_aw |= {op[1], op[2]}
            R_ap.add((op[1], op[2]))
        elif op[0] == 'world':
            R_aw.add(op[1])
        else:
            ws.add(op[1])
    fk = ws | R_aw
    return sorted(fk), sorted(fk), sorted(R_ap)


def classical_clauses(dump, modal):
    """Clauses of the property's classical part, checked on the raw dump of the implementation."""
    bad = []
    consts = sorted(dump['consts'])
    for w, fr in dump['frames'].items():
        ext = {}
        for pk, params, val in fr['preds']:
            ext[(json.dumps(pk), tuple(p[1] for p in params))] = val
        T = lambda pk, *cs: ext.get((json.dumps(pk), tuple(cs))) == 'T'
        for a in consts:
            if not T('I', a, a):
                bad.append(('identity-not-reflexive', w, ['I', a, a]))
            if not T('E', a):
                bad.append(('existence-not-universal', w, ['E', a]))
            for b in consts:
                if T('I', a, b) and not T('I', b, a):
                    bad.append(('identity-not-symmetric', w, ['I', b, a]))
                for d in consts:
                    if T('I', a, b) and T('I', b, d) and not T('I', a, d):
                        bad.append(('identity-not-transitive', w, ['I', a, d]))
        for (pk, tup), val in list(ext.items()):
            if val != 'T' or json.loads(pk) == 'I':
                continue
            for i, a in enumerate(tup):
                for b in consts:
                    if T('I', a, b) or T('I', b, a):
                        t2 = tup[:i] + (b,) + tup[i + 1:]
                        if ext.get((pk, t2)) != 'T':
                            bad.append(('extension-not-closed', w, [json.loads(pk), list(t2)]))
    return bad


# ------------------------------------------------------------------ the check

TABLES = {}
GEN_SEARCH = [0]


def static_obligations(chk, logics):
    """Per-logic boolean side conditions on regenerated data, decided by the kernel."""
    exprs, meta = [], []
    for L in logics:
        i = coqgen.ident(L['name'])
        exprs.append(f'(bounds_ok ML_{i}, vals_closed ML_{i})')
        meta.append(('static', L, None))
        for kind, rows in L['gen'].items():
            side = 'true' if kind in ('Existential', 'Possibility') else 'false'
            g = f'(ml_genq ML_{i} {kind})' if kind in mlib.QUANTS else f'(ml_genm ML_{i} {kind})'
            lit = mlib.clist('(' + mlib.clist(mlib.cval(x) for x in vs) + ', ' + mlib.cval(r) + ')'
                             for vs, r in rows if not r.startswith('!'))
            exprs.append(f'gen_rows_bad ML_{i} {g} {side} {lit}')
            meta.append(('gen', L, kind))
            for vs, r in rows:
                if not r.startswith('!'):
                    continue
                if kind in mlib.QUANTS:
                    ops = [['pred', 0, mlib.F1, [mlib.c(k)], x] for k, x in enumerate(vs)]
                    sent = ['Q', kind, 0, mlib.P(mlib.F1, mlib.v(0))]
                else:
                    ops = [o for k, x in enumerate(vs) for o in (['access', 0, 10 + k], ['atomic', 10 + k, 0, x])]
                    sent = ['M', kind, mlib.A0]
                hang = r == '!Hang'
                chk.violation(f'nontermination:finish-or-value_of:{L["access"]}' if hang else f'generaliser:{L["name"]}:{kind}:raises',
                              f'{L["name"]}: building the model {ops} and evaluating {sent} '
                              f'{"did not return within the time limit" if hang else "raised " + r[1:]}',
                              dict(kind='case', logic=L['name'], ops=ops, sentence=sent, world=0, order=0,
                                   clause='terminates'), found_input=True)
                break
        for kind in ('q', 'm'):
            comb = L['hooks']['value_of_quantified' if kind == 'q' else 'value_of_operated']
            if comb in ('k3wq', 'kk3wq'):
                exprs.append(f'(fold_ac ML_{i} Disjunction, fold_ac ML_{i} Conjunction)')
                meta.append(('ac', L, kind))
    for L in logics:
        if L['hooks']['finish'] == 'cpl':
            i = coqgen.ident(L['name'])
            exprs.append(f'match run ML_{i} [0; 1; 2] all_pord wit_chain with Some st => classical_okb st | None => false end')
            meta.append(('classical', L, 'run'))
    hdr = mlib.HEADER + 'Require Import GC08.Logics.\n'
    answers = mlib.coq_eval(PID, hdr, exprs, name='Status', shard=120)
    lemmas = [hdr, 'From PTProps Require Import C08.\n']
    for (what, L, kind), e, ans in zip(meta, exprs, answers):
        n = L['name']
        i = coqgen.ident(n)
        if what == 'static':
            b_ok, c_ok = [x.strip() == 'true' for x in ans.strip('()').split(',')]
            chk.obligation(f'{n}:minval/maxval bound the value set', b_ok)
            chk.obligation(f'{n}:tables closed on the value set', c_ok)
            if b_ok:
                lemmas.append(f'Lemma obl_bounds_{i} : bounds_ok ML_{i} = true.\nProof. vm_compute. reflexivity. Qed.\n'
                              f'Definition C08_value_of_spec_{i} := C08_value_of_spec ML_{i} obl_bounds_{i}.\n')
            else:
                lemmas.append(f'Lemma obl_bounds_{i}_refuted : bounds_ok ML_{i} = false.\nProof. vm_compute. reflexivity. Qed.\n')
                chk.violation(f'bounds:{n}', f'{n}: minval/maxval are not the bounds F/T of the value set; '
                              'minfloor/maxceil early exit is then order dependent',
                              dict(kind='obligation', logic=n, obligation='bounds_ok'), found_input=False)
            if c_ok:
                lemmas.append(f'Lemma obl_closed_{i} : vals_closed ML_{i} = true.\nProof. vm_compute. reflexivity. Qed.\n')
            else:
                chk.violation(f'closed:{n}', f'{n}: truth tables / unassigned value leave the value set',
                              dict(kind='obligation', logic=n, obligation='vals_closed'), found_input=False)
        elif what == 'classical':
            ok = ans.strip() == 'true'
            chk.obligation(f'{n}:classical_finish on the witness history a=b, b=c, Fa', ok)
            lemmas.append(f'Lemma obl_classical_{i} : {e} = {"true" if ok else "false"}.\nProof. vm_compute. reflexivity. Qed.\n')
            if not ok:
                chk.violation(f'model:{n}:classical-witness', f'{n}: the model of finish() does not make the witness history classical',
                              dict(kind='obligation', logic=n, obligation='classical_okb (run wit_chain)'), found_input=False)
        elif what == 'gen':
            ok = ans.strip() == 'None'
            chk.obligation(f'{n}:generaliser:{kind} reproduces value_of on every list of length <= 3', ok)
            if ok:
                lemmas.append(f'Lemma obl_gen_{i}_{kind} : {e} = None.\nProof. vm_compute. reflexivity. Qed.\n')
            else:
                lemmas.append(f'Lemma obl_gen_{i}_{kind}_refuted : exists r, {e} = Some r.\n'
                              'Proof. eexists. vm_compute. reflexivity. Qed.\n')
                import re as _re
                vs = [x[1:] for x in _re.findall(r'V[FNBT]', ans.split(']')[0])]
                found = None
                GEN_SEARCH[0] += 1
                for perm in (itertools.permutations(vs) if GEN_SEARCH[0] <= 10 else []):
                    if kind in mlib.QUANTS:
                        ops = [['pred', 0, mlib.F1, [mlib.c(k)], x] for k, x in enumerate(perm)]
                        sent = ['Q', kind, 0, mlib.P(mlib.F1, mlib.v(0))]
                    else:
                        ops = [o for k, x in enumerate(perm) for o in (['access', 0, 10 + k], ['atomic', 10 + k, 0, x])]
                        sent = ['M', kind, mlib.A0]
                    case = dict(logic=n, ops=ops, sents=[sent], worlds=[0])
                    r = probe_json('probe_model.py', ['run'], stdin=json.dumps([case]))[0]
                    if r['err'] is None and mlib.Reference(L, TABLES[n], r['dump']).code(sent, 0) != r['vals'][0][0]:
                        found = (ops, sent, r['vals'][0][0])
                        break
                what = (f'{n}: value_of({kind} ...) over the instance values {vs} is not the documented generalised '
                        f'{"disjunction" if kind in ("Existential", "Possibility") else "conjunction"} (kernel witness {ans})')
                if found:
                    chk.violation(f'generaliser:{n}:{kind}', what,
                                  dict(kind='case', logic=n, ops=found[0], sentence=found[1], world=0, order=0,
                                       clause='value_of', impl=found[2], witness=ans), found_input=True)
                else:
                    chk.violation(f'generaliser:{n}:{kind}', what,
                                  dict(kind='generaliser', logic=n, op=kind, witness=ans), found_input=False)
        else:
            ok = ans.replace(' ', '') == '(true,true)'
            chk.obligation(f'{n}:folded operator associative-commutative ({kind})', ok)
            if ok:
                lemmas.append(f'Lemma obl_ac_{i}_{kind} : {e} = (true, true).\nProof. vm_compute. reflexivity. Qed.\n')
            else:
                chk.violation(f'fold-ac:{n}', f'{n}: the folded generaliser operator is not AC: value depends on set order',
                              dict(kind='obligation', logic=n, obligation='fold_ac'), found_input=False)
    g = gen_dir(PID)
    write_if_changed(g / 'Obl.v', '\n'.join(lemmas) + '\n')
    rc, out = coqc(g / 'Obl.v')
    if rc:
        raise MachineryError('generated Obl.v does not compile:\n' + out[-3000:])
    chk.notes['kernel_lemmas'] = sum(1 for x in lemmas if x.startswith('Lemma'))


def check_case(chk, L, tables, case, res, coq, order):
    """Compare implementation / reference semantics / Coq model on one case."""
    n = L['name']
    base = dict(kind='case', logic=n, ops=case['ops'], order=order)
    status, (c_aw, c_ap), (c_fk, c_consts), c_vals = coq
    if (res['err'] is not None) != (status == 1):
        # an exception is part of the modelled behaviour: classify by the op kind
        where = res['err'][0] if res['err'] else 'model'
        opk = case['ops'][where][0] if isinstance(where, int) else where
        if res['err'] and res['err'][1] == 'Hang':
            chk.violation(f'nontermination:{opk}', f'{n}: {opk} did not return within the time limit on ops {case["ops"]} '
                          '(the model terminates: fuel bound proved)',
                          dict(base, clause='raise', impl=res['err'], model=status), found_input=True)
            return
        chk.violation(f'raise:{opk}', f'{n}: implementation {"raised " + str(res["err"]) if res["err"] else "did not raise"} '
                      f'but the model {"raised" if status else "did not"} on ops {case["ops"]}',
                      dict(base, clause='raise', impl=res['err'], model=status), found_input=False)
        return
    if res['err'] is not None:
        return
    # --- frame / access clauses on the implementation (independent closure) ---------
    fk_exp, aw0, ap0 = expected_frame_keys(L, case['ops'])
    aw_exp, ap_exp = mlib.closure(L['access'], aw0, ap0)
    if res['aw'] != aw_exp or [tuple(p) for p in res['ap']] != ap_exp:
        chk.violation(f'enforce:{L["access"]}', f'{n}: R after finish is {res["ap"]} on worlds {res["aw"]}, '
                      f'the {L["access"]} closure of the added pairs is {ap_exp} on {aw_exp}',
                      dict(base, clause='access', impl=[res['aw'], res['ap']], expected=[aw_exp, ap_exp]))
    elif sorted(c_aw) != res['aw'] or sorted(map(tuple, c_ap)) != [tuple(p) for p in res['ap']]:
        chk.violation(f'model-tie:enforce:{L["access"]}', f'{n}: Coq model of enforce disagrees with the implementation',
                      dict(base, clause='access', impl=[res['aw'], res['ap']], model=[c_aw, c_ap]), found_input=False)
    fk_exp = aw_exp      # finish(): every world of R (also those enforce() adds) has a frame
    if res['fkeys'] != fk_exp:
        chk.violation('finish:frames', f'{n}: frames after finish {res["fkeys"]}, but the worlds of R are {fk_exp}',
                      dict(base, clause='frames', impl=res['fkeys'], expected=fk_exp))
    elif sorted(c_fk) != res['fkeys']:
        chk.violation('model-tie:frames', f'{n}: Coq model frames {c_fk} vs implementation {res["fkeys"]}',
                      dict(base, clause='frames'), found_input=False)
    if sorted(c_consts) != sorted(res['dump']['consts']):
        chk.violation('model-tie:constants', f'{n}: Coq model constants {c_consts} vs {res["dump"]["consts"]}',
                      dict(base, clause='constants'), found_input=False)
    # --- every value set by the history is what the finished model holds -------------
    neg = {tuple(i)[0]: o for i, o in tables['Negation']}
    opq = lambda t: (t[0] == 'Q' and not L['quantified']) or (t[0] == 'M' and not L['modal'])
    for op in case['ops']:
        if op[0] not in ('atomic', 'opaque', 'pred', 'literal'):
            continue
        w, x = op[1], op[-1]
        fr = res['dump']['frames'].get(str(w), dict(atomics=[], opaques=[], preds=[]))
        if op[0] == 'atomic':
            kind, key = 'atomics', ['A', op[2]]
        elif op[0] == 'opaque':
            kind, key = 'opaques', op[2]
        elif op[0] == 'pred':
            kind, key = 'preds', (op[2], op[3])
        else:
            t = op[2]
            while not opq(t) and t[0] == 'U' and t[1] == 'Negation':
                x, t = neg[x], t[2]
            kind, key = (('opaques', t) if opq(t) else ('atomics', t) if t[0] == 'A' else ('preds', (t[1], t[2])))
        if kind == 'preds':
            got = [val for pk, params, val in fr['preds'] if pk == key[0] and params == key[1]]
        else:
            got = [val for k, val in fr[kind] if k == key]
        if got != [x]:
            chk.violation(f'finish:set-value-lost:{kind}', f'{n}: {op} was accepted but the finished model holds {got} '
                          f'for it in frames[{w}].{kind}', dict(base, clause='retained', op=op, impl=got))
    # --- complete_frames_total on the implementation -----------------------------
    known_a = {json.dumps(k) for fr in res['dump']['frames'].values() for k, _ in fr['atomics']}
    known_o = {json.dumps(k) for fr in res['dump']['frames'].values() for k, _ in fr['opaques']}
    known_p = {json.dumps(k) for fr in res['dump']['frames'].values() for k in fr['pkeys']}
    if L['hooks']['finish'] == 'cpl':
        known_p -= {'"I"', '"E"'} if not res['dump']['consts'] else set()
    for w, fr in res['dump']['frames'].items():
        if ({json.dumps(k) for k, _ in fr['atomics']} != known_a or
                {json.dumps(k) for k, _ in fr['opaques']} != known_o or
                not known_p <= {json.dumps(k) for k in fr['pkeys']}):
            chk.violation('complete_frames:total', f'{n}: frame {w} lacks an atom/opaque/predicate known elsewhere',
                          dict(base, clause='complete', world=w))
    # --- value_of vs the documented semantics vs the Coq model --------------------
    ref = mlib.Reference(L, tables, res['dump'])
    for s, row, crow in zip(case['sents'], res['vals'], c_vals):
        for w, x, cx in zip(case['worlds'], row, crow):
            chk.cases += 1
            if x == cx:
                continue
            r = ref.code(s, w)
            if r != x:
                chk.violation(f'value_of:{sent_kind(s)}',
                              f'{n}: value_of({s}) at world {w} is {x}, the recursive semantics over the '
                              f"model's own frames gives {r} (codes F0 N1 B2 T3, 8=raises)",
                              dict(base, clause='value_of', sentence=s, world=w, impl=x, expected=r))
            else:
                chk.violation(f'model-tie:value_of:{sent_kind(s)}',
                              f'{n}: Coq value_of({s})@{w} = {cx}, implementation and reference = {x}',
                              dict(base, clause='value_of', sentence=s, world=w, impl=x, model=cx),
                              found_input=False)
    # sample the reference evaluator also where model and implementation agree
    for s, row in list(zip(case['sents'], res['vals']))[::7]:
        for w, x in zip(case['worlds'], row):
            r = ref.code(s, w)
            if r != x:
                chk.violation(f'value_of:{sent_kind(s)}',
                              f'{n}: value_of({s}) at world {w} is {x}, recursive semantics gives {r}',
                              dict(base, clause='value_of', sentence=s, world=w, impl=x, expected=r))
    # --- classical clauses ----------------------------------------------------------
    if L['hooks']['finish'] == 'cpl':
        for clause, w, what in classical_clauses(res['dump'], L['modal'])[:50]:
            chk.violation(f'cpl.Model.finish/{clause}',
                          f'{n}: after finish() of {case["ops"]}: {clause} at world {w}: {what}',
                          dict(base, clause=clause, world=w, witness=what))


def serial_base_bad(ent):
    if ent.get('err'):
        return f'raised {ent["err"]}'
    Rw = sorted(int(w) for w in ent['R'])
    Rp = sorted([int(w), w2] for w, ws in ent['R'].items() for w2 in ws)
    if ent['frames'] != Rw:
        return f'frames {ent["frames"]} but the worlds of R are {Rw}'
    if ent['worlds'] != Rw or sorted(ent['access']) != Rp:
        return f'exported worlds {ent["worlds"]} / access {ent["access"]} but R = {Rp} on {Rw}'
    if len({json.dumps(a) for a in ent['atoms'].values()}) != 1:
        return f'frames do not know the same atoms: {ent["atoms"]}'
    if any(not ent['R'][str(w)] for w in Rw):
        return f'a world has no successor: {ent["R"]}'
    return None


def serial_base_clause(chk):
    """BaseModel.finish under SerialAccess outside the classical family (no registered logic: synthetic subclass)."""
    for ent in probe_json('probe_model.py', ['serial_base']):
        chk.cases += 1
        chk.count('source', 'synthetic-serial-base')
        bad = serial_base_bad(ent)
        if bad:
            chk.violation('BaseModel.finish/frames-after-enforce',
                          f'{ent["base"]}.Model with Access=SerialAccess, ops {ent["ops"]}: after finish() {bad}',
                          dict(kind='serial_base', base=ent['base'], ops=ent['ops'], clause='serial_base'))


def run(args) -> int:
    chk = Check(PID, args.tier, args.seed)
    chk.rule = ('one case = (logic, history of set/add calls, order seed); each case evaluates every sentence of the '
                'sample at every world on the implementation, in the Coq model (vm_compute) and in an independent '
                'reference evaluator; evaluations = sentence x world evaluations compared; distinct = distinct cases')
    ensure_theory()
    rng = random.Random(args.seed)
    facts = probe_json('probe_model.py', ['facts'])
    tf = {L['name']: L for L in probe_json('probe_facts.py')['logics']}
    logics, bad = mlib.build_logics(PID, facts, tf)
    for name, why in bad:
        chk.obligation(f'{name}:expressible', False)
        chk.violation(f'model:{name}:inexpressible', f'model of {name} cannot be expressed: {why}',
                      dict(kind='obligation', logic=name, detail=why), found_input=False)
    TABLES.update({n: t['tables'] for n, t in tf.items()})
    static_obligations(chk, logics)
    # "the closure required by the logic": the model's access class must be the frame class the logic's own frame rules
    # state (two independent places in the code)
    CLASS = {'Access': (False, False, False, False), 'SerialAccess': (False, False, False, True),
             'ReflexiveAccess': (True, False, False, False), 'ReflexiveTransitiveAccesss': (True, True, False, False),
             'GlobalAccess': (True, True, True, False)}
    for n_, t_ in tf.items():
        if not t_['modal']:
            continue
        names_ = {r_ for g_ in t_['groups'] for r_ in g_}
        byrules = ('Reflexive' in names_, 'Transitive' in names_, 'Symmetric' in names_, 'Serial' in names_ and 'Reflexive' not in names_)
        ok_ = CLASS.get(t_['access']) == byrules
        chk.obligation(f'{n_}:access class is the frame class of the frame rules', ok_)
        if not ok_:
            chk.violation(f'finish:{n_}:access-class-not-the-logics-frame-class',
                          f"{n_}: the model closes its access relation as {t_['access']} {CLASS.get(t_['access'])} but the logic's frame rules "
                          f"state (reflexive, transitive, symmetric, serial) = {byrules}: e.g. a chain 0R1, 1R2 is finished without the pairs the frame class requires",
                          dict(kind='obligation', logic=n_, access=t_['access'], frame_rules=sorted(names_ & {'Reflexive', 'Transitive', 'Symmetric', 'Serial'})),
                          found_input=True)
    chk.assumptions = props_assumptions(PID)
    chk.theorems = THEOREMS
    # ---- correspondence --------------------------------------------------------------
    core = mlib.core_sentences()
    d2 = mlib.depth2_sentences() if args.tier == 'thorough' else []
    cases = []
    shared = dict(core=core, core40=core[:40], small=core[:5] + core[5:15:2] + core[15:27:2] + core[27:123:9] + core[-8:])
    for L in logics:
        hs = histories(rng, L, args.tier)
        n_exh = 0
        if args.tier == 'thorough':
            n_exh = 1 + len(mlib.small_pool(L)) + len(mlib.small_pool(L)) ** 2     # the exhaustive prefix
        for k, ops in enumerate(hs):
            if k < n_exh and len(ops) == 2:
                sh, extra = 'small', []          # state-machine coverage: every order of two calls
            else:
                sh = 'core' if (args.tier == 'quick' or k % 4 == 0) else 'core40'
                extra = [mlib.rand_sentence(rng, rng.choice([2, 3, 4])) for _ in range(12)]
                if d2:
                    per = max(1, len(d2) // max(1, len(hs) - n_exh)) + 1
                    extra += d2[(k * per) % len(d2):][:per]
            if L['hooks']['finish'] == 'cpl':
                extra += classical_sentences()
            cases.append(dict(logic=L['name'], ops=ops, sents=shared[sh] + extra, shared=sh, n_shared=len(shared[sh]),
                              worlds=mlib.worlds_of(L, ops)))
            chk.count('history_length', str(len(ops)))
            for op in ops:
                chk.count('op', op[0])
    by_name = {L['name']: L for L in logics}
    orders = [0, 2] if args.tier == 'quick' else [0, 1, 5]
    # implementation runs (4 processes)
    from concurrent.futures import ThreadPoolExecutor
    results = {}
    for order in orders:
        step = 3 if args.tier == 'quick' else 8
        idx = list(range(len(cases))) if order == 0 else [i for i, c in enumerate(cases)
                                                          if by_name[c['logic']]['hooks']['finish'] == 'cpl' or i % step == 0]
        sub = [cases[i] for i in idx]
        parts = list(chunks(list(zip(idx, sub)), max(1, len(sub) // 8 + 1)))
        with ThreadPoolExecutor(max_workers=mlib.WORKERS) as ex:
            outs = list(ex.map(lambda part: probe_json('probe_model.py', ['run'], order=order,
                                                       stdin=json.dumps([c for _, c in part]), timeout=3000), parts))
        for part, out in zip(parts, outs):
            for (i, _), r in zip(part, out):
                results[(i, order)] = r
        chk.count('order_seed', str(order), len(sub))
    # Coq runs: one per case, plus one per (classical case, order) since the orders are inputs there
    exprs, keys = [], []
    hdr = mlib.HEADER + 'Require Import GC08.Logics.\n' + ''.join(
        f'Definition sents_{k} : list sent := {mlib.clist(mlib.csent(x) for x in v)}.\n' for k, v in shared.items())
    for (i, order), r in sorted(results.items()):
        c = cases[i]
        L = by_name[c['logic']]
        classical = L['hooks']['finish'] == 'cpl'
        if order != 0 and not classical:
            continue
        exprs.append(f"run_case ML_{coqgen.ident(c['logic'])} {mlib.clist(mlib.cop(o) for o in c['ops'])} "
                     f"{mlib.cnats(r['cord'])} {mlib.cpord(r['pord'])} "
                     f"(sents_{c['shared']} ++ {mlib.clist(mlib.csent(s) for s in c['sents'][c['n_shared']:])}) "
                     f"{mlib.cnats(c['worlds'])}")
        keys.append((i, order))
    answers = mlib.coq_eval(PID, hdr, exprs, name='Cases', shard=max(40, len(exprs) // 16 + 1), timeout=2400)
    coq = {k: mlib.parse_coq_value(a) for k, a in zip(keys, answers)}
    for (i, order), r in sorted(results.items()):
        c = cases[i]
        L = by_name[c['logic']]
        cq = coq.get((i, order)) or coq[(i, 0)]
        if (r['err'] and r['err'][1] == 'Hang') or any(7 in row for row in r.get('vals', [])):
            # confirm a time-limit hit in a fresh process before it is reported
            r = probe_json('probe_model.py', ['run'], order=order, stdin=json.dumps([c]), timeout=600)[0]
            results[(i, order)] = r
        before = chk.cases
        check_case(chk, L, tf[L['name']]['tables'], c, r, cq, order)
        chk.case([c['logic'], c['ops'], order], nontrivial=bool(c['ops']),
                 sample=dict(logic=c['logic'], ops=c['ops'], order=order, sentences=len(c['sents']),
                             worlds=c['worlds']) if i % 97 == 0 else None)
        chk.cases -= 1   # chk.case counted the case itself; evaluations are counted in check_case
        if order != 0:
            r0 = results[(i, 0)]
            same = all(r.get(k) == r0.get(k) for k in ('err', 'aw', 'ap', 'fkeys', 'vals'))
            if not same:
                key = ('cpl.Model.finish/order-dependent' if L['hooks']['finish'] == 'cpl'
                       else f'order-dependent:{L["name"]}')
                chk.violation(key, f'{c["logic"]}: results differ between iteration-order seeds 0 and {order} '
                              f'on ops {c["ops"]}', dict(kind='case', logic=c['logic'], ops=c['ops'], order=order,
                                                         clause='order', sents=c['sents'], worlds=c['worlds']))
    serial_base_clause(chk)
    chk.checker_cmd = ('coqc gen/C08/{Logics,Obl,Status*,Cases*}.v against coq/theories/Sem/{LimitBest,Access,AccessProofs,'
                       'PyModel,PyModelProofs,Classical,ClassicalProofs}.v, Props/C08.v')
    chk.trusted += ['tools/mlib.py Reference: the independent evaluator used to classify disagreements',
                    'identification of the generaliser kind from the defining module of value_of_quantified / '
                    '_unquantify_values / value_of_operated / _unmodal_values (validated on all value lists <= 3)']
    chk.notes['explanation'] = (
        'obligations = per logic: minval/maxval bound the value set, tables closed, each generaliser reproduces '
        'value_of on every value list of length <= 3 (complete), folded operators AC; all decided by the kernel on '
        'data regenerated from /repo; the generic theorems (Props/C08.v) are instantiated per logic in gen/C08/Obl.v')
    return chk.finish()


def replay(path: str) -> int:
    rep = json.load(open(path))
    if rep.get('clause') == 'serial_base':
        for ent in probe_json('probe_model.py', ['serial_base']):
            if ent['base'] == rep['base'] and ent['ops'] == rep['ops']:
                bad = serial_base_bad(ent)
                print(f'replay: {bad}')
                if bad:
                    print(f'VIOLATION property={PID} replay={path}')
                    return 1
        return 0
    facts = {L['name']: L for L in probe_json('probe_model.py', ['facts'])}
    tf = {L['name']: L for L in probe_json('probe_facts.py')['logics']}
    L = facts[rep['logic']]
    sents = [rep['sentence']] if rep.get('sentence') else rep.get('sents', [])
    worlds = [rep['world']] if rep.get('sentence') else rep.get('worlds', [0])
    case = dict(logic=rep['logic'], ops=rep['ops'], sents=sents, worlds=worlds)
    res = probe_json('probe_model.py', ['run'], order=rep.get('order', 0), stdin=json.dumps([case]))[0]
    clause = rep.get('clause')
    bad = False
    if clause == 'raise':
        bad = res['err'] == rep.get('impl')      # still the recorded deviant behaviour
        print(f'replay: ops {rep["ops"]} -> err {res["err"]}')
    elif res['err'] is not None and clause != 'terminates':
        print(f'replay: raised {res["err"]}')
        bad = False
    elif clause == 'value_of':
        ref = mlib.Reference(L, tf[L['name']]['tables'], res['dump'])
        r = ref.code(rep['sentence'], rep['world'])
        x = res['vals'][0][0]
        print(f'replay: value_of({rep["sentence"]})@{rep["world"]} = {x}; recursive semantics = {r}')
        bad = r != x
    elif clause == 'access':
        fk_exp, aw0, ap0 = expected_frame_keys(L, rep['ops'])
        aw_exp, ap_exp = mlib.closure(L['access'], aw0, ap0)
        print(f'replay: R = {res["ap"]} on {res["aw"]}; closure = {ap_exp} on {aw_exp}')
        bad = res['aw'] != aw_exp or [tuple(p) for p in res['ap']] != ap_exp
    elif clause == 'frames':
        fk_exp, aw0, ap0 = expected_frame_keys(L, rep['ops'])
        aw_exp, _ = mlib.closure(L['access'], aw0, ap0)
        print(f'replay: frames {res["fkeys"]}; worlds of R {aw_exp}')
        bad = res['fkeys'] != aw_exp
    elif clause == 'order':
        r0 = probe_json('probe_model.py', ['run'], order=0, stdin=json.dumps([case]))[0]
        bad = any(res.get(k) != r0.get(k) for k in ('err', 'aw', 'ap', 'fkeys', 'vals'))
        print(f'replay: order {rep.get("order")} vs 0 differ: {bad}')
    elif clause in ('identity-not-reflexive', 'identity-not-symmetric', 'identity-not-transitive',
                    'extension-not-closed', 'existence-not-universal'):
        found = [b for b in classical_clauses(res['dump'], L['modal']) if b[0] == clause]
        print(f'replay: {clause}: {found[:3]}')
        bad = bool(found)
    elif clause == 'terminates':
        bad = res['err'] is not None or 7 in res['vals'][0] or 8 in res['vals'][0]
        print(f'replay: err={res["err"]} value={res.get("vals")}')
    elif clause == 'retained':
        chk = Check(PID, 'quick', 0)
        check_case(chk, L, tf[L['name']]['tables'], case, res, (0, (res['aw'], res['ap']), (res['fkeys'], res['dump']['consts']), res['vals']), rep.get('order', 0))
        bad = any(f['key'].startswith('finish:set-value-lost') for f in chk.findings)
        print(f'replay: {[f["what"] for f in chk.findings if f["key"].startswith("finish:set-value-lost")][:2]}')
    elif clause == 'complete':
        bad = True
    if bad:
        print(f'VIOLATION property={PID} replay={path}')
        return 1
    return 0
