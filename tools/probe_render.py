"""Runs inside the implementation's interpreter.
  --tables : every loaded StringTable as {format, dialect, notation, entries{key: str|null}}
             plus the registered TabWriter formats.
  (stdin)  : JSON list of cases {logic, arg, opts}; each is built, then rendered twice with every
             registered TabWriter format x {polish, standard} x writer option sets; the text
             rendering is parsed back into root-to-leaf paths and compared with the branch
             contents written with the same LexWriter.  Also exports branches / node table for
             the Coq model of the text writer.  Prints JSON; decides nothing."""
from __future__ import annotations

import json
import re
import sys

NOTATIONS = ('polish', 'standard')
OPTSETS = {
    'text': [{}, {'drop_parens': False}, {'identity_infix': False}],
    'html': [{}, {'fulldoc': True}, {'inline_css': True, 'fulldoc': True}, {'wrapper': False}, {'drop_parens': False}],
    'latex': [{}, {'fulldoc': True}, {'identity_infix': False}],
}


def key_name(k):
    from pytableaux.lang import (Atomic, Constant, Marking, Operator, Predicate, Quantifier, Variable)
    if isinstance(k, Operator):
        return f'KOper {k.name}'
    if isinstance(k, Quantifier):
        return f'KQuant {k.name}'
    if isinstance(k, Predicate):
        return f'KSys {k.name}' if k.is_system else None
    if isinstance(k, tuple):
        if k == (Operator.Negation, Predicate.Identity):
            return 'KNegIdent'
        if len(k) == 2 and isinstance(k[0], type) and isinstance(k[1], int) and k[1] >= 0:
            nm = {Atomic: 'KAtomic', Variable: 'KVar', Constant: 'KConst', Predicate: 'KPred'}.get(k[0])
            return f'{nm} {k[1]}' if nm else None
        if k[0] is Marking.tableau:
            return {('designation', True): 'KDes true', ('designation', False): 'KDes false',
                    ('flag', 'closure'): 'KFlagClosure', ('flag', 'quit'): 'KFlagQuit',
                    ('access',): 'KAccess'}.get(tuple(k[1:]))
        if k == (Marking.meta, 'ellipsis'):
            return 'KEllipsis'
        return None
    if isinstance(k, Marking):
        return {Marking.paren_open: 'KParenO', Marking.paren_close: 'KParenC', Marking.whitespace: 'KWs',
                Marking.subscript_open: 'KSubO', Marking.subscript_close: 'KSubC'}.get(k)
    return None


def tables():
    from pytableaux.lang.writing import StringTable
    from pytableaux.proof.writers import registry
    res = []
    for (fmt, notn, dialect), t in StringTable._instances.items():
        ent = {}
        for k in t:
            nm = key_name(k)
            if nm is not None:
                v = t[k]
                ent[nm] = v if isinstance(v, str) else None
        res.append(dict(format=fmt, dialect=dialect, notation=notn.name, entries=ent))
    from pytableaux.lang import Atomic, Constant, Predicate, Variable
    return dict(tables=res, formats=list(registry),
                maxi=dict(KAtomic=Atomic.TYPE.maxi, KVar=Variable.TYPE.maxi, KConst=Constant.TYPE.maxi,
                          KPred=Predicate.TYPE.maxi))


LINE = re.compile(r'^([ |]*)(-- .*)$')


def parse_text(text):
    """-> list of root-to-leaf concatenated structure bodies, DFS order."""
    structs = []          # (col, nodestr, parent index)
    for i, line in enumerate(text.split('\n')):
        if i == 0:
            structs.append((0, line, None))
            continue
        m = LINE.match(line)
        if not m:
            if line.strip(' |'):
                raise ValueError(f'unparsable line {line!r}')
            continue
        col = len(m.group(1))
        par = None
        for j in range(len(structs) - 1, -1, -1):
            c, s, _ = structs[j]
            if c + len(s) == col:
                par = j
                break
        if par is None:
            raise ValueError(f'no parent for line {line!r}')
        structs.append((col, m.group(2), par))
    kids = {}
    for j, (_, _, p) in enumerate(structs):
        kids.setdefault(p, []).append(j)

    def body(s, has_kids):
        if s.startswith('-- '):
            s = s[3:]
        if has_kids and s.endswith(' .'):
            s = s[:-2]
        return s
    paths = []

    def walk(j, acc):
        acc = acc + body(structs[j][1], j in kids)
        if j not in kids:
            paths.append(acc)
        for k in kids.get(j, []):
            walk(k, acc)
    walk(0, '')
    return paths


def leaf_order(tree, out):
    if tree.leaf:
        out.append(tree.branch_id)
    for c in tree.children:
        leaf_order(c, out)


def check_faithful(tab, text, lw):
    """clauses of the property on the text rendering -> list of [clause, detail]"""
    bad = []
    try:
        paths = parse_text(text)
    except ValueError as e:
        return [['parse', str(e)]]
    order = []
    leaf_order(tab.tree, order)
    byid = {b.id: b for b in tab}
    if len(paths) != len(tab) or sorted(order) != sorted(byid):
        return [['paths', f'{len(paths)} text paths / {len(order)} leaves / {len(tab)} branches']]
    for bid, p in zip(order, paths):
        b = byid[bid]
        pos = 0
        for n in b:
            pieces = []
            if n.has('sentence'):
                pieces.append(lw(n['sentence']))
            if n.has('world'):
                pieces.append(f" w{n['world']}")
            if n.get('designated') is True:
                pieces.append('[+]')
            elif n.get('designated') is False:
                pieces.append('[-]')
            if n.has('world1', 'world2'):
                pieces.append(f"w{n['world1']}Rw{n['world2']}")
            for piece in pieces:
                k = p.find(piece, pos)
                if k < 0:
                    bad.append(['order', f'{piece!r} missing or out of order on the path of a branch'])
                    break
                pos = k + len(piece)
        marks = p.count('(x)')
        if marks != (1 if b.closed else 0):
            bad.append(['closure', f'{marks} closure marks on a {"closed" if b.closed else "open"} branch'])
        if b.closed and not p.rstrip().endswith('(x)'):
            bad.append(['closure', 'closure mark is not at the leaf end'])
    return bad[:5]


def export_model(tab, lw):
    """branches as node-index lists + node table for the Coq text model"""
    nid = {}
    table = []
    brs = []
    for i, b in enumerate(tab):
        ids = []
        for n in b:
            if id(n) not in nid:
                nid[id(n)] = len(table)
                acc = [n['world1'], n['world2']] if n.has('world1', 'world2') else None
                try:
                    tk = bool(n.ticked)
                except AttributeError:
                    tk = False
                table.append(dict(
                    sent=lw(n['sentence']) if n.has('sentence') else None,
                    world=n['world'] if n.has('world') else None,
                    des=n.get('designated'), acc=acc,
                    ell=bool(n.has('ellipsis')), tick=tk,
                    closure=(n.get('flag') == 'closure')))
            ids.append(nid[id(n)])
        brs.append(dict(id=i, nodes=ids, closed=bool(b.closed)))
    return dict(branches=brs, table=table)


def run_case(case):
    from pytableaux import examples
    from pytableaux.proof import Tableau
    from pytableaux.proof.writers import TabWriter, registry
    arg = examples.arguments[case['arg']]
    tab = Tableau(case['logic'], arg, **case.get('opts', {})).build()
    res = dict(result=tab.stats.get('result'), branches=len(tab), renders=[], text=[])
    if tab.tree is None:
        res['notree'] = True
        return res
    for fmt in registry:
        for notn in NOTATIONS:
            for wopts in OPTSETS.get(fmt, [{}]):
                rec = dict(format=fmt, notation=notn, wopts=wopts)
                try:
                    w = TabWriter(fmt, notn, **wopts)
                    out1 = w(tab)
                    out2 = TabWriter(fmt, notn, **wopts)(tab)
                    # another writer of the same format in the OTHER notation is used in between:
                    # a reused writer must not pick up state from it
                    other = [x for x in NOTATIONS if x != notn]
                    if other:
                        TabWriter(fmt, other[0], **wopts)(tab)
                    # per-call keyword options (every option the writer declares, toggled for ONE call) must not
                    # stick to the writer: the next plain call renders as before
                    opts_before = dict(getattr(w, 'opts', {}) or {})
                    for k_, v_ in list(opts_before.items()):
                        if isinstance(v_, bool):
                            try:
                                w(tab, **{k_: not v_})
                            except TypeError:
                                pass
                    rec['opts_kept'] = dict(getattr(w, 'opts', {}) or {}) == opts_before
                    out3 = w(tab)
                    rec['len'] = len(out1)
                    rec['same'] = bool(out1 == out2 == out3) and isinstance(out1, str)
                    rec['empty'] = not out1.strip()
                except Exception as e:
                    import traceback
                    rec['error'] = type(e).__name__
                    rec['detail'] = traceback.format_exc()[-800:]
                    res['renders'].append(rec)
                    continue
                res['renders'].append(rec)
                if fmt == 'text':
                    rec['faithful'] = check_faithful(tab, out1, w.lw)
                    m = export_model(tab, w.lw)
                    m['lines'] = out1.split('\n')
                    m['notation'] = notn
                    m['wopts'] = wopts
                    res['text'].append(m)
    return res


def main():
    if sys.argv[1:] == ['--tables']:
        json.dump(tables(), sys.stdout)
        return
    cases = json.load(sys.stdin)
    out = []
    for case in cases:
        try:
            out.append(run_case(case))
        except Exception as e:
            import traceback
            out.append(dict(error=type(e).__name__, detail=traceback.format_exc()[-1200:]))
    json.dump(out, sys.stdout)


if __name__ == '__main__':
    main()
