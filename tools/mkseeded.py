"""Writes seeded/README.md from seeded/*/meta.json."""
import json, glob, os
rows = []
for p in sorted(glob.glob('/verif/seeded/*/meta.json')):
    m = json.load(open(p))
    rows.append((m.get('seeded_id') or os.path.basename(os.path.dirname(p)), m.get('property'), m.get('summary', '')[:230].replace('\n', ' '),
                 m.get('needs_to_manifest', '')[:200].replace('\n', ' '), ', '.join(m.get('caught_by') or []) or 'NONE', m.get('note', '')))
out = ['# Seeded property-breaking changes', '',
       'Each directory holds `patch.diff` (applies to /repo with `git apply`), `demo.py` (exits 0 on the unchanged tree, 1 with the patch) and `meta.json`.',
       'Produced by fresh sub-agents that saw only the property text and a scratch worktree; every entry was confirmed here: the patch applies, the pinned suite is unchanged (as reported in meta.json), the demo flips, and the listed checks print VIOLATION with the patch and exit 0 without it.', '',
       '| id | property | change | needs to manifest | caught by (quick tier) | note |', '|---|---|---|---|---|---|']
for r in rows:
    out.append('| ' + ' | '.join(str(x).replace('|', '/') for x in r) + ' |')
open('/verif/seeded/README.md', 'w').write('\n'.join(out) + '\n')
print(len(rows), 'seeded changes')
