"""Driver-side helpers shared by the lexical checks (C14, C15): JSON sentence trees,
their rendering as Gallina terms of coq/theories/Lang/Syntax.v, enumerators and
random generators.  Pure stdlib; never imports pytableaux.

Trees:  ["A", i, s] | ["P", [i, s, arity], [param...]] | ["Q", qname, [vi, vs], body]
        | ["O", opname, [operand...]];  param = ["c", i, s] | ["v", i, s]
"""
from __future__ import annotations

import itertools

OPERS = ['Assertion', 'Negation', 'Conjunction', 'Disjunction', 'MaterialConditional',
         'MaterialBiconditional', 'Conditional', 'Biconditional', 'Possibility', 'Necessity']
UNARY = ['Assertion', 'Negation', 'Possibility', 'Necessity']
BINARY = [o for o in OPERS if o not in UNARY]
QUANTS = ['Existential', 'Universal']
IDENTITY = [-1, 0, 2]
EXISTENCE = [-2, 0, 1]


# ---- Gallina rendering (header opens N_scope) -------------------------------
def cq_param(p) -> str:
    return f"{'Const' if p[0] == 'c' else 'Var'} {p[1]} {p[2]}"


def cq_pred(sp) -> str:
    i, s, a = sp
    zi = f'({i})%Z' if i < 0 else f'{i}%Z'
    return f'(mkPred {zi} {s} {a})'


def cq_params(ps) -> str:
    return '[' + '; '.join(cq_param(p) for p in ps) + ']'


def cq_sent(t) -> str:
    k = t[0]
    if k == 'A':
        return f'(Atom {t[1]} {t[2]})'
    if k == 'P':
        return f'(Pred {cq_pred(t[1])} {cq_params(t[2])})'
    if k == 'Q':
        return f'(Quant {t[1]} {t[2][0]} {t[2][1]} {cq_sent(t[3])})'
    if k == 'O':
        args = t[2]
        if len(args) == 1:
            return f'(Un O{t[1]} {cq_sent(args[0])})'
        if len(args) == 2:
            return f'(Bin O{t[1]} {cq_sent(args[0])} {cq_sent(args[1])})'
    raise ValueError(f'not expressible: {t!r}')


def is_tree(x) -> bool:
    return isinstance(x, list) and x and x[0] in ('A', 'P', 'Q', 'O')


# ---- reference functions (used for reporting / shrinking only) ---------------
def ref_subst(t, new, old):
    k = t[0]
    if k == 'A':
        return t
    if k == 'P':
        return ['P', t[1], [new if p == old else p for p in t[2]]]
    if k == 'Q':
        return ['Q', t[1], t[2], ref_subst(t[3], new, old)]
    return ['O', t[1], [ref_subst(x, new, old) for x in t[2]]]


def children(t):
    k = t[0]
    if k == 'Q':
        return [t[3]]
    if k == 'O':
        return list(t[2])
    return []


def size(t) -> int:
    return 1 + sum(size(c) for c in children(t)) + (len(t[2]) if t[0] == 'P' else 0)


def depth(t) -> int:
    cs = children(t)
    return 1 + max(map(depth, cs)) if cs else 0


def top_class(t) -> str:
    return {'A': 'Atomic', 'P': 'Predicated', 'Q': 'Quantified', 'O': 'Operated'}[t[0]]


def params_in(t):
    if t[0] == 'P':
        return [tuple(p) for p in t[2]]
    res = []
    if t[0] == 'Q':
        res.append(('v', t[2][0], t[2][1]))
    for c in children(t):
        res.extend(params_in(c))
    return res


# ---- enumeration --------------------------------------------------------------
def level0(atoms, preds, params):
    out = [['A', *a] for a in atoms]
    for sp in preds:
        for ps in itertools.product(params, repeat=sp[2]):
            out.append(['P', list(sp), [list(p) for p in ps]])
    return out


def next_level(prev, unary, binary, quants, bvars):
    """All sentences whose immediate operands are in prev (prev itself not repeated)."""
    out = []
    for o in unary:
        out.extend(['O', o, [a]] for a in prev)
    for o in binary:
        out.extend(['O', o, [a, b]] for a in prev for b in prev)
    for q in quants:
        for v in bvars:
            out.extend(['Q', q, list(v), a] for a in prev)
    return out


# ---- random generation --------------------------------------------------------
def rand_param(rng, wide=True):
    k = rng.choice('cv')
    if wide:
        return [k, rng.randrange(4), rng.choice([0, 0, 0, 1, 2, 7])]
    return [k, rng.randrange(2), 0]


def rand_pred(rng):
    r = rng.random()
    if r < 0.2:
        return list(IDENTITY)
    if r < 0.3:
        return list(EXISTENCE)
    return [rng.randrange(4), rng.choice([0, 0, 1, 3]), rng.choice([1, 1, 2, 2, 3])]


def rand_sent(rng, depth: int, pool=None):
    """Random sentence of depth <= depth; pool = small parameter pool to force sharing."""
    if pool is None:
        pool = [rand_param(rng) for _ in range(rng.randint(2, 5))]
    if depth == 0 or rng.random() < 0.15:
        if rng.random() < 0.25:
            return ['A', rng.randrange(5), rng.choice([0, 0, 1, 4])]
        sp = rand_pred(rng)
        return ['P', sp, [list(rng.choice(pool)) for _ in range(sp[2])]]
    r = rng.random()
    if r < 0.3:
        vs = [p for p in pool if p[0] == 'v'] or [['v', 0, 0]]
        v = rng.choice(vs)
        return ['Q', rng.choice(QUANTS), [v[1], v[2]], rand_sent(rng, depth - 1, pool)]
    if r < 0.6:
        return ['O', rng.choice(UNARY), [rand_sent(rng, depth - 1, pool)]]
    return ['O', rng.choice(BINARY), [rand_sent(rng, depth - 1, pool), rand_sent(rng, depth - 1, pool)]]
