"""C16 — a tableau's bookkeeping is consistent at every step.

Theorems: coq/theories/Tab/{Book,BookProofs,Tree,TreeProofs}.v, coq/Props/C16.v.
Tie to /repo: trace refinement.  Real proofs are stepped through the public API
(tools/probe_book.py); the effect of every step is fed to the Coq model
(`report`, evaluated by vm_compute) and the observable projections are diffed:
a fingerprint after every step, the complete view, the tree and the stats at
the end.  The probe also asserts the property clauses directly on the
implementation at every step, so a violating (logic, argument, options, step)
is available as the replay."""
from __future__ import annotations

import ast
import json
import random
from concurrent.futures import ThreadPoolExecutor

from vlib import (Check, MachineryError, coq_eval_cases, ensure_theory, probe_json,
                  props_assumptions)

HEADER = ('From Coq Require Import List.\nImport ListNotations.\n'
          'From PT Require Import Tab.Tree Tab.Book.\n')

LOGICS = ['CPL', 'CFOL', 'FDE', 'K3', 'LP', 'L3', 'G3', 'RM3', 'K3W', 'K3WQ', 'B3E', 'GO', 'MH', 'NH', 'P3',
          'K', 'D', 'T', 'S4', 'S5', 'KFDE', 'KK3', 'TLP', 'S4G3', 'S5L3', 'S4GO', 'KRM3', 'S5B3E']
QUICK_LOGICS = ['CPL', 'CFOL', 'FDE', 'K3', 'LP', 'L3', 'G3', 'GO', 'MH', 'NH', 'P3', 'B3E', 'K3WQ', 'K', 'D', 'T', 'S4', 'S5',
                'KFDE', 'S4G3', 'S5L3']
OPTS = [dict(is_group_optim=g, is_rank_optim=r) for g in (True, False) for r in (True, False)]

THEOREMS = ['C16_book_inv', 'C16_growth', 'C16_closed_never_extended', 'C16_open_view', 'C16_fork_extends_parent',
            'C16_history', 'C16_steps', 'C16_trunk', 'C16_tree_precondition', 'C16_tree_paths', 'C16_tree_counts',
            'C16_tree_totals', 'C16_prefix_counts_refuted', 'C16_stats_agree']


def example_names():
    return probe_json('probe_book.py', ['--list'])


def gen_cases(tier: str, seed: int) -> list[dict]:
    rng = random.Random(seed)
    names = example_names()
    logics = QUICK_LOGICS if tier == 'quick' else LOGICS
    n = 201 if tier == 'quick' else 3051
    cases = []
    seen = set()
    # a fixed core: every option combination on a branching, a modal and a quantified argument
    core = [('CPL', 'Biconditional Elimination 1'), ('K', 'Modal Transformation 2'),
            ('CFOL', 'Syllogism'), ('FDE', 'DeMorgan 3'), ('S4', 'S4 Material Inference 1'),
            ('GO', 'Conditional Contraction'), ('K3WQ', 'Quantifier Interdefinability 1'),
            # rules with four extensions (structures with >= 4 children)
            ('B3E', 'Material Biconditional Identity'), ('MH', 'DeMorgan 3'), ('NH', 'DeMorgan 2'),
            ('P3', 'Biconditional Identity'),
            # the world limit flagged on several branches by one rule instance
            ('TK3WQ', 'S5 Conditional Inference 1'), ('S5K3WQ', 'S5 Material Inference 1')]
    for lg, a in core:
        if a in names:
            for o in (OPTS if lg in ('CPL', 'K', 'CFOL', 'FDE', 'S4', 'GO', 'K3WQ') else OPTS[:1]):
                cases.append(dict(logic=lg, arg=a, opts=dict(o)))
                seen.add((lg, a, o['is_group_optim'], o['is_rank_optim'], None))
    # the trunk holds EXACTLY the premises and the conclusion node, in order: repeated premises, a premise that is
    # the negation of the conclusion, the conclusion among the premises
    for lg in ('CPL', 'CFOL', 'K', 'S5', 'FDE', 'K3', 'GO', 'KFDE'):
        for spec in (dict(premises=['a', 'a'], conclusion='b'), dict(premises=['Na'], conclusion='a'),
                     dict(premises=['Kab', 'a', 'Kab'], conclusion='Kab'), dict(premises=['NNa', 'Na'], conclusion='Na')):
            cases.append(dict(logic=lg, arg=spec, opts=dict(OPTS[0])))
    # finished by hand before completion (step_cap), then poked with step() / build(): nothing may change and the tree /
    # statistics still describe the tableau
    for lg, a in core[:7]:
        if a in names:
            cases.append(dict(logic=lg, arg=a, opts=dict(OPTS[0]), step_cap=1, poke_after_finish=True))
    # the first applications made through the public rule API (rule.target / rule.apply) instead of step()
    for lg, a in core[:6]:
        if a in names:
            cases.append(dict(logic=lg, arg=a, opts=dict(OPTS[0]), direct_first=2))
    # stopped by the time limit (deterministic clock): finished, and the statistics still equal the observable counts
    for lg, a in core[:6]:
        if a in names:
            cases.append(dict(logic=lg, arg=a, opts=dict(OPTS[0]), fake_timeout=70))
    while len(cases) < n:
        lg = rng.choice(logics)
        a = rng.choice(names)
        o = dict(rng.choice(OPTS))
        ms = rng.choice([None] * 8 + [1, 3, 6, 12])
        key = (lg, a, o['is_group_optim'], o['is_rank_optim'], ms)
        if key in seen:
            continue
        seen.add(key)
        if ms is not None:
            o['max_steps'] = ms
        cases.append(dict(logic=lg, arg=a, opts=o))
    return cases


def effect_expr(effects) -> str:
    out = []
    for e in effects:
        if e[0] == 'T':
            out.append(f'Trunk {e[1]}')
        elif e[0] == 'A':
            sizes = '[' + '; '.join(map(str, e[2])) + ']'
            tick = 'None' if e[3] is None else f'(Some {e[3]})'
            out.append(f'Apply {e[1]} {sizes} {tick}')
        elif e[0] == 'C':
            out.append(f'Close {e[1]}')
        else:
            out.append('Finish')
    return 'report [' + '; '.join(out) + ']'


def parse_answer(ans: str):
    return ast.literal_eval(ans.replace(';', ','))


def run_probe_parallel(cases, nproc=4):
    chunks = [cases[i::nproc] for i in range(nproc)]
    with ThreadPoolExecutor(max_workers=nproc) as ex:
        outs = list(ex.map(lambda c: probe_json('probe_book.py', [], stdin=json.dumps(c), timeout=3000) if c else [],
                           chunks))
    res = [None] * len(cases)
    for k, out in enumerate(outs):
        for j, r in enumerate(out):
            res[k + j * nproc] = r
    return res


def compare(case, real, model):
    """-> list of (key, what, extra) : disagreements between implementation and verified model."""
    res = []
    mtrace, (mview, mtree, mstats) = model
    mtrace = [list(map(list, fp)) for fp in mtrace]
    rfps = real['fps']
    eff = real['effects']
    for k, (r, m) in enumerate(zip(rfps, mtrace)):
        kind = {'T': 'Trunk', 'A': 'Apply', 'C': 'Close', 'F': 'Finish'}[eff[k][0]]
        if m == []:
            res.append((f'corr:effect-rejected:{kind}',
                        f'the model rejects the real effect {eff[k]} at step {k} (precondition of book_inv fails: '
                        'target not in the open view, empty group while forking, or step after finish)', dict(step=k)))
            return res
        if r != m:
            res.append((f'corr:step:{kind}', f'bookkeeping after effect {k} {eff[k]} differs: '
                        f'implementation {r} / model {m}', dict(step=k)))
            return res
    if len(rfps) != len(mtrace):
        res.append(('corr:trace-length', 'trace lengths differ', {}))
        return res
    if real['view'] != [list(map(list, b)) for b in mview]:
        res.append(('corr:view', 'final complete view differs from the model', {}))
    if real['tree'] is not None:
        if real['tree'] != [list(t) for t in mtree]:
            res.append(('corr:tree', f'tree differs: implementation {real["tree"][:4]} / model {list(mtree)[:4]}', {}))
    got_stats, want_stats = list(real['stats']), list(mstats)
    if real.get('tree') is None and got_stats[:4] == want_stats[:4] and got_stats[4] is None:
        got_stats = want_stats     # no tree (stopped by the time limit): no distinct-node count is published
    if [x for x in got_stats if x is not None] != want_stats:
        res.append(('corr:stats', f'stats differ: implementation {real["stats"]} / model {list(mstats)}', {}))
    return res


def evaluate(cases, name='Cases'):
    """-> per case (real, findings)."""
    reals = run_probe_parallel(cases)
    idx = [i for i, r in enumerate(reals) if 'error' not in r]
    exprs = [effect_expr(reals[i]['effects']) for i in idx]
    answers = coq_eval_cases('C16', HEADER, exprs, shard=60, name=name, timeout=1200) if exprs else []
    models = dict(zip(idx, map(parse_answer, answers)))
    out = []
    for i, (case, real) in enumerate(zip(cases, reals)):
        f = []
        if 'error' in real:
            f.append((f'book:exception:{real["error"]}', f'stepping raised {real["error"]}',
                      dict(detail=real['detail'][-600:])))
        else:
            for clause, step, detail in real['direct']:
                f.append((f'book:{clause}', f'{clause} violated at step {step}: {detail}', dict(step=step)))
            f.extend(compare(case, real, models[i]))
        out.append((real, f))
    return out


def run(args) -> int:
    chk = Check('C16', args.tier, args.seed)
    chk.rule = ('one case = one (logic, argument, is_group_optim, is_rank_optim, max_steps) proof stepped to the end; '
                'distinct = distinct effect sequences; non-trivial = at least one rule application')
    ensure_theory()
    chk.assumptions = props_assumptions('C16')
    chk.theorems = THEOREMS
    for t, a in zip(THEOREMS, chk.assumptions):
        chk.obligation(f'theorem:{t}:closed', a.startswith('Closed under the global context'))
    if len(chk.assumptions) < len(THEOREMS):
        raise MachineryError(f'Props/C16.v printed {len(chk.assumptions)} assumption sets for {len(THEOREMS)} theorems')
    cases = gen_cases(args.tier, args.seed)
    results = evaluate(cases)
    accepted = True
    steps = 0
    for case, (real, findings) in zip(cases, results):
        chk.count('logic', case['logic'])
        chk.count('opts', f"group={int(case['opts']['is_group_optim'])},rank={int(case['opts']['is_rank_optim'])}"
                  + (',max_steps' if 'max_steps' in case['opts'] else ''))
        if 'error' not in real:
            steps += real['steps']
            chk.count('result', str(real['result']))
            chk.count('branches', '1' if real['branches'] == 1 else '2-4' if real['branches'] <= 4 else '5+')
            for e in real['effects']:
                chk.count('effect', {'T': 'Trunk', 'A': 'Apply', 'C': 'Close', 'F': 'Finish'}[e[0]]
                          + ('-fork' if e[0] == 'A' and len(e[2]) > 1 else ''))
            chk.case(real['effects'], nontrivial=real['steps'] > 0,
                     sample=dict(case=case, effects=real['effects'][:6], result=real['result']))
        for key, what, extra in findings:
            if key.startswith('corr:effect-rejected'):
                accepted = False
            rep = dict(kind='trace', case=case)
            rep.update(extra)
            chk.violation(key, f"{case['logic']} / {case['arg']} / {case['opts']}: {what}", rep, found_input=True)
    chk.obligation('every real effect sequence is accepted by the model step function (hypothesis of book_inv)', accepted)
    chk.notes['steps_refined'] = steps
    chk.checker_cmd = 'make (coq/theories/Tab, Props/C16.v); coqc gen/C16/Cases*.v (Eval vm_compute report ...)'
    chk.trusted.append('tools/probe_book.py: reading the observable bookkeeping through Tableau.stat/open/history/tree/stats '
                       'and numbering node objects by AFTER_NODE_ADD order')
    chk.notes['explanation'] = (
        'obligations = the property theorems compile closed under the global context + the hypothesis of the invariant '
        'theorem (every real effect is a valid model effect) observed on every refined step. cases = real proofs whose '
        'every step was replayed in the Coq model and diffed (fingerprint per step, complete view, tree and stats at the '
        'end) and on which the property clauses were asserted directly at every step.')
    return chk.finish()


def replay(path: str) -> int:
    rep = json.load(open(path))
    ensure_theory()
    (real, findings), = evaluate([rep['case']], name='Replay')
    keys = [k for k, _, _ in findings]
    print(f"replay: {rep['case']} -> {keys or 'consistent'}")
    if findings:
        for k, what, _ in findings[:3]:
            print(f'  {k}: {what[:300]}')
        print(f'VIOLATION property=C16 replay={path}')
        return 1
    return 0
