"""C07 — each logic's truth tables are the documented ones."""
from __future__ import annotations

import json
import re

import coqgen
from vlib import (Check, MachineryError, coq_eval_lines, coq_string, coqc, ensure_theory,
                  gen_dir, print_assumptions, probe_json, write_if_changed)

HEADER = ('From Coq Require Import List Bool String.\n'
          'From PT Require Import Util.Finite Sem.Values Sem.Lit Sem.TTCheck.\n'
          'Import ListNotations.\nOpen Scope string_scope.\n')

CLASSICAL_MODAL = {'K', 'D', 'T', 'S4', 'S5'}


def base_of(name: str, names: set[str]) -> str | None:
    """Documented base of a modal extension (titles: 'FDE with K modal', ...)."""
    if name in CLASSICAL_MODAL:
        return 'CFOL'
    for pre in ('S4', 'S5', 'K', 'T'):
        if name.startswith(pre) and name[len(pre):] in names and name[len(pre):] != '':
            return name[len(pre):]
    return None


def family_of(name, names, modal):
    if modal:
        b = base_of(name, names)
        if b:
            return 'CPL' if b == 'CFOL' else b
    if name in ('CFOL',):
        return 'CPL'
    if name.endswith('K3WQ'):
        return 'K3W'
    return name


def ob_name(ob: str) -> str:
    return ob.replace('Ob', '').replace(' ', '_')


def parse_failures(line: str):
    res = []
    for m in re.finditer(r'\((Ob\w+(?: \w+)?), \[([^\]]*)\]\)', line):
        ob = m.group(1)
        w = [x.strip()[1:] for x in m.group(2).split(';') if x.strip()]
        res.append((ob, w))
    return res


def run(args) -> int:
    chk = Check('C07', args.tier, args.seed)
    chk.rule = ('complete enumeration: every logic x every truth-functional operator x every value tuple '
                '(kernel-decided); correspondence: truth_table() vs the instance truth function vs '
                'value_of() on a model assigning the tuple to atoms; distinct = distinct (logic,operator,tuple)')
    chk.exhaustive = True
    ensure_theory()
    facts = probe_json('probe_facts.py')
    logics = facts['logics']
    names = {L['name'] for L in logics}
    g = gen_dir('C07')
    # ---- Tables.v ---------------------------------------------------------
    tab = [HEADER]
    inexpr = []
    ok_logics = []
    for L in logics:
        try:
            tab.append(f"Definition code_{coqgen.ident(L['name'])} : tables :=\n  {coqgen.emit_tables(L)}.\n")
            ok_logics.append(L)
        except coqgen.Inexpressible as e:
            inexpr.append((L['name'], str(e)))
    tab.append('Definition lit_of (n : string) : tables := match lit n with Some t => t | None => '
               '{| t_vals := []; t_des := fun _ => false; t_un := fun _ a => a; t_bin := fun _ a _ => a |} end.\n')
    write_if_changed(g / 'Tables.v', '\n'.join(tab))
    rc, out = coqc(g / 'Tables.v')
    if rc:
        raise MachineryError('generated Tables.v does not compile:\n' + out[-3000:])
    for name, why in inexpr:
        chk.obligation(f'{name}:expressible', False)
        chk.violation(f'tt:{name}:inexpressible', f'truth tables of {name} cannot be expressed: {why}',
                      dict(kind='obligation', logic=name, obligation='tables expressible', detail=why),
                      found_input=False)
    # the designated set is a set of the logic's own values (anything else cannot be expressed in, or compared by, the tables)
    for L in logics:
        foreign = sorted(set(L['designated']) - set(L['values']))
        stray = [x for x in L.get('designated_repr', []) if not x.startswith(L.get('values_class', '') + '.')] if L.get('values_class') else []
        chk.obligation(f"{L['name']}:designated values are values of the logic", not foreign and not stray)
        if foreign or stray:
            chk.violation(f"tt:{L['name']}:designated-not-a-value",
                          f"{L['name']}: Meta.designated_values contains {foreign or stray}, not among the logic's values {L['values']}",
                          dict(kind='truth_table', logic=L['name'], operator='designated', inputs=foreign or stray, observed=L['designated'],
                               expected='a subset of ' + str(L['values'])), found_input=True)
    # ---- Status.v ---------------------------------------------------------
    st = [HEADER, 'Require Import GC07.Tables.\n']
    order = []
    for L in ok_logics:
        n = L['name']
        i = coqgen.ident(n)
        native = 'true' if 'Assertion' in L['native_operators'] else 'false'
        st.append(f'Eval vm_compute in (is_none (lit {coq_string(n)}), '
                  f'c07_failures code_{i} (lit_of {coq_string(n)}) (c07_obs {native})).')
        order.append(('lit', L, None))
        b = base_of(n, names) if L['modal'] else None
        if b:
            st.append(f'Eval vm_compute in (false, c07_failures code_{i} code_{coqgen.ident(b)} '
                      f'([ObVals; ObDes] ++ map ObUn all_uops ++ map ObBin all_bops)).')
            order.append(('base', L, b))
    write_if_changed(g / 'Status.v', '\n'.join(st) + '\n')
    rc, out = coqc(g / 'Status.v')
    if rc:
        raise MachineryError('generated Status.v does not compile:\n' + out[-3000:])
    answers = coq_eval_lines(out)
    if len(answers) != len(order):
        raise MachineryError(f'status parse: {len(answers)} answers for {len(order)} queries')
    # ---- Obl.v ------------------------------------------------------------
    ob = [HEADER, 'Require Import GC07.Tables.\nFrom PTProps Require Import C07.\n']
    all_obs = ['ObVals', 'ObDes'] + [f'ObUn {o}' for o in coqgen.UOPS] + [f'ObBin {o}' for o in coqgen.BOPS]
    n_lemmas = 0
    by_logic = {L['name']: L for L in logics}
    for (kind, L, base), ans in zip(order, answers):
        n = L['name']
        i = coqgen.ident(n)
        nolit = ans.startswith('(true')
        fails = parse_failures(ans)
        failed = {o for o, _ in fails}
        if kind == 'lit':
            native = 'Assertion' in L['native_operators']
            obs = all_obs + ['ObDefMC', 'ObDefMB', 'ObDefBC'] + ([] if native else ['ObDefAssert']) + ['ObClosed']
            target = f'(lit_of {coq_string(n)})'
            if nolit:
                chk.obligation(f'{n}:documented-table-modelled', False)
                chk.violation(f'tt:{n}:no-documented-table',
                              f'no documented truth table is modelled for logic {n}',
                              dict(kind='obligation', logic=n, obligation='lit name = Some _'), found_input=False)
                continue
            fam = family_of(n, names, L['modal'])
        else:
            obs = all_obs
            target = f'code_{coqgen.ident(base)}'
            fam = None
        good = [o for o in obs if o not in failed]
        tag = 'lit' if kind == 'lit' else 'base'
        ob.append(f'Lemma obl_{tag}_{i} : c07_all code_{i} {target} [{"; ".join(good)}] = true.\n'
                  'Proof. vm_compute. reflexivity. Qed.\n'
                  f'Definition C07_{tag}_{i} := C07_all _ _ _ obl_{tag}_{i}.\n')
        n_lemmas += 1
        for o in good:
            chk.obligation(f'{n}:{tag}:{ob_name(o)}', True)
        for o, w in fails:
            ob.append(f'Lemma ref_{tag}_{i}_{ob_name(o)} : exists w, c07_check code_{i} {target} ({o}) = Some w.\n'
                      'Proof. eexists. vm_compute. reflexivity. Qed.\n')
            n_lemmas += 1
            chk.obligation(f'{n}:{tag}:{ob_name(o)}', False)
            opn = o.split()[-1] if ' ' in o else ob_name(o)
            if kind == 'lit':
                key = f'tt:{fam}-family:{opn}'
                what = (f'{n} {opn}{tuple(w[:-2]) if len(w) > 2 else tuple(w)}: implementation gives '
                        f'{w[-2] if len(w) > 2 else "?"}, documented table gives {w[-1] if len(w) > 2 else "?"}')
                replay = dict(kind='truth_table', logic=n, operator=opn, inputs=w[:-2] if len(w) > 2 else w,
                              observed=w[-2] if len(w) > 2 else None, expected=w[-1] if len(w) > 2 else None,
                              obligation=f'c07_check code_{i} lit ({o})')
            else:
                key = f'tt-base:{n}:{opn}'
                what = f'{n} {opn} differs from its base {base} at {w}'
                replay = dict(kind='truth_table_base', logic=n, base=base, operator=opn, inputs=w[:-2],
                              observed=w[-2] if len(w) > 2 else None, expected=w[-1] if len(w) > 2 else None)
            chk.violation(key, what, replay, found_input=True)
    write_if_changed(g / 'Obl.v', '\n'.join(ob) + '\n')
    rc, out = coqc(g / 'Obl.v')
    if rc:
        raise MachineryError('generated Obl.v does not compile:\n' + out[-3000:])
    chk.notes['kernel_lemmas'] = n_lemmas
    # property theorems' assumptions
    import subprocess
    from vlib import COQ
    pa = subprocess.run(['coqc', '-q', '-Q', str(COQ / 'theories'), 'PT', '-Q', str(COQ / 'Props'), 'PTProps',
                         str(COQ / 'Props' / 'C07.v')], capture_output=True, text=True, cwd=str(COQ))
    chk.assumptions = print_assumptions(pa.stdout)
    chk.theorems = ['C07_component', 'C07_component_refuted', 'C07_all', 'c07_check_iff']
    # ---- correspondence: truth_table vs truth_function vs value_of ----------
    ev = probe_json('probe_eval_tables.py')
    for L in logics:
        n = L['name']
        for o, rows in L['tables'].items():
            if not isinstance(rows, list):
                continue
            rv = (L.get('tables_rev') or {}).get(o) or {}
            base = {tuple(i): out for i, out in rows}
            for label in ('reverse', 'reverse_mapping', 'again'):
                got = rv.get(label)
                if got is None or {tuple(i): out for i, out in got} != base:
                    chk.violation(f'tt-orientation:{n}:{o}',
                                  f'{n} {o}: truth_table() asked again ({label}) is a different function: {got if got is not None else rv.get("error")}',
                                  dict(kind='truth_table_orientation', logic=n, operator=o, which=label, default=rows, other=got))
                    break
            tf = {tuple(i): out for i, out in L['truth_function'][o]}
            evr = {tuple(i): out for i, out in ev[n].get(o, [])}
            for inp, out in rows:
                t = tuple(inp)
                chk.case([n, o, inp], nontrivial=True,
                         sample=dict(logic=n, operator=o, inputs=inp, output=out))
                chk.count('operator', o)
                if tf.get(t) != out or evr.get(t) != out:
                    chk.violation(f'tt-tie:{n}:{o}',
                                  f'{n} {o}{t}: truth_table says {out}, truth function {tf.get(t)}, value_of {evr.get(t)}',
                                  dict(kind='truth_table_tie', logic=n, operator=o, inputs=inp, table=out,
                                       truth_function=tf.get(t), value_of=evr.get(t)))
    chk.checker_cmd = 'coqc gen/C07/{Tables,Status,Obl}.v against coq/theories/Sem/{Values,Lit,TTCheck}.v, Props/C07.v'
    chk.trusted.append('coq/theories/Sem/Lit.v: the literature tables written by formula (the specification)')
    chk.notes['explanation'] = (
        'obligations = one per (logic, component) where component is value set / designated set / each of the 8 '
        'truth-functional operators / the 3 definitional identities / assertion transparency / closure, plus the '
        'same components against the documented base for modal extensions; discharged = those for which the kernel '
        'accepted `c07_check = None` (lifted to the forall statement by C07_all); each remaining one has a kernel-checked '
        'refutation lemma with its witness tuple and is reported as finding or violation')
    return chk.finish()


def replay(path: str) -> int:
    rep = json.load(open(path))
    facts = probe_json('probe_facts.py')
    L = {x['name']: x for x in facts['logics']}[rep['logic']]
    rows = {tuple(i): o for i, o in L['tables'][rep['operator']]} if rep['operator'] in L['tables'] else {}
    got = rows.get(tuple(rep['inputs']))
    print(f"replay: {rep['logic']} {rep['operator']}{tuple(rep['inputs'])} -> {got}; documented {rep.get('expected')}")
    if got != rep.get('expected'):
        print(f"VIOLATION property=C07 replay={path}")
        return 1
    return 0
