"""Runs inside the implementation's interpreter.  stdin: JSON list of cases
{logic, arg: name | {premises:[..], conclusion:..}, opts:{...}}.  Every case is
stepped through the public API (Tableau.step) with listeners on the Tableau
events; after every step the EFFECT of the step (from the returned StepEntry:
index of the target branch in the open view before the step, group sizes of
target['adds'], ticked node) and a fingerprint of the observable bookkeeping
are exported; at the end the full view, the tree and the stats.  Independently
the property clauses are asserted directly on the implementation at every step
(`direct`: list of [clause, step, detail]).  Prints JSON; decides nothing."""
from __future__ import annotations

import json
import sys


def argument_of(spec):
    from pytableaux import examples
    from pytableaux.lang import Argument, Parser
    if isinstance(spec, str):
        return examples.arguments[spec]
    p = Parser(spec.get('notation', 'polish'))
    return Argument(p(spec['conclusion']), [p(s) for s in spec['premises']])


class Rec:
    def __init__(self, tab):
        from pytableaux.proof import Tableau
        self.tab = tab
        self.nid = {}          # id(node) -> creation index
        self.nodes = []        # keep nodes alive
        self.inh = {}          # id(branch) -> len at AFTER_BRANCH_ADD
        self.events = []
        E = Tableau.Events
        tab.on(E.AFTER_BRANCH_ADD, self.badd)
        tab.on(E.AFTER_NODE_ADD, self.nadd)
        tab.on(E.AFTER_NODE_TICK, lambda n, b: self.events.append('tick'))
        tab.on(E.AFTER_BRANCH_CLOSE, lambda b: self.events.append('close'))
        tab.on(E.AFTER_RULE_APPLY, lambda t: self.events.append('apply'))
        tab.on(E.AFTER_TRUNK_BUILD, lambda t: self.events.append('trunk'))
        tab.on(E.AFTER_FINISH, lambda t: self.events.append('finish'))

    def badd(self, b):
        self.inh[id(b)] = len(b)
        self.events.append('badd')

    def nadd(self, n, b):
        if id(n) not in self.nid:
            self.nid[id(n)] = len(self.nodes)
            self.nodes.append(n)
        self.events.append('nadd')

    def n(self, node):
        return self.nid.get(id(node), 10 ** 6)

    # ---- observable state ---------------------------------------------------
    def bindex(self, b):
        tab = self.tab
        for i in range(len(tab)):
            if tab[i] is b:
                return i
        return 10 ** 6

    def branch_view(self, b):
        from pytableaux.proof import Tableau
        tab = self.tab
        K = Tableau.StatKey
        st = tab.stat(b)
        closed = int(tab.flag.CLOSED in st[K.FLAGS])
        par = st[K.PARENT]
        a_codes, t_codes = [], []
        for n in b:
            try:
                ns = tab.stat(b, n)
            except KeyError:
                a_codes.append(0)
                t_codes.append(0)
                continue
            a_codes.append(1 + num(ns[K.STEP_ADDED]))
            t = ns[K.STEP_TICKED]
            t_codes.append(0 if t is None else 1 + num(t))
        return [[self.n(n) for n in b],
                [self.n(n) for n in b if b.is_ticked(n)],
                [closed, num(st[K.STEP_ADDED]), num(st[K.STEP_CLOSED]), self.inh.get(id(b), 10 ** 6)],
                [] if par is None else [self.bindex(par)],
                a_codes, t_codes]

    def tail(self):
        tab = self.tab
        return [[self.bindex(b) for b in tab.open],
                [len(tab.history), tab.current_step, len(self.nodes), int(tab.finished)]]

    def view(self):
        return [self.branch_view(b) for b in self.tab] + [self.tail()]

    def fp(self, view=None):
        v = view or self.view()
        res = []
        for bv in v[:-1]:
            res.append([len(bv[0]), bv[2][0], len(bv[1]), sum(bv[4]) + sum(bv[5])])
        return res + v[-1]


def num(x):
    """step stamps default to Flag(0) (an enum member) when unset"""
    return int(getattr(x, 'value', x))


def flatten_tree(rec, tree, out):
    bid = 0
    if tree.leaf:
        for i in range(len(rec.tab)):
            if rec.tab[i].id == tree.branch_id:
                bid = i + 1
    out.append([tree.depth, int(tree.leaf), int(tree.closed), tree.width, tree.descendant_node_count,
                tree.structure_node_count, int(tree.has_open), int(tree.has_closed), bid]
               + [rec.n(n) for n in tree.nodes])
    for c in tree.children:
        flatten_tree(rec, c, out)


def tree_leaves(rec, tree, pre, out):
    path = pre + [rec.n(n) for n in tree.nodes]
    if tree.leaf:
        out.append((tree.branch_id, bool(tree.closed), path))
    for c in tree.children:
        tree_leaves(rec, c, path, out)


def tree_recount(tree):
    """(width, descendant nodes, distinct contribution) recomputed bottom-up; list of mismatching fields."""
    bad = []
    w = 1 if tree.leaf else 0
    d = 0
    dn = len(tree.nodes)
    for c in tree.children:
        cw, cd, cdn, cb = tree_recount(c)
        bad += cb
        w += cw
        d += len(c.nodes) + cd
        dn += cdn
    if tree.width != w:
        bad.append('width')
    if tree.descendant_node_count != d:
        bad.append('descendant_node_count')
    if tree.structure_node_count != d + len(tree.nodes):
        bad.append('structure_node_count')
    return w, d, dn, bad


def sentence_of(node):
    try:
        return node['sentence']
    except KeyError:
        return None


def run_case(case):
    from pytableaux.proof import Tableau
    from pytableaux.proof.rules import ClosingRule
    K = Tableau.StatKey
    arg = argument_of(case['arg'])
    opts = dict(case.get('opts', {}))
    if case.get('fake_timeout'):
        # a deterministic clock (1 ms per reading) and a time limit that runs out after a few steps
        from pytableaux.tools import timing
        clock = [0.0]
        def fake_time():
            clock[0] += 0.001
            return clock[0]
        timing._time = fake_time
        opts['build_timeout'] = case['fake_timeout']
    tab = Tableau(None, None, **opts)
    rec = Rec(tab)
    direct = []
    effects = []
    fps = []

    def bad(clause, detail):
        if len(direct) < 20:
            direct.append([clause, len(effects), detail])

    def check_state(prev, cur_view):
        """clauses that are about one state / one transition"""
        nb = len(tab)
        flags = [tab.flag.CLOSED in tab.stat(b, K.FLAGS) for b in tab]
        # open view = unclosed branches in order; Branch.closed agrees with the stat flag
        if [id(b) for b in tab.open] != [id(b) for b, c in zip(tab, flags) if not c]:
            bad('open-view', 'open != filter(not closed, branches)')
        for b, c in zip(tab, flags):
            if bool(b.closed) != c:
                bad('open-view', 'Branch.closed differs from stat CLOSED flag')
        cs = tab.current_step
        for i, b in enumerate(tab):
            bv = cur_view[i]
            st = tab.stat(b)
            if st[K.INDEX] != i:
                bad('index', f'stat INDEX {st[K.INDEX]} for branch {i}')
            last = 0
            for a in bv[4]:
                if a:
                    if a - 1 < last:
                        bad('steps', f'STEP_ADDED decreases along branch {i}')
                    last = a - 1
                    if a - 1 > cs:
                        bad('steps', f'STEP_ADDED in the future on branch {i}')
            for a, t in zip(bv[4], bv[5]):
                if t and (t - 1 > cs or (a and t < a)):
                    bad('steps', f'STEP_TICKED out of range on branch {i}')
            for n in b:
                if getattr(n, 'step', None) is None or n.step > cs:
                    bad('steps', 'node.step missing or in the future')
            if num(st[K.STEP_ADDED]) > cs or num(st[K.STEP_CLOSED]) > cs:
                bad('steps', f'branch stamps in the future on branch {i}')
            if bv[2][0] and bv[4] and bv[4][-1] and bv[4][-1] - 1 != num(st[K.STEP_CLOSED]):
                bad('steps', f'STEP_CLOSED differs from the closure node stamp on branch {i}')
            par = st[K.PARENT]
            if par is not None:
                pi = rec.bindex(par)
                if not pi < i:
                    bad('fork-parent', f'parent index {pi} of branch {i}')
                if b.parent is not par or b.origin is not tab[0]:
                    bad('fork-parent', 'Branch.parent/origin differ from the stat')
        if prev is not None:
            for i, pv in enumerate(prev[:-1]):
                if i >= nb:
                    bad('grow', 'a branch disappeared')
                    break
                now = cur_view[i][0]
                if now[:len(pv[0])] != pv[0]:
                    bad('grow', f'branch {i} lost or changed nodes')
                if pv[2][0] and (len(now) != len(pv[0]) or not cur_view[i][2][0]):
                    bad('closed-extended', f'closed branch {i} changed')
                if not set(pv[1]) <= set(cur_view[i][1]):
                    bad('grow', f'branch {i} lost ticks')

    # ---- trunk ---------------------------------------------------------------
    tab.logic = case['logic']
    tab.argument = arg
    v = rec.view()
    if len(tab) != 1:
        bad('trunk', f'{len(tab)} branches after build_trunk')
    else:
        b = tab[0]
        sents = [sentence_of(n) for n in b]
        prem = list(arg.premises)
        c = arg.conclusion
        if sents[:len(prem)] != prem or len(sents) != len(prem) + 1 or sents[-1] not in (c, ~c):
            bad('trunk', 'trunk is not premises ++ [conclusion node]')
        else:
            for n in list(b)[:-1]:
                if n.get('designated') not in (None, True):
                    bad('trunk', 'premise node not designated')
            ln = b[len(prem)]
            if ln.get('designated') is None:
                if sents[-1] != ~c:
                    bad('trunk', 'conclusion not negated')
            elif ln['designated'] is not False or sents[-1] != c:
                bad('trunk', 'conclusion node not undesignated')
        if any(x != 1 for x in v[0][4]) or v[0][2][1] != 0:
            bad('trunk', 'trunk stamps are not step 0')
    if rec.events.count('trunk') != 1 or not (tab.flag.TRUNK_BUILT in tab.flag):
        bad('trunk', 'AFTER_TRUNK_BUILD not emitted once')
    # "the trunk holds exactly the premises and the conclusion": a refused re-assignment of the argument after the trunk is
    # built must leave the tableau's argument the one the trunk was built from
    try:
        from pytableaux.lang import Argument as _Arg, Atomic as _At
        tab.argument = _Arg(_At(4, 9))
        bad('trunk', 'the argument was re-assigned after the trunk was built')
    except Exception:
        pass
    if tab.argument != arg or len(tab) != 1:
        bad('trunk', 'after a refused re-assignment the tableau no longer carries the argument its trunk was built from')
    effects.append(['T', len(tab[0]) if len(tab) else 0])
    check_state(None, v)
    fps.append(rec.fp(v))
    prev = v
    # ---- steps -----------------------------------------------------------------
    limit = case.get('step_cap', 400)
    timed_out = False
    while True:
        opens = list(tab.open)
        hlen = len(tab.history)
        cs0 = tab.current_step
        rec.events.clear()
        if len(effects) - 1 < case.get('direct_first', 0):
            # the rule is applied through the public rule API (rule.target / rule.apply), not through step():
            # the application is still recorded once, with that rule and target
            picked = None
            for rule_ in tab.rules:
                for b_ in tab.open:
                    t_ = rule_.target(b_)
                    if t_:
                        picked = (rule_, t_)
                        break
                if picked:
                    break
            if picked is None:
                entry = tab.step()
                if entry is None:
                    break
            else:
                picked[0].apply(picked[1])
                if len(tab.history) != hlen + 1 or tab.history[-1].rule is not picked[0]:
                    bad('history', f'a rule applied directly ({picked[0].name}) was not recorded as one step with that rule')
                    break
                entry = tab.history[-1]
                cs0 = tab.current_step - 1 if tab.current_step == cs0 + 1 else cs0
        else:
          try:
            entry = tab.step()
          except Exception as e:  # noqa
            if case.get('fake_timeout') and type(e).__name__ == 'ProofTimeoutError':
                timed_out = True
                break
            raise
          if entry is None:
            break
        rule, target = entry.rule, entry.target
        try:
            oi = [id(b) for b in opens].index(id(target.branch))
        except ValueError:
            oi = 10 ** 6
            bad('closed-extended', 'step target is not in the open view')
        if isinstance(rule, ClosingRule):
            effects.append(['C', oi])
        else:
            tick = rec.n(target.node) if (rule.ticking and 'node' in target) else None
            effects.append(['A', oi, [len(g) for g in target['adds']], tick])
        v = rec.view()
        # one history entry per step, carrying the applied rule and target
        if len(tab.history) != hlen + 1 or tab.history[-1] is not entry:
            bad('history', 'history did not grow by exactly the returned entry')
        elif entry.target.rule is not rule or rule not in list(tab.rules) \
                or rec.bindex(target.branch) >= len(tab):
            bad('history', 'entry does not carry the applied rule and target')
        if rec.events.count('apply') != 1:
            bad('history', 'AFTER_RULE_APPLY not emitted exactly once')
        if tab.current_step != cs0 + 1:
            bad('history', 'current_step did not advance by one')
        # forks extend the parent's nodes at fork time
        nb0 = len(prev) - 1
        ti = rec.bindex(target.branch)
        for i in range(nb0, len(tab)):
            bv = v[i]
            if bv[3] != [ti]:
                bad('fork-parent', f'new branch {i} parent {bv[3]} is not the target {ti}')
            elif ti < nb0 and (bv[2][3] != len(prev[ti][0]) or bv[0][:bv[2][3]] != prev[ti][0]
                               or len(bv[0]) <= bv[2][3]):
                bad('fork-parent', f'new branch {i} does not extend the parent nodes at fork time')
        check_state(prev, v)
        fps.append(rec.fp(v))
        prev = v
        if len(effects) > limit:
            tab.finish()
            break
    if case.get('poke_after_finish'):
        # a finished tableau (finished by hand, before completion): step() / build() change nothing, so everything
        # published after finishing still describes the tableau
        before = rec.fp(rec.view())
        h0, nb0_ = len(tab.history), len(tab)
        try:
            r1 = tab.step()
            tab.build()
        except Exception as e:  # noqa
            r1 = 'err:' + type(e).__name__
        if r1 is not None or len(tab.history) != h0 or len(tab) != nb0_ or rec.fp(rec.view()) != before:
            bad('after-finish', f'step()/build() on a finished tableau changed it (step returned {r1!r}, history {h0} -> {len(tab.history)})')
    effects.append(['F'])
    v = rec.view()
    fps.append(rec.fp(v))
    if not tab.finished or rec.events.count('finish') != 1:
        bad('finish', 'AFTER_FINISH not emitted once / not finished')
    res = dict(effects=effects, fps=fps, view=v, direct=direct,
               result=tab.stats.get('result'), steps=len(tab.history), branches=len(tab))
    # ---- tree and stats ----------------------------------------------------------
    tree = tab.tree
    if timed_out and tree is None:
        res['tree'] = None          # a tableau stopped by the time limit publishes no tree; its statistics still count
    elif tree is None:
        bad('tree-paths', 'no tree after finish')
        res['tree'] = None
    else:
        flat = []
        flatten_tree(rec, tree, flat)
        res['tree'] = flat
        res['distinct'] = tree.distinct_nodes
        leaves = []
        tree_leaves(rec, tree, [], leaves)
        want = sorted((b.id, bool(tab.flag.CLOSED in tab.stat(b, K.FLAGS)), [rec.n(n) for n in b]) for b in tab)
        if sorted(leaves) != want:
            bad('tree-paths', 'leaves/paths differ from the branches')
        w, d, dn, badf = tree_recount(tree)
        for f in sorted(set(badf)):
            bad('tree-counts', f)
        if tree.width != len(tab):
            bad('tree-counts', 'width')
        distinct = len({id(n) for b in tab for n in b})
        if tree.distinct_nodes != distinct or dn != distinct:
            bad('tree-counts', 'distinct_nodes')
        if tree.structure_node_count != distinct:
            bad('tree-counts', 'structure_node_count')
    s = tab.stats
    closed = sum(1 for b in tab if b.closed)
    exp = dict(branches=len(tab), open_branches=len(tab) - closed, closed_branches=closed,
               steps=len(effects) - 2,
               distinct_nodes=len({id(n) for b in tab for n in b}) if tree is not None else None)
    for k, val in exp.items():
        if s.get(k) != val:
            bad('stats', k)
    res['stats'] = [s.get('branches'), s.get('open_branches'), s.get('closed_branches'), s.get('steps'),
                    s.get('distinct_nodes')]
    return res


def main():
    from pytableaux.logics import registry  # noqa: F401
    if sys.argv[1:] == ['--list']:
        from pytableaux import examples
        json.dump(list(examples.arguments), sys.stdout)
        return
    cases = json.load(sys.stdin)
    out = []
    for case in cases:
        try:
            out.append(run_case(case))
        except Exception as e:  # an exception while stepping is itself reported
            import traceback
            out.append(dict(error=type(e).__name__, detail=traceback.format_exc()[-1500:]))
    json.dump(out, sys.stdout)


if __name__ == '__main__':
    main()
