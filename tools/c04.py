"""C04 — every single expansion step preserves satisfiability exactly."""
from __future__ import annotations

import json
import re
import random

import coqgen
import rulegen
from coqgen import Inexpressible
from vlib import (Check, MachineryError, coq_eval_cases, coq_string, coqc, ensure_theory,
                  gen_dir, probe_json, props_assumptions, write_if_changed)

HEADER = ('From Coq Require Import List Bool String.\n'
          'From PT Require Import Util.Finite Sem.Values Sem.Lit Sem.Syntax Sem.Schema Sem.Gen.\n'
          'Import ListNotations.\nOpen Scope string_scope.\n')

LIT_OF = ('Definition lit_of (n : string) : tables := match lit n with Some t => t | None => '
          '{| t_vals := []; t_des := fun _ => false; t_un := fun _ a => a; t_bin := fun _ a _ => a |} end.\n'
          'Definition ge_of (n : string) : gen4 := match lit_gens n with Some p => fst p | None => g_max end.\n'
          'Definition gu_of (n : string) : gen4 := match lit_gens n with Some p => snd p | None => g_min end.\n')


def parse_opt_vals(tok: str):
    tok = tok.strip()
    if tok == 'None':
        return None
    m = re.match(r'Some \[(.*)\]$', tok)
    if not m:
        raise MachineryError(f'cannot parse status {tok!r}')
    return [x.strip()[1:] for x in m.group(1).split(';') if x.strip()]


def split_pair(ans: str):
    # "(None, Some [VN; VB])" -> two tokens
    a = ans.strip()
    assert a.startswith('(') and a.endswith(')'), a
    a = a[1:-1]
    depth = 0
    for i, ch in enumerate(a):
        if ch == '[':
            depth += 1
        elif ch == ']':
            depth -= 1
        elif ch == ',' and depth == 0:
            return a[:i], a[i + 1:]
    raise MachineryError(f'cannot split {ans!r}')


def gather(facts, rules):
    """Per logic: list of (rule info, kind, gallina term or None, problems)."""
    out = {}
    for L in facts['logics']:
        n = L['name']
        ent = []
        for r in rules[n]['rules']:
            item = dict(rule=r, term=None, problems=[], kind=r.get('kind'), domain=None, error=None)
            try:
                if 'error' in r:
                    raise Inexpressible(f"probing raised {r['error']}")
                if r['kind'] == 'op':
                    item['term'] = rulegen.tfrule(r)
                elif r['kind'] in ('quant', 'modal'):
                    item['term'], item['domain'], item['problems'] = rulegen.qrule(r)
            except Inexpressible as e:
                item['error'] = str(e)
            ent.append(item)
        out[n] = ent
    return out


def run(args) -> int:
    chk = Check('C04', args.tier, args.seed)
    ensure_theory()
    facts = probe_json('probe_facts.py')
    rules = probe_json('probe_rules.py')
    gens = probe_json('probe_gens.py')
    logics = facts['logics']
    byname = {L['name']: L for L in logics}
    data = gather(facts, rules)
    g = gen_dir('C04')

    # ---- Rules.v ------------------------------------------------------------
    src = [HEADER, LIT_OF]
    queries = []     # (logic, item, kind)
    for L in logics:
        n = L['name']
        i = coqgen.ident(n)
        for item in data[n]:
            r = item['rule']
            rn = coqgen.ident(r['name'])
            if item['error']:
                chk.obligation(f'{n}:{r["name"]}:expressible', False)
                chk.violation(f'rule:{n}:{r["name"]}:inexpressible',
                              f'{n} {r["name"]}: the rule no longer fits the schematic rule language ({item["error"]})',
                              dict(kind='obligation', logic=n, rule=r['name'], detail=item['error'],
                                   obligation='rule expressible as schema'), found_input=False)
                continue
            if item['term'] is None:
                continue
            if item['kind'] == 'op':
                src.append(f'Definition r_{i}_{rn} : tfrule := {item["term"]}.')
            else:
                src.append(f'Definition q_{i}_{rn} : qrule := {item["term"]}.')
            queries.append((n, item))
    write_if_changed(g / 'Rules.v', '\n'.join(src) + '\n')
    rc, out = coqc(g / 'Rules.v')
    if rc:
        raise MachineryError('generated Rules.v does not compile:\n' + out[-3000:])

    # ---- status -------------------------------------------------------------
    exprs = []
    for n, item in queries:
        i = coqgen.ident(n)
        rn = coqgen.ident(item['rule']['name'])
        t = f'(lit_of {coq_string(n)})'
        if item['kind'] == 'op':
            exprs.append(f'(tf_sound {t} r_{i}_{rn}, tf_complete {t} r_{i}_{rn})')
        else:
            dom = 'true' if item['domain'] else 'false'
            a = f'{t} (ge_of {coq_string(n)}) (gu_of {coq_string(n)}) {dom} q_{i}_{rn}'
            exprs.append(f'(q_sound {a}, q_complete {a})')
    answers = coq_eval_cases('C04', HEADER + 'Require Import GC04.Rules.\n', exprs, shard=600, name='Status')

    # ---- Obl.v ---------------------------------------------------------------
    ob = [HEADER, 'Require Import GC04.Rules.\nFrom PTProps Require Import C04.\n']
    per_logic_ok: dict[str, list[str]] = {}
    n_lemmas = 0
    for (n, item), ans in zip(queries, answers):
        i = coqgen.ident(n)
        r = item['rule']
        rn = coqgen.ident(r['name'])
        s_tok, c_tok = split_pair(ans)
        t = f'(lit_of {coq_string(n)})'
        for direction, tok in (('sound', s_tok), ('complete', c_tok)):
            w = parse_opt_vals(tok)
            if item['kind'] == 'op':
                term = f'tf_{direction} {t} r_{i}_{rn}'
            else:
                dom = 'true' if item['domain'] else 'false'
                term = f'q_{direction} {t} (ge_of {coq_string(n)}) (gu_of {coq_string(n)}) {dom} q_{i}_{rn}'
            name = f'{n}:{r["name"]}:{direction}'
            if w is None:
                chk.obligation(name, True)
                per_logic_ok.setdefault(n, []).append(term)
            else:
                chk.obligation(name, False)
                ob.append(f'Lemma ref_{i}_{rn}_{direction} : exists w, {term} = Some w.\n'
                          'Proof. eexists. vm_compute. reflexivity. Qed.')
                n_lemmas += 1
                if item['kind'] == 'op':
                    what = (f'{n} {r["name"]}: with operand values {tuple(w)} the node is '
                            + ('satisfied but no extension is' if direction == 'sound'
                               else 'not satisfied although an extension is')
                            + " (documented tables)")
                else:
                    what = (f'{n} {r["name"]}: over element values {set(w) or "{}"} the node is '
                            + ('satisfied but no extension is' if direction == 'sound'
                               else 'not satisfied although an extension is'))
                chk.violation(f'rule:{n}:{r["name"]}:{direction}', what,
                              dict(kind='rule_exactness', logic=n, rule=r['name'], direction=direction,
                                   values=w, schema=r['variants'], obligation=term))
        for pr in item['problems']:
            chk.obligation(f'{n}:{r["name"]}:structure', False)
            chk.violation(f'rule:{n}:{r["name"]}:structure', f'{n} {r["name"]}: {pr}',
                          dict(kind='rule_structure', logic=n, rule=r['name'], detail=pr,
                               schema=r['variants']), found_input=False)
        if not item['problems']:
            chk.obligation(f'{n}:{r["name"]}:structure', True)
    for n, terms in per_logic_ok.items():
        i = coqgen.ident(n)
        ob.append(f'Lemma obl_{i} : forallb (fun o => is_none o) [{"; ".join(terms)}] = true.\n'
                  'Proof. vm_compute. reflexivity. Qed.')
        n_lemmas += 1
    write_if_changed(g / 'Obl.v', '\n'.join(ob) + '\n')
    rc, out = coqc(g / 'Obl.v', timeout=900)
    if rc:
        raise MachineryError('generated Obl.v does not compile:\n' + out[-3000:])
    chk.notes['kernel_lemmas'] = n_lemmas

    # ---- every compound shape has a rule ----------------------------------------
    for L in logics:
        n = L['name']
        have = set()
        for r in rules[n]['rules']:
            if r.get('kind') == 'op' or r.get('kind') == 'modal':
                have.add(('op', r['operator'], bool(r['negated']), r['designation']))
            elif r.get('kind') == 'quant':
                have.add(('q', r['quantifier'], bool(r['negated']), r['designation']))
        for sh in rulegen.expected_shapes(L):
            ok = sh in have
            chk.obligation(f'{n}:shape:{sh[1]}{"Negated" if sh[2] else ""}{sh[3]}', ok)
            if not ok:
                chk.violation(f'shape:{n}:{sh[1]}:{sh[2]}:{sh[3]}',
                              f'{n}: no rule for {"negated " if sh[2] else ""}{sh[1]} nodes with designation {sh[3]}',
                              dict(kind='missing_rule', logic=n, shape=list(sh)), found_input=False)

    # ---- generaliser tie: documented generaliser vs the evaluator, all lists <= 3 ---
    gexprs, gkeys = [], []
    for L in logics:
        n = L['name']
        for gname, rows in gens.get(n, {}).items():
            univ = gname in ('Universal', 'Necessity')
            gfun = f'(gu_of {coq_string(n)})' if univ else f'(ge_of {coq_string(n)})'
            lists = '[' + '; '.join('[' + '; '.join('V' + v for v in l) + ']' for l, _ in rows) + ']'
            gexprs.append(f'map (fun vs => gapp {gfun} (mem_of vs)) {lists}')
            gkeys.append((n, gname, rows))
    ganswers = coq_eval_cases('C04', HEADER + LIT_OF, gexprs, shard=60, name='GenTie')
    fde_family = {'FDE', 'KFDE', 'TFDE', 'S4FDE', 'S5FDE'}
    for (n, gname, rows), ans in zip(gkeys, ganswers):
        vals = re.findall(r'V([FNBT])', ans)
        if len(vals) != len(rows):
            raise MachineryError(f'generaliser tie parse: {n} {gname}')
        for (l, real), spec in zip(rows, vals):
            chk.case(['gen', n, gname, l], nontrivial=len(set(l)) > 1,
                     sample=dict(logic=n, generaliser=gname, values=l, evaluator=real, documented=spec))
            chk.count('generaliser', gname)
            if real != spec:
                if n in fde_family and {'N', 'B'} <= set(l):
                    # root cause is C07's finding (linear order instead of the lattice); cross-referenced
                    chk.count('cross_referenced', 'C07 tt:FDE-family (N,B)')
                    continue
                chk.violation(f'gen:{n}:{gname}',
                              f'{n}: {gname} over values {l} evaluates to {real}, documented generalisation gives {spec}',
                              dict(kind='generaliser', logic=n, generaliser=gname, values=l, observed=real,
                                   expected=spec))

    # ---- schematic-ness: the real rule on random compound operands = schema instance ---
    per_rule = 2 if args.tier == 'quick' else 12
    sc = probe_json('probe_schematic.py', [str(args.seed), str(per_rule)], timeout=1800)
    for rec in sc['cases']:
        chk.case(['schematic', rec['logic'], rec['rule'], rec['operands']], nontrivial=True,
                 sample=rec if rec.get('ok') else None)
        chk.count('schematic_kind', rec['kind'])
        if not rec['ok']:
            chk.violation(f'schematic:{rec["logic"]}:{rec["rule"]}',
                          f'{rec["logic"]} {rec["rule"]}: applied to operands {rec["operands"]} the rule produced '
                          f'{rec["got"]}, the schema instance is {rec["expected"]}',
                          dict(rec, kind='schematic', rule_kind=rec.get('kind')), found_input=True)

    # ---- frame rules: exhaustive small access-pair sets ---------------------------
    fr = probe_json('probe_frames.py', [args.tier, str(args.seed)], timeout=1800)
    # kernel side of the frame clause: the real rule applications are legal frame steps and the result is saturated,
    # so by C04_frame_saturation_is_closure the final pairs are exactly the required closure
    fexprs, fidx = [], []
    for rec in fr['cases']:
        if 'steps' in rec and not (byname[rec['logic']]['access'] == 'SerialAccess'):
            fl = rec['flags']
            F = f"{{| f_refl := {str(fl[0]).lower()}; f_trans := {str(fl[1]).lower()}; f_sym := {str(fl[2]).lower()} |}}"
            W = '[' + '; '.join(map(str, rec['branch_worlds'])) + ']'
            P = '[' + '; '.join(f'({a}, {b})' for a, b in rec['pairs']) + ']'
            St = '[' + '; '.join(f'({a}, {b})' for a, b in rec['steps']) + ']'
            fexprs.append(f'match run_steps {F} {W} {P} {St} with Some Q => saturated {F} {W} Q | None => false end')
            fidx.append(rec)
    fans = coq_eval_cases('C04', 'From Coq Require Import List.\nFrom PT Require Import Tab.Frame.\nImport ListNotations.\n',
                          fexprs, shard=800, name='Frames')
    for rec, ans in zip(fidx, fans):
        if ans.strip() != 'true' and rec['ok']:
            rec['ok'] = False
            rec['why'] = 'illegal-step-or-unsaturated'
            rec['got'] = rec.get('steps')
            rec['expected'] = 'legal frame-rule steps ending saturated'
    chk.notes['frame_runs_kernel_checked'] = len(fidx)
    for rec in fr['cases']:
        chk.case(['frame', rec['logic'], rec['pairs'], rec['worlds']], nontrivial=len(rec['pairs']) > 0,
                 sample=rec if len(chk.samples) < 8 and rec['pairs'] else None)
        chk.count('frame_logic', rec['logic'])
        if not rec['ok']:
            chk.violation(f'frame:{rec["logic"]}:{rec["why"]}',
                          f'{rec["logic"]}: access pairs {rec["pairs"]} on worlds {rec["worlds"]} saturate to '
                          f'{rec["got"]}, the frame condition requires exactly {rec["expected"]}',
                          dict(rec, kind='frame'))

    chk.assumptions = props_assumptions('C04')
    chk.theorems = ['C04_tf_exact', 'C04_tf_sound', 'C04_tf_complete', 'C04_gen_sound', 'C04_gen_complete']
    chk.rule = ('obligations: every rule of every logic (schema re-probed from /repo) x {sound, complete} decided by the '
                'kernel over all operand value pairs / all 16 subsets of element values; every compound shape has a rule; '
                'structure (worlds, witnesses). correspondence: generaliser of the evaluator vs documented on all value '
                'lists of length <= 3; real rules on random compound operands vs schema instance; frame rules on access-pair '
                'sets. distinct_nontrivial counts distinct cases with >= 2 distinct values / non-empty pair sets / compound operands')
    chk.checker_cmd = 'coqc gen/C04/{Rules,Status*,Obl,GenTie*}.v against coq/theories/Sem/{Schema,Gen,Lit}.v, Props/C04.v'
    chk.trusted += ['Sem/Lit.v (documented tables) and Sem/Gen.v lit_gens (documented generalisers) as specification',
                    'tools/probe_rules.py schema abstraction (validated each run by probe_schematic.py on random operands)']
    chk.notes['explanation'] = (
        'Each obligation is a boolean decided by vm_compute over a complete finite domain and lifted by the Props/C04 '
        'theorems (truth-functional: all sentences and all compositional evaluations; generalising rules: value lists of '
        'every length via the 16 value subsets). Refuted obligations have kernel-checked refutation lemmas with witnesses.')
    return chk.finish()


def replay(path: str) -> int:
    rep = json.load(open(path))
    if rep.get('kind') == 'rule_exactness':
        # re-probe the rule and recompute the obligation for that rule only
        import subprocess, sys
        print('replay: re-running the C04 obligations (rule schemas are re-probed from /repo)')
        class A: pass
        a = A(); a.tier = 'quick'; a.seed = rep.get('seed', 0)
        rc = run(a)
        return rc
    print('replay: re-running the check')
    class A: pass
    a = A(); a.tier = rep.get('tier', 'quick'); a.seed = rep.get('seed', 0)
    return run(a)
