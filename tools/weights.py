"""Untrusted hint: search a linear weight assignment under which every truth-functional
rule of a logic strictly decreases (Tab/PropTerm.v checks the proposal in Coq)."""
from __future__ import annotations
import rulegen

UOPS = ['Assertion', 'Negation']
BOPS = ['Conjunction', 'Disjunction', 'MaterialConditional', 'MaterialBiconditional', 'Conditional', 'Biconditional']


def lw(ws, s):
    if 'opd' in s:
        return (1, 0, 0) if s['opd'] == 0 else (0, 1, 0)
    if 'un' in s:
        k, c = ws['un'][s['un']]
        a0, a1, ak = lw(ws, s['a'])
        return (k * a0, k * a1, k * ak + c)
    al, be, ga = ws['bin'][s['bin']]
    a0, a1, ak = lw(ws, s['a'])
    b0, b1, bk = lw(ws, s['b'])
    return (al * a0 + be * b0, al * a1 + be * b1, al * ak + be * bk + ga)


def lt(f, g):
    return f[0] <= g[0] and f[1] <= g[1] and sum(f) < sum(g)


def nform(ws, s, d):
    f = lw(ws, s)
    if d is False:
        k, c = ws['ud']
        f = (k * f[0], k * f[1], k * f[2] + c)
    return f


def rule_ok(ws, rule):
    p = nform(ws, rulegen.principal_schema(rule), rule['designation'])
    for g in rule['variants'][0]['applied'][0]['adds']:
        f = (0, 0, 0)
        for n in g:
            x = nform(ws, n['s'], n['d'])
            f = (f[0] + x[0], f[1] + x[1], f[2] + x[2])
        if not lt(f, p):
            return False
    return True


def search(oprules, rounds=400):
    for ud in ([1, 0], [3, 2], [5, 7]):
        ws, it = search1(oprules, ud, rounds)
        if ws is not None:
            return ws, it
    return None, rounds


def search1(oprules, ud, rounds):
    ws = dict(un={o: [1, 1] for o in UOPS}, bin={o: [1, 1, 1] for o in BOPS}, ud=list(ud))
    for it in range(rounds):
        bad = [r for r in oprules if not rule_ok(ws, r)]
        if not bad:
            return ws, it
        r = bad[0]
        o = r['operator']
        if o in UOPS:
            if r['negated'] and it % 3 == 2:
                ws['un']['Negation'][0] += 1
            elif it % 2:
                ws['un'][o][0] += 1
            else:
                ws['un'][o][1] += 2
        else:
            w = ws['bin'][o]
            if it % 3 == 0:
                w[2] += 3
            elif it % 3 == 1:
                w[0] += 1; w[1] += 1
            else:
                if r['negated']:
                    ws['un']['Negation'][0] += 0
                w[2] += w[0] + w[1]
    return None, rounds


def coq_wspec(ws) -> str:
    un = ' | '.join(f'{o} => ({ws["un"][o][0]}, {ws["un"][o][1]})' for o in UOPS)
    bi = ' | '.join(f'{o} => ({ws["bin"][o][0]}, {ws["bin"][o][1]}, {ws["bin"][o][2]})' for o in BOPS)
    return (f'{{| w_un := fun o => match o with {un} end; w_bin := fun o => match o with {bi} end; '
            f'w_ud := ({ws["ud"][0]}, {ws["ud"][1]}) |}}')


# ---- general weights (modal operators, quantifiers): one-variable forms ---------------------------

def comp(g, f):
    return (g[0] * f[0], g[0] * f[1] + g[1])


def fw(ws, f):
    if f[0] == 'id':
        return (1, 0)
    if f[0] == 'un':
        return comp(tuple(ws['un'][f[1]]), fw(ws, f[2]))
    al, be, ga = ws['bin'][f[1]]
    a, b = fw(ws, f[2]), fw(ws, f[3])
    return (al * a[0] + be * b[0], al * a[1] + be * b[1] + ga)


def genw(ws, is_q, univ):
    return tuple(ws['gen'][('Universal' if univ else 'Existential') if is_q else ('Necessity' if univ else 'Possibility')])


def dscale(ws, d):
    return tuple(ws['ud']) if d is False else (1, 0)


def negw(ws, neg):
    return tuple(ws['un']['Negation']) if neg else (1, 0)


def lt1(f, g):
    return f[0] <= g[0] and f[0] + f[1] < g[0] + g[1]


def grule_ok(ws, st):
    p = comp(dscale(ws, st['d']), comp(negw(ws, st['neg']), genw(ws, st['is_q'], st['univ'])))
    for g in st['groups']:
        for c in g:
            if c[0] == 'ex':
                forms = [comp(dscale(ws, d), fw(ws, f)) for f, d in c[1]]
            elif c[0] == 'all':
                forms = [comp(dscale(ws, c[2]), fw(ws, c[1]))]
            else:
                forms = [comp(dscale(ws, c[4]), comp(fw(ws, c[3]), comp(genw(ws, st['is_q'], c[1]), fw(ws, c[2]))))]
            if not all(lt1(f, p) for f in forms):
                return False
    return True


def search_general(oprules, gstructs, rounds=200):
    """tf weights first (sum-decrease implies node-decrease), then coefficients for the four generalisers."""
    ws, _ = search(oprules)
    if ws is None:
        return None
    ws['gen'] = {k: [1, 1] for k in ('Possibility', 'Necessity', 'Existential', 'Universal')}
    for it in range(rounds):
        bad = [st for st in gstructs if not grule_ok(ws, st)]
        if not bad:
            return ws
        st = bad[0]
        key = ('Universal' if st['univ'] else 'Existential') if st['is_q'] else ('Necessity' if st['univ'] else 'Possibility')
        if it % 2:
            ws['gen'][key][0] += 1
        else:
            ws['gen'][key][1] += 2
    return None


def coq_gwspec(ws) -> str:
    g = ws['gen']
    return (f'{{| gw_base := {coq_wspec(ws)}; '
            f'gw_mod := fun o => match o with Possibility => ({g["Possibility"][0]}, {g["Possibility"][1]}) '
            f'| Necessity => ({g["Necessity"][0]}, {g["Necessity"][1]}) end; '
            f'gw_qu := fun q => match q with Existential => ({g["Existential"][0]}, {g["Existential"][1]}) '
            f'| Universal => ({g["Universal"][0]}, {g["Universal"][1]}) end |}}')
