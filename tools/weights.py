"""Untrusted hint: search a linear weight assignment under which every truth-functional
rule of a logic strictly decreases (Tab/PropTerm.v checks the proposal in Coq)."""
from __future__ import annotations
import rulegen

UOPS = ['Assertion', 'Negation']
BOPS = ['Conjunction', 'Disjunction', 'MaterialConditional', 'MaterialBiconditional', 'Conditional', 'Biconditional']


def lw(ws, s):
    if 'opd' in s:
        return (1, 0, 0) if s['opd'] == 0 else (0, 1, 0)
    if 'un' in s:
        k, c = ws['un'][s['un']]
        a0, a1, ak = lw(ws, s['a'])
        return (k * a0, k * a1, k * ak + c)
    al, be, ga = ws['bin'][s['bin']]
    a0, a1, ak = lw(ws, s['a'])
    b0, b1, bk = lw(ws, s['b'])
    return (al * a0 + be * b0, al * a1 + be * b1, al * ak + be * bk + ga)


def lt(f, g):
    return f[0] <= g[0] and f[1] <= g[1] and sum(f) < sum(g)


def nform(ws, s, d):
    f = lw(ws, s)
    if d is False:
        k, c = ws['ud']
        f = (k * f[0], k * f[1], k * f[2] + c)
    return f


def rule_ok(ws, rule):
    p = nform(ws, rulegen.principal_schema(rule), rule['designation'])
    for g in rule['variants'][0]['applied'][0]['adds']:
        f = (0, 0, 0)
        for n in g:
            x = nform(ws, n['s'], n['d'])
            f = (f[0] + x[0], f[1] + x[1], f[2] + x[2])
        if not lt(f, p):
            return False
    return True


def search(oprules, rounds=400):
    for ud in ([1, 0], [3, 2], [5, 7]):
        ws, it = search1(oprules, ud, rounds)
        if ws is not None:
            return ws, it
    return None, rounds


def search1(oprules, ud, rounds):
    ws = dict(un={o: [1, 1] for o in UOPS}, bin={o: [1, 1, 1] for o in BOPS}, ud=list(ud))
    for it in range(rounds):
        bad = [r for r in oprules if not rule_ok(ws, r)]
        if not bad:
            return ws, it
        r = bad[0]
        o = r['operator']
        if o in UOPS:
            if r['negated'] and it % 3 == 2:
                ws['un']['Negation'][0] += 1
            elif it % 2:
                ws['un'][o][0] += 1
            else:
                ws['un'][o][1] += 2
        else:
            w = ws['bin'][o]
            if it % 3 == 0:
                w[2] += 3
            elif it % 3 == 1:
                w[0] += 1; w[1] += 1
            else:
                if r['negated']:
                    ws['un']['Negation'][0] += 0
                w[2] += w[0] + w[1]
    return None, rounds


def coq_wspec(ws) -> str:
    un = ' | '.join(f'{o} => ({ws["un"][o][0]}, {ws["un"][o][1]})' for o in UOPS)
    bi = ' | '.join(f'{o} => ({ws["bin"][o][0]}, {ws["bin"][o][1]}, {ws["bin"][o][2]})' for o in BOPS)
    return (f'{{| w_un := fun o => match o with {un} end; w_bin := fun o => match o with {bi} end; '
            f'w_ud := ({ws["ud"][0]}, {ws["ud"][1]}) |}}')
