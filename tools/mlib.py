"""Shared helpers of the model checks C08 / C20: JSON item trees -> Gallina, per-logic
`mlogic` records from regenerated facts, case generators, a 4-process Coq evaluator and an
independent reference evaluator of the documented semantics (used only to CLASSIFY a
model/implementation disagreement and by replay)."""
from __future__ import annotations

import itertools
import json
import re
from concurrent.futures import ThreadPoolExecutor

import coqgen
from vlib import MachineryError, coq_eval_lines, coqc, gen_dir, write_if_changed

VNAMES = ['F', 'N', 'B', 'T']
UOPS = coqgen.UOPS
BOPS = coqgen.BOPS
MOPS = coqgen.MOPS
QUANTS = ['Existential', 'Universal']
WORKERS = 4

HEADER = ('From Coq Require Import List Bool Arith String.\n'
          'From PT Require Import Util.Finite Sem.Values Sem.MSyntax Sem.LimitBest Sem.Access '
          'Sem.PyModel Sem.Classical Sem.ClassicalFix Sem.ModelRun Sem.Export.\n'
          'Import ListNotations.\n')

ACCESS = {'Access': 'AKAny', 'SerialAccess': 'AKSerial', 'ReflexiveAccess': 'AKRefl',
          'ReflexiveTransitiveAccesss': 'AKReflTrans', 'GlobalAccess': 'AKGlobal'}
ACCESS_ENFORCE = {'Access': 'BaseModel.Access.enforce@models',
                  'SerialAccess': 'SerialAccess.enforce@models',
                  'ReflexiveAccess': 'ReflexiveAccess.enforce@models',
                  'ReflexiveTransitiveAccesss': 'ReflexiveTransitiveAccesss.enforce@models',
                  'GlobalAccess': 'GlobalAccess.enforce@models'}


class Inexpressible(Exception):
    pass


# ------------------------------------------------------------------ Gallina emitters

def cval(v: str) -> str:
    return 'V' + v


def cparam(p) -> str:
    return f"P{'C' if p[0] == 'c' else 'V'} {p[1]}"


def cparams(ps) -> str:
    return '[' + '; '.join(cparam(p) for p in ps) + ']'


def cpred(p) -> str:
    if p == 'I':
        return 'PIdentity'
    if p == 'E':
        return 'PExistence'
    return f'(PUser {p[0]} {p[1]})'


def csent(j) -> str:
    k = j[0]
    if k == 'A':
        return f'(SAtom {j[1]})'
    if k == 'P':
        return f'(SPred {cpred(j[1])} {cparams(j[2])})'
    if k == 'Q':
        return f'(SQuant {j[1]} {j[2]} {csent(j[3])})'
    if k == 'U':
        return f'(SUn {j[1]} {csent(j[2])})'
    if k == 'M':
        return f'(SMod {j[1]} {csent(j[2])})'
    if k == 'B':
        return f'(SBin {j[1]} {csent(j[2])} {csent(j[3])})'
    raise ValueError(j)


def cop(op) -> str:
    k = op[0]
    if k == 'atomic':
        return f'OAtomic {op[1]} {op[2]} {cval(op[3])}'
    if k == 'opaque':
        return f'OOpaque {op[1]} {csent(op[2])} {cval(op[3])}'
    if k == 'pred':
        return f'OPredicated {op[1]} {cpred(op[2])} {cparams(op[3])} {cval(op[4])}'
    if k == 'literal':
        return f'OLiteral {op[1]} {csent(op[2])} {cval(op[3])}'
    if k == 'access':
        return f'OAccess {op[1]} {op[2]}'
    if k == 'world':
        return f'OWorld {op[1]}'
    raise ValueError(op)


def clist(items) -> str:
    return '[' + '; '.join(items) + ']'


def cnats(ns) -> str:
    return clist(str(n) for n in ns)


def cpord(pord: dict) -> str:
    return clist(f'({w}, {clist(cpred(p) for p in ps)})' for w, ps in sorted(pord.items(), key=lambda kv: int(kv[0])))


# ------------------------------------------------------------------ per-logic record

def gen_of(L: dict, what: str) -> tuple[str, str]:
    """(Existential|Possibility gen, Universal|Necessity gen) as Gallina, from the MRO facts."""
    h = L['hooks']
    if what == 'q':
        comb_mod, crunch_mod = h['value_of_quantified'], h['_unquantify_values']
        table = {'models': ('CBest', 'CBest'), 'k3wq': ('CFold', 'CFold'),
                 'mh': ('CSetMH', 'CBest'), 'nh': ('CBest', 'CSetNH')}
        crunch_ok = {'models': 'false', 'go': 'true'}
    else:
        comb_mod, crunch_mod = h['value_of_operated'], h['_unmodal_values']
        table = {'models': ('CBest', 'CBest'), 'kk3wq': ('CFold', 'CFold')}
        crunch_ok = {'models': 'false', 's4go': 'true'}
    if comb_mod not in table:
        raise Inexpressible(f"{L['name']}: generaliser defined in unknown module {comb_mod}")
    if crunch_mod not in crunch_ok:
        raise Inexpressible(f"{L['name']}: value iterator defined in unknown module {crunch_mod}")
    cr = crunch_ok[crunch_mod]
    a, b = table[comb_mod]
    return (f'{{| g_crunch := {cr}; g_comb := {a} |}}', f'{{| g_crunch := {cr}; g_comb := {b} |}}')


BASE_HOOKS = ('value_of', 'value_of_opaque', 'value_of_atomic', 'value_of_predicated',
              'set_literal_value', 'set_opaque_value', 'set_atomic_value', 'set_predicated_value',
              '_complete_frames', 'get_data', 'is_sentence_opaque', 'is_sentence_literal')


def emit_mlogic(L: dict, tables: dict) -> str:
    """Gallina definitions code_<L> : tables and ML_<L> : mlogic (fail-closed)."""
    name = L['name']
    i = coqgen.ident(name)
    for hk in BASE_HOOKS:
        if L['hooks'][hk] != 'models':
            raise Inexpressible(f'{name}: {hk} overridden in {L["hooks"][hk]}')
    for hk, mod in L['frame_hooks'].items():
        if mod != 'models':
            raise Inexpressible(f'{name}: Frame.{hk} overridden in {mod}')
    if L['hooks']['finish'] not in ('models', 'cpl'):
        raise Inexpressible(f"{name}: finish overridden in {L['hooks']['finish']}")
    if L['access'] not in ACCESS or L['access_enforce'] != ACCESS_ENFORCE[L['access']]:
        raise Inexpressible(f"{name}: unknown access class {L['access']} / {L['access_enforce']}")
    if sorted(L['modal_operators']) != sorted(MOPS):
        raise Inexpressible(f'{name}: modal operators {L["modal_operators"]}')
    if sorted(L['truth_functional']) != sorted(UOPS + BOPS):
        raise Inexpressible(f'{name}: truth functional operators {L["truth_functional"]}')
    qe, qu = gen_of(L, 'q')
    me, mu = gen_of(L, 'm')
    b = lambda x: 'true' if x else 'false'
    return (f'Definition code_{i} : tables :=\n  {coqgen.emit_tables(tables)}.\n'
            f'Definition ML_{i} : mlogic :=\n'
            f'  {{| ml_tab := code_{i}; ml_unass := {cval(L["unassigned"])}; ml_min := {cval(L["minval"])}; '
            f'ml_max := {cval(L["maxval"])};\n     ml_first := {cval(L["first"])}; ml_last := {cval(L["last"])}; '
            f'ml_modal := {b(L["modal"])}; ml_quant := {b(L["quantified"])}; ml_many := {b(L["many_valued"])};\n'
            f'     ml_classical := {b(L["hooks"]["finish"] == "cpl")}; ml_access := {ACCESS[L["access"]]};\n'
            f'     ml_genq := fun q => match q with Existential => {qe} | Universal => {qu} end;\n'
            f'     ml_genm := fun o => match o with Possibility => {me} | Necessity => {mu} end |}}.\n')


# ------------------------------------------------------------------ Coq evaluation

def parse_coq_value(text: str):
    """`(0, ([0; 1], [(0, 1)]), [[3; 0]])` -> nested python lists."""
    t = text.replace(';', ',').replace('(', '[').replace(')', ']')
    t = re.sub(r'\s+', ' ', t)
    return json.loads(t)


def coq_eval(pid: str, header: str, exprs: list[str], *, name='Cases', shard=250, timeout=900) -> list[str]:
    g = gen_dir(pid)
    shards = [exprs[i:i + shard] for i in range(0, len(exprs), shard)]
    paths = []
    for k, sh in enumerate(shards):
        pth = g / f'{name}{k}.v'
        pth.write_text(header + '\n' + '\n'.join(f'Eval vm_compute in ({e}).' for e in sh) + '\n')
        paths.append(pth)
    with ThreadPoolExecutor(max_workers=WORKERS) as ex:
        outs = list(ex.map(lambda q: coqc(q, timeout=timeout), paths))
    res = []
    for (rc, out), sh, pth in zip(outs, shards, paths):
        if rc:
            raise MachineryError(f'{pth} does not compile:\n' + out[-3000:])
        ans = coq_eval_lines(out)
        if len(ans) != len(sh):
            raise MachineryError(f'{pth}: {len(ans)} answers for {len(sh)} expressions')
        res.extend(ans)
    return res


def build_logics(pid: str, facts: list[dict], tfacts: dict) -> tuple[list[dict], list[tuple[str, str]]]:
    """Write coq/gen/<pid>/Logics.v; returns (expressible logics, [(name, why)] inexpressible)."""
    g = gen_dir(pid)
    ok, bad = [], []
    body = [HEADER]
    for L in facts:
        try:
            body.append(emit_mlogic(L, tfacts[L['name']]))
            ok.append(L)
        except (Inexpressible, coqgen.Inexpressible) as e:
            bad.append((L['name'], str(e)))
    write_if_changed(g / 'Logics.v', '\n'.join(body))
    rc, out = coqc(g / 'Logics.v')
    if rc:
        raise MachineryError('generated Logics.v does not compile:\n' + out[-3000:])
    return ok, bad


# ------------------------------------------------------------------ sentences

A0, A1 = ['A', 0], ['A', 1]
F1 = [0, 1]      # unary user predicate F
G2 = [1, 2]      # binary user predicate G


def P(pred, *params):
    return ['P', pred, [list(p) for p in params]]


def c(n):
    return ['c', n]


def v(n):
    return ['v', n]


def core_sentences() -> list:
    """All sentences of depth <= 1 over {A, B, Fa, Fb, Fx} plus a fixed depth-2 selection."""
    base = [A0, A1, P(F1, c(0)), P(F1, c(1)), P(F1, v(0))]
    out = list(base)
    for o in UOPS:
        out += [['U', o, s] for s in base]
    for o in MOPS:
        out += [['M', o, s] for s in base[:4]]
    for q in QUANTS:
        out += [['Q', q, 0, base[4]], ['Q', q, 0, A0]]
    for o in BOPS:
        out += [['B', o, s, t] for s in base[:4] for t in base[:4]]
    fx = base[4]
    for q in QUANTS:
        for o in MOPS:
            out.append(['Q', q, 0, ['M', o, fx]])
            out.append(['M', o, ['Q', q, 0, fx]])
        out.append(['Q', q, 0, ['B', 'Conjunction', fx, A0]])
        out.append(['Q', q, 0, ['U', 'Negation', fx]])
        out.append(['U', 'Negation', ['Q', q, 0, fx]])
        out.append(['Q', q, 0, ['Q', 'Existential', 1, P(G2, v(0), v(1))]])
        out.append(['Q', q, 0, P('I', v(0), c(0))])
        out.append(['Q', q, 0, P('E', v(0))])
    for o in MOPS:
        out.append(['M', o, ['M', 'Possibility', A0]])
        out.append(['M', o, ['U', 'Negation', P(F1, c(0))]])
        out.append(['U', 'Negation', ['M', o, A0]])
    out += [P('I', c(0), c(1)), P('I', c(1), c(0)), P('I', c(0), c(0)), P('E', c(0)), P('E', c(2)),
            P(G2, c(0), c(1)), ['Q', 'Existential', 0, ['Q', 'Universal', 0, fx]]]
    seen, res = set(), []
    for s in out:
        k = json.dumps(s)
        if k not in seen:
            seen.add(k)
            res.append(s)
    return res


def depth2_sentences() -> list:
    """Complete list of sentences of depth exactly 2 over the base {A, Fa, Fx} (x bound or free)."""
    base = [A0, P(F1, c(0)), P(F1, v(0))]

    def step(pool):
        out = []
        for o in UOPS:
            out += [['U', o, s] for s in pool]
        for o in MOPS:
            out += [['M', o, s] for s in pool]
        for q in QUANTS:
            out += [['Q', q, 0, s] for s in pool]
        return out
    d1 = step(base) + [['B', o, s, t] for o in BOPS for s in base for t in base]
    d2 = step(d1)
    for o in BOPS:
        d2 += [['B', o, s, t] for s in d1 for t in base]
        d2 += [['B', o, s, t] for s in base for t in d1]
        d2 += [['B', o, s, t] for s in d1 for t in d1]
    return d2


def rand_sentence(rng, depth: int, nconst: int = 3, bound=()) -> list:
    if depth <= 0 or rng.random() < 0.15:
        k = rng.random()
        if k < 0.35:
            return ['A', rng.randrange(3)]
        params = lambda n: [(v(rng.choice(bound)) if bound and rng.random() < 0.6 else c(rng.randrange(nconst)))
                            for _ in range(n)]
        if k < 0.75:
            return ['P', F1, params(1)]
        if k < 0.85:
            return ['P', G2, params(2)]
        if k < 0.95:
            return ['P', 'I', params(2)]
        return ['P', 'E', params(1)]
    k = rng.random()
    if k < 0.2:
        return ['U', rng.choice(UOPS), rand_sentence(rng, depth - 1, nconst, bound)]
    if k < 0.55:
        return ['B', rng.choice(BOPS), rand_sentence(rng, depth - 1, nconst, bound),
                rand_sentence(rng, depth - 1, nconst, bound)]
    if k < 0.75:
        return ['M', rng.choice(MOPS), rand_sentence(rng, depth - 1, nconst, bound)]
    var = rng.randrange(2) if rng.random() < 0.9 or not bound else rng.choice(bound)
    return ['Q', rng.choice(QUANTS), var, rand_sentence(rng, depth - 1, nconst, tuple(bound) + (var,))]


def sent_depth(j) -> int:
    k = j[0]
    if k in ('A', 'P'):
        return 0
    if k == 'Q':
        return 1 + sent_depth(j[3])
    if k in ('U', 'M'):
        return 1 + sent_depth(j[2])
    return 1 + max(sent_depth(j[2]), sent_depth(j[3]))


# ------------------------------------------------------------------ histories

def small_pool(L: dict) -> list:
    vals = L['values']
    ws = [0, 1] if L['modal'] else [0]
    pool = []
    for w in ws:
        for a in (0, 1):
            pool += [['atomic', w, a, x] for x in vals]
        for k in (0, 1):
            pool += [['pred', w, F1, [c(k)], x] for x in vals]
    if L['modal']:
        pool += [['access', w1, w2] for w1 in ws for w2 in ws]
    if L['hooks']['finish'] == 'cpl':
        for w in ws[:1]:
            pool += [['pred', w, 'I', [c(a), c(b)], 'T'] for a in (0, 1, 2) for b in (0, 1, 2) if a != b]
    return pool


def opaque_examples(L: dict) -> list:
    out = []
    if not L['modal']:
        out += [['M', 'Possibility', A0], ['M', 'Necessity', P(F1, c(0))]]
    if not L['quantified']:
        out += [['Q', 'Existential', 0, P(F1, v(0))], ['Q', 'Universal', 0, P(G2, v(0), c(1))]]
    return out


def rand_op(rng, L: dict, nworlds: int, nconst: int) -> list:
    vals = L['values']
    w = rng.randrange(nworlds) if L['modal'] else (0 if rng.random() < 0.97 else 1)
    x = rng.choice(vals) if rng.random() < 0.97 else rng.choice(VNAMES)
    k = rng.random()
    if k < 0.22:
        return ['atomic', w, rng.randrange(3), x]
    if k < 0.47:
        return ['pred', w, F1, [c(rng.randrange(nconst))], x]
    if k < 0.55:
        return ['pred', w, G2, [c(rng.randrange(nconst)), c(rng.randrange(nconst))], x]
    if k < 0.67:
        cl = L['hooks']['finish'] == 'cpl'
        val = 'T' if (cl and rng.random() < 0.8) else x
        return ['pred', w, 'I', [c(rng.randrange(nconst)), c(rng.randrange(nconst))], val]
    if k < 0.70:
        return ['pred', w, 'E', [c(rng.randrange(nconst))], x]
    if k < 0.80:
        lit = rng.choice([['U', 'Negation', ['A', rng.randrange(2)]],
                          ['U', 'Negation', P(F1, c(rng.randrange(nconst)))],
                          ['U', 'Negation', ['U', 'Negation', A0]],
                          P(F1, v(0)), ['B', 'Conjunction', A0, A1]] +
                         opaque_examples(L) + [['U', 'Negation', s] for s in opaque_examples(L)])
        return ['literal', w, lit, x]
    if k < 0.84:
        ex = opaque_examples(L)
        if ex:
            return ['opaque', w, rng.choice(ex), x]
        return ['atomic', w, 0, x]
    if k < 0.97 and (L['modal'] or rng.random() < 0.05):
        return ['access', rng.randrange(nworlds), rng.randrange(nworlds)]
    return ['world', rng.randrange(nworlds) if L['modal'] else 0]


def rand_history(rng, L: dict) -> list:
    nworlds = rng.choice([1, 2, 3, 3])
    nconst = rng.choice([1, 2, 3])
    n = rng.randrange(0, 9)
    return [rand_op(rng, L, nworlds, nconst) for _ in range(n)]


def worlds_of(L: dict, ops: list) -> list:
    ws = {0}
    if L['modal']:
        for op in ops:
            if op[0] == 'access':
                ws |= {op[1], op[2]}
            else:
                ws.add(op[1])
        ws.add(max(ws) + 1)          # the world SerialAccess may add / an unknown world
    else:
        ws.add(1)                    # KeyError path
    return sorted(ws)[:5]


# ------------------------------------------------------------------ reference evaluator

RANK = {'F': 0, 'N': 1, 'B': 2, 'T': 3}


class Reference:
    """The documented recursive semantics evaluated over a raw dump of a finished
    implementation model (frames, R, constants) with the logic's own tables."""

    def __init__(self, L: dict, tables: dict, dump: dict):
        self.L = L
        self.tt = {}
        for o in UOPS:
            self.tt[o] = {tuple(i): r for i, r in tables[o]}
        for o in BOPS:
            self.tt[o] = {tuple(i): r for i, r in tables[o]}
        self.dump = dump
        self.consts = dump['consts']
        self.R = {int(w): ws for w, ws in dump['R'].items()}
        self.frames = dump['frames']

    def leaf(self, kind, w, key):
        fr = self.frames.get(str(w))
        if fr is None:
            if not self.L['modal']:
                raise KeyError(w)
            return self.L['unassigned']
        for k, val in fr[kind]:
            if k == key:
                return val
        return self.L['unassigned']

    def gen(self, kind, side, vs):
        h = self.L['hooks']
        if kind == 'q':
            crunch = h['_unquantify_values'] == 'go'
            comb = h['value_of_quantified']
        else:
            crunch = h['_unmodal_values'] == 's4go'
            comb = h['value_of_operated']
        if crunch:
            vs = [self.tt['Assertion'][(x,)] for x in vs]
        if comb in ('k3wq', 'kk3wq'):
            acc = self.L['first'] if side else self.L['last']
            o = 'Disjunction' if side else 'Conjunction'
            for x in vs:
                acc = self.tt[o][(acc, x)]
            return acc
        if comb == 'mh' and side:
            return 'T' if 'T' in vs else ('N' if len(set(vs)) > 1 else 'F')
        if comb == 'nh' and not side:
            return 'F' if 'F' in vs else ('B' if len(set(vs)) > 1 else 'T')
        if not vs:
            return self.L['minval'] if side else self.L['maxval']
        return (max if side else min)(vs, key=RANK.__getitem__)

    def subst(self, s, var, const):
        k = s[0]
        if k == 'A':
            return s
        if k == 'P':
            return ['P', s[1], [(['c', const] if p == ['v', var] else p) for p in s[2]]]
        if k == 'Q':
            return ['Q', s[1], s[2], self.subst(s[3], var, const)]
        if k in ('U', 'M'):
            return [k, s[1], self.subst(s[2], var, const)]
        return ['B', s[1], self.subst(s[2], var, const), self.subst(s[3], var, const)]

    def value(self, s, w):
        k = s[0]
        L = self.L
        if (k == 'Q' and not L['quantified']) or (k == 'M' and not L['modal']):
            return self.leaf('opaques', w, s)
        if k == 'A':
            return self.leaf('atomics', w, s)
        if k == 'P':
            for p in s[2]:
                if p[0] != 'c' or p[1] not in self.consts:
                    raise LookupError('denotation')
            fr = self.frames.get(str(w))
            if fr is None:
                if not L['modal']:
                    raise KeyError(w)
                return L['unassigned']
            for pk, params, val in fr['preds']:
                if pk == s[1] and params == s[2]:
                    return val
            return L['unassigned']
        if k == 'U':
            return self.tt[s[1]][(self.value(s[2], w),)]
        if k == 'B':
            a = self.value(s[2], w)
            b = self.value(s[3], w)
            return self.tt[s[1]][(a, b)]
        if k == 'Q':
            vs = [self.value(self.subst(s[3], s[2], cst), w) for cst in self.consts]
            return self.gen('q', s[1] == 'Existential', vs)
        if k == 'M':
            vs = [self.value(s[2], w2) for w2 in self.R.get(w, [])]
            return self.gen('m', s[1] == 'Possibility', vs)
        raise ValueError(s)

    def code(self, s, w):
        try:
            return RANK[self.value(s, w)]
        except (KeyError, LookupError):
            return 8


def closure(kind: str, aw: list, ap: list) -> tuple[list, list]:
    """Independent computation of the closure a logic's Access class must produce."""
    aw = sorted(set(aw))
    R = {tuple(p) for p in ap}
    if kind == 'Access':
        return aw, sorted(R)
    if kind == 'SerialAccess':
        dead = [w for w in aw if not any(p[0] == w for p in R)]
        if dead:
            n = max(aw) + 1
            R |= {(w, n) for w in dead} | {(n, n)}
            aw = aw + [n]
        return aw, sorted(R)
    R |= {(w, w) for w in aw}
    if kind == 'ReflexiveAccess':
        return aw, sorted(R)
    changed = True
    while changed:
        changed = False
        new = set()
        if kind == 'GlobalAccess':
            new |= {(b, a) for (a, b) in R}
        new |= {(a, d) for (a, b) in R for (b2, d) in R if b == b2}
        if not new <= R:
            R |= new
            changed = True
    return aw, sorted(R)
