"""C19 — every finished tableau renders, deterministically and faithfully.

Proof part: Tab/Render.v (text writer structure walk on the C16 tree model:
text_lines, text_paths, text_closure_marks) and Tab/RenderLex.v (string-table
totality lifted to `write` never failing); the string tables are regenerated from
/repo on every run and the kernel decides `total notation T = true` per table.
Correspondence: finished tableaux x every registered TabWriter format x
{polish, standard} x writer options rendered twice (error / determinism), the
text rendering parsed back and compared with the branch contents (probe), and
compared line by line with the Coq model's rendering (vm_compute)."""
from __future__ import annotations

import json
import random
import re
from concurrent.futures import ThreadPoolExecutor

from vlib import (Check, MachineryError, coq_eval_cases, coq_eval_lines, coq_string, coqc, ensure_theory,
                  gen_dir, probe_json, props_assumptions, write_if_changed)

HEADER = ('From Coq Require Import List String.\nImport ListNotations.\n'
          'From PT Require Import Tab.Tree Tab.Render Tab.RenderLex.\nOpen Scope string_scope.\n')
THEOREMS = ['C19_text_lines', 'C19_text_paths', 'C19_text_closure_marks', 'C19_write_total']
LOGICS = ['CPL', 'CFOL', 'FDE', 'K3', 'LP', 'L3', 'G3', 'GO', 'MH', 'K3WQ', 'RM3', 'B3E',
          'K', 'D', 'T', 'S4', 'S5', 'KFDE', 'S4G3', 'S5L3', 'KK3', 'TLP']


def ident(t) -> str:
    return 'T_' + re.sub(r'\W', '_', f"{t['format']}_{t['dialect']}_{t['notation']}")


def table_def(t) -> str:
    rows = [f'  | {k} => Some {coq_string(v)}' for k, v in sorted(t['entries'].items()) if v is not None]
    return (f'Definition {ident(t)} : table := fun k => match k with\n' + '\n'.join(rows)
            + '\n  | _ => None\n  end.\n')


def do_tables(chk: Check) -> None:
    facts = probe_json('probe_render.py', ['--tables'])
    g = gen_dir('C19')
    tabs = facts['tables']
    chk.notes['formats'] = facts['formats']
    mx = facts['maxi']
    ok = (mx['KAtomic'], mx['KVar'], mx['KConst'], mx['KPred']) == (4, 3, 3, 3)
    chk.obligation('index ranges of the character sequences equal the model constants (4,3,3,3)', ok)
    if not ok:
        chk.violation('tables:maxi', f'TYPE.maxi changed: {mx}; required-key list of RenderLex.v is stale',
                      dict(kind='obligation', maxi=mx), found_input=False)
    src = HEADER + '\n'.join(table_def(t) for t in tabs)
    write_if_changed(g / 'Tables.v', src)
    rc, out = coqc(g / 'Tables.v')
    if rc:
        raise MachineryError('generated Tables.v does not compile:\n' + out[-3000:])
    st = HEADER + 'Require Import GC19.Tables.\n' + '\n'.join(
        f"Eval vm_compute in (missing {t['notation'].capitalize()} {ident(t)})." for t in tabs) + '\n'
    write_if_changed(g / 'Status.v', st)
    rc, out = coqc(g / 'Status.v')
    if rc:
        raise MachineryError('generated Status.v does not compile:\n' + out[-3000:])
    answers = coq_eval_lines(out)
    if len(answers) != len(tabs):
        raise MachineryError(f'status parse: {len(answers)} answers for {len(tabs)} tables')
    ob = [HEADER, 'Require Import GC19.Tables.\nFrom PTProps Require Import C19.\n']
    for t, ans in zip(tabs, answers):
        name = f"{t['format']}/{t['dialect']}/{t['notation']}"
        miss = [k.strip() for k in ans.strip('[] ').split(';') if k.strip()]
        notn = t['notation'].capitalize()
        if not miss:
            ob.append(f'Lemma obl_{ident(t)} : total {notn} {ident(t)} = true.\nProof. vm_compute. reflexivity. Qed.\n'
                      f'Definition C19_{ident(t)} := fun dp ii s => C19_write_total {notn} {ident(t)} dp ii s obl_{ident(t)}.\n')
            chk.obligation(f'tables_total:{name}', True)
        else:
            ob.append(f'Lemma ref_{ident(t)} : total {notn} {ident(t)} = false.\nProof. vm_compute. reflexivity. Qed.\n')
            chk.obligation(f'tables_total:{name}', False)
            for k in miss:
                chk.violation(f'tables:{name}:{k}', f'string table {name} has no proper (str) entry for key {k}',
                              dict(kind='table', table=name, key=k), found_input=True)
    write_if_changed(g / 'Obl.v', '\n'.join(ob) + '\n')
    rc, out = coqc(g / 'Obl.v')
    if rc:
        raise MachineryError('generated Obl.v does not compile:\n' + out[-3000:])


def gen_cases(tier: str, seed: int):
    rng = random.Random(seed)
    names = probe_json('probe_book.py', ['--list'])
    n = 40 if tier == 'quick' else 400
    core = [('FDE', 'DeMorgan 3', {}), ('K', 'Modal Transformation 2', {}), ('CFOL', 'Syllogism', {}),
            ('CFOL', 'Syllogism', {'max_steps': 2}), ('S4', 'S4 Material Inference 1', {}),
            ('K3WQ', 'Quantifier Interdefinability 1', {}), ('CPL', 'Affirming the Consequent', {}),
            ('S5', 'Possibility Addition', {'max_steps': 3}), ('CFOL', 'Self Identity 1', {}),
            ('LP', 'Law of Non-contradiction', {}), ('D', 'Serial Inference 1', {}),
            ('CFOL', 'Identity Indiscernability 1', {}),
            # open branches cut short by a world-limit flag (quit-flag nodes must not look like closures)
            ('TB3E', 'S5 Material Inference 1', {}), ('S4K3W', 'S5 Conditional Inference 1', {})]
    cases = [dict(logic=l, arg=a, opts=o) for l, a, o in core if a in names]
    seen = {(c['logic'], c['arg'], json.dumps(c['opts'])) for c in cases}
    while len(cases) < n:
        o = {}
        ms = rng.choice([None] * 5 + [1, 2, 4, 8])
        if ms is not None:
            o['max_steps'] = ms
        c = dict(logic=rng.choice(LOGICS), arg=rng.choice(names), opts=o)
        k = (c['logic'], c['arg'], json.dumps(o))
        if k not in seen:
            seen.add(k)
            cases.append(c)
    return cases


def rnode_expr(r) -> str:
    def opt(v, f):
        return 'None' if v is None else f'(Some {f(v)})'
    b = lambda x: 'true' if x else 'false'
    return ('{| r_sent := %s; r_world := %s; r_des := %s; r_acc := %s; r_ell := %s; r_tick := %s; r_closure := %s |}'
            % (opt(r['sent'], coq_string), opt(r['world'], str), opt(r['des'], b),
               opt(r['acc'], lambda a: f'({a[0]}, {a[1]})'), b(r['ell']), b(r['tick']), b(r['closure'])))


def text_expr(m) -> str:
    tbl = '[' + '; '.join(rnode_expr(r) for r in m['table']) + ']'
    brs = '[' + '; '.join('{| tb_id := %d; tb_nodes := [%s]; tb_closed := %s |}'
                          % (b['id'], '; '.join(map(str, b['nodes'])), 'true' if b['closed'] else 'false')
                          for b in m['branches']) + ']'
    lines = '[' + '; '.join(coq_string(l) for l in m['lines']) + ']'
    return f'check_text {tbl} {brs} {lines}'


def run_probe_parallel(cases, nproc=4):
    chunks = [cases[i::nproc] for i in range(nproc)]
    with ThreadPoolExecutor(max_workers=nproc) as ex:
        outs = list(ex.map(lambda c: probe_json('probe_render.py', [], stdin=json.dumps(c), timeout=3000) if c else [],
                           chunks))
    res = [None] * len(cases)
    for k, out in enumerate(outs):
        for j, r in enumerate(out):
            res[k + j * nproc] = r
    return res


def evaluate(cases, name='Cases'):
    """-> per case (real, findings[(key, what, extra)])"""
    reals = run_probe_parallel(cases)
    exprs, where = [], []
    for i, r in enumerate(reals):
        for j, m in enumerate(r.get('text', [])):
            if all(ord(ch) < 128 for l in m['lines'] for ch in l):
                exprs.append(text_expr(m))
                where.append((i, j))
    answers = coq_eval_cases('C19', HEADER, exprs, shard=40, name=name, timeout=1200) if exprs else []
    model = {w: a.strip() for w, a in zip(where, answers)}
    out = []
    for i, (case, r) in enumerate(zip(cases, reals)):
        f = []
        if 'error' in r:
            f.append((f'render-error:build:{r["error"]}', f'building the tableau raised {r["error"]}',
                      dict(detail=r['detail'][-500:])))
            out.append((r, f))
            continue
        for rec in r['renders']:
            tag = f"{rec['format']}"
            cfg = dict(format=rec['format'], notation=rec['notation'], wopts=rec['wopts'])
            if 'error' in rec:
                f.append((f'render-error:{tag}', f"{cfg}: rendering raised {rec['error']}", dict(cfg, detail=rec['detail'][-500:])))
                continue
            if not rec['same']:
                f.append((f'render-nondeterministic:{tag}', f'{cfg}: two renderings differ', cfg))
            if rec.get('opts_kept') is False:
                f.append((f'render-nondeterministic:{tag}:per-call-option-sticks',
                          f'{cfg}: an option passed for one call changed the writer\'s own options', cfg))
            if rec['empty']:
                f.append((f'render-error:{tag}:empty', f'{cfg}: empty output', cfg))
            for clause, detail in rec.get('faithful', []):
                f.append((f'text-unfaithful:{clause}', f'{cfg}: {detail}', cfg))
        for j, m in enumerate(r.get('text', [])):
            a = model.get((i, j))
            if a is not None and a != '0':
                why = {'1': 'the text differs from the model rendering', '2': 'the tree model fails on the branches'}.get(a, a)
                f.append(('corr:text-model', f"text/{m['notation']}/{m['wopts']}: {why}",
                          dict(format='text', notation=m['notation'], wopts=m['wopts'])))
        out.append((r, f))
    return out


def run(args) -> int:
    chk = Check('C19', args.tier, args.seed)
    chk.rule = ('one case = one finished tableau x one (format, notation, writer options) rendering; distinct = distinct '
                '(logic, argument, limits, format, notation, options); non-trivial = the tableau has a tree')
    ensure_theory()
    chk.assumptions = props_assumptions('C19')
    chk.theorems = THEOREMS
    if len(chk.assumptions) < len(THEOREMS):
        raise MachineryError('Props/C19.v printed too few assumption sets')
    for t, a in zip(THEOREMS, chk.assumptions):
        chk.obligation(f'theorem:{t}:closed', a.startswith('Closed under the global context'))
    do_tables(chk)
    cases = gen_cases(args.tier, args.seed)
    results = evaluate(cases)
    nmodel = 0
    for case, (r, findings) in zip(cases, results):
        chk.count('logic', case['logic'])
        chk.count('result', str(r.get('result')) + (' (max_steps)' if 'max_steps' in case['opts'] else ''))
        for rec in r.get('renders', []):
            chk.count('format', f"{rec['format']}/{rec['notation']}")
            chk.case([case, rec['format'], rec['notation'], rec['wopts']], nontrivial=not r.get('notree'),
                     sample=dict(case=case, format=rec['format'], notation=rec['notation'], wopts=rec['wopts'],
                                 length=rec.get('len')))
        nmodel += len(r.get('text', []))
        for key, what, extra in findings:
            rep = dict(kind='render', case=case)
            rep.update(extra)
            chk.violation(key, f"{case['logic']} / {case['arg']} / {case['opts']}: {what}", rep, found_input=True)
    chk.notes['text_model_comparisons'] = nmodel
    chk.checker_cmd = 'make (Tab/Render.v, Tab/RenderLex.v, Props/C19.v); coqc gen/C19/{Tables,Status,Obl,Cases*}.v'
    chk.trusted += ['tools/probe_render.py: key naming of StringTable entries, the parse-back of the text layout',
                    'Jinja2 and the doctree html/latex translators (not modelled: correspondence only)']
    chk.notes['explanation'] = (
        'obligations = property theorems closed + one kernel-decided `total notation T = true` per loaded string table '
        '(regenerated from /repo) + index-range constants. cases = renderings (twice each, compared); every text rendering '
        'is additionally parsed back and compared with the branch contents and compared line by line with the Coq model.')
    return chk.finish()


def replay(path: str) -> int:
    rep = json.load(open(path))
    ensure_theory()
    if rep.get('kind') == 'table':
        facts = probe_json('probe_render.py', ['--tables'])
        for t in facts['tables']:
            if f"{t['format']}/{t['dialect']}/{t['notation']}" == rep['table']:
                k = rep['key']
                bad = t['entries'].get(k) is None
                print(f"replay: table {rep['table']} key {k} -> {t['entries'].get(k)!r}")
                if bad:
                    print(f'VIOLATION property=C19 replay={path}')
                    return 1
        return 0
    if 'case' not in rep:
        chk = Check('C19', 'quick', 0)
        do_tables(chk)
        bad = [o for o in chk.obligations if not o['ok']]
        print(f'replay: obligations refuted: {[o["name"] for o in bad]}')
        if bad:
            print(f'VIOLATION property=C19 replay={path}')
            return 1
        return 0
    (r, findings), = evaluate([rep['case']], name='Replay')
    keys = sorted({k for k, _, _ in findings})
    print(f"replay: {rep['case']} -> {keys or 'renders consistently'}")
    if rep['key'] in keys or (findings and rep['key'] not in keys):
        for k, what, _ in findings[:3]:
            print(f'  {k}: {what[:300]}')
        print(f'VIOLATION property=C19 replay={path}')
        return 1
    return 0
