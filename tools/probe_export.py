"""Runs inside the implementation's interpreter (PYTHONPATH=/repo, hooks on).

  probe_export.py direct     stdin: JSON list of {logic, ops}: build, finish
  probe_export.py branches   stdin: JSON list of [logic, example title]: build the tableau with
                             is_build_models=True and take the models of its open branches

For every model: raw dump (frames, R, constants), canonicalised get_data() taken twice before any
evaluation, value_of of every exported atomic / opaque and of every predication over the model's
constants at every exported world, and get_data() again afterwards.  Prints JSON; decides nothing."""
from __future__ import annotations

import itertools
import json
import sys

from probe_model import (VCODE, Hang, apply_op, canon_data, dump, param_json, pred_json, sent_json,
                         time_limit)


def observe(m, max_tuples=64):
    from pytableaux.lang import Predicated
    out = dict(dump=dump(m))
    try:
        out['data'] = canon_data(m)
        out['data2'] = canon_data(m)
    except Exception as e:
        out['data'] = out['data2'] = '!' + type(e).__name__
        return out
    consts = sorted(m.constants)
    evals = {}
    worlds = out['data']['worlds']
    for w in worlds:
        fr = m.frames[w]
        ev = dict(atomics=[], opaques=[], preds=[])
        for kind, base in (('atomics', list(fr.atomics)), ('opaques', list(fr.opaques))):
            for s in base:
                try:
                    ev[kind].append([sent_json(s), m.value_of(s, world=w).name])
                except Exception as e:
                    ev[kind].append([sent_json(s), '!' + type(e).__name__])
        for p in list(fr.predicates):
            tuples = list(itertools.islice(itertools.product(consts, repeat=p.arity), max_tuples))
            for tup in tuples:
                try:
                    x = m.value_of(Predicated(p, tup), world=w).name
                except Exception as e:
                    x = '!' + type(e).__name__
                ev['preds'].append([pred_json(p), [param_json(c) for c in tup], x])
        evals[str(w)] = ev
    out['evals'] = evals
    # read-only use of the model: evaluating sentences with letters / predications the model never saw must not
    # change what it publishes
    try:
        from pytableaux.lang import Atomic, Operator
        z = Atomic(4, 7)
        for w in worlds:
            for s_ in (z, Operator.Negation(z), Operator.Disjunction(z, Operator.Negation(z))):
                try:
                    m.value_of(s_, world=w)
                except Exception:
                    pass
            if len(worlds) > 1:
                for o_ in (Operator.Possibility, Operator.Necessity):
                    try:
                        m.value_of(o_(z), world=w)
                    except Exception:
                        pass
    except Exception:
        pass
    try:
        out['data_after'] = canon_data(m)
    except Exception as e:
        out['data_after'] = '!' + type(e).__name__
    out['R_after'] = {str(w): sorted(ws) for w, ws in m.R.items()}
    return out


def direct():
    from pytableaux.logics import registry
    registry.import_all()
    res = []
    for case in json.load(sys.stdin):
        m = registry(case['logic']).Model()
        out = dict(err=None)
        try:
            with time_limit(4):
                for i, op in enumerate(case['ops']):
                    apply_op(m, op)
                    if case.get('peek') and i % 2 == 0:
                        try:
                            m.get_data()     # looking at the description while the model is assembled must not fix it
                        except Exception:
                            pass
                if case.get('peek'):
                    try:
                        m.get_data()
                    except Exception:
                        pass
                m.finish()
        except Exception as e:
            out['err'] = type(e).__name__
        out['cord'] = [c.subscript * 4 + c.index for c in m.constants]
        out['pord'] = {str(w): [pred_json(p) for p in fr.predicates] for w, fr in m.frames.items()}
        if out['err'] is None:
            try:
                with time_limit(30):
                    out.update(observe(m))
            except Hang:
                out['err'] = 'Hang'
        res.append(out)
    json.dump(res, sys.stdout)


def branches():
    from pytableaux import examples
    from pytableaux.logics import registry
    from pytableaux.proof import Tableau
    registry.import_all()
    res = []
    for logic, title in json.load(sys.stdin):
        ent = dict(logic=logic, title=title, models=[])
        try:
            tab = Tableau(registry(logic), examples.arguments[title], is_build_models=True,
                          max_steps=300, build_timeout=5000)
            tab.build()
            ent['invalid'] = bool(tab.invalid)
            ent['premature'] = bool(tab.premature)
            if tab.invalid:
                for b in list(tab.open)[:2]:
                    if getattr(b, 'model', None) is not None:
                        ent['models'].append(observe(b.model))
        except Exception as e:
            ent['error'] = type(e).__name__ + ': ' + str(e)[:200]
        res.append(ent)
    json.dump(res, sys.stdout)


def titles():
    from pytableaux import examples
    json.dump(sorted(examples.arguments), sys.stdout)


if __name__ == '__main__':
    {'direct': direct, 'branches': branches, 'titles': titles}[sys.argv[1]]()
