"""C14 — lexical items have value semantics.

Theorems: coq/Props/C14.v about Lang/Lex.v (sort tuples, orderitems, comparisons,
hash, arguments) and Lang/Cache.v (metacall + DequeCache state machine).
Per run: (a) the rank/order tables are regenerated from /repo into
coq/gen/C14/Tab.v and the kernel re-decides tab_ok and instantiates the
theorems; (b) correspondence: random items/pairs/lists/arguments (==, <, <=, >,
>=, orderitems, hash, sorted, sort_tuple) and construction histories run in
subprocesses with small ITEM_CACHE_SIZE are compared by the kernel with the
model; (c) immutability / copy / pickle: implementation only.
"""
from __future__ import annotations

import json
import random
import re

import lexsyn as L
import vlib
from vlib import (Check, MachineryError, coq_eval_cases, coq_eval_lines, coqc, ensure_theory,
                  gen_dir, probe_json, props_assumptions, write_if_changed)

vlib.NCPU = min(vlib.NCPU, 8)

HEADER = ('From Coq Require Import List Bool ZArith NArith String.\n'
          'From PT Require Import Sem.Values Lang.Syntax Lang.Lex Lang.Cache.\n'
          'Require Import GC14.Tab.\n'
          'Import ListNotations.\nOpen Scope string_scope.\nOpen Scope N_scope.\n')
RANK_FIELDS = [('Predicate', 'r_pred'), ('Constant', 'r_const'), ('Variable', 'r_var'),
               ('Quantifier', 'r_quant'), ('Operator', 'r_oper'), ('Atomic', 'r_atom'),
               ('Predicated', 'r_preded'), ('Quantified', 'r_quanted'), ('Operated', 'r_opered')]
THEOREMS = ['C14_cmp_eq_iff', 'C14_eq_iff', 'C14_sort_tuple_self_delimiting', 'C14_cmp_antisym',
            'C14_lt_trans', 'C14_le_trans', 'C14_eq_trans', 'C14_cmp_total', 'C14_rank_first',
            'C14_hash_respects', 'C14_arg_eq_iff', 'C14_arg_antisym', 'C14_arg_trans',
            'C14_arg_length_first', 'C14_arg_hash_respects', 'C14_cache_transparent', 'C14_cache_hit_sound',
            'C14_rebuild', 'C14_rebuild_cached', 'C14_old_cache_transparent_refuted',
            'C14_old_cache_visible_every_maxlen', 'C14_old_rebuild_refuted']
K_REBUILD = 'rebuild:system-predicate'
K_VISIBLE = 'cache-visible:system-predicate'


def zlit(n: int) -> str:
    return f'({n})%Z' if n < 0 else f'{n}%Z'


def cb(b) -> str:
    return 'true' if b else 'false'


def cq_item(t) -> str:
    k = t[0]
    if k in 'cv':
        return f'(IParam ({L.cq_param(t)}))'
    if k == 'p':
        return f'(IPred {L.cq_pred(t[1:])})'
    if k == 'q':
        return f'(IQuant {t[1]})'
    if k == 'o':
        return f'(IOper O{t[1]})'
    return f'(ISent {L.cq_sent(t)})'


def bits(ans: str):
    return [x == 'true' for x in re.findall(r'true|false', ans)]


# ---------------------------------------------------------------- tables
def gen_tab(chk: Check, tb: dict) -> bool:
    g = gen_dir('C14')
    problems = []
    if [q[0] for q in tb['quantifiers']] != L.QUANTS:
        problems.append(f"Quantifier members {[q[0] for q in tb['quantifiers']]}")
    if [o[0] for o in tb['operators']] != L.OPERS:
        problems.append(f"Operator members {[o[0] for o in tb['operators']]}")
    if sorted(tb['ranks']) != sorted(n for n, _ in RANK_FIELDS) or tb['ranks'] != tb['lextype_ranks']:
        problems.append('rank table keys / LexType ranks differ from _Ranks')
    mc = {tb['maxi'].get(n) for n in ('Predicate', 'Constant', 'Variable')}
    if len(mc) != 1 or None in mc or tb['maxi'].get('Atomic') is None:
        problems.append(f"maxi {tb['maxi']}")
    for q in tb['quantifiers']:
        if q[2] != [tb['ranks'].get('Quantifier'), q[1]]:
            problems.append(f'sort_tuple of {q[0]}')
    for o in tb['operators']:
        if o[3] != [tb['ranks'].get('Operator'), o[1]]:
            problems.append(f'sort_tuple of {o[0]}')
    for p in problems:
        chk.obligation('tab:expressible', False)
        chk.violation('tab:inexpressible', f'lexical tables cannot be expressed in the model: {p}',
                      dict(kind='obligation', obligation='tables expressible', detail=p), found_input=False)
    if problems:
        return False
    chk.obligation('tab:expressible', True)
    qm = ' | '.join(f'{n} => {zlit(o)}' for n, o, _ in tb['quantifiers'])
    om = ' | '.join(f'O{n} => {zlit(o)}' for n, o, _, _ in tb['operators'])
    am = ' | '.join(f'O{n} => {a}%nat' for n, _, a, _ in tb['operators'])
    sysp = '; '.join(f'mkPred {zlit(i)} {s}%N {a}%N' for _, i, s, a in tb['system'])
    fields = '; '.join(f'{f} := {zlit(tb["ranks"][n])}' for n, f in RANK_FIELDS)
    conj = ['distinctb (ranks T)', 'forallb (fun r => 0 <? r) (ranks T)',
            'distinctb (map (q_order T) all_quants)', 'distinctb (map (o_order T) all_opers)',
            'forallb (fun o => 0 <=? o_order T o) all_opers', 'forallb (fun q => 0 <=? q_order T q) all_quants',
            'forallb (fun o => Nat.eqb (o_arity T o) (arity o)) all_opers',
            'N.eqb (maxi_coord T) MAXI_COORD', 'N.eqb (maxi_atomic T) MAXI_ATOMIC',
            'same_preds (sys_preds T) [Identity; Existence]']
    names = ['ranks-distinct', 'ranks-positive', 'quantifier-orders-distinct', 'operator-orders-distinct',
             'operator-orders-nonnegative', 'quantifier-orders-nonnegative', 'arities', 'maxi-coords',
             'maxi-atomic', 'system-predicates']
    src = ('From Coq Require Import List Bool ZArith NArith.\n'
           'From PT Require Import Sem.Values Lang.Syntax Lang.Lex.\nImport ListNotations.\nOpen Scope Z_scope.\n'
           f'Definition T : lextab := {{| {fields};\n'
           f'  q_order := fun q => match q with {qm} end;\n'
           f'  o_order := fun o => match o with {om} end;\n'
           f'  o_arity := fun o => match o with {am} end;\n'
           f'  maxi_coord := {mc.pop()}%N; maxi_atomic := {tb["maxi"]["Atomic"]}%N;\n'
           f'  sys_preds := [{sysp}] |}}.\n'
           + ''.join(f'Eval vm_compute in ({c}).\n' for c in conj))
    write_if_changed(g / 'Tab.v', src)
    rc, out = coqc(g / 'Tab.v')
    if rc:
        raise MachineryError('generated Tab.v does not compile:\n' + out[-3000:])
    ans = coq_eval_lines(out)
    ok = True
    for n, a in zip(names, ans):
        good = a.strip() == 'true'
        chk.obligation(f'tab:{n}', good)
        if not good:
            ok = False
            chk.violation(f'tab:{n}', f'side condition `{n}` of the sort-tuple theorems is false on the tables of /repo',
                          dict(kind='obligation', obligation=f'tab_ok component {n}', tables=tb), found_input=False)
    if ok:
        inst = ('From Coq Require Import List Bool ZArith NArith.\n'
                'From PT Require Import Sem.Values Lang.Syntax Lang.Lex.\nFrom PTProps Require Import C14.\n'
                'Require Import GC14.Tab.\n'
                'Lemma T_ok : tab_ok T = true.\nProof. vm_compute. reflexivity. Qed.\n'
                'Definition inst_cmp_eq_iff := C14_cmp_eq_iff T T_ok.\n'
                'Definition inst_self_delimiting := C14_sort_tuple_self_delimiting T T_ok.\n'
                'Definition inst_hash_respects := C14_hash_respects T T_ok.\n'
                'Definition inst_arg_eq_iff := C14_arg_eq_iff T T_ok.\nPrint Assumptions inst_cmp_eq_iff.\n')
        write_if_changed(g / 'Inst.v', inst)
        rc, out = coqc(g / 'Inst.v')
        chk.obligation('tab:theorems-instantiated', rc == 0 and 'Closed under the global context' in out)
        if rc:
            raise MachineryError('generated Inst.v does not compile:\n' + out[-3000:])
    return ok


# ------------------------------------------------------------ comparisons
def rand_item(rng):
    r = rng.random()
    if r < 0.12:
        return L.rand_param(rng)
    if r < 0.2:
        return ['p', *L.rand_pred(rng)]
    if r < 0.25:
        return ['q', rng.choice(L.QUANTS)]
    if r < 0.32:
        return ['o', rng.choice(L.OPERS)]
    return L.rand_sent(rng, rng.choice([0, 0, 1, 1, 2, 3, 4]))


def near(rng, t):
    """A small perturbation of an item (same type, close in the order)."""
    t = json.loads(json.dumps(t))
    k = t[0]
    if k in 'cvA':
        t[rng.choice([1, 2])] = rng.randrange(4)
    elif k == 'p':
        t = ['p', *L.rand_pred(rng)]
    elif k == 'P':
        if t[2]:
            t[2][rng.randrange(len(t[2]))] = L.rand_param(rng)
    elif k == 'Q':
        r = rng.random()
        if r < 0.3:
            t[1] = rng.choice(L.QUANTS)
        elif r < 0.6:
            t[2] = [rng.randrange(4), rng.randrange(2)]
        else:
            t[3] = near(rng, t[3])
    elif k == 'O':
        if rng.random() < 0.4:
            t[1] = rng.choice(L.UNARY if len(t[2]) == 1 else L.BINARY)
        else:
            j = rng.randrange(len(t[2]))
            t[2][j] = near(rng, t[2][j])
    elif k == 'q':
        t[1] = rng.choice(L.QUANTS)
    elif k == 'o':
        t[1] = rng.choice(L.OPERS)
    return t


def run_compare(chk: Check, rng, n_items: int, name='Cmp'):
    items = []
    for _ in range(n_items):
        t = rand_item(rng)
        items.append(t)
        if rng.random() < 0.5:
            items.append(near(rng, t))
        if rng.random() < 0.15:
            items.append(json.loads(json.dumps(t)))          # an equal item built separately
    n = len(items)
    pairs = [[rng.randrange(n), rng.randrange(n)] for _ in range(2 * n)]
    pairs += [[i, i + 1] for i in range(n - 1)] + [[i, i] for i in range(0, n, 7)]
    lists = [[rng.randrange(n) for _ in range(rng.randint(2, 9))] for _ in range(n // 3)]
    sents = [i for i, t in enumerate(items) if t[0] in 'APQO']
    arguments = []
    for _ in range(n // 2):
        a = dict(c=rng.choice(sents), p=[rng.choice(sents) for _ in range(rng.choice([0, 1, 1, 2, 3]))])
        if rng.random() < 0.3:
            a['t'] = 'title%d' % rng.randrange(3)
        arguments.append(a)
        if rng.random() < 0.4:
            b = dict(a, p=list(a['p']))
            if rng.random() < 0.5:
                b['t'] = 'other'
            elif b['p']:
                b['p'][-1] = rng.choice(sents)
            arguments.append(b)
    m = len(arguments)
    argpairs = [[rng.randrange(m), rng.randrange(m)] for _ in range(2 * m)] + [[i, i + 1] for i in range(m - 1)]
    data = dict(items=items, pairs=pairs, lists=lists, arguments=arguments, argpairs=argpairs)
    return eval_compare(chk, data, name)


def eval_compare(chk: Check, data, name='Cmp') -> int:
    """Returns the number of disagreements recorded."""
    res = probe_json('probe_c14.py', ['compare'], stdin=json.dumps(data), timeout=1800)
    items = data['items']
    exprs, meta = [], []
    bad = 0

    def viol(key, what, sub):
        nonlocal bad
        bad += 1
        chk.violation(key, what, dict(kind='c14_compare', data=sub), found_input=True)

    for k, (t, st, back) in enumerate(zip(items, res['sort_tuples'], res['back'])):
        if back != t:
            viol(f'construct:{L.top_class(t) if t[0] in "APQO" else t[0]}',
                 f'item built from {t} reads back as {back}', dict(items=[t], pairs=[], lists=[], arguments=[], argpairs=[]))
        exprs.append(f'[check_item T {cq_item(t)} [{"; ".join(zlit(z) for z in st)}]]')
        meta.append(('item', k))
    for k, ((i, j), ob) in enumerate(zip(data['pairs'], res['pairs'])):
        sub = dict(items=[items[i], items[j]], pairs=[[0, 1]], lists=[], arguments=[], argpairs=[])
        if isinstance(ob, dict):
            viol(f'compare:raises:{ob["err"]}', f'comparison of {items[i]} and {items[j]} raises {ob["err"]}', sub)
            continue
        if not ob[8]:
            viol('hash:attr', f'hash(x) != x.hash for {items[i]}', sub)
        exprs.append(f'check_pair T {cq_item(items[i])} {cq_item(items[j])} {zlit(ob[0])} '
                     + ' '.join(cb(x) for x in ob[1:8]))
        meta.append(('pair', k))
    for k, (idxs, ob) in enumerate(zip(data['lists'], res['sorted'])):
        sub = dict(items=[items[i] for i in idxs], pairs=[], lists=[list(range(len(idxs)))], arguments=[], argpairs=[])
        if isinstance(ob, dict):
            viol(f'sorted:raises:{ob["err"]}', f'sorted() raises on {sub["items"]}', sub)
            continue
        exprs.append(f'[check_sorted T [{"; ".join(cq_item(items[i]) for i in idxs)}] '
                     f'[{"; ".join(cq_item(x) for x in ob)}]]')
        meta.append(('sorted', k))
    args = data['arguments']

    def seq(a):
        return '[' + '; '.join(L.cq_sent(items[i]) for i in [a['c'], *a['p']]) + ']'

    for k, ((i, j), ob) in enumerate(zip(data['argpairs'], res['args'])):
        loc = sorted({args[i]['c'], *args[i]['p'], args[j]['c'], *args[j]['p']})
        rm = {old: new for new, old in enumerate(loc)}
        sub = dict(items=[items[x] for x in loc], pairs=[], lists=[],
                   arguments=[dict(a, c=rm[a['c']], p=[rm[x] for x in a['p']]) for a in (args[i], args[j])],
                   argpairs=[[0, 1]])
        if isinstance(ob, dict):
            viol(f'argument:raises:{ob["err"]}', 'argument comparison raises', sub)
            continue
        exprs.append(f'check_args T {seq(args[i])} {seq(args[j])} ' + ' '.join(cb(x) for x in ob))
        meta.append(('arg', k))
    answers = coq_eval_cases('C14', HEADER, exprs, shard=300, name=name, timeout=1500)
    PAIR = ['orderitems', 'eq', 'ne', 'lt', 'le', 'gt', 'ge', 'eq-structural', 'hash']
    ARG = ['eq', 'lt', 'le', 'gt', 'ge', 'eq-structural', 'hash']
    for (kind, k), ans in zip(meta, answers):
        bs = bits(ans)
        if all(bs):
            continue
        if kind == 'item':
            t = items[k]
            viol(f'sort_tuple:{L.top_class(t) if t[0] in "APQO" else t[0]}',
                 f'sort_tuple of {json.dumps(t)[:200]} is {res["sort_tuples"][k]}, the model computes another tuple',
                 dict(items=[t], pairs=[], lists=[], arguments=[], argpairs=[]))
        elif kind == 'pair':
            i, j = data['pairs'][k]
            for b, nm in zip(bs, PAIR):
                if not b:
                    viol(f'compare:{nm}', f'{nm} on {json.dumps(items[i])[:150]} vs {json.dumps(items[j])[:150]}: '
                         f'implementation {res["pairs"][k]} disagrees with the proved model',
                         dict(items=[items[i], items[j]], pairs=[[0, 1]], lists=[], arguments=[], argpairs=[]))
        elif kind == 'sorted':
            idxs = data['lists'][k]
            viol('sorted', f'sorted() of {len(idxs)} items differs from the model order',
                 dict(items=[items[i] for i in idxs], pairs=[], lists=[list(range(len(idxs)))], arguments=[], argpairs=[]))
        else:
            i, j = data['argpairs'][k]
            loc = sorted({args[i]['c'], *args[i]['p'], args[j]['c'], *args[j]['p']})
            rm = {old: new for new, old in enumerate(loc)}
            sub = dict(items=[items[x] for x in loc], pairs=[], lists=[],
                       arguments=[dict(a, c=rm[a['c']], p=[rm[x] for x in a['p']]) for a in (args[i], args[j])],
                       argpairs=[[0, 1]])
            for b, nm in zip(bs, ARG):
                if not b:
                    viol(f'argument:{nm}', f'Argument {nm}: implementation {res["args"][k]} disagrees with the model', sub)
    for kind, k in meta:
        chk.count('compare', kind)
    for t in items:
        chk.count('type', L.top_class(t) if t[0] in 'APQO' else {'c': 'Constant', 'v': 'Variable', 'p': 'Predicate',
                                                                  'q': 'Quantifier', 'o': 'Operator'}[t[0]])
    for _ in meta:
        chk.case(None, nontrivial=False)
    return bad


# ------------------------------------------------------------ immutability
def run_immut(chk: Check, rng, n: int, data=None) -> int:
    if data is None:
        items = ([rand_item(rng) for _ in range(n)] + [['p', *L.IDENTITY], ['p', *L.EXISTENCE]]
                 + [['q', q] for q in L.QUANTS] + [['o', o] for o in L.OPERS])
        sents = [t for t in items if t[0] in 'APQO']
        arguments = [dict(c=rng.choice(sents), p=[rng.choice(sents) for _ in range(rng.randrange(3))], t='x')
                     for _ in range(max(3, n // 5))]
        data = dict(items=items, arguments=arguments)
    res = probe_json('probe_c14.py', ['immut'], stdin=json.dumps(data), timeout=900)
    bad = 0
    unset_writable = set()
    for t, r in zip(data['items'], res['items']):
        cls = CLSNAME[t[0]]
        one = dict(items=[t], arguments=[])
        for nme, had, sr, dr, same in r['slots']:
            if had and not (sr and dr and same):
                bad += 1
                chk.violation(f'immutable:{cls}', f'slot {nme} of a {cls} item can be reassigned or deleted '
                              f'(set raises={sr}, del raises={dr}, unchanged={same}) on {json.dumps(t)[:200]}',
                              dict(kind='c14_immut', data=one), found_input=True)
            if not had and not sr:
                unset_writable.add(f'{cls}.{nme}')
        if not r['after_ok'] or not r['newattr_raises']:
            bad += 1
            chk.violation(f'immutable:{cls}:item-changed' if cls not in ('Quantifier', 'Operator') else f'immutable:{cls}', f'item differs after attempted writes: {json.dumps(t)[:200]}',
                          dict(kind='c14_immut', data=one), found_input=True)
        cp = r['copies']
        if isinstance(cp, dict) or not all(cp):
            bad += 1
            chk.violation(f'copy-pickle:{cls}', f'copy/deepcopy/pickle round trip fails ({cp}) on {json.dumps(t)[:200]}',
                          dict(kind='c14_immut', data=one), found_input=True)
        chk.case(['immut', t], nontrivial=True)
        chk.count('immut', cls)
    for a, r in zip(data['arguments'], res['arguments']):
        one = dict(items=[], arguments=[a])
        if not all(sr and dr for _, sr, dr in r['slots']) or isinstance(r['ok'], dict) or not all(r['ok']):
            bad += 1
            chk.violation('immutable:Argument', f'argument is mutable or does not survive copy/pickle: {r}',
                          dict(kind='c14_immut', data=one), found_input=True)
        chk.case(['immut-arg', a], nontrivial=True)
    chk.notes['unset_slots_accepting_a_first_write'] = sorted(unset_writable)
    return bad


# ------------------------------------------------------------------ cache
def pv_i(n):
    return dict(i=n)


def pv_t(l):
    return dict(t=list(l))


def spec_pv(t):
    """Mirror of Cache.spec_args: the spec of an item as argument values."""
    k = t[0]
    if k in 'cvA':
        return [pv_i(t[1]), pv_i(t[2])]
    if k == 'p':
        return [pv_i(t[1]), pv_i(t[2]), pv_i(t[3])]
    if k in 'qo':
        return [dict(s=t[1])]
    if k == 'P':
        return [pv_t(pv_i(x) for x in t[1]), pv_t(ident_pv(p) for p in t[2])]
    if k == 'Q':
        return [dict(s=t[1]), pv_t([pv_i(t[2][0]), pv_i(t[2][1])]), ident_pv(t[3])]
    return [dict(s=t[1]), pv_t(ident_pv(x) for x in t[2])]


CLSNAME = {'c': 'Constant', 'v': 'Variable', 'p': 'Predicate', 'q': 'Quantifier', 'o': 'Operator',
           'A': 'Atomic', 'P': 'Predicated', 'Q': 'Quantified', 'O': 'Operated'}


def ident_pv(t):
    return pv_t([dict(s=CLSNAME[t[0]]), pv_t(spec_pv(t))])


def has_sys(t) -> bool:
    if t[0] == 'p':
        return t[1] < 0
    if t[0] == 'P':
        return t[1][0] < 0
    return any(has_sys(c) for c in L.children(t)) if t[0] in 'QO' else False


def cq_pv(v) -> str:
    if 'i' in v:
        return f'PInt {zlit(v["i"])}'
    if 's' in v:
        return f'PStr "{v["s"]}"'
    if 't' in v:
        return 'PTup [' + '; '.join(cq_pv(x) for x in v['t']) + ']'
    return f'PItem {cq_item(v["item"])}'


def json_pv(v):
    if 't' in v:
        return dict(t=[json_pv(x) for x in v['t']])
    if 'item' in v:
        if 'ref' in v:
            return dict(ref=v['ref'])
        it = v['item']
        if it[0] == 'p':
            return dict(sys='Identity' if it[1] == -1 else 'Existence')
        return dict(enum=[CLSNAME[it[0]], it[1]])
    return v


def cq_op(op) -> str:
    return f'(C{op["cls"]}, [{"; ".join(cq_pv(a) for a in op["args"])}])'


def cq_res(r) -> str:
    if isinstance(r, dict):
        return {'TypeError': 'Err ETypeError', 'ValueError': 'Err EValueError'}.get(r.get('err'), 'Fuel')
    return f'OK {cq_item(r)}'


class TraceGen:
    def __init__(self, rng, maxlen):
        self.rng, self.maxlen = rng, maxlen
        self.ops = []
        self.built = {}

    def emit(self, cls, args, intended, form):
        self.ops.append(dict(cls=cls, args=args, intended=intended, form=form,
                             sys=bool(intended and has_sys(intended))))
        return len(self.ops) - 1

    def inst(self, t):
        """Argument value denoting an INSTANCE of item t (result of an earlier successful op)."""
        if t[0] in 'qo' or (t[0] == 'p' and t[1] < 0):
            return dict(item=t)
        key = json.dumps(t)
        if key not in self.built:
            k = t[0]
            if k in 'cvAp':
                i = self.emit(CLSNAME[k], [pv_i(x) for x in t[1:]], t, 'coords')
            elif k == 'P':
                i = self.emit('Predicated', [self.inst(['p', *t[1]]), pv_t(self.inst(p) for p in t[2])], t, 'parts')
            elif k == 'Q':
                i = self.emit('Quantified', [self.inst(['q', t[1]]), self.inst(['v', *t[2]]), self.inst(t[3])], t, 'parts')
            else:
                i = self.emit('Operated', [self.inst(['o', t[1]]), pv_t(self.inst(x) for x in t[2])], t, 'parts')
            self.built[key] = i
        return dict(item=t, ref=self.built[key])

    def rebuild(self, t):
        r = self.rng.random()
        if r < 0.4:
            self.emit(CLSNAME[t[0]], spec_pv(t), t, 'spec')
        else:
            abstract = {'c': ['Parameter', 'CoordsItem', 'LexicalAbc'], 'v': ['Parameter', 'LexicalAbc'],
                        'p': ['LexicalAbc', 'CoordsItem']}.get(t[0], ['Sentence', 'LexicalAbc', 'Sentence'])
            self.emit(self.rng.choice(abstract), [ident_pv(t)], t, 'ident')

    def filler(self):
        self.emit('Constant', [pv_i(self.rng.randrange(4)), pv_i(100 + len(self.ops))], None, 'filler')

    def bad(self):
        r = self.rng.randrange(7)
        if r == 0:
            self.emit('Constant', [pv_i(4), pv_i(0)], None, 'bad')
        elif r == 1:
            self.emit('Atomic', [pv_i(1), pv_i(-1)], None, 'bad')
        elif r == 2:
            self.emit('Predicate', [pv_i(1), pv_i(0), pv_i(0)], None, 'bad')
        elif r == 3:
            self.emit('Parameter', [ident_pv(['A', 0, 0])], None, 'bad')
        elif r == 4:
            self.emit('Operated', [dict(s='Negation'), pv_t([ident_pv(['A', 0, 0]), ident_pv(['A', 1, 0])])], None, 'bad')
        elif r == 5:
            self.emit('Predicate', [dict(s='Identity')], ['p', *L.IDENTITY], 'sysname')
        else:
            self.emit('Sentence', [pv_t([dict(s='Foo'), pv_t([])])], None, 'bad')


def small_item(rng):
    r = rng.random()
    if r < 0.15:
        return [rng.choice('cv'), rng.randrange(4), rng.randrange(2)]
    if r < 0.22:
        return ['p', *rng.choice([L.IDENTITY, L.EXISTENCE, [0, 0, 1], [1, 2, 2]])]
    s = L.rand_sent(rng, rng.choice([0, 0, 1, 1, 2]), [['c', 0, 0], ['c', 1, 0], ['v', 0, 0]])
    return s


def gen_trace(rng, maxlen, n_items):
    g = TraceGen(rng, maxlen)
    for _ in range(n_items):
        t = small_item(rng)
        g.inst(t)
        g.rebuild(t)                                   # warm
        if rng.random() < 0.4:                         # wrong abstract class for a cached item: TypeError, warm or not
            g.emit('Parameter' if t[0] in 'APQOp' else 'Sentence', [ident_pv(t)], None, 'bad')
        if rng.random() < 0.3:
            g.bad()
        for _ in range(rng.choice([0, 1, maxlen, maxlen + 1])):
            g.filler()
        g.rebuild(t)                                   # possibly evicted
        if rng.random() < 0.5:
            g.rebuild(t)
    return g.ops


def eval_trace(maxlen, ops, name='Trace'):
    """Run one history on the implementation (fresh process, ITEM_CACHE_SIZE=maxlen) and on the model.
    Returns (probe result, [(result agrees, queue agrees, cache-free model agrees)] per op)."""
    small = maxlen <= 50
    pre = [dict(cls='Constant', args=[pv_i(3), pv_i(900 + k)]) for k in range(maxlen)] if small else []
    data = dict(pre=[dict(cls=o['cls'], args=[json_pv(a) for a in o['args']]) for o in pre],
                ops=[dict(cls=o['cls'], args=[json_pv(a) for a in o['args']]) for o in ops])
    res = probe_json('probe_c14.py', ['cache'], stdin=json.dumps(data), timeout=900,
                     extra_env={'ITEM_CACHE_SIZE': str(maxlen)})
    if res['maxlen'] != maxlen:
        raise MachineryError(f'ITEM_CACHE_SIZE={maxlen} not honoured: maxlen {res["maxlen"]}')
    opl = '[' + '; '.join(cq_op(o) for o in ops) + ']'
    resl = '[' + '; '.join(cq_res(o['r']) for o in res['trace']) + ']'
    if small:
        obs = '[' + '; '.join(f'({cq_res(o["r"])}, [{"; ".join(cq_item(x) for x in o["q"])}])' for o in res['trace']) + ']'
        e1 = f'check_trace 40%nat {maxlen}%nat [{"; ".join(cq_op(o) for o in pre)}] {opl} {obs}'
    else:
        e1 = f'check_results 40%nat {maxlen}%nat {opl} {resl}'
    e2 = f'check_free 40%nat {opl} {resl}'
    a1, a2 = coq_eval_cases('C14', HEADER, [e1, e2], name=name, timeout=1500)
    b1, b2 = bits(a1), bits(a2)
    if len(b2) != len(ops) or len(b1) != (2 if small else 1) * len(ops):
        raise MachineryError(f'C14 trace: {len(b1)}/{len(b2)} answers for {len(ops)} ops')
    if small:
        return res, [(b1[2 * i], b1[2 * i + 1], b2[i]) for i in range(len(ops))]
    return res, [(b1[i], True, b2[i]) for i in range(len(ops))]


def judge_trace(chk: Check, maxlen, ops, res, agree) -> None:
    """Classify one executed history by the PROPERTY first, by the model second."""
    seen = {}
    diverged = False
    for k, (op, o, (r_ok, q_ok, f_ok)) in enumerate(zip(ops, res['trace'], agree)):
        r = o['r']
        t = op['intended']
        prefix = dict(kind='c14_trace', maxlen=maxlen, ops=ops[:k + 1])
        key = json.dumps([op['cls'], [json_pv(a) for a in op['args']]], sort_keys=True)
        chk.count('cache-op', op['form'])
        if t is not None and op['form'] in ('spec', 'ident', 'sysname', 'syskey', 'parts', 'coords'):
            if r != t:
                kk = K_REBUILD if op['sys'] else f'rebuild:{op["form"]}:{CLSNAME[t[0]]}'
                chk.violation(kk, f'{op["cls"]}({op["form"]} of {json.dumps(t)[:160]}) returns {json.dumps(r)[:120]} '
                              f'instead of an equal item (ITEM_CACHE_SIZE={maxlen}, step {k})', prefix, found_input=True)
        if key in seen and (seen[key][1] != r) and not (isinstance(r, dict) and isinstance(seen[key][1], dict)
                                                          and r.get('err') == seen[key][1].get('err')):
            kk = K_VISIBLE if op['sys'] else f'cache-visible:{op["cls"]}:{op["form"]}'
            chk.violation(kk, f'the same call {op["cls"]}({op["form"]} of {json.dumps(t)[:140]}) gives '
                          f'{json.dumps(seen[key][1])[:80]} at step {seen[key][0]} and {json.dumps(r)[:80]} at step {k} '
                          f'(ITEM_CACHE_SIZE={maxlen})', prefix, found_input=True)
        seen.setdefault(key, (k, r))
        if not f_ok and not isinstance(r, dict) or (not f_ok and r.get('err') in ('TypeError', 'ValueError')):
            chk.violation(f'cache-free-model:{op["cls"]}:{op["form"]}',
                          f'result of {op["cls"]}({op["form"]}) at step {k} is {json.dumps(r)[:120]}, the cache-free '
                          f'construction of the model gives another result (ITEM_CACHE_SIZE={maxlen})', prefix,
                          found_input=True)
        if diverged:
            continue
        if not r_ok:
            chk.violation(f'cache-model:result:{op["cls"]}:{op["form"]}',
                          f'result of {op["cls"]}({op["form"]}) at step {k} is {json.dumps(r)[:120]}; the state-machine '
                          f'model of metacall predicts another outcome (ITEM_CACHE_SIZE={maxlen})', prefix, found_input=True)
            diverged = True
        elif not q_ok:
            chk.violation('cache-model:queue',
                          f'cache queue after step {k} ({op["cls"]} {op["form"]}) differs from the DequeCache model '
                          f'(ITEM_CACHE_SIZE={maxlen}): {json.dumps(o["q"])[:200]}',
                          dict(prefix, correspondence='Lang/Cache.v check_trace'), found_input=False)
            diverged = True
    c = res.get('consistent')
    if isinstance(c, dict) or not all(c):
        chk.violation('cache:internal-consistency', f'DequeCache idx/rev/queue inconsistent after the history: {c}',
                      dict(kind='c14_trace', maxlen=maxlen, ops=ops), found_input=True)
    chk.case(['trace', maxlen, [[o['cls'], o['form']] for o in ops]], nontrivial=True,
             sample=dict(maxlen=maxlen, ops=[[o['cls'], o['form']] for o in ops[:6]]))


def witness_ops(maxlen):
    a = ['c', 0, 0]
    s = ['P', L.IDENTITY, [a, a]]
    g = TraceGen(random.Random(0), maxlen)
    g.inst(s)
    g.emit('Sentence', [ident_pv(s)], s, 'ident')
    for k in range(maxlen):
        g.emit('Constant', [pv_i(0), pv_i(1 + k)], None, 'filler')
    g.emit('Sentence', [ident_pv(s)], s, 'ident')
    g.emit('Predicated', spec_pv(s), s, 'spec')
    g.emit('LexicalAbc', [ident_pv(['p', *L.IDENTITY])], ['p', *L.IDENTITY], 'ident')
    # every lookup key of a system predicate: spec, bicoords, (name,), ident, as one tuple or as arguments
    idn, exi = ['p', *L.IDENTITY], ['p', *L.EXISTENCE]
    g.emit('Predicate', spec_pv(idn), idn, 'spec')
    g.emit('Predicate', [pv_t(spec_pv(exi))], exi, 'spec')
    g.emit('Predicate', [pv_i(-1), pv_i(0)], idn, 'syskey')
    g.emit('Predicate', [pv_t([pv_i(-2), pv_i(0)])], exi, 'syskey')
    g.emit('Predicate', [pv_t([dict(s='Existence')])], exi, 'syskey')
    g.emit('Predicate', [ident_pv(idn)], idn, 'syskey')
    g.emit('Predicate', [pv_i(-1), pv_i(0), pv_i(3)], None, 'bad')
    g.emit('Predicate', [pv_i(-3), pv_i(0), pv_i(1)], None, 'bad')
    g.emit('Predicate', [pv_i(-1), pv_i(0), pv_i(2), dict(s='Identity')], None, 'bad')
    return g.ops


def run(args) -> int:
    chk = Check('C14', args.tier, args.seed)
    chk.rule = ('obligations: tab_ok components on the regenerated tables + property theorems closed; cases: items '
                '(sort_tuple), pairs (orderitems, ==, !=, <, <=, >, >=, hash), lists (sorted), argument pairs, '
                'construction histories under ITEM_CACHE_SIZE in {1,2,3,5} (result and queue after every call), '
                'immutability/copy/pickle per item; distinct = distinct histories / immutability items (pair cases are '
                'counted but not hashed)')
    ensure_theory()
    chk.assumptions = props_assumptions('C14')
    chk.theorems = THEOREMS
    for t, a in zip(THEOREMS, chk.assumptions):
        chk.obligation(f'theorem:{t}', a == 'Closed under the global context', kind='T')
    try:
        tb = probe_json('probe_c14.py', ['tables'])
    except vlib.ProbeError as e:
        chk.violation('import:pytableaux.lang', 'the package cannot be imported / its lexical tables cannot be read: '
                      + str(e).strip().splitlines()[-1][:200],
                      dict(kind='obligation', obligation='import pytableaux.lang and read _Ranks / orders',
                           detail=str(e)[-1500:]), found_input=False)
        return chk.finish()
    chk.notes['tables'] = dict(ranks=tb['ranks'], default_cache_maxlen=tb['cache_maxlen'])
    rng = random.Random(args.seed)
    thorough = args.tier == 'thorough'
    if gen_tab(chk, tb):
        for rnd in range(6 if thorough else 1):
            run_compare(chk, rng, 700 if thorough else 350, name=f'Cmp{rnd}_')
    else:
        chk.notes['compare_skipped'] = 'tables not expressible / side conditions false'
    run_immut(chk, rng, 150 if thorough else 40)
    # the rebuild / eviction scenario of the (repaired) defect, small and default cache sizes
    for ml in [1, 2, 3, 5, 1000]:
        ops = witness_ops(ml)
        res, agree = eval_trace(ml, ops, name=f'Wit{ml}_')
        judge_trace(chk, ml, ops, res, agree)
    for rnd in range(40 if thorough else 8):
        ml = [1, 2, 3, 5][rnd % 4]
        ops = gen_trace(rng, ml, rng.randint(2, 5))
        res, agree = eval_trace(ml, ops, name=f'Trace{rnd}_')
        judge_trace(chk, ml, ops, res, agree)
    chk.checker_cmd = 'coqc gen/C14/{Tab,Inst,Cmp*,Wit*,Trace*}.v against coq/theories/Lang/{Lex,LexProofs,Cache,CacheProofs}.v, Props/C14.v'
    chk.trusted.append('tools/probe_c14.py (public constructors, reads _Ranks/orders/maxi, runs histories and reads '
                       'the cache queue); tools/lexsyn.py + c14.py rendering of items / argument values as Gallina terms')
    chk.notes['explanation'] = (
        'Equality/order/hash theorems are proved for every well-formed item and argument, relative to tab_ok of the '
        'tables regenerated from /repo (kernel-decided each run). The construction cache (metacall + DequeCache, as '
        'repaired in /repo 581cf1c) is proved transparent for every maxlen, history and call, and every well-formed '
        'item is proved to rebuild from spec and ident (Props/C14.v: C14_cache_transparent, C14_cache_hit_sound, '
        'C14_rebuild, C14_rebuild_cached); the same statements are refuted for the model of the code before the '
        'repair (C14_old_*), so a regression is reported as VIOLATION: the rebuild / eviction scenario is replayed on '
        'the implementation with ITEM_CACHE_SIZE in {1,2,3,5,1000} and must agree with the model (result, queue, and '
        'the cache-free model result of every call), as must random histories with sizes 1,2,3,5. Immutability / copy '
        '/ pickle are correspondence-only (Gallina values are immutable). Writing a slot that has never been assigned '
        '(lazy caches such as _constants, enum bookkeeping slots of Predicate) is accepted by LexicalAbc.__setattr__ '
        'by design and is listed under unset_slots_accepting_a_first_write, not reported.')
    return chk.finish()


def replay(path: str) -> int:
    rep = json.load(open(path))
    ensure_theory()
    chk = Check('C14', 'quick', 0)
    chk.known = {}
    kind = rep.get('kind')
    tb = probe_json('probe_c14.py', ['tables'])
    gen_tab(chk, tb)
    if kind == 'c14_compare':
        eval_compare(chk, rep['data'], name='Replay')
    elif kind == 'c14_immut':
        run_immut(chk, None, 0, data=rep['data'])
    elif kind == 'c14_trace':
        ml, ops = rep['maxlen'], rep['ops']
        res, agree = eval_trace(ml, ops, name='Replay')
        judge_trace(chk, ml, ops, res, agree)
    hits = [f for f in chk.findings if f['key'] == rep.get('key')] or chk.findings
    print(f'replay: kind={kind} -> {len(hits)} finding(s) reproduced')
    for f in hits[:3]:
        print('  ', f['key'], f['what'][:300])
    if hits:
        print(f'VIOLATION property=C14 replay={path}')
        return 1
    return 0
