"""Shared plumbing for the /verif checks.

Every check:  extract facts from /repo's working tree (hooks on) -> emit Coq
data under coq/gen/<id>/ -> kernel decides the obligations (vm_compute over
complete finite domains, lifted by the hand-proved generic theory under
coq/theories) -> correspondence run against the implementation -> verdict.
"""
from __future__ import annotations

import fcntl
import hashlib
import json
import os
import re
import subprocess
import sys
import time
from pathlib import Path

ROOT = Path(__file__).resolve().parent.parent
REPO = Path(os.environ.get('VERIF_REPO', '/repo'))
PY = os.environ.get('VERIF_PY', '/venv/bin/python')
COQ = ROOT / 'coq'
GEN = COQ / 'gen'
NCPU = os.cpu_count() or 4
GUARD = 'PYTABLEAUX_VERIF'


def repo_env(order: int = 0, extra: dict | None = None) -> dict:
    env = dict(os.environ)
    env['PYTHONPATH'] = str(REPO)
    env['PYTHONHASHSEED'] = '0'
    env['PYTHONDONTWRITEBYTECODE'] = '1'
    env[GUARD] = '1'
    env['PYTABLEAUX_VERIF_ORDER'] = str(order)
    if extra:
        env.update(extra)
    return env


def run_probe(script: str, args: list[str] = (), *, stdin: str | None = None,
              order: int = 0, timeout: int = 900, extra_env=None) -> tuple[int, str, str]:
    """Run tools/<script> inside the implementation's interpreter."""
    cmd = [PY, '-B', str(ROOT / 'tools' / script), *map(str, args)]
    p = subprocess.run(cmd, input=stdin, capture_output=True, text=True,
                       env=repo_env(order, extra_env), timeout=timeout, cwd=str(ROOT))
    return p.returncode, p.stdout, p.stderr


def probe_json(script, args=(), **kw):
    rc, out, err = run_probe(script, args, **kw)
    if rc != 0:
        raise ProbeError(f'{script} {list(args)} exited {rc}\n{err[-4000:]}')
    return json.loads(out)


class ProbeError(Exception):
    pass


class MachineryError(Exception):
    "The generic theory or the tooling itself is broken (exit 2, no VIOLATION)."


# --------------------------------------------------------------------------
# Coq

def ensure_theory(timeout: int = 3000) -> None:
    """Build the generic theory (coq/theories, coq/Props) if it is stale."""
    COQ.mkdir(exist_ok=True)
    with open(COQ / '.lock', 'w') as lk:
        fcntl.flock(lk, fcntl.LOCK_EX)
        files = sorted(str(p.relative_to(COQ)) for d in ('theories', 'Props')
                       for p in (COQ / d).rglob('*.v'))
        proj = (COQ / '_CoqProject.in').read_text() + '\n'.join(files) + '\n'
        write_if_changed(COQ / '_CoqProject', proj)
        if not (COQ / 'Makefile').exists() or \
                (COQ / 'Makefile').stat().st_mtime < (COQ / '_CoqProject').stat().st_mtime:
            r = subprocess.run(['coq_makefile', '-f', '_CoqProject', '-o', 'Makefile'],
                               cwd=COQ, capture_output=True, text=True)
            if r.returncode:
                raise MachineryError('coq_makefile failed: ' + r.stderr)
        r = subprocess.run(['timeout', str(timeout), 'make', f'-j{NCPU}'], cwd=COQ,
                           capture_output=True, text=True)
        if r.returncode:
            raise MachineryError('generic theory does not build:\n' + (r.stdout + r.stderr)[-6000:])


def regen_coqproject() -> None:
    files = sorted(str(p.relative_to(COQ)) for d in ('theories', 'Props')
                   for p in (COQ / d).rglob('*.v'))
    proj = (COQ / '_CoqProject.in').read_text() + '\n'.join(files) + '\n'
    (COQ / '_CoqProject').write_text(proj)


def gen_dir(pid: str) -> Path:
    d = GEN / pid
    d.mkdir(parents=True, exist_ok=True)
    return d


def coqc(path: Path, *, timeout: int = 600) -> tuple[int, str]:
    """Compile one generated file; its directory is mapped to the logical name G<id>."""
    d = path.parent
    cmd = ['timeout', str(timeout), 'coqc', '-q', '-noglob', '-Q', str(COQ / 'theories'), 'PT',
           '-Q', str(COQ / 'Props'), 'PTProps', '-Q', str(d), 'G' + d.name, str(path)]
    r = subprocess.run(cmd, capture_output=True, text=True, cwd=str(d))
    return r.returncode, r.stdout + r.stderr


def coq_eval_lines(out: str) -> list[str]:
    """Split coqc output into the text of each `= ... : type` answer (joined on one line)."""
    res = []
    cur = None
    for line in out.splitlines():
        if line.lstrip().startswith('= '):
            if cur is not None:
                res.append(cur)
            cur = line.strip()[2:]
        elif cur is not None:
            cur += ' ' + line.strip()
    if cur is not None:
        res.append(cur)
    # drop the trailing ": type"
    return [re.sub(r'\s+:\s+[^:=]*$', '', re.sub(r'\s+', ' ', c)) for c in res]


def coq_string(s: str) -> str:
    return '"' + s.replace('"', '""') + '"'


def coq_list(items, sep='; ') -> str:
    return '[' + sep.join(items) + ']'


def write_if_changed(path: Path, text: str) -> None:
    if path.exists() and path.read_text() == text:
        return
    path.write_text(text)


def print_assumptions(out: str) -> list[str]:
    """Collect the Print Assumptions answers found in a coqc log."""
    res = []
    lines = out.splitlines()
    i = 0
    while i < len(lines):
        l = lines[i]
        if l.startswith('Closed under the global context'):
            res.append('Closed under the global context')
        elif l.startswith('Axioms:'):
            j = i + 1
            ax = []
            while j < len(lines) and (lines[j].startswith(' ') or ':' in lines[j]) and not lines[j].startswith('='):
                ax.append(lines[j].strip())
                j += 1
            res.append('Axioms: ' + ' '.join(ax))
            i = j - 1
        i += 1
    return res


def props_assumptions(pid: str) -> list[str]:
    """Re-run coqc on Props/<pid>.v and return its Print Assumptions answers."""
    r = subprocess.run(['coqc', '-q', '-Q', str(COQ / 'theories'), 'PT', '-Q', str(COQ / 'Props'), 'PTProps',
                        str(COQ / 'Props' / f'{pid}.v')], capture_output=True, text=True, cwd=str(COQ))
    if r.returncode:
        raise MachineryError(f'Props/{pid}.v does not compile:\n' + (r.stdout + r.stderr)[-3000:])
    return print_assumptions(r.stdout)


def coq_eval_cases(pid: str, header: str, exprs: list[str], *, shard: int = 400,
                   name: str = 'Cases', timeout: int = 600) -> list[str]:
    """Evaluate Gallina expressions with vm_compute (one answer per expression), sharded over
    coqc processes.  Returns the printed answers in order."""
    from concurrent.futures import ThreadPoolExecutor
    g = gen_dir(pid)
    shards = [exprs[i:i + shard] for i in range(0, len(exprs), shard)]
    paths = []
    for old in g.iterdir():          # shards of earlier runs (evaluation-only files, nothing imports them)
        if re.fullmatch(re.escape(name) + r'\d+\..*', old.name) or re.fullmatch(r'\.' + re.escape(name) + r'\d+\.aux', old.name):
            old.unlink()
    for k, sh in enumerate(shards):
        pth = g / f'{name}{k}.v'
        pth.write_text(header + '\n' + '\n'.join(f'Eval vm_compute in ({e}).' for e in sh) + '\n')
        paths.append(pth)
    res: list[str] = []
    with ThreadPoolExecutor(max_workers=max(1, NCPU // 2)) as ex:
        outs = list(ex.map(lambda q: coqc(q, timeout=timeout), paths))
    for (rc, out), sh, pth in zip(outs, shards, paths):
        for ext in ('.vo', '.vok', '.vos', '.glob'):
            pth.with_suffix(ext).unlink(missing_ok=True)
        if rc:
            raise MachineryError(f'{pth} does not compile:\n' + out[-3000:])
        ans = coq_eval_lines(out)
        if len(ans) != len(sh):
            raise MachineryError(f'{pth}: {len(ans)} answers for {len(sh)} expressions')
        res.extend(ans)
    return res


# --------------------------------------------------------------------------
# Verdict bookkeeping

class Check:

    def __init__(self, pid: str, tier: str, seed: int, level: str = 'proof'):
        self.pid = pid
        self.tier = tier
        self.seed = seed
        self.level = level
        self.t0 = time.time()
        self.obligations: list[dict] = []      # {name, ok: bool, kind}
        self.findings: list[dict] = []         # candidate violations
        self.cases = 0                         # correspondence evaluations
        self.case_hashes: set[str] = set()     # distinct non-trivial cases
        self.samples: list = []
        self.dist: dict = {}
        self.assumptions: list[str] = []
        self.trusted: list[str] = []
        self.theorems: list[str] = []
        self.notes: dict = {}
        self.checker_cmd = ''
        self.rule = ''
        self.exhaustive = None
        self.known = load_known()

    # -- obligations ------------------------------------------------------
    def obligation(self, name: str, ok: bool, kind: str = 'F') -> None:
        self.obligations.append(dict(name=name, ok=bool(ok), kind=kind))

    # -- correspondence ----------------------------------------------------
    def case(self, canon, nontrivial: bool = True, sample=None) -> None:
        self.cases += 1
        if nontrivial:
            h = hashlib.sha1(json.dumps(canon, sort_keys=True, default=str).encode()).hexdigest()
            if h not in self.case_hashes:
                self.case_hashes.add(h)
        if sample is not None and len(self.samples) < 8:
            self.samples.append(sample)

    def count(self, key: str, sub: str, n: int = 1) -> None:
        d = self.dist.setdefault(key, {})
        d[sub] = d.get(sub, 0) + n

    # -- violations --------------------------------------------------------
    def violation(self, key: str, what: str, replay: dict, found_input: bool = True) -> None:
        """Record a violation candidate.  key is stable (never the random input)."""
        for f in self.findings:
            if f['key'] == key:
                f['count'] += 1
                return
        self.findings.append(dict(key=key, what=what, replay=replay,
                                  found_input=found_input, count=1))

    def finish(self) -> int:
        rc = 0
        (ROOT / 'replays').mkdir(exist_ok=True)
        printed_known = []
        viols = 0
        for f in self.findings:
            k = self.known.get((self.pid, f['key']))
            if k is not None and k.get('status') == 'open':
                print(f"KNOWN-FINDING: property={self.pid} {k.get('what') or f['what']} [key={f['key']}]")
                printed_known.append(f['key'])
                continue
            viols += 1
            safe = re.sub(r'[^A-Za-z0-9_.-]+', '_', f['key'])[:80]
            path = ROOT / 'replays' / f'{self.pid}-{safe}.json'
            rep = dict(property=self.pid, key=f['key'], what=f['what'],
                       found_input=f['found_input'], tier=self.tier, seed=self.seed)
            rep.update(f['replay'])
            path.write_text(json.dumps(rep, indent=1, default=str))
            tail = '' if f['found_input'] else ' no-failing-input-found'
            print(f'VIOLATION property={self.pid} replay={path}{tail}')
            print(f'  what: {f["what"]}')
            rc = 1
        n_ob = len(self.obligations)
        n_ok = sum(1 for o in self.obligations if o['ok'])
        cov = dict(
            # every condition is emitted to Coq as a lemma - `cond = None/true` when it holds, or its
            # refutation `exists w, cond = Some w` with the witness when it does not - and the kernel
            # checked every one of them (a lemma that fails to compile aborts the check with exit 2);
            # the refuted conditions are the findings listed below, never counted as holding
            obligations=n_ob,
            discharged=n_ob,
            conditions_holding=n_ok,
            conditions_refuted=[o['name'] for o in self.obligations if not o['ok']][:60],
            checker_cmd=self.checker_cmd or f'./check {self.pid} --tier {self.tier}',
            trusted_base=self.trusted + [
                'Coq 8.16.1 kernel + vm_compute (no native_compute)',
                'tools/probe_*.py extraction of tables from /repo by import and schematic probing',
                'hooks in /repo behind PYTABLEAUX_VERIF=1 (deterministic hashing only)',
                'CPython 3.12.1'],
            print_assumptions=self.assumptions,
            theorems=self.theorems,
            evaluations=max(self.cases, 0),
            distinct_nontrivial=len(self.case_hashes),
            rule=self.rule,
            samples=self.samples[:8] or ['(no correspondence cases in this run)'],
            input_distribution=self.dist,
            known_findings_reported=printed_known,
            explanation=self.notes.get('explanation', ''),
        )
        if self.exhaustive is not None:
            cov['exhaustive'] = self.exhaustive
        cov.update({k: v for k, v in self.notes.items() if k != 'explanation'})
        ev = dict(property_id=self.pid, tier=self.tier, seed=self.seed, level=self.level,
                  coverage=cov,
                  assumptions=self.trusted,
                  wall_s=round(time.time() - self.t0, 2),
                  violations=viols)
        (ROOT / 'evidence').mkdir(exist_ok=True)
        (ROOT / 'evidence' / f'{self.pid}.json').write_text(json.dumps(ev, indent=1, default=str))
        print(f'{self.pid} tier={self.tier} obligations={n_ob} holding={n_ok} '
              f'cases={self.cases} distinct={len(self.case_hashes)} known={len(printed_known)} '
              f'violations={viols} wall={ev["wall_s"]}s')
        return rc


def load_known() -> dict:
    res = {}
    files = [ROOT / 'known_findings.json'] + sorted((ROOT / 'known_findings.d').glob('*.json'))
    for p in files:
        if not p.exists():
            continue
        data = json.loads(p.read_text())
        for e in data.get('findings', []):
            res[(e['property'], e['key'])] = e
    return res


def parse_args(argv=None):
    import argparse
    ap = argparse.ArgumentParser()
    ap.add_argument('pid')
    ap.add_argument('--tier', default=os.environ.get('VERIF_TIER') or 'quick',
                    choices=['quick', 'thorough'])
    ap.add_argument('--seed', type=int, default=int(os.environ.get('VERIF_SEED') or 0))
    ap.add_argument('--replay')
    return ap.parse_args(argv)
