"""Runs in the implementation's interpreter.  For every logic and every subset of
the literal constraints {(S,+),(S,-),(~S,+),(~S,-)} (or {S, ~S} without
designation markers) on S in {atom, predication, opaque sentence}, with and
without worlds: put the nodes on a real branch, run the tableau, report whether
the branch closed and which value the model builder reads off for S.
Also the classical identity / existence literals."""
import itertools, json, sys
import probe_rules as pr

def main():
    registry = pr.setup()
    from pytableaux.lang import Atomic, Constant, Operator, Predicate, Predicated, Quantified, Quantifier, Variable
    from pytableaux.proof import Tableau, sdwnode
    a = Constant(0, 0)
    F = Predicate(0, 0, 1)
    x = Variable(0, 0)

    def work(modname):
        logic = registry(modname)
        Meta = logic.Meta
        has_des = any(getattr(r, 'designation', None) is not None for g in logic.Rules.groups for r in g)
        subjects = {'atom': Atomic(0, 0), 'pred': Predicated(F, (a,))}
        if not Meta.modal:
            subjects['opaque'] = Operator.Possibility(Atomic(0, 0))
        if not Meta.quantified:
            subjects['opaque_q'] = Quantified(Quantifier.Existential, x, Predicated(F, (x,)))
        worlds = [0, 1] if Meta.modal else [None]
        out = []
        marks = [(False, True), (False, False), (True, True), (True, False)] if has_des else [(False, None), (True, None)]
        variants = [('sdw', 1)]
        for sname, S in subjects.items():
          for build, copies in ([('sdw', 1), ('mapping', 1), ('sdw', 7)] if sname in ('atom', 'pred') else [('sdw', 1)]):
            for w in worlds:
                for k in range(len(marks) + 1):
                    for sub in itertools.combinations(marks, k):
                        if copies > 1 and k == 0:
                            continue
                        rec = dict(logic=Meta.name, subject=sname, world=w, has_des=has_des,
                                   lits=[[neg, d] for neg, d in sub], build=build, copies=copies)
                        try:
                            tab = Tableau(logic)
                            b = tab.branch()
                            for neg, d in sub:
                                for _ in range(copies):
                                    sent = ~S if neg else S
                                    if build == 'mapping':
                                        mp = {'sentence': sent}
                                        if d is not None:
                                            mp['designated'] = d
                                        if w is not None:
                                            mp['world'] = w
                                        b.append(mp)
                                    else:
                                        b.append(sdwnode(sent, d, w))
                            tab.build()
                            rec['branches'] = len(tab)
                            rec['closed'] = bool(b.closed)
                            if not b.closed and sub:
                                m = logic.Model()
                                m.read_branch(b)
                                rec['value'] = m.value_of(S, world=w or 0).name
                                rec['sat'] = [bool((m.value_of(~S if neg else S, world=w or 0) in Meta.designated_values) == (True if d is None else d)) for neg, d in sub]
                        except Exception as e:
                            rec['error'] = f'{type(e).__name__}: {e}'
                        out.append(rec)
        # classical identity / existence literals
        if 'SelfIdentityClosure' in [r.name for r in logic.Rules.closure]:
            for pname, s in (('identity', Predicated(Predicate.Identity, (a, a))), ('existence', Predicated(Predicate.Existence, (a,)))):
                for neg in (False, True):
                    w = 0 if Meta.modal else None
                    rec = dict(logic=Meta.name, subject=pname, world=w, has_des=has_des, lits=[[neg, None]], special=True)
                    try:
                        tab = Tableau(logic); b = tab.branch()
                        b.append(sdwnode(~s if neg else s, None, w)); tab.build()
                        rec['closed'] = bool(b.closed); rec['branches'] = len(tab)
                        if not b.closed:
                            m = logic.Model(); m.read_branch(b)
                            rec['value'] = m.value_of(s, world=w or 0).name
                    except Exception as e:
                        rec['error'] = f'{type(e).__name__}: {e}'
                    out.append(rec)
        return out

    outs = pr.fanout(sorted(registry.modules), work)
    json.dump(dict(cases=[r for o in outs for r in o]), sys.stdout)

if __name__ == '__main__':
    main()
