"""Runs in the implementation's interpreter.  For every logic and every subset of
the literal constraints {(S,+),(S,-),(~S,+),(~S,-)} (or {S, ~S} without
designation markers) on S in {atom, predication, opaque sentence}, with and
without worlds: put the nodes on a real branch, run the tableau, report whether
the branch closed and which value the model builder reads off for S.
Also the classical identity / existence literals."""
import itertools, json, sys
import probe_rules as pr

def main():
    registry = pr.setup()
    from pytableaux.lang import Atomic, Constant, Operator, Predicate, Predicated, Quantified, Quantifier, Variable
    from pytableaux.proof import Tableau, sdwnode
    a = Constant(0, 0)
    F = Predicate(0, 0, 1)
    x = Variable(0, 0)

    def work(modname):
        logic = registry(modname)
        Meta = logic.Meta
        has_des = any(getattr(r, 'designation', None) is not None for g in logic.Rules.groups for r in g)
        subjects = {'atom': Atomic(0, 0), 'pred': Predicated(F, (a,))}
        if not Meta.modal:
            subjects['opaque'] = Operator.Possibility(Atomic(0, 0))
        if not Meta.quantified:
            subjects['opaque_q'] = Quantified(Quantifier.Existential, x, Predicated(F, (x,)))
        elif 'SelfIdentityClosure' not in [r.name for r in logic.Rules.closure]:
            # without the classical closure rules the system predicates are ordinary predicates
            subjects['existence-pred'] = Predicated(Predicate.Existence, (a,))
            subjects['identity-pred'] = Predicated(Predicate.Identity, (a, Constant(1, 0)))
        worlds = [0, 1] if Meta.modal else [None]
        out = []
        marks = [(False, True), (False, False), (True, True), (True, False)] if has_des else [(False, None), (True, None)]
        variants = [('sdw', 1)]
        for sname, S in subjects.items():
          for build, copies in ([('sdw', 1), ('mapping', 1), ('sdw', 7), ('ticked', 1), ('prefilled', 1), ('reversed', 1)] if sname in ('atom', 'pred') else [('sdw', 1), ('reversed', 1)]):
            for w in worlds:
                for k in range(len(marks) + 1):
                    for sub in itertools.combinations(marks, k):
                        if copies > 1 and k == 0:
                            continue
                        rec = dict(logic=Meta.name, subject=sname, world=w, has_des=has_des,
                                   lits=[[neg, d] for neg, d in sub], build=build, copies=copies)
                        try:
                            tab = Tableau(logic)
                            if build == 'prefilled':
                                # the branch is filled first and handed to the tableau afterwards
                                from pytableaux.proof import Branch
                                b = Branch()
                            else:
                                b = tab.branch()
                            # ('reversed': the same literals arriving in the opposite order)
                            for neg, d in (sub[::-1] if build == 'reversed' else sub):
                                for _ in range(copies):
                                    sent = ~S if neg else S
                                    if build == 'mapping':
                                        mp = {'sentence': sent}
                                        if d is not None:
                                            mp['designated'] = d
                                        if w is not None:
                                            mp['world'] = w
                                        b.append(mp)
                                    else:
                                        b.append(sdwnode(sent, d, w))
                            if build == 'prefilled':
                                tab.add(b)
                            if build == 'ticked':
                                # literals ticked by hand are still nodes of the branch: they close it and are read
                                for n_ in list(b):
                                    b.tick(n_)
                            tab.build()
                            rec['branches'] = len(tab)
                            rec['closed'] = bool(b.closed)
                            if not b.closed and sub:
                                m = logic.Model()
                                m.read_branch(b)
                                rec['value'] = m.value_of(S, world=w or 0).name
                                rec['sat'] = [bool((m.value_of(~S if neg else S, world=w or 0) in Meta.designated_values) == (True if d is None else d)) for neg, d in sub]
                        except Exception as e:
                            rec['error'] = f'{type(e).__name__}: {e}'
                        out.append(rec)
        classical = 'SelfIdentityClosure' in [r.name for r in logic.Rules.closure]
        # ---- literals of one subject spread over two worlds: closure is per world ----
        if Meta.modal:
            b_ = Constant(1, 0)
            xsubjects = {'atom': Atomic(0, 0), 'pred': Predicated(F, (a,))}
            if classical:
                xsubjects['ident2'] = Predicated(Predicate.Identity, (a, b_))
                xsubjects['exist'] = Predicated(Predicate.Existence, (a,))
            for sname, S in xsubjects.items():
                for assign in itertools.product((None, 0, 1), repeat=len(marks)):
                    if 0 not in assign or 1 not in assign:
                        continue
                    l0 = [list(m) for m, w_ in zip(marks, assign) if w_ == 0]
                    l1 = [list(m) for m, w_ in zip(marks, assign) if w_ == 1]
                    rec = dict(logic=Meta.name, subject=sname, cross=True, has_des=has_des, lits0=l0, lits1=l1,
                               lits=l0 + l1, world=None)
                    try:
                        tab = Tableau(logic)
                        b = tab.branch()
                        for (neg, d), w_ in zip(marks, assign):
                            if w_ is not None:
                                b.append(sdwnode(~S if neg else S, d, w_))
                        tab.build()
                        rec['branches'] = len(tab)
                        rec['closed'] = bool(b.closed)
                        if not b.closed:
                            m = logic.Model()
                            m.read_branch(b)
                            rec['values'] = [m.value_of(S, world=0).name, m.value_of(S, world=1).name]
                    except Exception as e:
                        rec['error'] = f'{type(e).__name__}: {e}'
                    out.append(rec)
        # ---- classical: ~ a = a where the two occurrences are equal but distinct objects ----
        if classical:
            w = 0 if Meta.modal else None
            rec = dict(logic=Meta.name, subject='identity-twin', world=w, has_des=has_des, lits=[[True, None]], special=True)
            try:
                c1 = Constant(3, 7)
                junk = [Constant(i % 4, 100 + i // 4) for i in range(5000)]      # cycle the bounded item cache
                c2 = Constant(3, 7)
                rec['twin_distinct_objects'] = c1 is not c2
                tab = Tableau(logic); b = tab.branch()
                b.append(sdwnode(~Predicated(Predicate.Identity, (c1, c2)), None, w)); tab.build()
                rec['closed'] = bool(b.closed); rec['branches'] = len(tab)
            except Exception as e:
                rec['error'] = f'{type(e).__name__}: {e}'
            out.append(rec)
        # classical identity / existence literals
        if 'SelfIdentityClosure' in [r.name for r in logic.Rules.closure]:
            for pname, s in (('identity', Predicated(Predicate.Identity, (a, a))), ('existence', Predicated(Predicate.Existence, (a,)))):
                for neg in (False, True):
                    w = 0 if Meta.modal else None
                    rec = dict(logic=Meta.name, subject=pname, world=w, has_des=has_des, lits=[[neg, None]], special=True)
                    try:
                        tab = Tableau(logic); b = tab.branch()
                        b.append(sdwnode(~s if neg else s, None, w)); tab.build()
                        rec['closed'] = bool(b.closed); rec['branches'] = len(tab)
                        if not b.closed:
                            m = logic.Model(); m.read_branch(b)
                            rec['value'] = m.value_of(s, world=w or 0).name
                    except Exception as e:
                        rec['error'] = f'{type(e).__name__}: {e}'
                    out.append(rec)
        return out

    outs = pr.fanout(sorted(registry.modules), work)
    json.dump(dict(cases=[r for o in outs for r in o]), sys.stdout)

if __name__ == '__main__':
    main()
