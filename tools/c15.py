"""C15 — substitution and the derived attributes of sentences are exact.

Theorems (coq/Props/C15.v) are about the Gallina model Lang/Subst.v.  This driver
ties the model to /repo: the same sentences / parameter pairs go to the real
`substitute`, `unquantify` (`c >> s`), `negative`, `negate` and the six derived
attributes (probe_c15.py, public constructors only) and to the model evaluated
inside Coq (vm_compute); the kernel compares and prints one boolean per
observation.
"""
from __future__ import annotations

import json
import random
import re

import lexsyn as L
import vlib
from vlib import (Check, MachineryError, coq_eval_cases, ensure_theory, probe_json,
                  props_assumptions)

HEADER = ('From Coq Require Import List Bool ZArith NArith.\n'
          'From PT Require Import Sem.Values Lang.Syntax Lang.Subst.\n'
          'Import ListNotations.\nOpen Scope N_scope.\n')

vlib.NCPU = min(vlib.NCPU, 8)      # at most 4 coqc workers (shared machine)

ATTRS = ['constants', 'variables', 'predicates', 'atomics', 'operators', 'quantifiers']

# small alphabet of the exhaustive part
A_CONSTS = [['c', 0, 0], ['c', 1, 0]]
A_VARS = [['v', 0, 0], ['v', 1, 0]]
A_PARAMS = A_CONSTS + A_VARS
A_PREDS = [[0, 0, 1], L.IDENTITY]
A_ATOMS = [[0, 0]]
ALL_PAIRS = [[n, o] for n in A_PARAMS for o in A_PARAMS]


def gen_cases(tier: str, rng: random.Random):
    cases = []

    def add(s, origin, pairs=ALL_PAIRS, unq=A_CONSTS):
        cases.append(dict(s=s, pairs=pairs, unq=unq, origin=origin))

    l0 = L.level0(A_ATOMS, A_PREDS, A_PARAMS)                # 21
    bv = [[0, 0], [1, 0]]
    if tier == 'thorough':
        l1 = L.next_level(l0, L.UNARY, L.BINARY, L.QUANTS, bv)   # 2814: every operator
    else:
        l1 = L.next_level(l0, L.UNARY, ['Conjunction', 'Biconditional'], L.QUANTS, bv)
    for s in l0:
        add(s, 'exh-depth0')
    # towers of negations (un-negation strips exactly one) over an atom, a predication and a quantified sentence
    for base in (['A', 0, 0], ['P', [0, 0, 1], [['c', 0, 0]]], ['Q', 'Existential', [0, 0], ['P', [0, 0, 1], [['v', 0, 0]]]]):
        t_ = base
        for _k in range(6):
            t_ = ['O', 'Negation', [t_]]
            add(t_, 'negation-tower', pairs=ALL_PAIRS[:4])
    for s in l1:
        add(s, 'exh-depth1')
    # depth 2, exhaustive over a reduced alphabet (1 constant, 1 variable in the leaves,
    # both variables bindable, Negation/Conjunction, both quantifiers)
    r0 = [['A', 0, 0], ['P', [0, 0, 1], [['c', 0, 0]]], ['P', [0, 0, 1], [['v', 0, 0]]],
          ['P', L.IDENTITY, [['v', 0, 0], ['c', 0, 0]]], ['P', L.IDENTITY, [['v', 1, 0], ['v', 0, 0]]]]
    r1 = r0 + L.next_level(r0, ['Negation'], ['Conjunction'], L.QUANTS, bv)       # 60
    r2 = L.next_level(r1, ['Negation'], ['Conjunction'], L.QUANTS, bv)            # 3900
    if tier == 'thorough':
        for s in r2:
            add(s, 'exh-depth2')
    else:
        for s in rng.sample(r2, 150):
            add(s, 'exh-depth2-sample', pairs=rng.sample(ALL_PAIRS, 6))
    # random, depth <= 6, wide alphabet, shared parameters
    n_rand = 2500 if tier == 'thorough' else 250
    for _ in range(n_rand):
        pool = [L.rand_param(rng) for _ in range(rng.randint(2, 5))]
        s = L.rand_sent(rng, rng.randint(1, 6), pool)
        occ = [list(p) for p in L.params_in(s)] or pool
        pairs = []
        for _ in range(4):
            old = rng.choice(occ) if rng.random() < 0.8 else L.rand_param(rng)
            r = rng.random()
            new = list(old) if r < 0.15 else (rng.choice(pool) if r < 0.6 else L.rand_param(rng))
            pairs.append([list(new), list(old)])
        add(s, 'random', pairs=pairs, unq=[['c', rng.randrange(4), rng.choice([0, 1, 5])]])
    return cases


def is_err(x) -> bool:
    return isinstance(x, dict) and 'err' in x


def obs_record(a, negative, negate) -> str:
    pairs = '[' + '; '.join(f'({i}, {s})' for i, s in a['atomics']) + ']'
    return ('{| o_constants := ' + L.cq_params(a['constants'])
            + '; o_variables := ' + L.cq_params(a['variables'])
            + '; o_predicates := [' + '; '.join(L.cq_pred(p) for p in a['predicates']) + ']'
            + '; o_atomics := ' + pairs
            + '; o_operators := [' + '; '.join('O' + o for o in a['operators']) + ']'
            + '; o_quantifiers := [' + '; '.join(a['quantifiers']) + ']'
            + '; o_negative := ' + L.cq_sent(negative)
            + '; o_negate := ' + L.cq_sent(negate) + ' |}')


def evaluate(cases, name='Cases'):
    """Run probe + model on the cases.  Returns per case a list of failures
    (label, detail) where label is the stable part of the violation key."""
    res = probe_json('probe_c15.py', stdin=json.dumps(dict(cases=[
        dict(s=c['s'], pairs=c['pairs'], unq=c['unq']) for c in cases])), timeout=1800)
    if len(res) != len(cases):
        raise MachineryError('probe_c15: wrong number of answers')
    fails = [[] for _ in cases]
    # derived attributes of substitution results: compared with the attributes the same sentence has when it is
    # built on its own in a fresh interpreter (where nothing can have been inherited from a receiver)
    results = {}
    for c, r in zip(cases, res):
        for got in r.get('subst', ()):
            if L.is_tree(got):
                results.setdefault(json.dumps(got), got)
    keys = list(results)
    fresh = probe_json('probe_c15.py', stdin=json.dumps(dict(cases=[dict(s=results[k], pairs=[], unq=[]) for k in keys])),
                       timeout=1800) if keys else []
    fresh_attrs = {k: fr['attrs'] for k, fr in zip(keys, fresh)}
    for k, (c, r) in enumerate(zip(cases, res)):
        for (new, old), got, ga in zip(c['pairs'], r.get('subst', ()), r.get('subst_attrs') or ()):
            if ga is None or not L.is_tree(got):
                continue
            want = fresh_attrs.get(json.dumps(got))
            if want is not None and ga != want:
                diff = [n for n in want if ga.get(n) != want[n]]
                fails[k].append((f'attr-after-substitute:{L.top_class(c["s"])}:{",".join(diff)}',
                                 dict(new=new, old=old, result=got, observed={n: ga.get(n) for n in diff},
                                      expected={n: want[n] for n in diff})))
    exprs, slots = [], []
    for k, (c, r) in enumerate(zip(cases, res)):
        s = c['s']
        cls = L.top_class(s)
        a = r['attrs']
        bad = False
        for n in ATTRS:
            if is_err(a[n]):
                fails[k].append((f'attr:{n}:{cls}:raises', dict(attr=n, observed=a[n])))
                bad = True
        for n, opn in (('negative', 'neg_op'), ('negate', 'inv_op')):
            if is_err(r[n]) or not L.is_tree(r[n]):
                fails[k].append((f'{n}:{cls}:raises', dict(observed=r[n])))
                bad = True
            elif r[opn] != r[n]:
                fails[k].append((f'{n}:{cls}:operator-form-differs', dict(method=r[n], operator=r[opn])))
        if r['attrs_after'] != a:
            fails[k].append((f'attr-cache-drift:{cls}', dict(before=a, after=r['attrs_after'])))
        if r['self_after'] != s:
            fails[k].append((f'receiver-changed:{cls}', dict(after=r['self_after'])))
        if bad:
            continue
        labels = [f'attr:{n}:{cls}' for n in ATTRS] + [f'negative:{cls}', f'negate:{cls}']
        details = [dict(attr=n, observed=a[n]) for n in ATTRS] + \
                  [dict(observed=r['negative']), dict(observed=r['negate'])]
        extra = []
        for (new, old), got in zip(c['pairs'], r['subst']):
            lab = f'substitute:{cls}' + (':shortcut' if new == old else '')
            if is_err(got) or not L.is_tree(got):
                fails[k].append((lab + ':raises', dict(new=new, old=old, observed=got)))
                continue
            extra.append(f'check_subst s ({L.cq_param(new)}) ({L.cq_param(old)}) {L.cq_sent(got)}')
            labels.append(lab)
            details.append(dict(new=new, old=old, observed=got, expected=L.ref_subst(s, new, old)))
        for cst, g1, g2 in zip(c['unq'], r['unq'], r['rshift']):
            for form, got in (('unquantify', g1), ('rshift', g2)):
                opt = 'None' if is_err(got) else f'(Some {L.cq_sent(got)})'
                extra.append(f'check_unq s ({L.cq_param(cst)}) {opt}')
                labels.append(f'{form}:{cls}')
                details.append(dict(constant=cst, observed=got))
        exprs.append(f'let s := {L.cq_sent(s)} in check_attrs s ({obs_record(a, r["negative"], r["negate"])})'
                     f' ++ [{"; ".join(extra)}]')
        slots.append((k, labels, details))
    answers = coq_eval_cases('C15', HEADER, exprs, shard=250, name=name, timeout=1500)
    nobs = 0
    for (k, labels, details), ans in zip(slots, answers):
        bits = re.findall(r'true|false', ans)
        if len(bits) != len(labels):
            raise MachineryError(f'C15: {len(bits)} answers for {len(labels)} observations: {ans[:200]}')
        nobs += len(bits)
        for b, lab, det in zip(bits, labels, details):
            if b == 'false':
                fails[k].append((lab, det))
    return fails, res, nobs


def shrink(case, label):
    """Smallest sub-sentence on which the same kind of failure is still observed."""
    cur = case
    for _ in range(12):
        kids = [dict(cur, s=ch) for ch in L.children(cur['s'])]
        if not kids:
            break
        fl, _, _ = evaluate(kids, name='Shrink')
        base = label.split(':')[0]
        nxt = [k for k, f in zip(kids, fl) if any(l.split(':')[0] == base for l, _ in f)]
        if not nxt:
            break
        cur = min(nxt, key=lambda k: L.size(k['s']))
    return cur


def run(args) -> int:
    chk = Check('C15', args.tier, args.seed)
    chk.rule = ('one case = one sentence with its parameter pairs; observations per case: 6 attributes, negative, '
                'negate, substitute per pair, unquantify and `c >> s` per constant, each compared by the Coq kernel '
                'with the model; non-trivial = every case (all have at least the attribute observations); '
                'distinct = distinct (sentence, pairs)')
    ensure_theory()
    chk.assumptions = props_assumptions('C15')
    chk.theorems = ['C15_substitute_pointwise', 'C15_substitute_skeleton', 'C15_shape_params_inj',
                    'C15_subst_removes_old', 'C15_shortcut_sound', 'C15_unquantify_is_subst',
                    'C15_negative_negate', 'C15_negative_other', 'C15_attrs_are_walks']
    for t, a in zip(chk.theorems, chk.assumptions):
        chk.obligation(f'theorem:{t}', a == 'Closed under the global context', kind='T')
    rng = random.Random(args.seed)
    cases = gen_cases(args.tier, rng)
    fails, res, nobs = evaluate(cases)
    for c, f in zip(cases, fails):
        chk.case([c['s'], c['pairs']], nontrivial=True,
                 sample=dict(sentence=c['s'], pairs=c['pairs'][:2], origin=c['origin']))
        chk.count('origin', c['origin'])
        chk.count('class', L.top_class(c['s']))
        chk.count('depth', str(L.depth(c['s'])))
        chk.count('substitutions', 'new==old', sum(1 for n, o in c['pairs'] if n == o))
        chk.count('substitutions', 'new!=old', sum(1 for n, o in c['pairs'] if n != o))
    chk.notes['observations'] = nobs
    seen = set()
    for c, f in zip(cases, fails):
        for lab, det in f:
            base = lab
            if base in seen:
                continue
            seen.add(base)
            small = shrink(dict(c, pairs=[[det['new'], det['old']]] if 'new' in det else c['pairs']), lab)
            fl, _, _ = evaluate([small], name='Confirm')
            hit = [(l, d) for l, d in fl[0] if l.split(':')[0] == lab.split(':')[0]]
            if hit:
                lab2, det2 = hit[0]
                rc = small
            else:
                lab2, det2, rc = lab, det, c
            chk.violation(f'c15:{lab2}',
                          f'{lab2}: implementation and proved model disagree on {json.dumps(rc["s"])[:300]} '
                          f'{json.dumps({k: v for k, v in det2.items() if k in ("new", "old", "attr", "constant")})}',
                          dict(kind='c15_case', case=dict(s=rc['s'], pairs=rc['pairs'], unq=rc['unq']),
                               label=lab2, detail=det2), found_input=True)
    chk.checker_cmd = ('coqc gen/C15/Cases*.v (Eval vm_compute of Lang/Subst.v check_* against probe_c15.py output); '
                       'coq/Props/C15.v')
    chk.trusted.append('tools/probe_c15.py builds sentences through the public constructors and reads results back '
                       'through public attributes; tools/lexsyn.py renders them as Gallina terms')
    chk.notes['explanation'] = (
        'obligations = the property theorems of Props/C15.v compiling closed under the global context (they are '
        'universally quantified over all sentences and parameters; nothing is decided per input). The correspondence '
        'evaluates the model inside Coq on exhaustive small sentences (depth 0/1 over 2 constants, 2 variables, a '
        'unary predicate and Identity, one atom; depth 2 over a reduced alphabet) x all 16 parameter pairs, plus '
        'random sentences of depth <= 6 over the full index/subscript range with shared parameters and system '
        'predicates. Quantified.substitute leaves the binder untouched even when `old` is the bound variable: the '
        'theorem states the replacement for parameter occurrences of predications, binders belong to the skeleton.')
    return chk.finish()


def replay(path: str) -> int:
    rep = json.load(open(path))
    ensure_theory()
    c = rep['case']
    fl, res, _ = evaluate([dict(s=c['s'], pairs=c.get('pairs', []), unq=c.get('unq', []))], name='Replay')
    base = rep.get('label', '').split(':')[0]
    hit = [(l, d) for l, d in fl[0] if not base or l.split(':')[0] == base]
    print(f"replay: {json.dumps(c['s'])[:300]} -> {len(hit)} disagreeing observation(s)")
    for l, d in hit[:3]:
        print('  ', l, json.dumps(d)[:400])
    if hit:
        print(f'VIOLATION property=C15 replay={path}')
        return 1
    return 0
