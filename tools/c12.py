"""C12 — sentences and arguments survive a write/parse round trip.

Theory: coq/theories/Lang/{PSyntax,Dec,ParsePolish,WritePolish,RoundTrip}.v (+ std files), Props/C12.v.
Per run: the Polish parse table and every (notation, format, dialect) string table are regenerated
from /repo -> coq/gen/C12/Tables.v; the kernel decides `agree_b` item by item (every writer symbol
is one character that the parse table maps back to the same item; digits; empty subscript
delimiters) and instantiates polish_roundtrip / write_polish_injective (Obl.v); the correspondence
run compares the model writer with the real writer and the real writer->parser round trip with the
sentence itself.
"""
from __future__ import annotations

import itertools
import json
import random

import parselib as pl
from vlib import (Check, MachineryError, coqc, ensure_theory, gen_dir, probe_json, props_assumptions,
                  write_if_changed)

PID = 'C12'
DIGIT_LIMIT = 4300
HEADER = ('From Coq Require Import List Bool Arith NArith String.\n'
          'From PT Require Import Lang.PSyntax Lang.Dec Lang.ParsePolish Lang.ParsePolishProofs Lang.WritePolish '
          'Lang.RoundTrip Lang.ArgStr Lang.PShow Lang.PRun.\n'
          'Import ListNotations.\nOpen Scope string_scope.\nOpen Scope list_scope.\n')


def have_std() -> bool:
    from vlib import COQ
    return (COQ / 'theories' / 'Lang' / 'WriteStd.v').exists()


def header(g=True) -> str:
    h = HEADER
    if have_std():
        h += 'From PT Require Import Lang.WriteStd Lang.ParseStd Lang.Whitespace Lang.WhitespaceStd Lang.StdDenotes Lang.StdRoundTrip Lang.Transfer.\nFrom Coq Require Import Lia.\n'
    return h + ('Require Import GC12.Tables.\n' if g else '')


# --------------------------------------------------------------------------
# string tables -> Coq

def ostr(v) -> str:
    if v is None or isinstance(v, dict):
        return 'None'
    return 'Some ' + (('[' + '; '.join(map(str, v)) + ']%N') if v else '(@nil N)')


def table_lookup(strings):
    d = {}
    for k, v in strings:
        d[json.dumps(k)] = v
    return lambda *k: d.get(json.dumps(list(k)))


def emit_wtable(name: str, ent: dict) -> str:
    get = table_lookup(ent['strings'])

    def fn(cases, arg='o'):
        return f'fun {arg} => match {arg} with ' + ' | '.join(f'{c} => {ostr(v)}' for c, v in cases) + ' end'

    def idx(kind, n):
        body = ' | '.join(f'{i} => {ostr(get("tuple", [kind, i]))}' for i in range(n))
        return f'fun i => match i with {body} | _ => None end'
    fields = [
        ('w_uop', fn([(o, get('Operator', o)) for o in pl.UOPS])),
        ('w_bop', fn([(o, get('Operator', o)) for o in pl.BOPS])),
        ('w_quant', fn([(q, get('Quantifier', q)) for q in pl.QUANTS])),
        ('w_sys', fn([(p, get('System', p)) for p in pl.SYS])),
        ('w_atom', idx('Atomic', 5)),
        ('w_var', idx('Variable', 4)),
        ('w_const', idx('Constant', 4)),
        ('w_pred', idx('Predicate', 4)),
        ('w_subopen', ostr(get('Marking', 'subscript_open'))),
        ('w_subclose', ostr(get('Marking', 'subscript_close'))),
    ]
    return f'Definition {name} : wtable := {{|\n  ' + ';\n  '.join(f'{k} := {v}' for k, v in fields) + ' |}.\n'


def reverse_entry(rows) -> dict:
    """The standard alphabet as a writer table: for each item the (first) character the parse table maps to it."""
    strings, seen = [], set()
    kindmap = {'Operator': 'Operator', 'Quantifier': 'Quantifier', 'System': 'System'}
    for chars, kind, value in rows:
        if len(chars) != 1 or isinstance(kind, dict) or isinstance(value, dict):
            continue
        if kind in kindmap:
            key = [kindmap[kind], value]
        elif kind in ('Atomic', 'Variable', 'Constant', 'Predicate'):
            key = ['tuple', [kind, value]]
        else:
            continue
        if json.dumps(key) not in seen:
            seen.add(json.dumps(key))
            strings.append([key, chars])
    strings.append([['Marking', 'subscript_open'], []])
    strings.append([['Marking', 'subscript_close'], []])
    return dict(strings=strings)


def tname(e) -> str:
    return f"w_{e['notation']}_{e['format']}_{e['dialect']}"


def find_strings(tb, notation, fmt, dialect):
    for e in tb['strings']:
        if (e['notation'], e['format'], e['dialect']) == (notation, fmt, dialect):
            return e
    raise pl.Inexpressible(f'no string table {notation}/{fmt}/{dialect}')


AGREE_ITEMS = (
    [(f'uop:{o}', f'maps_to polish_table (w_uop polish_ascii_w {o}) (IOper1 {o})', ['U', o, ['A', 0, 0]]) for o in pl.UOPS] +
    [(f'bop:{o}', f'maps_to polish_table (w_bop polish_ascii_w {o}) (IOper2 {o})', ['B', o, ['A', 0, 0], ['A', 1, 0]]) for o in pl.BOPS] +
    [(f'quant:{q}', f'maps_to polish_table (w_quant polish_ascii_w {q}) (IQuant {q})',
      ['Q', q, [0, 0], ['P', [0, 0, 1], [['v', 0, 0]]]]) for q in pl.QUANTS] +
    [('sys:Identity', 'maps_to polish_table (w_sys polish_ascii_w Identity) (ISys Identity)',
      ['P', 'Identity', [['c', 0, 0], ['c', 1, 0]]]),
     ('sys:Existence', 'maps_to polish_table (w_sys polish_ascii_w Existence) (ISys Existence)',
      ['P', 'Existence', [['c', 0, 0]]])] +
    [(f'atom:{i}', f'maps_to polish_table (w_atom polish_ascii_w {i}) (IAtom {i})', ['A', i, 0]) for i in range(5)] +
    [(f'var:{i}', f'maps_to polish_table (w_var polish_ascii_w {i}) (IVar {i})',
      ['Q', 'Existential', [i, 0], ['P', [0, 0, 1], [['v', i, 0]]]]) for i in range(4)] +
    [(f'const:{i}', f'maps_to polish_table (w_const polish_ascii_w {i}) (IConst {i})',
      ['P', [0, 0, 1], [['c', i, 0]]]) for i in range(4)] +
    [(f'pred:{i}', f'maps_to polish_table (w_pred polish_ascii_w {i}) (IPred {i})',
      ['P', [i, 0, 1], [['c', 0, 0]]]) for i in range(4)] +
    [(f'digit:{d}', f'digit_ok polish_table {d}%N', ['A', 0, d if d else 10]) for d in range(10)] +
    [('subscript_open:empty', 'is_empty (w_subopen polish_ascii_w)', ['A', 0, 1]),
     ('subscript_close:empty', 'is_empty (w_subclose polish_ascii_w)', ['K', 0, 1])]
)


def emit_tables(chk: Check, tb: dict) -> bool:
    g = gen_dir(PID)
    try:
        pl.check_arities(tb)
        body = [header(False), pl.emit_ptable('polish_table', tb['parse']['polish']),
                pl.emit_ptable('standard_table', tb['parse']['standard']),
                emit_wtable('polish_ascii_w', find_strings(tb, 'polish', 'text', 'ascii'))]
        if have_std():
            body.append('From PT Require Import Lang.WriteStd Lang.ParseStd.')
            for e in tb['strings']:
                nm = tname(e)
                if e['notation'] == 'polish':
                    body.append(emit_wtable(nm, e))
                else:
                    get = table_lookup(e['strings'])
                    body.append(emit_wtable(nm + '_base', e))
                    body.append(f'Definition {nm} : swtable := {{| sw := {nm}_base; '
                                f'sw_popen := {ostr(get("Marking", "paren_open"))}; '
                                f'sw_pclose := {ostr(get("Marking", "paren_close"))}; '
                                f'sw_ws := {ostr(get("Marking", "whitespace"))}; '
                                f'sw_neqid := {ostr(get("tuple", ["Negation", "Identity"]))} |}}.\n')
            rev = tb['reversed']['standard']
            po, pc = rev['paren_open'], rev['paren_close']
            if not (isinstance(po, list) and isinstance(pc, list) and len(po) == 1 and len(pc) == 1):
                raise pl.Inexpressible(f'standard table reversed parens: {po!r} {pc!r}')
            body.append(f'Definition std_opts : sopts := {{| drop_parens := true; popen := {po[0]}%N; pclose := {pc[0]}%N |}}.\n')
            body.append(emit_wtable('std_rev_w', reverse_entry(tb['parse']['standard'])))
    except pl.Inexpressible as e:
        chk.obligation('tables:expressible', False)
        chk.violation('tables:inexpressible', f'tables cannot be expressed in the model: {e}',
                      dict(kind='obligation', obligation='tables expressible', detail=str(e)), found_input=False)
        return False
    chk.obligation('tables:expressible', True)
    write_if_changed(g / 'Tables.v', '\n'.join(body))
    rc, out = coqc(g / 'Tables.v')
    if rc:
        raise MachineryError('generated Tables.v does not compile:\n' + out[-3000:])
    return True


def agree_obligations(chk: Check, tb: dict) -> None:
    g = gen_dir(PID)
    exprs = [e for _, e, _ in AGREE_ITEMS] + ['agree_b polish_table polish_ascii_w',
                                             'match tlookup polish_table 58%N with None => true | _ => false end']
    ans = [a.strip() == 'true' for a in pl.eval_bools(PID, header(), exprs)]
    ob = [header(), 'From PTProps Require Import C12.\n']
    bad = []
    for (name, expr, witness), ok in zip(AGREE_ITEMS, ans):
        chk.obligation(f'polish-ascii:agree:{name}', ok)
        if not ok:
            bad.append((name, expr, witness))
            ob.append(f'Lemma obl_agree_{name.replace(":", "_")}_refuted : {expr} = false.\n'
                      'Proof. vm_compute. reflexivity. Qed.\n')
    all_ok = ans[len(AGREE_ITEMS)]
    colon_ok = ans[len(AGREE_ITEMS) + 1]
    chk.obligation('polish-ascii:agree_b', all_ok)
    chk.obligation('polish:colon-not-a-symbol', colon_ok)
    if all_ok:
        ob.append('Lemma obl_agree : agree_b polish_table polish_ascii_w = true.\nProof. vm_compute. reflexivity. Qed.\n')
        ob.append(INSTANCES)
        if colon_ok:
            ob.append(ARG_INSTANCE)
    elif not bad:
        raise MachineryError('agree_b false but every item true')
    if not colon_ok:
        ob.append('Lemma obl_colon_refuted : tlookup polish_table 58%N <> None.\nProof. vm_compute. discriminate. Qed.\n')
        sents = [['A', 0, 0], ['A', 1, 0]]
        r = probe_json('probe_parse.py', ['argstr'], stdin=json.dumps([sents]))[0]
        chk.violation('argstr:colon-is-a-symbol', "':' (the argstr separator) is a symbol of the Polish parse table; "
                      f'argstr round trip of [a, b] gives {r}', dict(kind='argstr', sentences=sents),
                      found_input=('error' in r or r.get('back') != r.get('orig')))
    if have_std():
        wexprs = ['table_ok polish_table', 'table_ok standard_table',
                  'negb (is_ws standard_table (popen std_opts)) && negb (is_ws standard_table (pclose std_opts))']
        wans = [a.strip() == 'true' for a in pl.eval_bools(PID, header(), wexprs, name='StatusWs')]
        for nm, ok in zip(('polish:table_ok', 'standard:table_ok', 'standard:parens-not-whitespace'), wans):
            chk.obligation(nm, ok)
            if not ok:
                chk.violation(f'whitespace:{nm}', f'side condition {nm} of the whitespace-insensitivity theorem fails on the '
                              'regenerated tables (C13 reports table_ok with a failing input)',
                              dict(kind='obligation', obligation=nm), found_input=False)
        if wans[0]:
            ob.append(WS_POLISH)
        if wans[1] and wans[2]:
            ob.append(WS_STD)
        dans = pl.eval_bools(PID, header(), ['agree_b standard_table std_rev_w',
                                             'match tlookup standard_table (popen std_opts), tlookup standard_table (pclose std_opts) '
                                             'with Some IParenOpen, Some IParenClose => true | _, _ => false end'], name='StatusDen')
        dok = [a.strip() == 'true' for a in dans]
        chk.obligation('standard:alphabet-agree_b', dok[0])
        chk.obligation('standard:paren-characters', dok[1])
        if all(dok) and wans[1]:
            ref = pl.Ref(tb['parse']['standard'])
            A, Bc, amp = ord(ref.sym('Atomic', 0)), ord(ref.sym('Atomic', 1)), ord(ref.sym('Operator', 'Conjunction'))
            a, b, eq = ord(ref.sym('Constant', 0)), ord(ref.sym('Constant', 1)), ord(ref.sym('System', 'Identity'))
            ob.append(DEN_STD % dict(A=A, amp=amp, a=a, b=b, eq=eq))
        else:
            chk.violation('standard:denotes-side-conditions', 'side conditions of C12_standard_denotes fail on the regenerated '
                          f'standard parse table (alphabet agree_b={dok[0]}, paren characters={dok[1]}, table_ok={wans[1]})',
                          dict(kind='obligation', obligation='agree_b standard_table std_rev_w / parens'), found_input=False)
        # standard text/ascii writer composed with the standard parser (plain fragment): side condition of
        # C12_standard_roundtrip_plain / C12_write_standard_injective_plain on the regenerated tables
        global STD_RT_APPLIES
        STD_RT_APPLIES = False
        try:
            find_strings(tb, 'standard', 'text', 'ascii')
            ref = pl.Ref(tb['parse']['standard'])
            ex = ord(ref.sym('System', 'Existence'))
            rt_expr = f'std_agree_b standard_table (patch_exist w_standard_text_ascii (Some [{ex}]%N)) std_opts'
            rans = [a.strip() == 'true' for a in pl.eval_bools(PID, header(), [rt_expr, 'table_ok standard_table'], name='StatusRT')]
        except pl.Inexpressible:
            rans = None
        if rans is not None:
            chk.obligation('standard-ascii:writer-agree_b', rans[0])
            if all(rans):
                STD_RT_APPLIES = True
                a, b = ord(ref.sym('Constant', 0)), ord(ref.sym('Constant', 1))
                ob.append(RT_STD % dict(ex=ex, a=a, b=b))
            else:
                chk.violation('standard-ascii:roundtrip-side-conditions', 'side condition of C12_write_standard_injective_plain '
                              f'fails on the regenerated tables ({rt_expr} = {rans[0]}, table_ok = {rans[1]}): injectivity of the '
                              'standard ASCII writer is no longer proved (collisions are searched per table below)',
                              dict(kind='obligation', obligation=rt_expr), found_input=False)
    # further string tables that happen to satisfy the same side conditions (today: the 'text' dialect aliases of the
    # ASCII tables): the generic theorems are instantiated for them too; tables that do not (multi-character symbols,
    # non-empty subscript delimiters) stay with the correspondence-only collision search - not an alarm
    if have_std() and all_ok:
        others = [e for e in tb['strings'] if (e['notation'], e['format'], e['dialect']) not in
                  (('polish', 'text', 'ascii'), ('standard', 'text', 'ascii'))]
        try:
            ex_ = ord(pl.Ref(tb['parse']['standard']).sym('System', 'Existence'))
        except Exception:  # noqa: BLE001
            ex_ = None
        oexprs = []
        for e in others:
            if e['notation'] == 'polish':
                oexprs.append(f'agree_b polish_table {tname(e)}')
            else:
                oexprs.append(f'table_ok standard_table && std_agree_b standard_table (patch_exist {tname(e)} (Some [{ex_}]%N)) std_opts'
                              if ex_ is not None else 'false')
        oans = [a.strip() == 'true' for a in pl.eval_bools(PID, header(), oexprs, name='StatusOther')] if oexprs else []
        # Polish tables with multi-character symbols / subscript delimiters: unique decodability (Lang/Transfer.v code_ok)
        cexprs = [f'code_ok {tname(e)}' if e['notation'] == 'polish' else 'false' for e in others]
        cans = [a.strip() == 'true' for a in pl.eval_bools(PID, header(), cexprs, name='StatusCode')] if cexprs else []
        proved = ['polish/text/ascii'] + (['standard/text/ascii'] if STD_RT_APPLIES else [])
        for e, ok, ex, cok in zip(others, oans, oexprs, cans):
            tkey = f"{e['notation']}/{e['format']}/{e['dialect']}"
            ok = ok and (e['notation'] == 'polish' or STD_RT_APPLIES)
            if not ok and cok:
                nm = tname(e)
                chk.count('injectivity_by', 'proof(prefix-code transfer):' + tkey)
                proved.append(tkey)
                ob.append(f'Lemma obl_code_{nm} : code_ok {nm} = true.\nProof. vm_compute. reflexivity. Qed.\n'
                          f'Theorem C12_injective_{nm} : forall s1 s2 w, roundtrippable s1 = true -> roundtrippable s2 = true ->\n'
                          f'  write_polish {nm} s1 = Some w -> write_polish {nm} s2 = Some w -> s1 = s2.\n'
                          f'Proof. exact (C12_write_polish_injective_code polish_table polish_ascii_w {nm} obl_agree obl_code_{nm}). Qed.\n')
                continue
            chk.count('injectivity_by', ('proof:' if ok else 'correspondence-only:') + tkey)
            if not ok:
                continue
            proved.append(tkey)
            nm = tname(e)
            if e['notation'] == 'polish':
                ob.append(f'Lemma obl_agree_{nm} : {ex} = true.\nProof. vm_compute. reflexivity. Qed.\n'
                          f'Theorem C12_injective_{nm} : forall s1 s2 w, roundtrippable s1 = true -> roundtrippable s2 = true ->\n'
                          f'  write_polish {nm} s1 = Some w -> write_polish {nm} s2 = Some w -> s1 = s2.\n'
                          f'Proof. exact (C12_write_polish_injective polish_table {nm} obl_agree_{nm}). Qed.\n')
            else:
                ob.append(f'Lemma obl_agree_{nm} : std_agree_b standard_table (patch_exist {nm} (Some [{ex_}]%N)) std_opts = true.\n'
                          'Proof. vm_compute. reflexivity. Qed.\n'
                          f'Theorem C12_injective_{nm} : forall OW s1 s2 w,\n'
                          '  roundtrippable s1 = true -> negid_ok OW s1 = true -> no_exist s1 = true ->\n'
                          '  roundtrippable s2 = true -> negid_ok OW s2 = true -> no_exist s2 = true ->\n'
                          f'  write_stdo OW {nm} s1 = Some w -> write_stdo OW {nm} s2 = Some w -> s1 = s2.\n'
                          f'Proof. intro OW. exact (C12_write_standard_injective_opts standard_table {nm} std_opts OW _ '
                          f'obl_standard_table_ok obl_agree_{nm}). Qed.\n')
        chk.notes['injectivity_proved_for_tables'] = proved
    write_if_changed(g / 'Obl.v', '\n'.join(ob))
    rc, out = coqc(g / 'Obl.v')
    if rc:
        raise MachineryError('generated Obl.v does not compile:\n' + out[-3000:])
    # failing-input search: the smallest sentence that uses the offending item, through the real writer+parser
    for name, expr, witness in bad:
        if witness[0] == 'K':
            witness = ['A', 0, 1]
        res = probe_json('probe_parse.py', ['write'], stdin=json.dumps(
            [dict(notation='polish', format='text', dialect='ascii', sents=[witness], parse={})]))[0][0]
        want = 'OK ' + pl.ser_json(witness)
        got = [res.get('parsed_declared'), res.get('parsed_auto')]
        key = f'polish-ascii:symbol:{name}'
        if any(x != want for x in got) or isinstance(res.get('written'), str):
            chk.violation(key, f'Polish ASCII rendering of {pl.ser_json(witness)} does not parse back '
                          f'(written {render_cps(res.get("written"))!r}, parsed {got})',
                          dict(kind='roundtrip', notation='polish', format='text', dialect='ascii', sentence=witness,
                               expect=want, obligation=expr))
        else:
            chk.violation(key, f'side condition {expr} fails but the witness sentence still round-trips; '
                          'the round-trip theorem no longer applies to these tables',
                          dict(kind='obligation', obligation=expr, sentence=witness), found_input=False)


INSTANCES = '''
Theorem C12_polish_ascii_roundtrip : forall s, roundtrippable s = true ->
  exists w, write_polish polish_ascii_w s = Some w /\\
            parse_polish (cfg_of polish_table false) (decls s) w = (OK s, decls s) /\\
            parse_polish (cfg_of polish_table true) [] w = (OK s, decls s).
Proof. exact (C12_polish_roundtrip polish_table polish_ascii_w obl_agree). Qed.
Theorem C12_polish_ascii_injective : forall s1 s2 w, roundtrippable s1 = true -> roundtrippable s2 = true ->
  write_polish polish_ascii_w s1 = Some w -> write_polish polish_ascii_w s2 = Some w -> s1 = s2.
Proof. exact (C12_write_polish_injective polish_table polish_ascii_w obl_agree). Qed.
'''


WS_POLISH = '''
Lemma obl_polish_table_ok : table_ok polish_table = true.
Proof. vm_compute. reflexivity. Qed.
Theorem C12_polish_whitespace : forall auto P i,
  parse_polish (cfg_of polish_table auto) P i = parse_polish (cfg_of polish_table auto) P (strip polish_table i).
Proof. intros. apply (C12_parse_polish_ws (cfg_of polish_table auto) obl_polish_table_ok). left; reflexivity. Qed.
'''

WS_STD = '''
Lemma obl_standard_table_ok : table_ok standard_table = true.
Proof. vm_compute. reflexivity. Qed.
Theorem C12_standard_whitespace : forall auto P i,
  parse_std_opts (cfg_of standard_table auto) std_opts P i =
  parse_std_opts (cfg_of standard_table auto) std_opts P (strip standard_table i).
Proof.
  intros. apply (C12_parse_std_ws (cfg_of standard_table auto) obl_standard_table_ok); [left; reflexivity | |];
    vm_compute; reflexivity.
Qed.
'''

DEN_STD = '''
Lemma obl_std_alphabet : agree_b standard_table std_rev_w = true.
Proof. vm_compute. reflexivity. Qed.
Theorem C12_standard_denotes_inst : forall s w d, roundtrippable s = true ->
  Rtop std_rev_w (popen std_opts) (pclose std_opts) s w -> strip standard_table d = w ->
  parse_std_opts (cfg_of standard_table false) std_opts (decls s) d = (OK s, decls s) /\\
  parse_std_opts (cfg_of standard_table true) std_opts [] d = (OK s, decls s).
Proof.
  apply (C12_standard_denotes standard_table std_rev_w std_opts obl_standard_table_ok obl_std_alphabet);
    vm_compute; reflexivity.
Qed.
(* non-vacuity: "A & a = b" (outer parentheses dropped, identity infix) is such a rendering *)
Example C12_standard_denotes_example :
  Rtop std_rev_w (popen std_opts) (pclose std_opts)
    (Bin Conjunction (Atom 0 0) (Pred (PSys Identity) [Const 0 0; Const 1 0])) [%(A)d; %(amp)d; %(a)d; %(eq)d; %(b)d]%%N.
Proof.
  apply (Rtop_drop _ _ _ Conjunction _ _ [%(amp)d]%%N [%(A)d]%%N [%(a)d; %(eq)d; %(b)d]%%N).
  - reflexivity.
  - apply Rs_atom. reflexivity.
  - apply (Rs_infix _ _ _ (PSys Identity) (Const 0 0) [Const 1 0] [%(a)d]%%N [%(eq)d]%%N [%(b)d]%%N); try reflexivity.
    all: try (cbn; lia).
Qed.
'''

STD_RT_APPLIES = False

RT_STD = '''
Lemma obl_std_writer_agree : std_agree_b standard_table (patch_exist w_standard_text_ascii (Some [%(ex)d]%%N)) std_opts = true.
Proof. vm_compute. reflexivity. Qed.
Theorem C12_standard_ascii_roundtrip : forall s, roundtrippable s = true -> std_plain s = true ->
  exists w, write_std w_standard_text_ascii s = Some w /\\
            parse_std_opts (cfg_of standard_table false) std_opts (decls s) w = (OK s, decls s) /\\
            parse_std_opts (cfg_of standard_table true) std_opts [] w = (OK s, decls s).
Proof. exact (C12_standard_roundtrip_plain standard_table w_standard_text_ascii std_opts _ obl_standard_table_ok obl_std_writer_agree). Qed.
Theorem C12_standard_ascii_injective : forall s1 s2 w, roundtrippable s1 = true -> std_plain s1 = true ->
  roundtrippable s2 = true -> std_plain s2 = true ->
  write_std w_standard_text_ascii s1 = Some w -> write_std w_standard_text_ascii s2 = Some w -> s1 = s2.
Proof. exact (C12_write_standard_injective_plain standard_table w_standard_text_ascii std_opts _ obl_standard_table_ok obl_std_writer_agree). Qed.
Theorem C12_standard_ascii_roundtrip_opts : forall OW s, roundtrippable s = true -> negid_ok OW s = true -> no_exist s = true ->
  exists w, write_stdo OW w_standard_text_ascii s = Some w /\\
            parse_std_opts (cfg_of standard_table false) std_opts (decls s) w = (OK s, decls s) /\\
            parse_std_opts (cfg_of standard_table true) std_opts [] w = (OK s, decls s).
Proof. intro OW. exact (C12_standard_roundtrip_opts standard_table w_standard_text_ascii std_opts OW _ obl_standard_table_ok obl_std_writer_agree). Qed.
Theorem C12_standard_ascii_injective_opts : forall OW s1 s2 w,
  roundtrippable s1 = true -> negid_ok OW s1 = true -> no_exist s1 = true ->
  roundtrippable s2 = true -> negid_ok OW s2 = true -> no_exist s2 = true ->
  write_stdo OW w_standard_text_ascii s1 = Some w -> write_stdo OW w_standard_text_ascii s2 = Some w -> s1 = s2.
Proof. intro OW. exact (C12_write_standard_injective_opts standard_table w_standard_text_ascii std_opts OW _ obl_standard_table_ok obl_std_writer_agree). Qed.
(* outside the plain fragment the writer's output is NOT read back by the parser (model level; the
   implementation agrees, see the standard_ascii_writer_to_parser counts): ~ a = b is written "a != b" *)
Example C12_standard_negid_not_roundtrip :
  exists w, write_std w_standard_text_ascii (Un Negation (Pred (PSys Identity) [Const 0 0; Const 1 0])) = Some w /\\
            fst (parse_std_opts (cfg_of standard_table true) std_opts [] w) = PErr PEParse.
Proof. eexists. split; [vm_compute; reflexivity | vm_compute; reflexivity]. Qed.
'''

ARG_INSTANCE = '''
Lemma obl_colon : tlookup polish_table colon = None.
Proof. vm_compute. reflexivity. Qed.
Theorem C12_polish_argstr_roundtrip : forall ss, argument_ok ss = true ->
  exists w, argstr polish_ascii_w ss = Some w /\\ from_argstr polish_table w = OK ss.
Proof. exact (C12_argstr_roundtrip polish_table polish_ascii_w obl_agree obl_colon). Qed.
'''


def render_cps(w):
    if isinstance(w, list):
        s = ''.join(map(chr, w))
        return s if len(s) <= 80 else s[:60] + f'...({len(s)} chars)'
    return w


# --------------------------------------------------------------------------
# sentence generation

def small_sentences(thorough: bool):
    atoms = [['A', 0, 0], ['A', 4, 2]]
    params = [['c', 0, 0], ['c', 3, 3], ['v', 0, 0], ['v', 1, 1]]
    leaves = list(atoms)
    for p in params:
        leaves.append(['P', [0, 0, 1], [p]])
        leaves.append(['P', [0, 1, 1], [p]])
        leaves.append(['P', 'Existence', [p]])
    for p, q in itertools.product(params, repeat=2):
        leaves.append(['P', [1, 0, 2], [p, q]])
        leaves.append(['P', 'Identity', [p, q]])
    leaves.append(['P', [0, 0, 2], [params[0], params[2]]])      # clashes with F/1
    yield from leaves
    vs = [[0, 0], [1, 1]]
    for o in pl.UOPS:
        for x in leaves:
            yield ['U', o, x]
    for q in pl.QUANTS:
        for v in vs:
            for x in leaves:
                yield ['Q', q, v, x]
    sub = leaves[:2] + leaves[2:14:2] + leaves[14::5]
    bops = pl.BOPS if thorough else ['Conjunction', 'Biconditional']
    pool = leaves if thorough else sub
    for o in bops:
        for x, y in itertools.product(pool, repeat=2):
            yield ['B', o, x, y]
    for q in pl.QUANTS:
        for v in vs:
            for x, y in itertools.product(sub, repeat=2):
                yield ['Q', q, v, ['B', 'Disjunction', x, y]]
            for q2 in pl.QUANTS:
                for v2 in vs:
                    for x in leaves:
                        yield ['Q', q, v, ['Q', q2, v2, x]]


def random_sentences(rng, n):
    for _ in range(n):
        g = pl.SentGen(rng, big_sub_p=0.1)
        yield g.sent(rng.choice([1, 2, 3, 4, 5, 7]))


def chain(depth, leaf=('A', 0, 0)):
    j = list(leaf)
    for _ in range(depth):
        j = ['U', 'Negation', j]
    return j


# --------------------------------------------------------------------------

def run(args) -> int:
    from vlib import ProbeError
    chk = Check(PID, args.tier, args.seed)
    try:
        return _run(chk, args)
    except ProbeError as e:
        # the implementation cannot even be imported / driven: a behavioural regression, not a tooling fault
        chk.violation('implementation-unusable', 'the probe running the real parser/writer crashed: ' + str(e)[-400:].replace('\n', ' | '),
                      dict(kind='probe', detail=str(e)[-3000:]), found_input=False)
        return chk.finish()


def _run(chk, args) -> int:
    thorough = args.tier == 'thorough'
    chk.rule = ('real writer string = model writer string; real parser(real writer(s)) = s for every sentence of the '
                'parsers\' language (and = model parse otherwise); argstr round trip; distinct = distinct sentences '
                'with at least one operator, quantifier or predicate')
    ensure_theory()
    tb = pl.tables()
    if not emit_tables(chk, tb):
        return chk.finish()
    agree_obligations(chk, tb)
    chk.assumptions = props_assumptions(PID)
    chk.theorems = ['C12_polish_roundtrip', 'C12_write_polish_injective', 'C12_argstr_roundtrip',
                    'C12_parse_polish_ws', 'C12_parse_std_ws', 'C12_standard_denotes',
                    'gen: C12_polish_whitespace', 'gen: C12_standard_whitespace', 'gen: C12_standard_denotes_inst',
                    'gen: C12_polish_ascii_roundtrip', 'gen: C12_polish_ascii_injective',
                    'gen: C12_polish_argstr_roundtrip',
                    'C12_standard_roundtrip_plain', 'C12_write_standard_injective_plain',
                    'gen: C12_standard_ascii_roundtrip', 'gen: C12_standard_ascii_injective',
                    'gen: C12_standard_negid_not_roundtrip',
                    'C12_standard_roundtrip_opts', 'C12_write_standard_injective_opts', 'C12_write_stdo_default',
                    'gen: C12_standard_ascii_roundtrip_opts', 'gen: C12_standard_ascii_injective_opts',
                    'C12_write_polish_injective_code', 'gen: C12_injective_<table> for every table in notes.injectivity_proved_for_tables']
    rng = random.Random(args.seed)
    sents = []
    seen = set()
    for cat, it in (('exhaustive-small', small_sentences(thorough)),
                    ('random', random_sentences(rng, 30000 if thorough else 2500))):
        for j in it:
            k = json.dumps(j)
            if k in seen:
                continue
            seen.add(k)
            sents.append((cat, j))
    in_lang = polish_roundtrip_cases(chk, sents)
    if have_std():
        step = max(1, len(sents) // (6000 if thorough else 500))
        sample = [j for _, j in sents[::step]]
        # one sentence per operator / quantifier / kind of parameter over the same operands: two items of a table that
        # share a spelling collide here (injectivity inside every notation x format x dialect)
        A_, B_ = ['A', 0, 0], ['A', 1, 0]
        Fx_ = ['P', [0, 0, 1], [['v', 0, 0]]]
        ops = tb.get('operators') or {}
        sample = sample + [['U', o, A_] for o, ar in ops.items() if ar == 1] + [['B', o, A_, B_] for o, ar in ops.items() if ar == 2] \
            + [['Q', q, [0, 0], Fx_] for q in (tb.get('quantifiers') or [])] \
            + [['P', [k_, 0, 1], [['c', 0, 0]]] for k_ in range(4)] + [['P', [0, 0, 1], [['c', k_, 0]]] for k_ in range(4)] \
            + [['A', k_, 0] for k_ in range(5)] + [['A', 0, k_] for k_ in range(1, 4)]
        all_tables_cases(chk, tb, sample)
        writer_option_cases(chk)
        lang = [j for _, j in sents if in_lang.get(json.dumps(j))]
        standard_denotes(chk, tb, rng, lang[::max(1, len(lang) // (8000 if thorough else 700))])
    boundary(chk)
    argstr_cases(chk, rng, 3000 if thorough else 300)
    chk.checker_cmd = ('coqc gen/C12/{Tables,Status,Obl,RT*,Arg*}.v against coq/theories/Lang/{PSyntax,Dec,ParsePolish,'
                       'WritePolish,RoundTrip,PRun}.v, Props/C12.v')
    chk.trusted.append('tools/probe_parse.py (builds Sentence objects from JSON, runs the real writers/parsers)')
    chk.trusted.append('Lang/ParsePolish.v, Lang/WritePolish.v as faithful models (tied by this run and by C13\'s)')
    chk.notes['explanation'] = (
        'obligations = one per writer symbol (operators, quantifiers, system predicates, atomic/variable/constant/'
        'predicate characters, the ten digits, empty subscript delimiters): the string table entry is one character '
        'that the parse table maps back to the same item; all discharged => agree_b, which instantiates '
        'C12_polish_roundtrip and C12_write_polish_injective on the regenerated tables. Correspondence as per rule.')
    return chk.finish()


def polish_roundtrip_cases(chk: Check, sents):
    CH = 250
    jobs, exprs = [], []
    for i in range(0, len(sents), CH):
        part = [j for _, j in sents[i:i + CH]]
        jobs.append(dict(notation='polish', format='text', dialect='ascii', sents=part, parse={}))
        exprs.append('List.concat [' + '; '.join(f'rt_case polish_table polish_ascii_w {pl.coq_sent(j)}' for j in part) + ']')
    real = probe_json('probe_parse.py', ['write'], stdin=json.dumps(jobs), timeout=1800)
    model = eval_nested(exprs, 'RT', 4, 4)
    written_by = {}
    in_lang = {}
    k = 0
    for job, rr, mm in zip(jobs, real, model):
        if len(mm) != len(job['sents']):
            raise MachineryError('RT: answer count')
        for j, r, m in zip(job['sents'], rr, mm):
            cat = sents[k][0]
            k += 1
            ser = pl.ser_json(j)
            chk.case(['polish', j], nontrivial=j[0] != 'A',
                     sample=dict(sentence=ser, written=render_cps(r.get('written'))) if k % 211 == 7 else None)
            chk.count('category', cat)
            rep = dict(kind='roundtrip', notation='polish', format='text', dialect='ascii', sentence=j)
            if 'build' in r:
                chk.violation('polish:build-failed', f'cannot construct {ser}: {r["build"]}', rep, found_input=True)
                continue
            if r['ser'] != ser:
                raise MachineryError(f'serialisation mismatch {r["ser"]} vs {ser}')
            m_written = None if m[0] == 'WERR' else [int(x, 2) for x in m[0].split()]
            rt = m[1] == 'T'
            in_lang[json.dumps(j)] = rt
            _LANG[json.dumps(j)] = rt
            chk.count('in_language', str(rt))
            if isinstance(r['written'], str) or m_written is None:
                if not (isinstance(r['written'], str) and m_written is None):
                    chk.violation('polish-ascii:writer-mismatch', f'writer on {ser}: implementation '
                                  f'{render_cps(r["written"])!r}, model {render_cps(m_written)!r}',
                                  dict(rep, expect_written=m_written))
                continue
            mismatch = r['written'] != m_written
            if mismatch:
                chk.violation('polish-ascii:writer-mismatch', f'writer on {ser}: implementation '
                              f'{render_cps(r["written"])!r}, model {render_cps(m_written)!r}',
                              dict(rep, expect_written=m_written))
            w = tuple(r['written'])
            if rt:
                if w in written_by and written_by[w] != ser:
                    chk.violation('polish-ascii:not-injective', f'{written_by[w]} and {ser} both render to '
                                  f'{render_cps(r["written"])!r}', dict(rep, other=written_by[w]))
                written_by[w] = ser
            m_auto = m[2].partition(' # ')[0]
            m_decl = m[3].partition(' # ')[0]
            want = 'OK ' + ser
            for label, got, mod in (('auto', r.get('parsed_auto'), m_auto), ('declared', r.get('parsed_declared'), m_decl)):
                if got is None or got.startswith('STORE '):
                    continue
                if rt and got != want:
                    chk.violation(f'polish-ascii:roundtrip:{label}', f'{ser} written as {render_cps(r["written"])!r} '
                                  f'parses ({label}) to {got[:120]!r}', dict(rep, expect=want, mode=label))
                elif got != mod and not mismatch and not (label == 'declared' and not rt):
                    chk.violation(f'polish:model-mismatch:{label}', f'parse of {render_cps(r["written"])!r}: '
                                  f'implementation {got[:120]!r}, model {mod[:120]!r}', dict(rep, expect=mod, mode=label))
    return in_lang


def all_tables_cases(chk: Check, tb, sample):
    """Model writer = real writer on every (notation, format, dialect) string table; collision search
    (distinct sentences, same string) inside each table; standard ASCII: the real standard parser reads
    the real standard writer's output back."""
    jobs, exprs = [], []
    for e in tb['strings']:
        std = e['notation'] == 'standard'
        ascii_std = std and e['format'] == 'text' and e['dialect'] == 'ascii'
        job = dict(notation=e['notation'], format=e['format'], dialect=e['dialect'], sents=sample)
        if ascii_std:
            job['parse'] = {}
        jobs.append(job)
        fn = 'ws_case' if std else 'wp_case'
        exprs.append(f'map ({fn} {tname(e)}) [' + '; '.join(pl.coq_sent(j) for j in sample) + ']')
    real = probe_json('probe_parse.py', ['write'], stdin=json.dumps(jobs), timeout=1800)
    model = pl.eval_string_lists(PID, header(), exprs, name='Tab', shard=1)
    for job, rr, mm in zip(jobs, real, model):
        tkey = f"{job['notation']}/{job['format']}/{job['dialect']}"
        if len(mm) != len(sample):
            raise MachineryError(f'Tab {tkey}: {len(mm)} answers')
        seen = {}
        for j, r, m in zip(sample, rr, mm):
            ser = pl.ser_json(j)
            chk.case(['table', tkey, j], nontrivial=j[0] != 'A')
            chk.count('table', tkey)
            rep = dict(kind='roundtrip', notation=job['notation'], format=job['format'], dialect=job['dialect'], sentence=j)
            m_w = None if m == 'WERR' else [int(x, 2) for x in m.split()]
            r_w = None if isinstance(r.get('written'), str) else r.get('written')
            if r_w != m_w:
                chk.violation(f'{tkey}:writer-mismatch', f'writer {tkey} on {ser}: implementation '
                              f'{render_cps(r.get("written"))!r}, model {render_cps(m_w)!r}', dict(rep, expect_written=m_w))
                continue
            if r_w is None:
                continue
            w = tuple(r_w)
            if w in seen and seen[w] != ser:
                chk.violation(f'{tkey}:not-injective', f'{seen[w]} and {ser} both render to {render_cps(r_w)!r} in {tkey}',
                              dict(rep, other=seen[w], expect_distinct=True))
            seen[w] = ser
            if 'parse' in job and in_language(j):
                # NOT part of the property (C12 claims the writer->parser round trip for Polish only): recorded
                # as an observation.  Known gaps: Existence is written 'E!' but parsed from '!', and the
                # negated-identity symbol '!=' is not in the parse table.
                got = r.get('parsed_auto')
                ok = got == 'OK ' + ser
                feats = ('existence' if 'Et(' in ser else '') + ('+neg-identity' if 'Ne[Id(' in ser else '')
                chk.count('standard_ascii_writer_to_parser(observation)', ('ok' if ok else 'fails') + (':' + feats if feats else ''))
                if not feats and STD_RT_APPLIES and (not ok or r.get('parsed_declared', got) != 'OK ' + ser):
                    # the theorem C12_standard_ascii_roundtrip covers this sentence: the models round-trip, so the
                    # implementation differs from a model here (and the injectivity proof no longer speaks for it)
                    chk.violation(f'{tkey}:plain-roundtrip', f'standard ASCII rendering {render_cps(r_w)!r} of the plain sentence '
                                  f'{ser} parses to {got!r} / {r.get("parsed_declared")!r} (C12_standard_ascii_roundtrip says it '
                                  'parses back to the sentence)', dict(rep, expect='OK ' + ser))
                if not ok and not feats:
                    chk.notes.setdefault('standard_ascii_roundtrip_other_failures', []).append(
                        dict(sentence=ser, written=render_cps(r_w), parsed=got))


def writer_option_cases(chk: Check):
    """The standard writer's options (max_infix, identity_infix, drop_parens) change the spelling, never the
    sentence: under every option combination distinct sentences render to distinct strings and the standard
    parser reads the rendering back (implementation against itself; predicates of arity 2..4 whose later
    parameters differ)."""
    a, b, c, d, x = ['c', 0, 0], ['c', 1, 0], ['c', 2, 0], ['c', 3, 0], ['v', 0, 0]
    R2, H3, G4 = [0, 0, 2], [1, 0, 3], [2, 0, 4]
    atoms = [['P', R2, [a, b]], ['P', R2, [b, a]], ['P', R2, [a, a]],
             ['P', H3, [a, b, a]], ['P', H3, [a, b, c]], ['P', H3, [a, c, b]], ['P', H3, [b, a, c]],
             ['P', G4, [a, b, c, d]], ['P', G4, [a, b, c, a]], ['P', G4, [a, b, d, c]],
             ['P', 'Identity', [a, b]], ['P', 'Identity', [b, a]]]
    sents = list(atoms)
    sents += [['U', 'Negation', t] for t in atoms[:8]]
    # one writer renders all of these in order: a binary sentence on its own, then inside a negation, then the sentence
    # its parenthesis-free spelling would denote
    conj = ['B', 'Conjunction', atoms[0], atoms[1]]
    sents += [conj, ['U', 'Negation', conj], ['B', 'Conjunction', ['U', 'Negation', atoms[0]], atoms[1]],
              ['B', 'Disjunction', conj, atoms[2]], ['B', 'Conjunction', atoms[0], ['B', 'Disjunction', atoms[1], atoms[2]]]]
    sents += [['B', 'Conjunction', atoms[3], atoms[4]], ['B', 'Conjunction', atoms[4], atoms[3]],
              ['Q', 'Universal', [0, 0], ['P', H3, [x, b, a]]], ['Q', 'Universal', [0, 0], ['P', H3, [a, b, x]]],
              ['Q', 'Existential', [0, 0], ['P', G4, [a, x, c, x]]], ['Q', 'Existential', [0, 0], ['P', G4, [a, x, c, d]]]]
    # negated identities: written 'a != b' under identity_infix (not read back by the parser), '~a = b' / '~=ab' without
    negid = [['U', 'Negation', atoms[10]], ['U', 'Negation', ['U', 'Negation', atoms[11]]],
             ['B', 'Conjunction', ['U', 'Negation', atoms[10]], atoms[3]],
             ['Q', 'Universal', [0, 0], ['U', 'Negation', ['P', 'Identity', [x, a]]]]]
    sents += negid
    negid_keys = {json.dumps(j) for j in negid}
    jobs = []
    for mi in (0, 2, 3, 4, 5):
        for ii in (True, False):
            for dp in (True, False):
                jobs.append(dict(notation='standard', format='text', dialect='ascii', sents=sents, parse={},
                                 opts=dict(max_infix=mi, identity_infix=ii, drop_parens=dp)))
    real = probe_json('probe_parse.py', ['write'], stdin=json.dumps(jobs), timeout=1800)
    # the Coq model of the writer under the same options (Lang/WriteStd.v write_stdo), which
    # C12_standard_roundtrip_opts / C12_write_standard_injective_opts are about
    exprs = [('map (wso_case {| wo_drop := %s; wo_idinfix := %s; wo_maxinfix := %d |} w_standard_text_ascii) [' % (
        str(job['opts']['drop_parens']).lower(), str(job['opts']['identity_infix']).lower(), job['opts']['max_infix'])
        + '; '.join(pl.coq_sent(j) for j in sents) + ']') for job in jobs]
    model = pl.eval_string_lists(PID, header(), exprs, name='Opt', shard=4)
    for job, rr, mm in zip(jobs, real, model):
        if len(mm) != len(sents):
            raise MachineryError(f'Opt {job["opts"]}: {len(mm)} answers')
        for j, r, m in zip(sents, rr, mm):
            m_w = None if m == 'WERR' else [int(x_, 2) for x_ in m.split()]
            r_w = None if isinstance(r.get('written'), str) else r.get('written')
            chk.count('writer_options_model', 'same' if r_w == m_w else 'differs')
            if r_w != m_w:
                chk.violation('standard/text/ascii:options:writer-mismatch',
                              f'standard writer with {job["opts"]} on {pl.ser_json(j)}: implementation '
                              f'{render_cps(r.get("written"))!r}, model {render_cps(m_w)!r}',
                              dict(kind='roundtrip', notation='standard', format='text', dialect='ascii', opts=job['opts'],
                                   sentence=j, expect_written=m_w))
    for job, rr in zip(jobs, real):
        seen = {}
        for j, r in zip(sents, rr):
            ser = pl.ser_json(j)
            chk.case(['writer-options', job['opts'], j], nontrivial=True)
            chk.count('writer_options', json.dumps(job['opts'], sort_keys=True))
            rep = dict(kind='roundtrip', notation='standard', format='text', dialect='ascii', opts=job['opts'], sentence=j)
            w = r.get('written')
            if not isinstance(w, list):
                chk.violation('standard/text/ascii:options:writer-raises', f'standard writer with {job["opts"]} on {ser}: {w or r.get("build")}', rep)
                continue
            if tuple(w) in seen and seen[tuple(w)] != ser:
                chk.violation('standard/text/ascii:options:not-injective',
                              f'{seen[tuple(w)]} and {ser} both render to {render_cps(w)!r} with writer options {job["opts"]}',
                              dict(rep, other=seen[tuple(w)], expect_distinct=True))
            seen[tuple(w)] = ser
            if json.dumps(j) in negid_keys and job['opts']['identity_infix']:
                chk.count('writer_options_negid_infix(observation)', 'ok' if r.get('parsed_auto') == 'OK ' + ser else 'not-read-back')
                continue
            if r.get('parsed_auto') != 'OK ' + ser:
                chk.violation('standard/text/ascii:options:roundtrip',
                              f'{ser} written with options {job["opts"]} as {render_cps(w)!r} parses to {str(r.get("parsed_auto"))[:120]!r}',
                              dict(rep, expect='OK ' + ser, mode='auto'))


_LANG = {}


def in_language(j) -> bool:
    return _LANG.get(json.dumps(j), True)


def standard_denotes(chk: Check, tb, rng, lang):
    """Every decoration of a sentence of the language (infix or prefix predicates, outer parentheses kept or
    dropped, extra whitespace anywhere) is mapped to that sentence by the standard parser (real and model)."""
    ref = pl.Ref(tb['parse']['standard'])
    inputs, want = [], []
    for j in lang:
        for v in range(2):
            s = pl.std_render(ref, j, rng)
            if v == 1:
                for _ in range(rng.randint(0, 3)):
                    p = rng.randrange(len(s) + 1)
                    s = s[:p] + ' ' * rng.randint(1, 2) + s[p:]
            inputs.append(s)
            want.append('OK ' + pl.ser_json(j))
    CH = 400
    jobs = [dict(notation='standard', preds=[], auto=True, mode='fresh', inputs=inputs[i:i + CH])
            for i in range(0, len(inputs), CH)]
    real = probe_json('probe_parse.py', ['parse'], stdin=json.dumps(jobs), timeout=1800)
    exprs = ['map (sp_case standard_table std_opts) [' + '; '.join(pl.coq_str(i) for i in job['inputs']) + ']' for job in jobs]
    model = pl.eval_string_lists(PID, header(), exprs, name='Den', shard=1)
    k = 0
    for job, rr, mm in zip(jobs, real, model):
        for i, r, m in zip(job['inputs'], rr['results'], mm):
            chk.case(['denotes', i], nontrivial=True, sample=dict(standard_input=i, outcome=r[:80]) if k % 199 == 3 else None)
            chk.count('standard_denotes', 'ok' if r == want[k] else 'differs')
            rep = dict(kind='parse', job=dict(notation='standard', preds=[], auto=True, mode='fresh', inputs=[i]), expect=want[k])
            if r != want[k]:
                chk.violation('standard:denotes', f'standard parser maps {i!r} to {r[:120]!r}, expected {want[k][:120]!r}', rep)
            elif m.partition(' # ')[0] != r:
                chk.violation('standard:model-mismatch', f'standard parser on {i!r}: implementation {r[:120]!r}, model {m[:120]!r}',
                              dict(rep, expect=m.partition(' # ')[0]))
            k += 1


def eval_nested(exprs, name, width, workers=4):
    """each expr : list string, a concatenation of groups of `width` strings"""
    import re
    from concurrent.futures import ThreadPoolExecutor
    from vlib import coq_eval_lines
    g = gen_dir(PID)
    paths = []
    for k, e in enumerate(exprs):
        p = g / f'{name}{k}.v'
        p.write_text(header() + f'\nEval vm_compute in ({e}).\n')
        paths.append(p)
    with ThreadPoolExecutor(max_workers=workers) as ex:
        outs = list(ex.map(lambda q: coqc(q, timeout=1200), paths))
    res = []
    for (rc, out), p in zip(outs, paths):
        if rc:
            raise MachineryError(f'{p} does not compile:\n' + out[-3000:])
        ans = coq_eval_lines(out)
        if len(ans) != 1:
            raise MachineryError(f'{p}: {len(ans)} answers')
        flat = re.findall(r'"([^"]*)"', ans[0])
        if len(flat) % width:
            raise MachineryError(f'{p}: {len(flat)} strings, not a multiple of {width}')
        res.append([flat[i:i + width] for i in range(0, len(flat), width)])
    return res


def boundary(chk: Check):
    """CPython limits (outside the model): depth and subscript length."""
    cases = [('depth-100', chain(100)), ('depth-200', chain(200)),
             ('subscript-4000', ['A', 0, {'rep1': 4000}]), ('subscript-4300', ['A', 0, {'rep1': DIGIT_LIMIT}]),
             ('subscript-4301', ['A', 0, {'rep1': DIGIT_LIMIT + 1}])]
    real = probe_json('probe_parse.py', ['write'], stdin=json.dumps(
        [dict(notation='polish', format='text', dialect='ascii', sents=[j for _, j in cases], parse={})]))[0]
    for (name, j), r in zip(cases, real):
        ser = pl.ser_json(j) if not name.startswith('subscript') else None
        chk.case(['boundary', name], nontrivial=True)
        want = 'OK ' + r.get('ser', '?')
        got = r.get('parsed_auto')
        chk.count('boundary', f'{name}:{"ok" if got == want else (r["written"] if isinstance(r.get("written"), str) else str(got)[:30])}')
        rep = dict(kind='roundtrip', notation='polish', format='text', dialect='ascii', sentence=j, expect='OK <same sentence>')
        if isinstance(r.get('written'), str):
            key = 'cpython-int-digit-limit' if 'ValueError' in r['written'] and name.startswith('subscript') else f'polish:writer-raises:{name}'
            chk.violation(key, f'Polish writer raises {r["written"][2:]} on a sentence with {name}', rep)
        elif got != want:
            key = 'recursion-depth-masked' if name.startswith('depth') and got == 'E ParseError' else f'polish:boundary:{name}'
            chk.violation(key, f'well-formed sentence ({name}) written by the Polish writer is rejected by the Polish '
                          f'parser: {got}', rep)


def argstr_cases(chk: Check, rng, n):
    args_ = []
    for _ in range(n):
        g = pl.SentGen(rng)
        args_.append([g.sent(rng.choice([0, 1, 2, 3])) for _ in range(rng.randint(1, 4))])
    real = probe_json('probe_parse.py', ['argstr'], stdin=json.dumps(args_))
    CH = 100
    exprs = []
    for i in range(0, len(args_), CH):
        exprs.append('List.concat [' + '; '.join('argstr_case polish_table polish_ascii_w [' + '; '.join(pl.coq_sent(j) for j in a) + ']'
                                                for a in args_[i:i + CH]) + ']')
    model = [x for part in eval_nested(exprs, 'Arg', 2) for x in part]
    for a, r, m in zip(args_, real, model):
        chk.case(['argstr', a], nontrivial=True)
        chk.count('argstr_len', str(len(a)))
        rep = dict(kind='argstr', sentences=a)
        sers = [pl.ser_json(j) for j in a]
        if 'error' in r:
            chk.violation('argstr:raises', f'argstr round trip of {sers} raises {r["error"]}', rep)
            continue
        m_w = None if m[0] == 'WERR' else [int(x, 2) for x in m[0].split()]
        if r['argstr'] != m_w:
            chk.violation('argstr:writer-mismatch', f'argstr of {sers}: implementation {render_cps(r["argstr"])!r}, '
                          f'model {render_cps(m_w)!r}', dict(rep, expect_written=m_w))
        elif r['orig'] != sers:
            raise MachineryError('argstr serialisation mismatch')
        elif r['back'] != sers or not r['equal']:
            chk.violation('argstr:roundtrip', f'Argument(argstr) of {sers} gives {r["back"]}', rep)
        elif m[1] != 'OK ' + ';'.join(r['back']):
            chk.violation('argstr:model-mismatch', f'from_argstr of {render_cps(r["argstr"])!r}: implementation '
                          f'{r["back"]}, model {m[1][:200]!r}', dict(rep, expect_back=m[1]))


def replay(path: str) -> int:
    rep = json.load(open(path))
    kind = rep.get('kind')
    if kind == 'roundtrip':
        j = rep['sentence']
        r = probe_json('probe_parse.py', ['write'], stdin=json.dumps(
            [dict(notation=rep['notation'], format=rep['format'], dialect=rep['dialect'], opts=rep.get('opts'),
                  sents=[j], parse={})]))[0][0]
        want = 'OK ' + r.get('ser', '?')
        bad = isinstance(r.get('written'), str) or any(
            r.get(k) not in (None, want) and not str(r.get(k)).startswith('STORE') for k in ('parsed_auto', 'parsed_declared'))
        if 'expect_written' in rep:
            bad = (None if isinstance(r.get('written'), str) else r.get('written')) != rep['expect_written']
        if rep.get('expect_distinct'):
            r2 = probe_json('probe_parse.py', ['write'], stdin=json.dumps(
                [dict(notation=rep['notation'], format=rep['format'], dialect=rep['dialect'], sents=[j])]))[0][0]
            bad = True   # the recorded pair is re-derived by the full check
        print(f'replay: written={render_cps(r.get("written"))!r} auto={str(r.get("parsed_auto"))[:100]} '
              f'declared={str(r.get("parsed_declared"))[:100]}')
    elif kind == 'parse':
        r = probe_json('probe_parse.py', ['parse'], stdin=json.dumps([rep['job']]))[0]
        bad = r['results'][0] != rep['expect']
        print(f"replay: {rep['job']['inputs'][0]!r} -> {r['results'][0][:200]}")
    elif kind == 'argstr':
        r = probe_json('probe_parse.py', ['argstr'], stdin=json.dumps([rep['sentences']]))[0]
        bad = 'error' in r or r['back'] != r['orig'] or not r['equal']
        if rep.get('expect_written') is not None:
            bad = r.get('argstr') != rep['expect_written']
        print(f'replay: {r}')
    else:
        print(f"replay: obligation {rep.get('obligation')}: re-running ./check C12")
        return run(type('A', (), dict(tier='quick', seed=rep.get('seed', 0)))())
    if bad:
        print(f'VIOLATION property=C12 replay={path}')
        return 1
    return 0
