"""Shared helpers of the parser/writer checks (C12, C13): table emission, Coq
evaluation of string lists, sentence generators, reference Polish rendering
used only to GENERATE inputs (never as an oracle)."""
from __future__ import annotations

import json
import re
from concurrent.futures import ThreadPoolExecutor

from vlib import MachineryError, coq_eval_lines, coqc, gen_dir, probe_json, write_if_changed

UOPS = ['Assertion', 'Negation', 'Possibility', 'Necessity']
BOPS = ['Conjunction', 'Disjunction', 'MaterialConditional', 'MaterialBiconditional',
        'Conditional', 'Biconditional']
QUANTS = ['Existential', 'Universal']
SYS = ['Identity', 'Existence']

HEADER = ('From Coq Require Import List Bool Arith NArith String.\n'
          'From PT Require Import Lang.PSyntax Lang.ParsePolish Lang.ParsePolishProofs Lang.PShow.\n'
          'Import ListNotations.\nOpen Scope string_scope.\nOpen Scope list_scope.\n')


class Inexpressible(Exception):
    pass


_tables = None


def tables() -> dict:
    global _tables
    if _tables is None:
        _tables = probe_json('probe_parse.py', ['tables'])
    return _tables


def check_arities(tb: dict) -> None:
    """The Coq syntax splits operators by arity; fail closed if /repo disagrees."""
    ops = tb['operators']
    for o in UOPS:
        if ops.get(o) != 1:
            raise Inexpressible(f'Operator.{o}.arity = {ops.get(o)} (model: 1)')
    for o in BOPS:
        if ops.get(o) != 2:
            raise Inexpressible(f'Operator.{o}.arity = {ops.get(o)} (model: 2)')
    if set(ops) != set(UOPS + BOPS):
        raise Inexpressible(f'operator set changed: {sorted(ops)}')
    if tb['quantifiers'] != QUANTS:
        raise Inexpressible(f'quantifier set changed: {tb["quantifiers"]}')
    if tb['system'] != {'Existence': [-2, 0, 1], 'Identity': [-1, 0, 2]}:
        raise Inexpressible(f'system predicates changed: {tb["system"]}')
    if tb['maxi'] != {'Predicate': 3, 'Constant': 3, 'Variable': 3, 'Atomic': 4}:
        raise Inexpressible(f'LexType.maxi changed: {tb["maxi"]}')


def item_expr(kind, value) -> str:
    if isinstance(kind, dict) or isinstance(value, dict):
        raise Inexpressible(f'table entry {kind!r} {value!r}')
    if kind == 'Operator':
        if value in UOPS:
            return f'IOper1 {value}'
        if value in BOPS:
            return f'IOper2 {value}'
        raise Inexpressible(f'operator {value}')
    if kind == 'Quantifier':
        return f'IQuant {value}'
    if kind == 'System':
        if value not in SYS:
            raise Inexpressible(f'system predicate {value}')
        return f'ISys {value}'
    if kind in ('Variable', 'Constant', 'Predicate', 'Atomic'):
        if not isinstance(value, int) or value < 0:
            raise Inexpressible(f'{kind} index {value!r}')
        return {'Variable': 'IVar', 'Constant': 'IConst', 'Predicate': 'IPred', 'Atomic': 'IAtom'}[kind] + f' {value}'
    if kind == 'digit':
        if not isinstance(value, int) or value < 0:
            raise Inexpressible(f'digit value {value!r}')
        return f'IDigit {value}'
    if kind == 'whitespace':
        return 'IWs'
    if kind == 'paren_open':
        return 'IParenOpen'
    if kind == 'paren_close':
        return 'IParenClose'
    raise Inexpressible(f'item kind {kind!r}')


def emit_ptable(name: str, rows: list) -> str:
    """Only single-character keys can ever be looked up by ParseContext.type/value."""
    ents = []
    for chars, kind, value in rows:
        if len(chars) != 1:
            continue
        ents.append(f'({chars[0]}, {item_expr(kind, value)})')
    return f'Definition {name} : ptable := [\n  ' + ';\n  '.join(ents) + ']%N.\n'


def coq_str(s) -> str:
    cps = [ord(c) for c in s] if isinstance(s, str) else list(s)
    return '[' + '; '.join(map(str, cps)) + ']%N' if cps else '(@nil N)'


def coq_store(preds) -> str:
    if not preds:
        return '(@nil decl)'
    return '[' + '; '.join(f'({i}, {s}%N, {a})' for i, s, a in preds) + ']'


def coq_cfg(table: str, auto=True, frozen=False) -> str:
    return (f'{{| tab := {table}; auto_preds := {"true" if auto else "false"}; '
            f'frozen := {"true" if frozen else "false"} |}}')


def eval_string_lists(pid: str, header: str, exprs: list[str], *, name='Cases', shard=40,
                      timeout=900, workers=4) -> list[list[str]]:
    """Each expr : list string.  Returns the evaluated lists."""
    g = gen_dir(pid)
    shards = [exprs[i:i + shard] for i in range(0, len(exprs), shard)]
    paths = []
    for k, sh in enumerate(shards):
        p = g / f'{name}{k}.v'
        p.write_text(header + '\n' + '\n'.join(f'Eval vm_compute in ({e}).' for e in sh) + '\n')
        paths.append(p)
    with ThreadPoolExecutor(max_workers=workers) as ex:
        outs = list(ex.map(lambda q: coqc(q, timeout=timeout), paths))
    res = []
    for (rc, out), sh, p in zip(outs, shards, paths):
        if rc:
            raise MachineryError(f'{p} does not compile:\n' + out[-3000:])
        ans = coq_eval_lines(out)
        if len(ans) != len(sh):
            raise MachineryError(f'{p}: {len(ans)} answers for {len(sh)} expressions')
        for a in ans:
            res.append(re.findall(r'"([^"]*)"', a))
    return res


def eval_bools(pid: str, header: str, exprs: list[str], name='Status') -> list[str]:
    g = gen_dir(pid)
    p = g / f'{name}.v'
    write_if_changed(p, header + '\n' + '\n'.join(f'Eval vm_compute in ({e}).' for e in exprs) + '\n')
    rc, out = coqc(p)
    if rc:
        raise MachineryError(f'{p} does not compile:\n' + out[-3000:])
    ans = coq_eval_lines(out)
    if len(ans) != len(exprs):
        raise MachineryError(f'{p}: {len(ans)} answers for {len(exprs)} expressions')
    return ans


# --------------------------------------------------------------------------
# sentences as JSON (see probe_parse.py) and their Coq / reference renderings

def sub_int(x) -> int:
    if isinstance(x, dict):
        return (10 ** x['rep1'] - 1) // 9
    return x


def coq_param(p) -> str:
    return f'({"Const" if p[0] == "c" else "Var"} {p[1]} {sub_int(p[2])}%N)'


def coq_sent(j) -> str:
    """Iterative: deep sentences must not hit the driver's own recursion limit."""
    out = []
    stack = [j]
    while stack:
        x = stack.pop()
        if isinstance(x, str):
            out.append(x)
            continue
        k = x[0]
        if k == 'A':
            out.append(f'(Atom {x[1]} {sub_int(x[2])}%N)')
        elif k == 'P':
            p = x[1]
            ps = f'(PSys {p})' if isinstance(p, str) else f'(PUser {p[0]} {sub_int(p[1])}%N {p[2]})'
            out.append(f'(Pred {ps} [' + '; '.join(coq_param(q) for q in x[2]) + '])')
        elif k == 'Q':
            out.append(f'(Quant {x[1]} ({x[2][0]}, {sub_int(x[2][1])}%N) ')
            stack.append(')')
            stack.append(x[3])
        elif k == 'U':
            out.append(f'(Un {x[1]} ')
            stack.append(')')
            stack.append(x[2])
        elif k == 'B':
            out.append(f'(Bin {x[1]} ')
            stack.append(')')
            stack.append(x[3])
            stack.append(' ')
            stack.append(x[2])
        else:
            raise ValueError(k)
    return ''.join(out)


def b(n: int) -> str:
    return format(n, 'b')


_U = dict(Assertion='As', Negation='Ne', Possibility='Po', Necessity='Nc')
_B = dict(Conjunction='Cj', Disjunction='Dj', MaterialConditional='Mc', MaterialBiconditional='Mb',
          Conditional='Cd', Biconditional='Bc')
_Q = dict(Existential='Ex', Universal='Un')


def ser_json(j) -> str:
    """PShow.show_sent of a JSON sentence (driver side, for expected values)."""
    out = []
    stack = [j]
    while stack:
        x = stack.pop()
        if isinstance(x, str):
            out.append(x)
            continue
        k = x[0]
        if k == 'A':
            out.append(f'A{b(x[1])}.{b(sub_int(x[2]))}')
        elif k == 'P':
            p = x[1]
            ps = ('Id' if p == 'Identity' else 'Et') if isinstance(p, str) else f'P{b(p[0])}.{b(sub_int(p[1]))}/{b(p[2])}'
            out.append(ps + '(' + ','.join(f'{q[0]}{b(q[1])}.{b(sub_int(q[2]))}' for q in x[2]) + ')')
        elif k == 'Q':
            out.append(f'{_Q[x[1]]} v{b(x[2][0])}.{b(sub_int(x[2][1]))}[')
            stack.append(']')
            stack.append(x[3])
        elif k == 'U':
            out.append(_U[x[1]] + '[')
            stack.append(']')
            stack.append(x[2])
        elif k == 'B':
            out.append(_B[x[1]] + '[')
            stack.append(']')
            stack.append(x[3])
            stack.append('|')
            stack.append(x[2])
    return ''.join(out)


class Ref:
    """Reference rendering from the regenerated PARSE table (reverse map) — used only to
    produce mostly-valid input strings for the parsers."""

    def __init__(self, rows):
        self.rev = {}
        self.chars = []
        for chars, kind, value in rows:
            if len(chars) != 1 or isinstance(kind, dict) or isinstance(value, dict):
                continue
            self.rev.setdefault((kind, value), chr(chars[0]))
            self.chars.append(chr(chars[0]))

    def sym(self, kind, value):
        return self.rev.get((kind, value), '?')

    def coords(self, kind, i, s):
        s = sub_int(s)
        return self.sym(kind, i) + (str(s) if s else '')

    def param(self, p):
        return self.coords('Constant' if p[0] == 'c' else 'Variable', p[1], p[2])

    def polish(self, j) -> str:
        out = []
        stack = [j]
        while stack:
            x = stack.pop()
            k = x[0]
            if k == 'A':
                out.append(self.coords('Atomic', x[1], x[2]))
            elif k == 'P':
                p = x[1]
                out.append(self.sym('System', p) if isinstance(p, str) else self.coords('Predicate', p[0], p[1]))
                out.extend(self.param(q) for q in x[2])
            elif k == 'Q':
                out.append(self.sym('Quantifier', x[1]) + self.coords('Variable', x[2][0], x[2][1]))
                stack.append(x[3])
            elif k == 'U':
                out.append(self.sym('Operator', x[1]))
                stack.append(x[2])
            elif k == 'B':
                out.append(self.sym('Operator', x[1]))
                stack.append(x[3])
                stack.append(x[2])
        return ''.join(out)


def std_render(ref: 'Ref', j, rng=None, top=True) -> str:
    """Reference standard-notation rendering with random decoration (input generation only):
    infix or prefix for predicates of arity >= 2, outer parentheses kept or dropped, spaces."""
    def sp():
        if rng is None:
            return ''
        return ' ' * rng.choice([0, 0, 0, 1, 1, 2])
    k = j[0]
    if k == 'A':
        return ref.coords('Atomic', j[1], j[2])
    if k == 'P':
        p = j[1]
        sym = ref.sym('System', p) if isinstance(p, str) else ref.coords('Predicate', p[0], p[1])
        ps = [ref.param(q) for q in j[2]]
        infix = len(ps) >= 2 and (rng is None or rng.random() < 0.6)
        if infix:
            return ps[0] + sp() + sym + sp() + sp().join(ps[1:])
        return sym + sp() + sp().join(ps)
    if k == 'Q':
        return ref.sym('Quantifier', j[1]) + sp() + ref.coords('Variable', j[2][0], j[2][1]) + sp() + std_render(ref, j[3], rng, False)
    if k == 'U':
        return ref.sym('Operator', j[1]) + sp() + std_render(ref, j[2], rng, False)
    if k == 'B':
        inner = std_render(ref, j[2], rng, False) + sp() + ref.sym('Operator', j[1]) + sp() + std_render(ref, j[3], rng, False)
        if top and (rng is None or rng.random() < 0.5):
            return inner
        return ref.sym('paren_open', 0) + sp() + inner + sp() + ref.sym('paren_close', 0)
    raise ValueError(k)


class SentGen:
    """Random well-formed sentences of the parsers' language (closed, non-vacuous, no
    re-binding, arity-consistent), as JSON."""

    def __init__(self, rng, max_sub=3, big_sub_p=0.05):
        self.rng = rng
        self.max_sub = max_sub
        self.big_sub_p = big_sub_p
        self.arity = {}

    def subscript(self):
        r = self.rng
        x = r.random()
        if x < 0.6:
            return 0
        if x < 1 - self.big_sub_p:
            return r.randint(1, self.max_sub)
        return r.choice([9, 10, 11, 99, 100, 101, 1000, 12345678901234567890, 10 ** 30 + 7, r.getrandbits(r.randint(4, 90))])

    def pred(self):
        r = self.rng
        if r.random() < 0.25:
            return r.choice(SYS)
        key = (r.randint(0, 3), self.subscript() if r.random() < 0.4 else 0)
        if key not in self.arity:
            self.arity[key] = r.choice([1, 1, 2, 2, 3, 4])
        return [key[0], key[1], self.arity[key]]

    def param(self, bound, must=None):
        r = self.rng
        if must is not None:
            return ['v', must[0], must[1]]
        if bound and r.random() < 0.5:
            v = r.choice(bound)
            return ['v', v[0], v[1]]
        return ['c', r.randint(0, 3), self.subscript()]

    def predicated(self, bound, must=None):
        p = self.pred()
        n = {'Identity': 2, 'Existence': 1}[p] if isinstance(p, str) else p[2]
        params = [self.param(bound) for _ in range(n)]
        if must is not None:
            params[self.rng.randrange(n)] = ['v', must[0], must[1]]
        return ['P', p, params]

    def sent(self, depth, bound=(), must=None):
        """must: a variable that has to occur (keeps the enclosing quantifier non-vacuous)."""
        r = self.rng
        bound = list(bound)
        if depth <= 0 or r.random() < 0.15:
            if must is not None or r.random() < 0.5:
                return self.predicated(bound, must)
            return ['A', r.randint(0, 4), self.subscript()]
        x = r.random()
        if x < 0.3:
            return ['U', r.choice(UOPS), self.sent(depth - 1, bound, must)]
        if x < 0.7:
            side = r.random() < 0.5
            a = self.sent(depth - 1, bound, must if side else None)
            c = self.sent(depth - 1, bound, None if side else must)
            return ['B', r.choice(BOPS), a, c]
        free = [(i, s) for i in range(4) for s in (0, 1, 2)] + [(r.randint(0, 3), self.subscript())]
        free = [v for v in free if list(v) not in [list(w) for w in bound]]
        v = r.choice(free)
        body = self.sent(depth - 1, bound + [list(v)], list(v))
        if must is not None and not occurs(must, body):
            body = ['B', r.choice(BOPS), body, self.predicated(bound + [list(v)], must)]
        return ['Q', r.choice(QUANTS), [v[0], v[1]], body]


def occurs(v, j) -> bool:
    stack = [j]
    while stack:
        x = stack.pop()
        k = x[0]
        if k == 'P':
            if any(q[0] == 'v' and q[1] == v[0] and sub_int(q[2]) == sub_int(v[1]) for q in x[2]):
                return True
        elif k == 'Q':
            stack.append(x[3])
        elif k == 'U':
            stack.append(x[2])
        elif k == 'B':
            stack.append(x[2])
            stack.append(x[3])
    return False


def user_preds(j) -> list:
    res = []
    stack = [j]
    while stack:
        x = stack.pop()
        k = x[0]
        if k == 'P' and not isinstance(x[1], str):
            d = (x[1][0], sub_int(x[1][1]), x[1][2])
            if d not in res:
                res.append(d)
        elif k == 'Q':
            stack.append(x[3])
        elif k == 'U':
            stack.append(x[2])
        elif k == 'B':
            stack.append(x[3])
            stack.append(x[2])
    return res


def dumps(x) -> str:
    return json.dumps(x)
