"""C17 — limits and life cycle.

Theorems (coq/Props/C17.v) are about the Gallina state machine coq/theories/Tab/Lifecycle.v.  This
driver ties it to /repo on every run: random interleavings of step / finish / build / setters /
build_trunk / rules.append on real tableaux (example arguments, several logics), step limits
1..n+1, None, 0, -1 (n = the unlimited proof length, measured first), time limits None / 0 /
negative / positive with a substituted build timer that reports a huge elapsed time at scripted
consultations (and, separately, tiny real timeouts); the clock bits fed to the model are the ones
the real timer reported.  After EVERY call the flags, len(history), valid / invalid, rules.locked,
len(rules) and the exception type are compared with the model evaluated inside Coq.
"""
from __future__ import annotations

import ast
import json
import random

import vlib
from vlib import (Check, MachineryError, coq_eval_cases, ensure_theory, probe_json,
                  props_assumptions)

vlib.NCPU = min(vlib.NCPU, 8)

HEADER = ('From Coq Require Import List Bool Arith ZArith.\n'
          'From PT Require Import Tab.Lifecycle.\n'
          'Import ListNotations.\nOpen Scope Z_scope.\n')

THEOREMS = ['C17_steps_bounded', 'C17_limit_premature_steps', 'C17_limit_premature_time',
            'C17_premature_no_verdict', 'C17_big_limit_noop', 'C17_nonpositive_limit_unlimited',
            'C17_timeout_finishes', 'C17_finished_idempotent', 'C17_setters_locked',
            'C17_no_argument_no_verdict', 'C17_build_is_step_loop', 'C17_build_total',
            'C17_verdict_needs_trunk_refuted', 'C17_finished_locked_refuted',
            'C17_verdict_needs_trunk_if_flag', 'C17_finished_locks_setters_if_flag']

QUICK_LOGICS = ['CPL', 'CFOL', 'K', 'FDE', 'S4', 'K3', 'D', 'LP']
MORE_LOGICS = ['T', 'S5', 'KFDE', 'K3W', 'K3WQ', 'L3', 'G3', 'GO', 'MH', 'NH', 'B3E', 'RM3', 'P3', 'S4FDE', 'KK3', 'TLP']

RES = {'entry': 'REntry', 'none': 'RNone', 'ok': 'ROk', 'err:IllegalStateError': 'RErr IllegalState',
       'err:ProofTimeoutError': 'RErr Timeout', 'err:DuplicateKeyError': 'RErr DuplicateKey'}


def coq_bool(b) -> str:
    return 'true' if b else 'false'


def coq_optz(x) -> str:
    if x is None:
        return 'None'
    if isinstance(x, float) and not x.is_integer():
        x = 1 if x > 0 else -1          # only the sign of build_timeout matters to the model
    return f'(Some ({int(x)})%Z)'


FLAGS = dict(fin_lock=False, trunk_verdict=False)      # probed per run (probe_lifecycle.py)


def coq_cfg(n, closes, nrules, opts) -> str:
    return (f'(mkCfg {n}%nat {coq_bool(closes)} {nrules}%nat {coq_bool(opts.get("auto_build_trunk", True))} '
            f'{coq_bool(opts.get("is_build_models", False))} {coq_optz(opts.get("max_steps"))} '
            f'{coq_optz(opts.get("build_timeout"))} {coq_bool(FLAGS["fin_lock"])} {coq_bool(FLAGS["trunk_verdict"])})')


def model_op(op, tr) -> str:
    """The model operation: its clock bits are what the real timer reported during the call."""
    kind = op[0]
    cons = tr['consults']
    stepc = [c[2] for c in cons if c[0] == 'step']
    modc = [c[2] for c in cons if c[0] == 'models']
    b2 = coq_bool(any(modc))
    if kind == 'step':
        return f'Step {coq_bool(bool(stepc and stepc[0]))} {b2}'
    if kind == 'finish':
        return f'Finish {b2}'
    if kind == 'build':
        k = next((i for i, b in enumerate(stepc) if b), None)
        return f'Build {"None" if k is None else f"(Some {k}%nat)"} {b2}'
    return {'set_argument': 'SetArgument', 'set_logic': 'SetLogic', 'build_trunk': 'BuildTrunk', 'add_rule': 'AddRule'}[kind]


def parse_coq(ans: str):
    s = ans.replace(';', ',')
    for a, b in (('RErr IllegalState', '"RErr IllegalState"'), ('RErr Timeout', '"RErr Timeout"'),
                 ('RErr DuplicateKey', '"RErr DuplicateKey"'), ('REntry', '"REntry"'), ('RNone', '"RNone"'),
                 ('ROk', '"ROk"'), ('RFuel', '"RFuel"'), ('Some true', 'True'), ('Some false', 'False'),
                 ('true', 'True'), ('false', 'False'), ('%nat', '')):
        s = s.replace(a, b)
    return ast.literal_eval(s)


def canon_model(t):
    # (res, prem, fin, to, trunk, started, valid, invalid, locked, hist, nrules): Coq prints nested pairs flat-left
    flat = []

    def walk(x):
        if isinstance(x, tuple):
            for y in x:
                walk(y)
        else:
            flat.append(x)
    walk(t)
    return flat


def canon_impl(tr):
    o = tr['obs']
    return [RES.get(tr['res'], tr['res']), o['PREMATURE'], o['FINISHED'], o['TIMED_OUT'], o['TRUNK_BUILT'], o['STARTED'],
            o['valid'], o['invalid'], o['locked'], o['hist'], o['nrules']]


FIELDS = ['result', 'PREMATURE', 'FINISHED', 'TIMED_OUT', 'TRUNK_BUILT', 'STARTED', 'valid', 'invalid',
          'rules.locked', 'len(history)', 'len(rules)']


# ---- case generation ---------------------------------------------------------------------------

def rand_ops(rng: random.Random, n: int, opts: dict, maxlen: int):
    timed = opts.get('build_timeout') is not None and opts['build_timeout'] > 1
    models = bool(opts.get('is_build_models'))

    def fire(p):
        return timed and rng.random() < p

    def one(kind):
        if kind == 'step':
            return ['step', fire(0.12), fire(0.4) if models else False]
        if kind == 'finish':
            return ['finish', fire(0.4) if models else False]
        if kind == 'build':
            k = rng.randint(0, n + 1) if fire(0.35) else None
            return ['build', k, fire(0.5) if models else False]
        return [kind]
    ops = []
    start = ['set_logic', 'set_argument']
    rng.shuffle(start)
    noise = ['add_rule', 'build_trunk', 'step', 'finish', 'build', 'set_logic', 'set_argument']
    for s in start:
        while rng.random() < 0.22:
            ops.append(one(rng.choice(noise)))
        ops.append([s])
    if not opts.get('auto_build_trunk', True) and rng.random() < 0.8:
        while rng.random() < 0.3:
            ops.append(one(rng.choice(['add_rule', 'step', 'set_logic', 'set_argument'])))
        ops.append(['build_trunk'])
    body = ['step'] * 9 + ['build'] * 3 + ['finish', 'set_argument', 'set_logic', 'build_trunk', 'add_rule']
    for _ in range(rng.randint(1, maxlen)):
        ops.append(one(rng.choice(body)))
    return ops


def rand_opts(rng: random.Random, n: int):
    o = {}
    r = rng.random()
    if r < 0.55:
        o['max_steps'] = rng.randint(1, n + 1)
    elif r < 0.7:
        o['max_steps'] = rng.choice([0, -1, -7, None, n + 1 + rng.randint(1, 5)])
    r = rng.random()
    if r < 0.4:
        o['build_timeout'] = 10 ** 7
    elif r < 0.5:
        o['build_timeout'] = rng.choice([0, -1, None])
    elif r < 0.56:
        o['build_timeout'] = 0.0001          # a real, tiny timeout: whatever the real timer says
    if rng.random() < 0.3:
        o['is_build_models'] = True
    if rng.random() < 0.15:
        o['auto_build_trunk'] = False
    return o


def make_cases(args, rng, meta):
    quick = args.tier == 'quick'
    logics = [l for l in (QUICK_LOGICS if quick else QUICK_LOGICS + MORE_LOGICS) if l in meta['logic_names']]
    pairs = [(l, a) for l in logics for a in meta['examples']]
    rng.shuffle(pairs)
    pairs = pairs[:220 if quick else 2600]
    # measure n first
    ms = run_probe_parallel([dict(logic=l, arg=a, opts={}, ops=[]) for l, a in pairs])
    cases = []
    for (l, a), m in zip(pairs, ms):
        if m['measure_error'] or m['n'] is None or m['n'] > 90:
            continue
        n = m['n']
        plain = [['set_logic'], ['set_argument'], ['build', None, False]]
        # every cut point of small proofs; a sample for longer ones
        lims = list(range(1, n + 2)) if n <= (6 if quick else 20) else sorted(set(
            [1, n, n + 1] + [rng.randint(1, n) for _ in range(2 if quick else 6)]))
        for L in lims + [None, 0, -1]:
            cases.append(dict(logic=l, arg=a, opts=dict(max_steps=L), ops=plain, family='limit-sweep'))
        # step by step to the end and beyond, with the limit
        L = rng.randint(1, n + 1)
        cases.append(dict(logic=l, arg=a, opts=dict(max_steps=L), family='step-walk',
                          ops=[['set_argument'], ['set_logic']] + [['step', False, False]] * (min(n, L) + 2) + [['finish', False]]))
        for _ in range(3 if quick else 10):
            o = rand_opts(rng, n)
            cases.append(dict(logic=l, arg=a, opts=o, ops=rand_ops(rng, n, o, 12 if quick else 16), family='random'))
    return cases


def run_probe_parallel(cases, nproc=4):
    if not cases:
        return []
    from concurrent.futures import ThreadPoolExecutor
    # keep cases of one (logic, argument) in one process: the measurement is cached there
    order = sorted(range(len(cases)), key=lambda i: (cases[i]['logic'], cases[i]['arg']))
    k = (len(order) + nproc - 1) // nproc
    chunks = [order[i:i + k] for i in range(0, len(order), k)]
    with ThreadPoolExecutor(max_workers=nproc) as ex:
        outs = list(ex.map(lambda idx: probe_json('probe_lifecycle.py', stdin=json.dumps(
            dict(cases=[{k2: v for k2, v in cases[i].items() if k2 != 'family'} for i in idx])), timeout=3000)['cases'], chunks))
    res = [None] * len(cases)
    for idx, out in zip(chunks, outs):
        for i, r in zip(idx, out):
            res[i] = r
    return res


# ---- the property text, checked directly on what the implementation reported ------------------------

def text_violation(case, rec, k):
    """Does the k-th call violate the property text (independently of the model)?  -> (key, what) | None"""
    tr = rec['trace'][k]
    o = tr['obs']
    prev = rec['trace'][k - 1]['obs'] if k else rec['init']
    op = case['ops'][k][0]
    ms = case['opts'].get('max_steps')
    if ms is not None and ms > 0 and o['hist'] > ms:
        return 'Tableau.step/max_steps', f'len(history) = {o["hist"]} exceeds max_steps = {ms}'
    if o['premature'] and (o['valid'] is not None or o['invalid'] is not None):
        return 'Tableau.valid/premature', f'a premature tableau reports valid={o["valid"]} invalid={o["invalid"]}'
    if not o['has_arg'] and (o['valid'] is not None or o['invalid'] is not None):
        return 'Tableau.valid/no-argument', f'a tableau without argument reports valid={o["valid"]} invalid={o["invalid"]}'
    if tr['res'] == 'err:ProofTimeoutError' and not o['finished']:
        return 'Tableau._check_timeout/finished', 'the timeout error left the tableau unfinished'
    stepc = [c[2] for c in tr['consults'] if c[0] == 'step']
    if any(stepc) and tr['res'] != 'err:ProofTimeoutError':
        return 'Tableau._check_timeout/raise', 'the build timer reported elapsed > build_timeout in step() but no timeout error was raised'
    if any(stepc) and not (o['finished'] and o['premature']):
        return 'Tableau._check_timeout/premature', 'stopped by the time limit but not finished and premature'
    keys = ['PREMATURE', 'FINISHED', 'TIMED_OUT', 'TRUNK_BUILT', 'STARTED', 'valid', 'invalid', 'locked', 'hist', 'nrules',
            'has_arg', 'has_logic', 'nopen', 'nbranches']
    same = all(o[x] == prev[x] for x in keys)
    if prev['finished'] and op in ('step', 'finish', 'build') and (not same or tr['res'].startswith('err')):
        return 'Tableau.step/finished', f'{op}() on a finished tableau changed it or raised ({tr["res"]})'
    if prev['STARTED'] and op in ('set_argument', 'set_logic', 'build_trunk', 'add_rule') and \
            (tr['res'] != 'err:IllegalStateError' or not same):
        return 'Tableau.setter/started', f'{op} on a started tableau: {tr["res"]}, state {"unchanged" if same else "changed"}'
    if op in ('step', 'build') and not prev['finished'] and ms is not None and ms > 0 and prev['hist'] >= ms \
            and not any(c[2] for c in tr['consults']) and not (o['finished'] and o['premature'] and o['hist'] == prev['hist']):
        return 'Tableau.step/limit-premature', 'stopped by the step limit but not finished and premature'
    if op in ('step', 'build') and not prev['finished'] and o['finished'] and ms is not None and 0 < ms <= rec['n'] \
            and o['hist'] >= ms and not o['TIMED_OUT'] and (not o['premature'] or o['valid'] is not None or o['invalid'] is not None):
        return 'Tableau.step/limit-premature', (f'stopped by the step limit {ms} (natural length {rec["n"]}) but premature='
                                                f'{o["premature"]} valid={o["valid"]} invalid={o["invalid"]}')
    return None


def run(args) -> int:
    chk = Check('C17', args.tier, args.seed)
    rng = random.Random(args.seed)
    chk.rule = ('per (logic, example argument): limit sweep max_steps in 1..n+1 (all for short proofs) + None, 0, -1 with '
                'set_logic; set_argument; build; a step-by-step walk past the limit; random interleavings (<= 12 calls after the '
                'setters, noise before them) of step/finish/build/set_argument/set_logic/build_trunk/rules.append under random '
                'max_steps / build_timeout / is_build_models / auto_build_trunk with scripted and real clock readings; '
                'every call compared; distinct = distinct (logic, argument, options, operations)')
    ensure_theory()
    chk.assumptions = props_assumptions('C17')
    chk.theorems = THEOREMS
    chk.obligation('Props/C17.v closed under the global context',
                   len(chk.assumptions) == len(THEOREMS) and all(a == 'Closed under the global context' for a in chk.assumptions))
    meta = probe_json('probe_witness.py', ['--meta'])
    meta['logic_names'] = {L['name'] for L in meta['logics']}
    fl = probe_json('probe_lifecycle.py', stdin=json.dumps(dict(cases=[])))['flags']
    chk.obligation('behaviour flags of the setters / verdict properties could be probed', 'error' not in fl)
    if 'error' in fl:
        chk.violation('lifecycle.flags-probe', f'probing the life-cycle behaviour flags failed: {fl["error"]}',
                      dict(kind='flags', error=fl['error']), found_input=False)
        return chk.finish()
    FLAGS.update(fin_lock=bool(fl['fin_lock']), trunk_verdict=bool(fl['trunk_verdict']))
    chk.notes['probed_behaviour_flags'] = dict(FLAGS)
    cases = make_cases(args, rng, meta)
    recs = run_probe_parallel(cases)
    exprs, idx = [], []
    for i, (case, rec) in enumerate(zip(cases, recs)):
        if rec['measure_error'] or len(rec['trace']) != len(case['ops']):
            chk.count('skipped', rec.get('measure_error') or 'short trace')
            continue
        ops = '; '.join(model_op(op, tr) for op, tr in zip(case['ops'], rec['trace']))
        exprs.append(f'otrace {coq_cfg(rec["n"], rec["closes"], rec["nrules"], case["opts"])} [{ops}]')
        idx.append(i)
    answers = coq_eval_cases('C17', HEADER, exprs, shard=250, name='Life', timeout=900)
    ndiv = 0
    for i, ans in zip(idx, answers):
        case, rec = cases[i], recs[i]
        model = [canon_model(t) for t in parse_coq(ans)]
        impl = [canon_impl(tr) for tr in rec['trace']]
        fam = case['family']
        chk.count('family', fam)
        chk.count('logic', case['logic'])
        for op in case['ops']:
            chk.count('op', op[0])
        chk.count('max_steps', 'None' if case['opts'].get('max_steps') is None else
                  ('<=0' if case['opts']['max_steps'] <= 0 else ('<=n' if case['opts']['max_steps'] <= rec['n'] else '>n')))
        if any(c[2] for tr in rec['trace'] for c in tr['consults']):
            chk.count('clock', 'fired')
        chk.case([case['logic'], case['arg'], case['opts'], case['ops']], nontrivial=True,
                 sample=dict(logic=case['logic'], argument=case['arg'], opts=case['opts'], ops=case['ops'], n=rec['n'],
                             last=impl[-1] if impl else None) if i % 397 == 0 else None)
        # flags derived in __init__
        ms, to = case['opts'].get('max_steps'), case['opts'].get('build_timeout')
        init_ok = rec['init']['HAS_STEP_LIMIT'] == (ms is not None and ms > 0) and \
            rec['init']['HAS_TIME_LIMIT'] == (to is not None and to > 0)
        if not init_ok:
            chk.violation('Tableau.__init__/limit-flags', f'max_steps={ms} build_timeout={to}: HAS_STEP_LIMIT={rec["init"]["HAS_STEP_LIMIT"]} '
                          f'HAS_TIME_LIMIT={rec["init"]["HAS_TIME_LIMIT"]}', replay_dict(case, rec, 0, None), found_input=True)
        for k, (m, r) in enumerate(zip(model, impl)):
            o = rec['trace'][k]['obs']
            derived_ok = (o['finished'] == o['FINISHED'] and o['completed'] == (o['FINISHED'] and not o['PREMATURE'])
                          and o['premature'] == (o['FINISHED'] and o['PREMATURE']))
            tv = text_violation(case, rec, k)
            if m == r and derived_ok and tv is None:
                continue
            if tv is None and not confirmed(case):
                # not reproducible in a fresh process (search order): counted, not reported
                chk.count('unconfirmed_divergence', case['logic'])
                break
            ndiv += 1
            if tv is not None:
                chk.violation(tv[0], f'{case["logic"]} {case["arg"]} opts {case["opts"]}: call #{k} {case["ops"][k]}: {tv[1]}',
                              replay_dict(case, rec, k, m), found_input=True)
            else:
                field = 'derived-properties' if m == r else next(FIELDS[j] for j in range(len(FIELDS)) if j >= len(m) or m[j] != r[j])
                chk.violation(f'lifecycle.model-divergence:{case["ops"][k][0]}:{field}',
                              f'{case["logic"]} {case["arg"]} opts {case["opts"]}: call #{k} {case["ops"][k]}: implementation {r}, '
                              f'verified model {m} (no violation of the property text on this input; the theorems no longer describe this code)',
                              replay_dict(case, rec, k, m), found_input=False)
            break
    chk.obligation('life-cycle model = Tableau implementation on every call of every sequence', ndiv == 0, kind='X')
    chk.notes['diverging_sequences'] = ndiv
    chk.checker_cmd = 'coqc Props/C17.v (theorems, all operation sequences) + gen/C17/Life*.v (model by vm_compute) against tools/probe_lifecycle.py on /repo'
    chk.trusted += ['tools/c17.py: translation of operations, options and observations between the two sides',
                    'tools/probe_lifecycle.py: the substituted build timer (a StopWatch subclass that adds a scripted offset and logs every reading)']
    chk.notes['explanation'] = (
        'obligations: Print Assumptions of the 16 theorems; the model agrees with the real Tableau after every call of every '
        'generated sequence. The theorems hold for ALL operation sequences, proof lengths, limits and clock readings of the model.')
    chk.notes['modelled_not_verified'] = (
        'the proof search is a counter (c_n applications available once the trunk is built): that the real search is '
        'deterministic given the argument is assumed (node-hash counter reset per tableau) and re-measured per case; branches '
        'added by hand, malformed arguments, tree/stats/model contents are not modelled')
    chk.notes['observations_outside_the_property_text'] = [] if (FLAGS['fin_lock'] and FLAGS['trunk_verdict']) else [
        "Tableau(None, 'b:a').build() (argument, no logic) and Tableau('CPL', 'b:a', auto_build_trunk=False).build() report "
        "valid=True without a trunk (C17_verdict_needs_trunk_refuted)",
        "t = Tableau('CPL'); t.build(); t.argument = 'a:a' is accepted on the finished tableau, builds a trunk and reports "
        "invalid=True with an empty history (C17_finished_locked_refuted)"]
    return chk.finish()


def confirmed(case) -> bool:
    """Re-execute one case alone in a fresh process; does it still disagree with the model?"""
    c = {k: v for k, v in case.items() if k != 'family'}
    rec = probe_json('probe_lifecycle.py', stdin=json.dumps(dict(cases=[c])))['cases'][0]
    if rec['measure_error'] or len(rec['trace']) != len(case['ops']):
        return True
    ops = '; '.join(model_op(op, tr) for op, tr in zip(case['ops'], rec['trace']))
    ans = coq_eval_cases('C17', HEADER, [f'otrace {coq_cfg(rec["n"], rec["closes"], rec["nrules"], case["opts"])} [{ops}]'],
                         name='Confirm')[0]
    model = [canon_model(t) for t in parse_coq(ans)]
    impl = [canon_impl(tr) for tr in rec['trace']]
    return model != impl


def replay_dict(case, rec, k, model_row):
    return dict(kind='lifecycle', logic=case['logic'], argument=case['arg'], opts=case['opts'], ops=case['ops'][:k + 1],
                n=rec['n'], closes=rec['closes'], nrules=rec['nrules'], call=k,
                observed=canon_impl(rec['trace'][k]), expected_model=model_row)


def replay(path: str) -> int:
    rep = json.load(open(path))
    if rep.get('kind') != 'lifecycle':
        print('replay: record names a broken obligation; re-running the check')
        import argparse
        return run(argparse.Namespace(pid='C17', tier=rep.get('tier', 'quick'), seed=rep.get('seed', 0), replay=None))
    case = dict(logic=rep['logic'], arg=rep['argument'], opts=rep['opts'], ops=rep['ops'])
    out = probe_json('probe_lifecycle.py', stdin=json.dumps(dict(cases=[case])))
    FLAGS.update(fin_lock=bool(out['flags'].get('fin_lock')), trunk_verdict=bool(out['flags'].get('trunk_verdict')))
    rec = out['cases'][0]
    if rec['measure_error'] or len(rec['trace']) != len(case['ops']):
        print(f'replay: could not run the case: {rec.get("measure_error")}')
        print(f'VIOLATION property=C17 replay={path}')
        return 1
    ops = '; '.join(model_op(op, tr) for op, tr in zip(case['ops'], rec['trace']))
    ans = coq_eval_cases('C17', HEADER, [f'otrace {coq_cfg(rec["n"], rec["closes"], rec["nrules"], case["opts"])} [{ops}]'],
                         name='Replay')[0]
    model = [canon_model(t) for t in parse_coq(ans)]
    impl = [canon_impl(tr) for tr in rec['trace']]
    bad = False
    for k, (m, r) in enumerate(zip(model, impl)):
        tv = text_violation(case, rec, k)
        if m != r or tv is not None:
            print(f'replay: call #{k} {case["ops"][k]}: implementation {r}; model {m}; text: {tv}')
            bad = True
            break
    if not bad:
        print(f'replay: {len(impl)} calls agree with the model; last {impl[-1] if impl else None}')
        return 0
    print(f'VIOLATION property=C17 replay={path}')
    return 1
