"""C17 — limits and life cycle.

Theorems (coq/Props/C17.v) are about the Gallina state machine coq/theories/Tab/Lifecycle.v.  This
driver ties it to /repo on every run: random interleavings of step / finish / build / setters /
build_trunk / rules.append / hand-made branches (tab.branch() + one conjunction node whose properties
are derived from the logic's Meta) on real tableaux (example arguments, several logics), step limits
1..n+1, None, 0, -1 (n = the unlimited proof length, measured first), time limits None / 0 /
negative / positive with a substituted build timer that reports a huge elapsed time at scripted
consultations (and, separately, tiny real timeouts); the clock bits fed to the model are the ones
the real timer reported.  After EVERY call the flags, len(history), valid / invalid, rules.locked,
len(rules), len(open) == 0 and the exception type are compared with the model evaluated inside Coq.
Per logic the probe measures what a hand-made branch supplies (c_h rule applications, stays open,
two branches supply 2 c_h); logics where that fails (D: the Serial rule consults the tableau-wide
history) get no hand_branch operations.
"""
from __future__ import annotations

import ast
import json
import random

import vlib
from vlib import (Check, MachineryError, coq_eval_cases, ensure_theory, probe_json,
                  props_assumptions)

vlib.NCPU = min(vlib.NCPU, 8)

HEADER = ('From Coq Require Import List Bool Arith ZArith.\n'
          'From PT Require Import Tab.Lifecycle.\n'
          'Import ListNotations.\nOpen Scope Z_scope.\n')

THEOREMS = ['C17_steps_bounded', 'C17_limit_premature_steps', 'C17_limit_premature_time',
            'C17_premature_no_verdict', 'C17_big_limit_noop_run', 'C17_big_limit_noop', 'C17_big_limit_noop_no_hand',
            'C17_nonpositive_limit_unlimited',
            'C17_timeout_finishes', 'C17_finished_idempotent', 'C17_setters_locked', 'C17_started_without_trunk',
            'C17_no_argument_no_verdict', 'C17_build_is_step_loop', 'C17_build_total',
            'C17_verdict_needs_trunk_refuted', 'C17_hand_started_verdict_without_trunk_refuted',
            'C17_hand_branch_flips_verdict', 'C17_finished_locked_refuted',
            'C17_verdict_needs_trunk_if_flag', 'C17_finished_locks_setters_if_flag']

QUICK_LOGICS = ['CPL', 'CFOL', 'K', 'FDE', 'S4', 'K3', 'D', 'LP']
MORE_LOGICS = ['T', 'S5', 'KFDE', 'K3W', 'K3WQ', 'L3', 'G3', 'GO', 'MH', 'NH', 'B3E', 'RM3', 'P3', 'S4FDE', 'KK3', 'TLP']

RES = {'entry': 'REntry', 'none': 'RNone', 'ok': 'ROk', 'err:IllegalStateError': 'RErr IllegalState',
       'err:ProofTimeoutError': 'RErr Timeout', 'err:DuplicateKeyError': 'RErr DuplicateKey'}


def coq_bool(b) -> str:
    return 'true' if b else 'false'


def coq_optz(x) -> str:
    if x is None:
        return 'None'
    if isinstance(x, float) and not x.is_integer():
        x = 1 if x > 0 else -1          # only the sign of build_timeout matters to the model
    return f'(Some ({int(x)})%Z)'


FLAGS = dict(fin_lock=False, trunk_verdict=False)      # probed per run (probe_lifecycle.py)
import collections
PAIRS = collections.Counter()                          # (logic, argument) pairs: hand_branch operations usable?
PAIRS_SKIPPED: list = []
HAND: dict = {}                                        # logic -> what one / two hand-made branches supply (measured per run)


def coq_cfg(rec, opts) -> str:
    n, closes, nrules, h = rec['n'], rec['closes'], rec['nrules'], rec.get('h') or 0
    return (f'(mkCfg {n}%nat {coq_bool(closes)} {h}%nat {nrules}%nat {coq_bool(opts.get("auto_build_trunk", True))} '
            f'{coq_bool(opts.get("is_build_models", False))} {coq_optz(opts.get("max_steps"))} '
            f'{coq_optz(opts.get("build_timeout"))} {coq_bool(FLAGS["fin_lock"])} {coq_bool(FLAGS["trunk_verdict"])})')


def model_op(op, tr) -> str:
    """The model operation: its clock bits are what the real timer reported during the call."""
    kind = op[0]
    cons = tr['consults']
    stepc = [c[2] for c in cons if c[0] == 'step']
    modc = [c[2] for c in cons if c[0] == 'models']
    b2 = coq_bool(any(modc))
    if kind == 'step':
        return f'Step {coq_bool(bool(stepc and stepc[0]))} {b2}'
    if kind == 'finish':
        return f'Finish {b2}'
    if kind == 'build':
        k = next((i for i, b in enumerate(stepc) if b), None)
        return f'Build {"None" if k is None else f"(Some {k}%nat)"} {b2}'
    return {'set_argument': 'SetArgument', 'set_logic': 'SetLogic', 'build_trunk': 'BuildTrunk', 'add_rule': 'AddRule',
            'hand_branch': 'HandBranch'}[kind]


def parse_coq(ans: str):
    s = ans.replace(';', ',')
    for a, b in (('RErr IllegalState', '"RErr IllegalState"'), ('RErr Timeout', '"RErr Timeout"'),
                 ('RErr DuplicateKey', '"RErr DuplicateKey"'), ('REntry', '"REntry"'), ('RNone', '"RNone"'),
                 ('ROk', '"ROk"'), ('RFuel', '"RFuel"'), ('Some true', 'True'), ('Some false', 'False'),
                 ('true', 'True'), ('false', 'False'), ('%nat', '')):
        s = s.replace(a, b)
    return ast.literal_eval(s)


def canon_model(t):
    # (res, prem, fin, to, trunk, started, valid, invalid, locked, hist, nrules, open_zero): Coq prints nested pairs flat-left
    flat = []

    def walk(x):
        if isinstance(x, tuple):
            for y in x:
                walk(y)
        else:
            flat.append(x)
    walk(t)
    return flat


def canon_impl(tr):
    o = tr['obs']
    return [RES.get(tr['res'], tr['res']), o['PREMATURE'], o['FINISHED'], o['TIMED_OUT'], o['TRUNK_BUILT'], o['STARTED'],
            o['valid'], o['invalid'], o['locked'], o['hist'], o['nrules'], o['nopen'] == 0]


FIELDS = ['result', 'PREMATURE', 'FINISHED', 'TIMED_OUT', 'TRUNK_BUILT', 'STARTED', 'valid', 'invalid',
          'rules.locked', 'len(history)', 'len(rules)', 'len(open)==0']


# ---- case generation ---------------------------------------------------------------------------

def rand_ops(rng: random.Random, n: int, opts: dict, maxlen: int, hand: bool = False):
    timed = opts.get('build_timeout') is not None and opts['build_timeout'] > 1
    models = bool(opts.get('is_build_models'))

    def fire(p):
        return timed and rng.random() < p

    def one(kind):
        if kind == 'step':
            return ['step', fire(0.12), fire(0.4) if models else False]
        if kind == 'finish':
            return ['finish', fire(0.4) if models else False]
        if kind == 'build':
            k = rng.randint(0, n + 1) if fire(0.35) else None
            return ['build', k, fire(0.5) if models else False]
        return [kind]
    ops = []
    start = ['set_logic', 'set_argument']
    rng.shuffle(start)
    noise = ['add_rule', 'build_trunk', 'step', 'finish', 'build', 'set_logic', 'set_argument'] + ['hand_branch'] * hand
    for s in start:
        while rng.random() < 0.22:
            ops.append(one(rng.choice(noise)))
        ops.append([s])
    if not opts.get('auto_build_trunk', True) and rng.random() < 0.8:
        while rng.random() < 0.3:
            ops.append(one(rng.choice(['add_rule', 'step', 'set_logic', 'set_argument'])))
        ops.append(['build_trunk'])
    body = ['step'] * 9 + ['build'] * 3 + ['finish', 'set_argument', 'set_logic', 'build_trunk', 'add_rule'] + ['hand_branch'] * (2 * hand)
    for _ in range(rng.randint(1, maxlen)):
        ops.append(one(rng.choice(body)))
    return ops


def hand_ops(rng: random.Random, n: int, opts: dict, maxlen: int):
    """Tableaux started by hand: a logic (usually), hand-made branches, steps, then the setters / build_trunk."""
    timed = opts.get('build_timeout') is not None and opts['build_timeout'] > 1
    models = bool(opts.get('is_build_models'))

    def fire(p):
        return timed and rng.random() < p

    def one(kind):
        if kind == 'step':
            return ['step', fire(0.1), fire(0.4) if models else False]
        if kind == 'finish':
            return ['finish', fire(0.4) if models else False]
        if kind == 'build':
            return ['build', rng.randint(0, n + 3) if fire(0.3) else None, fire(0.5) if models else False]
        return [kind]
    ops = []
    r = rng.random()
    if r < 0.75:
        ops.append(['set_logic'])
        if rng.random() < 0.3:
            ops.append(['set_argument'])
    elif r < 0.9:
        ops.append(['set_argument'])
    for _ in range(rng.randint(1, 3)):
        ops.append(['hand_branch'])
        while rng.random() < 0.45:
            ops.append(one('step'))
    body = ['step'] * 6 + ['build'] * 2 + ['set_argument'] * 4 + ['set_logic'] * 3 + ['build_trunk'] * 3 + \
        ['finish', 'add_rule', 'hand_branch', 'hand_branch']
    for _ in range(rng.randint(2, maxlen)):
        ops.append(one(rng.choice(body)))
    return ops


def rand_opts(rng: random.Random, n: int):
    o = {}
    r = rng.random()
    if r < 0.55:
        o['max_steps'] = rng.randint(1, n + 1)
    elif r < 0.7:
        o['max_steps'] = rng.choice([0, -1, -7, None, n + 1 + rng.randint(1, 5)])
    r = rng.random()
    if r < 0.4:
        o['build_timeout'] = 10 ** 7
    elif r < 0.5:
        o['build_timeout'] = rng.choice([0, -1, None])
    elif r < 0.56:
        o['build_timeout'] = 0.0001          # a real, tiny timeout: whatever the real timer says
    if rng.random() < 0.3:
        o['is_build_models'] = True
    if rng.random() < 0.15:
        o['auto_build_trunk'] = False
    if rng.random() < 0.12:
        o['nolock'] = True      # a per-rule option (rules do not freeze their own attributes): the rule SET locks all the same
    return o


def make_cases(args, rng, meta):
    quick = args.tier == 'quick'
    logics = [l for l in (QUICK_LOGICS if quick else QUICK_LOGICS + MORE_LOGICS) if l in meta['logic_names']]
    pairs = [(l, a) for l in logics for a in meta['examples']]
    rng.shuffle(pairs)
    pairs = pairs[:220 if quick else 2600]
    # measure n first
    ms = run_probe_parallel([dict(logic=l, arg=a, opts={}, ops=[]) for l, a in pairs])
    cases = []
    for (l, a), m in zip(pairs, ms):
        if m['measure_error'] or m['n'] is None or m['n'] > 90:
            continue
        n = m['n']
        HAND.setdefault(l, m.get('hand') or {})
        hand = bool(m.get('hand_ok'))
        if (m.get('hand') or {}).get('ok'):
            PAIRS['usable' if hand else 'trunk length depends on the node-hash order (skipped)'] += 1
            if not hand:
                PAIRS_SKIPPED.append([l, a, n, (m.get('hand_ctx') or {}).get('totals')])
        h = m.get('h') or 0
        plain = [['set_logic'], ['set_argument'], ['build', None, False]]
        # every cut point of small proofs; a sample for longer ones
        lims = list(range(1, n + 2)) if n <= (6 if quick else 20) else sorted(set(
            [1, n, n + 1] + [rng.randint(1, n) for _ in range(2 if quick else 6)]))
        for L in lims + [None, 0, -1]:
            cases.append(dict(logic=l, arg=a, opts=dict(max_steps=L), ops=plain, family='limit-sweep'))
        # step by step to the end and beyond, with the limit
        L = rng.randint(1, n + 1)
        cases.append(dict(logic=l, arg=a, opts=dict(max_steps=L), family='step-walk',
                          ops=[['set_argument'], ['set_logic']] + [['step', False, False]] * (min(n, L) + 2) + [['finish', False]]))
        for _ in range(3 if quick else 10):
            o = rand_opts(rng, n)
            cases.append(dict(logic=l, arg=a, opts=o, ops=rand_ops(rng, n, o, 12 if quick else 16, hand), family='random'))
        if not hand:
            continue
        # tableaux started by hand: every setter / build_trunk after the first rule application, with and
        # without auto_build_trunk; the trunk after a hand-made branch; a branch on a finished tableau
        S = ['step', False, False]
        auto = rng.random() < 0.5
        fixed = [
            (dict(auto_build_trunk=auto), [['set_logic'], ['hand_branch'], S, ['set_argument'], ['set_logic'], ['build_trunk'],
                                          ['add_rule'], ['build', None, False], ['set_argument'], ['finish', False]]),
            (dict(auto_build_trunk=False), [['set_logic'], ['set_argument'], ['hand_branch'], S, ['build_trunk'], ['set_argument'],
                                           ['build', None, False], ['build_trunk']]),
            (dict(), [['hand_branch'], ['set_logic'], ['set_argument'], S, ['set_logic'], ['hand_branch'], ['build', None, False]]),
            (dict(), [['set_logic'], ['hand_branch'], ['set_argument'], ['hand_branch'], ['build', None, False], ['hand_branch'], S]),
        ]
        for o, ops in ([fixed[rng.randrange(len(fixed))]] if quick else fixed):
            cases.append(dict(logic=l, arg=a, opts=o, ops=ops, family='hand-fixed'))
        # the step limit around the natural length c_n + 2 c_h of a proof with two hand-made branches
        nat = n + 2 * h
        sweep = sorted({1, nat - 1, nat, nat + 1} - {0}) if (n <= 6 or not quick) else [rng.choice([nat, nat + 1])]
        for L in sweep:
            cases.append(dict(logic=l, arg=a, opts=dict(max_steps=L), family='hand-limit',
                              ops=[['set_logic'], ['hand_branch'], ['set_argument'], ['hand_branch'], ['build', None, False]]))
        for _ in range(2 if quick else 8):
            o = rand_opts(rng, n + 2 * h)
            cases.append(dict(logic=l, arg=a, opts=o, ops=hand_ops(rng, n, o, 9 if quick else 14), family='hand-random'))
    return cases


def run_probe_parallel(cases, nproc=4):
    if not cases:
        return []
    from concurrent.futures import ThreadPoolExecutor
    # keep cases of one (logic, argument) in one process: the measurement is cached there
    order = sorted(range(len(cases)), key=lambda i: (cases[i]['logic'], cases[i]['arg']))
    k = (len(order) + nproc - 1) // nproc
    chunks = [order[i:i + k] for i in range(0, len(order), k)]
    with ThreadPoolExecutor(max_workers=nproc) as ex:
        outs = list(ex.map(lambda idx: probe_json('probe_lifecycle.py', stdin=json.dumps(
            dict(cases=[{k2: v for k2, v in cases[i].items() if k2 != 'family'} for i in idx])), timeout=3000)['cases'], chunks))
    res = [None] * len(cases)
    for idx, out in zip(chunks, outs):
        for i, r in zip(idx, out):
            res[i] = r
    return res


# ---- the property text, checked directly on what the implementation reported ------------------------

def text_violation(case, rec, k):
    """Does the k-th call violate the property text (independently of the model)?  -> (key, what) | None"""
    tr = rec['trace'][k]
    o = tr['obs']
    prev = rec['trace'][k - 1]['obs'] if k else rec['init']
    op = case['ops'][k][0]
    ms = case['opts'].get('max_steps')
    if ms is not None and ms > 0 and o['hist'] > ms:
        return 'Tableau.step/max_steps', f'len(history) = {o["hist"]} exceeds max_steps = {ms}'
    if o['premature'] and (o['valid'] is not None or o['invalid'] is not None):
        return 'Tableau.valid/premature', f'a premature tableau reports valid={o["valid"]} invalid={o["invalid"]}'
    if not o['has_arg'] and (o['valid'] is not None or o['invalid'] is not None):
        return 'Tableau.valid/no-argument', f'a tableau without argument reports valid={o["valid"]} invalid={o["invalid"]}'
    if not o['has_arg'] and o.get('result') in ('Valid', 'Invalid'):
        return 'Tableau.stats/no-argument', f"a tableau without argument publishes the verdict {o['result']!r} in stats['result']"
    if tr['res'] == 'err:ProofTimeoutError' and not o['finished']:
        return 'Tableau._check_timeout/finished', 'the timeout error left the tableau unfinished'
    stepc = [c[2] for c in tr['consults'] if c[0] == 'step']
    if any(stepc) and tr['res'] != 'err:ProofTimeoutError':
        return 'Tableau._check_timeout/raise', 'the build timer reported elapsed > build_timeout in step() but no timeout error was raised'
    if any(stepc) and not (o['finished'] and o['premature']):
        return 'Tableau._check_timeout/premature', 'stopped by the time limit but not finished and premature'
    keys = ['PREMATURE', 'FINISHED', 'TIMED_OUT', 'TRUNK_BUILT', 'STARTED', 'valid', 'invalid', 'locked', 'hist', 'nrules',
            'has_arg', 'has_logic', 'nopen', 'nbranches']
    same = all(o[x] == prev[x] for x in keys)
    if prev['finished'] and op in ('step', 'finish', 'build') and (not same or tr['res'].startswith('err')):
        return 'Tableau.step/finished', f'{op}() on a finished tableau changed it or raised ({tr["res"]})'
    # "started": the flag, or what the flag stands for (the trunk is built / a rule has been applied)
    if (prev['STARTED'] or prev['TRUNK_BUILT'] or prev['hist'] > 0) and op in ('set_argument', 'set_logic', 'build_trunk', 'add_rule') and \
            (tr['res'] != 'err:IllegalStateError' or not same):
        how = 'a started tableau' if prev['STARTED'] else 'a tableau that has applied a rule / built its trunk but does not carry Flag.STARTED'
        return 'Tableau.setter/started', f'{op} on {how}: {tr["res"]}, state {"unchanged" if same else "changed"}'
    if op in ('step', 'build') and not prev['finished'] and ms is not None and ms > 0 and prev['hist'] >= ms \
            and not any(c[2] for c in tr['consults']) and not (o['finished'] and o['premature'] and o['hist'] == prev['hist']):
        return 'Tableau.step/limit-premature', 'stopped by the step limit but not finished and premature'
    if op in ('step', 'build') and not prev['finished'] and o['finished'] and ms is not None and 0 < ms <= rec['n'] \
            and o['hist'] >= ms and not o['TIMED_OUT'] and (not o['premature'] or o['valid'] is not None or o['invalid'] is not None):
        return 'Tableau.step/limit-premature', (f'stopped by the step limit {ms} (natural length {rec["n"]}) but premature='
                                                f'{o["premature"]} valid={o["valid"]} invalid={o["invalid"]}')
    return None


def stopwatch_cases(chk, tier):
    """The time limit is about the build time ACCUMULATED over all steps: the real StopWatch under a deterministic
    clock must behave like a cumulative stopwatch (tools/probe_stopwatch.py), call by call, including the step at
    which ProofTimeoutError is raised and the flags it leaves."""
    args_ = [('CPL', 'Kab:a:b'), ('CPL', 'AKabKcd:UaUbUcd'), ('K', 'MKab:KMaMb'), ('FDE', 'NKab:ANaNb'), ('S4', 'LLa:La'),
             ('CFOL', 'SxKFxGx:SxFx:SxGx'), ('K3', 'AaNa:b')]
    if tier == 'thorough':
        args_ += [('S5', 'MLa:a'), ('LP', 'b:KaNa'), ('T', 'La:LLa'), ('GO', 'UaUba')]
    cases = [dict(logic=l, arg=a, timeout=t) for l, a in args_ for t in (10 ** 9, 40, 90, 150, 260, 400)]
    # with model building on (invalid arguments): the time spent reading models inside the last step() is build time too
    cases += [dict(logic=l, arg=a, timeout=t, models=True) for l, a in (('CPL', 'b:Aab'), ('K', 'b:MKab:KMaMb'), ('CFOL', 'b:SxFx:SxGx'),
                                                                         ('FDE', 'c:Aab:NKab'), ('S5', 'b:MLa'))
              for t in (10 ** 9, 120, 200)]
    out = probe_json('probe_stopwatch.py', stdin=json.dumps(dict(cases=cases)), timeout=1800)['cases']
    for c, r in zip(cases, out):
        real, ref = r.get('real'), r.get('ref')
        timed = isinstance(ref, list) and any(x[0] == 'err:ProofTimeoutError' for x in ref)
        chk.case(['stopwatch', c['logic'], c['arg'], c['timeout']], nontrivial=True)
        chk.count('real_timer_under_fake_clock', 'times out' if timed else 'completes')
        if isinstance(ref, str):
            raise MachineryError(f'probe_stopwatch reference run crashed: {ref}')
        if real != ref:
            # confirm in fresh interpreters: only a reproducible difference is a finding
            again = [probe_json('probe_stopwatch.py', stdin=json.dumps(dict(cases=[c])), timeout=600)['cases'][0] for _ in range(2)]
            if any(a.get('real') == a.get('ref') for a in again):
                chk.count('real_timer_under_fake_clock', 'unconfirmed difference')
                continue
            real, ref = again[-1].get('real'), again[-1].get('ref')
            k = next((i for i, (x, y) in enumerate(zip(real, ref)) if x != y), min(len(real), len(ref))) if isinstance(real, list) else 0
            chk.violation('StopWatch/build-time-not-cumulative',
                          f"{c['logic']} {c['arg']} build_timeout={c['timeout']} ms under a clock advancing 1 ms per reading: "
                          f"step() call #{k + 1} gives {real[k] if isinstance(real, list) and k < len(real) else real} with the real timer, "
                          f"{ref[k] if k < len(ref) else 'nothing'} with a cumulative stopwatch [outcome, finished, premature, timed_out, steps, elapsed_ms]",
                          dict(kind='stopwatch', case=c, real=real, reference=ref))
        if isinstance(real, list) and real and real[-1][5] is not None and not timed:
            # completed without a timeout: everything the clock counted inside step() calls is in the build timer,
            # up to the one reading each call makes outside it
            spent, calls, elapsed = sum(x[6] for x in real), len(real), real[-1][5]
            if spent - elapsed > calls + 2:
                chk.violation('Tableau.step/time-outside-the-build-timer',
                              f"{c['logic']} {c['arg']} (models={bool(c.get('models'))}): {spent} ms of clock time passed inside step() calls "
                              f"but the build timer accumulated only {elapsed} ms over {calls} calls: part of a step (e.g. model building "
                              f"in finish()) is not measured, so the time limit cannot fire there",
                              dict(kind='stopwatch', case=c, real=real))
        if real == ref and timed:
            last = ref[-1]
            if not (last[1] and last[3] and (last[2] or c.get("models"))):   # premature unless the search itself had completed (timeout in model building)
                chk.violation('Tableau._check_timeout/timeout-leaves-unfinished',
                              f"{c['logic']} {c['arg']} build_timeout={c['timeout']}: ProofTimeoutError raised but flags are {last}",
                              dict(kind='stopwatch', case=c, real=real))


def run(args) -> int:
    chk = Check('C17', args.tier, args.seed)
    rng = random.Random(args.seed)
    chk.rule = ('per (logic, example argument): limit sweep max_steps in 1..n+1 (all for short proofs) + None, 0, -1 with '
                'set_logic; set_argument; build; a step-by-step walk past the limit; random interleavings (<= 12 calls after the '
                'setters, noise before them) of step/finish/build/set_argument/set_logic/build_trunk/rules.append under random '
                'max_steps / build_timeout / is_build_models / auto_build_trunk with scripted and real clock readings; '
                'every call compared; where the logic\'s hand-made branches are independent (measured): hand_branch in those '
                'interleavings, fixed hand-started sequences (every setter / build_trunk / rules.append after the first rule '
                'application on a hand-made branch, trunk after a hand-made branch, branch on a finished tableau), a limit sweep '
                'around c_n + 2 c_h, and hand-started random sequences; distinct = distinct (logic, argument, options, operations)')
    ensure_theory()
    chk.assumptions = props_assumptions('C17')
    chk.theorems = THEOREMS
    chk.obligation('Props/C17.v closed under the global context',
                   len(chk.assumptions) == len(THEOREMS) and all(a == 'Closed under the global context' for a in chk.assumptions))
    meta = probe_json('probe_witness.py', ['--meta'])
    meta['logic_names'] = {L['name'] for L in meta['logics']}
    fl = probe_json('probe_lifecycle.py', stdin=json.dumps(dict(cases=[])))['flags']
    chk.obligation('behaviour flags of the setters / verdict properties could be probed', 'error' not in fl)
    if 'error' in fl:
        chk.violation('lifecycle.flags-probe', f'probing the life-cycle behaviour flags failed: {fl["error"]}',
                      dict(kind='flags', error=fl['error']), found_input=False)
        return chk.finish()
    FLAGS.update(fin_lock=bool(fl['fin_lock']), trunk_verdict=bool(fl['trunk_verdict']))
    chk.notes['probed_behaviour_flags'] = dict(FLAGS)
    cases = make_cases(args, rng, meta)
    recs = run_probe_parallel(cases)
    exprs, idx = [], []
    for i, (case, rec) in enumerate(zip(cases, recs)):
        if rec['measure_error'] or len(rec['trace']) != len(case['ops']):
            chk.count('skipped', rec.get('measure_error') or 'short trace')
            continue
        ops = '; '.join(model_op(op, tr) for op, tr in zip(case['ops'], rec['trace']))
        exprs.append(f'otrace {coq_cfg(rec, case["opts"])} [{ops}]')
        idx.append(i)
    answers = coq_eval_cases('C17', HEADER, exprs, shard=250, name='Life', timeout=900)
    ndiv = 0
    div_keys = set()
    for i, ans in zip(idx, answers):
        case, rec = cases[i], recs[i]
        model = [canon_model(t) for t in parse_coq(ans)]
        impl = [canon_impl(tr) for tr in rec['trace']]
        fam = case['family']
        chk.count('family', fam)
        chk.count('logic', case['logic'])
        for op in case['ops']:
            chk.count('op', op[0])
        nh = sum(1 for op in case['ops'] if op[0] == 'hand_branch')
        chk.count('hand_branches_per_sequence', str(min(nh, 4)) + ('+' if nh >= 4 else ''))
        for k, tr in enumerate(rec['trace']):
            prev = rec['trace'][k - 1]['obs'] if k else rec['init']
            if prev['STARTED'] and not prev['TRUNK_BUILT']:
                chk.count('call_on_hand_started_tableau', case['ops'][k][0])
            if case['ops'][k][0] == 'hand_branch':
                chk.count('hand_branch_on', 'finished' if prev['FINISHED'] else 'started' if prev['STARTED'] else
                          'no logic' if not prev['has_logic'] else 'fresh')
        chk.count('max_steps', 'None' if case['opts'].get('max_steps') is None else
                  ('<=0' if case['opts']['max_steps'] <= 0 else ('<=n' if case['opts']['max_steps'] <= rec['n'] else '>n')))
        if any(c[2] for tr in rec['trace'] for c in tr['consults']):
            chk.count('clock', 'fired')
        chk.case([case['logic'], case['arg'], case['opts'], case['ops']], nontrivial=True,
                 sample=dict(logic=case['logic'], argument=case['arg'], opts=case['opts'], ops=case['ops'], n=rec['n'],
                             last=impl[-1] if impl else None) if i % 397 == 0 else None)
        # flags derived in __init__
        ms, to = case['opts'].get('max_steps'), case['opts'].get('build_timeout')
        init_ok = rec['init']['HAS_STEP_LIMIT'] == (ms is not None and ms > 0) and \
            rec['init']['HAS_TIME_LIMIT'] == (to is not None and to > 0)
        if not init_ok:
            chk.violation('Tableau.__init__/limit-flags', f'max_steps={ms} build_timeout={to}: HAS_STEP_LIMIT={rec["init"]["HAS_STEP_LIMIT"]} '
                          f'HAS_TIME_LIMIT={rec["init"]["HAS_TIME_LIMIT"]}', replay_dict(case, rec, 0, None), found_input=True)
        # first call that violates the property text; first call where the model disagrees
        kt = kd = None
        for k, (m, r) in enumerate(zip(model, impl)):
            o = rec['trace'][k]['obs']
            derived_ok = (o['finished'] == o['FINISHED'] and o['completed'] == (o['FINISHED'] and not o['PREMATURE'])
                          and o['premature'] == (o['FINISHED'] and o['PREMATURE']))
            if kd is None and not (m == r and derived_ok):
                kd = k
            if text_violation(case, rec, k) is not None:
                kt = k
                break
        if kt is None and kd is None:
            continue
        if kt is not None:
            tv = text_violation(case, rec, kt)
            ndiv += 1
            chk.violation(tv[0], f'{case["logic"]} {case["arg"]} opts {case["opts"]}: call #{kt} {case["ops"][kt]}: {tv[1]}',
                          replay_dict(case, rec, kt, model[kt]), found_input=True)
            continue
        m, r = model[kd], impl[kd]
        field = 'derived-properties' if m == r else next(FIELDS[j] for j in range(len(FIELDS)) if j >= len(m) or m[j] != r[j])
        key = f'lifecycle.model-divergence:{case["ops"][kd][0]}:{field}'
        if key in div_keys or len(div_keys) >= 8:
            # same kind of disagreement as one already confirmed and reported (or too many kinds): counted only
            ndiv += 1
            chk.count('further_divergence', key if key in div_keys else 'other')
            continue
        if not confirmed(case):
            # not reproducible in a fresh process / explained by the search order: counted, not reported
            chk.count('unconfirmed_divergence', f'{case["logic"]}: {WHY_UNCONFIRMED[0]}')
            continue
        ndiv += 1
        div_keys.add(key)
        chk.violation(key, f'{case["logic"]} {case["arg"]} opts {case["opts"]}: call #{kd} {case["ops"][kd]}: implementation {r}, '
                      f'verified model {m} (no violation of the property text on this input; the theorems no longer describe this code)',
                      replay_dict(case, rec, kd, m), found_input=False)
    chk.obligation('life-cycle model = Tableau implementation on every call of every sequence', ndiv == 0, kind='X')
    chk.notes['diverging_sequences'] = ndiv
    chk.checker_cmd = 'coqc Props/C17.v (theorems, all operation sequences) + gen/C17/Life*.v (model by vm_compute) against tools/probe_lifecycle.py on /repo'
    chk.trusted += ['tools/c17.py: translation of operations, options and observations between the two sides',
                    'tools/probe_lifecycle.py: the substituted build timer (a StopWatch subclass that adds a scripted offset and logs every reading)']
    chk.notes['explanation'] = (
        f'obligations: Print Assumptions of the {len(THEOREMS)} theorems; the model agrees with the real Tableau after every call of every '
        'generated sequence. The theorems hold for ALL operation sequences, proof lengths, limits and clock readings of the model.')
    chk.notes['modelled_not_verified'] = (
        'the proof search is a counter (c_n applications available once the trunk is built + c_h per hand-made branch of a '
        'tableau with a logic): that the real search is deterministic given the argument is assumed (node-hash counter reset '
        'per tableau) and re-measured per case; that branches do not influence each other\'s number of rule applications is '
        'measured per logic (two hand-made branches supply 2 c_h) and re-checked by every sequence that mixes a trunk with '
        'hand-made branches; hand-made branches with other contents, Tableau.branch(parent), malformed arguments, '
        'tree/stats/model contents are not modelled')
    chk.notes['hand_branch_pairs'] = dict(PAIRS)
    chk.notes['hand_branch_pairs_skipped'] = PAIRS_SKIPPED[:40]
    chk.notes['hand_branch_measure'] = {l: dict(h=v.get('h'), additive=v.get('ok'), error=v.get('error'),
                                                steps_with_1_and_2_branches=[r['steps'] for r in v.get('runs') or []])
                                        for l, v in sorted(HAND.items())}
    chk.notes['observations_outside_the_property_text'] = [] if (FLAGS['fin_lock'] and FLAGS['trunk_verdict']) else [
        "Tableau(None, 'b:a').build() (argument, no logic) and Tableau('CPL', 'b:a', auto_build_trunk=False).build() report "
        "valid=True without a trunk (C17_verdict_needs_trunk_refuted)",
        "t = Tableau('CPL'); t.build(); t.argument = 'a:a' is accepted on the finished tableau, builds a trunk and reports "
        "invalid=True with an empty history (C17_finished_locked_refuted)",
        "t = Tableau('CPL', 'Kab:a', auto_build_trunk=False); b = t.branch(); b.append(sdwnode(a & b)); t.step(); t.build(): "
        "started by hand, build_trunk refused for ever, yet invalid=True is reported for the argument whose trunk was never built "
        "(C17_hand_started_verdict_without_trunk_refuted)"]
    stopwatch_cases(chk, args.tier)
    chk.notes['observations_outside_the_property_text'] += [
        "Tableau.branch() has no guard: t = Tableau('CPL', 'a:a').build() is valid; after t.branch() (+ any node) t.valid is False and "
        "t.invalid is True while t.stats['result'] still says 'Valid' (C17_hand_branch_flips_verdict)",
        "a hand-made branch on a tableau without a logic locks the rule set, so the logic setter raises IllegalStateError for ever",
    ] + [f"logic {l}: hand-made branches are not independent (one supplies {v.get('h')} rule applications, two supply "
         f"{[r['steps'] for r in v.get('runs') or []][1:]} under max_steps=60, rules {[r['rules'] for r in v.get('runs') or []][1:]}; "
         f"{v.get('error') or ''}); no hand_branch operations generated for it"
         for l, v in sorted(HAND.items()) if not v.get('ok')]
    return chk.finish()


WHY_UNCONFIRMED = ['']


def confirmed(case) -> bool:
    """Re-execute one case alone in a fresh process; does it still disagree with the model?  A sequence with
    hand-made branches whose only disagreement is the length of the trunk's proof is re-measured in its own
    context (the search order depends on the node hashes, hence on how many nodes were made before the
    trunk's): the same calls without limits and clock, then build(); if the model with THAT length agrees
    on every call the case is counted as search-order-sensitive, not reported."""
    WHY_UNCONFIRMED[0] = 'not reproducible in a fresh process'
    c = {k: v for k, v in case.items() if k != 'family'}
    rec = probe_json('probe_lifecycle.py', stdin=json.dumps(dict(cases=[c])))['cases'][0]
    if rec['measure_error'] or len(rec['trace']) != len(case['ops']):
        return True
    ops = '; '.join(model_op(op, tr) for op, tr in zip(case['ops'], rec['trace']))
    ans = coq_eval_cases('C17', HEADER, [f'otrace {coq_cfg(rec, case["opts"])} [{ops}]'],
                         name='Confirm')[0]
    model = [canon_model(t) for t in parse_coq(ans)]
    impl = [canon_impl(tr) for tr in rec['trace']]
    if model == impl:
        return False
    nh = sum(1 for op in case['ops'] if op[0] == 'hand_branch')
    if not nh or not rec.get('h'):
        return True
    plain = [[op[0]] + [None if op[0] == 'build' and i == 1 else False for i in range(1, len(op))] for op in case['ops']]
    o2 = {k: v for k, v in case['opts'].items() if k not in ('max_steps', 'build_timeout')}
    c2 = dict(logic=case['logic'], arg=case['arg'], opts=o2, ops=plain + [['build', None, False]])
    rec2 = probe_json('probe_lifecycle.py', stdin=json.dumps(dict(cases=[c2])))['cases'][0]
    if rec2['measure_error'] or len(rec2['trace']) != len(c2['ops']):
        return True
    last = rec2['trace'][-1]['obs']
    if not (last['TRUNK_BUILT'] and last['has_logic'] and last['FINISHED'] and not last['PREMATURE']):
        return True
    hands = sum(1 for op, tr in zip(c2['ops'], rec2['trace']) if op[0] == 'hand_branch' and tr['res'] == 'ok')
    n_ctx, closes_ctx = last['hist'] - rec['h'] * hands, last['nopen'] - hands == 0
    if n_ctx < 0 or (n_ctx, closes_ctx) == (rec['n'], rec['closes']):
        return True
    ans = coq_eval_cases('C17', HEADER, [f'otrace {coq_cfg(dict(rec, n=n_ctx, closes=closes_ctx), case["opts"])} [{ops}]'],
                         name='Confirm')[0]
    if [canon_model(t) for t in parse_coq(ans)] == impl:
        WHY_UNCONFIRMED[0] = 'trunk proof length depends on the node-hash order (agrees with the length measured in context)'
        return False
    return True


def replay_dict(case, rec, k, model_row):
    return dict(kind='lifecycle', logic=case['logic'], argument=case['arg'], opts=case['opts'], ops=case['ops'][:k + 1],
                n=rec['n'], closes=rec['closes'], nrules=rec['nrules'], h=rec.get('h'), call=k,
                observed=canon_impl(rec['trace'][k]), expected_model=model_row)


def replay(path: str) -> int:
    rep = json.load(open(path))
    if rep.get('kind') != 'lifecycle':
        print('replay: record names a broken obligation; re-running the check')
        import argparse
        return run(argparse.Namespace(pid='C17', tier=rep.get('tier', 'quick'), seed=rep.get('seed', 0), replay=None))
    case = dict(logic=rep['logic'], arg=rep['argument'], opts=rep['opts'], ops=rep['ops'])
    out = probe_json('probe_lifecycle.py', stdin=json.dumps(dict(cases=[case])))
    FLAGS.update(fin_lock=bool(out['flags'].get('fin_lock')), trunk_verdict=bool(out['flags'].get('trunk_verdict')))
    rec = out['cases'][0]
    if rec['measure_error'] or len(rec['trace']) != len(case['ops']):
        print(f'replay: could not run the case: {rec.get("measure_error")}')
        print(f'VIOLATION property=C17 replay={path}')
        return 1
    ops = '; '.join(model_op(op, tr) for op, tr in zip(case['ops'], rec['trace']))
    ans = coq_eval_cases('C17', HEADER, [f'otrace {coq_cfg(rec, case["opts"])} [{ops}]'],
                         name='Replay')[0]
    model = [canon_model(t) for t in parse_coq(ans)]
    impl = [canon_impl(tr) for tr in rec['trace']]
    bad = False
    for k, (m, r) in enumerate(zip(model, impl)):
        tv = text_violation(case, rec, k)
        if m != r or tv is not None:
            print(f'replay: call #{k} {case["ops"][k]}: implementation {r}; model {m}; text: {tv}')
            if tv is None and not confirmed(dict(case, family='replay')):
                print(f'replay: the disagreement is not counted: {WHY_UNCONFIRMED[0]}')
                return 0
            bad = True
            break
    if not bad:
        print(f'replay: {len(impl)} calls agree with the model; last {impl[-1] if impl else None}')
        return 0
    print(f'VIOLATION property=C17 replay={path}')
    return 1
