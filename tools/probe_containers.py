"""Probe for C18: runs operation sequences on the real ordered-set containers.

Runs inside the implementation's interpreter.  stdin: JSON
  {"kind": "qset"|"linqset"|"Predicates", "universe": [..], "gidx": [..],
   "mode": "final"|"trace", "seqs": [[op, ...], ...]}
An op is a list: ["append", v] ["add", v] ["insert", i, v] ["remove", v] ["discard", v]
["delidx", i] ["pop", i] ["delslice", a, b, s] ["setidx", i, v] ["setslice", a, b, s, [vs]]
["sort", rev] ["reverse"] ["clear"] ["copy"] ["extend", vs] ["update", vs] ["isub", vs]
["iand", vs] ["ixor", vs] ["wedge", v, nb, rel].
For Predicates a value n is Predicate(n // 2, 0, 1 + n % 2); a value given as {"spec": n}
is passed as that predicate's spec tuple (exercises _hook_cast).

stdout: JSON list, one entry per sequence: in "final" mode [exn, obs, noop_ok, alias_ok, rep_ok]
for the last step, in "trace" mode a list of those, one per step.  exn is 0 or the code of
the exception TYPE; obs = [list(c), [len(c)], membership, index, subscript (, get(ref))]
in the numeric encoding of coq/theories/Cont/Run.v.  The probe decides nothing except the
implementation-only facts rep_ok (the concrete parts are consistent with each other: list vs set,
chain vs table entry by entry, next vs prev pointers, lookup index vs members), noop_ok (a single-element operation that raised left list,
len, membership and the internal parts unchanged) and alias_ok (mutating a copy left the
original unchanged).
"""
import itertools
import json
import signal
import sys

from pytableaux.tools.hybrids import qset
from pytableaux.tools.linked import linqset
from pytableaux.lang.collect import Predicates
from pytableaux.lang.lex import Predicate

EXN = {'DuplicateValueError': 1, 'MissingValueError': 2, 'IndexError': 3, 'ValueError': 4,
       'KeyError': 5, 'TypeError': 6, 'AttributeError': 7}
SINGLE = {'append', 'add', 'insert', 'remove', 'discard', 'delidx', 'pop', 'setidx', 'sort',
          'reverse', 'clear', 'copy', 'wedge'}


LIMIT = 200          # no container in a run is longer; a longer iteration is a cyclic chain
STEP_SECONDS = 2.0   # watchdog for one operation or one observation


class Hang(Exception):
    pass


def _alarm(signum, frame):
    raise Hang('watchdog')


def bounded(it):
    res = list(itertools.islice(iter(it), LIMIT + 1))
    if len(res) > LIMIT:
        raise Hang('iteration does not end')
    return res


def arm():
    signal.setitimer(signal.ITIMER_REAL, STEP_SECONDS)


def exn_code(e):
    return EXN.get(type(e).__name__, type(e).__name__)


class Adapter:
    def __init__(self, kind, universe, gidx):
        self.kind = kind
        self.universe = universe
        self.gidx = gidx
        self.cls = dict(qset=qset, linqset=linqset, Predicates=Predicates)[kind]
        self.pred = kind == 'Predicates'
        if self.pred:
            self._p = {}

    def val(self, n):
        if not self.pred:
            return n
        if isinstance(n, dict):
            n = n['spec']
            return (n // 2, 0, 1 + n % 2)
        p = self._p.get(n)
        if p is None:
            p = self._p[n] = Predicate(n // 2, 0, 1 + n % 2)
        return p

    def back(self, x):
        if not self.pred:
            return x
        return x.index * 2 + (x.arity - 1) + 1000 * x.subscript

    def new(self):
        return self.cls()

    def internals(self, c):
        if self.kind == 'qset':
            return (list(c._seq_), sorted(c._set_))
        if self.kind == 'linqset':
            return (sorted(c._linqset__table), c._linkseq__len)
        return (list(map(self.back, c._seq_)), sorted(map(self.back, c._set_)),
                sorted(map(repr, c._lookup)))

    def rep_ok(self, c):
        """Is the concrete representation consistent with itself?  (implementation-only fact:
        the parts the model abstracts from - which link a table key maps to, the prev pointers)"""
        try:
            if self.kind == 'linqset':
                fwd, link, n = [], c.__link_first__, 0
                while link is not None and n < 10000:
                    fwd.append(link)
                    link = link.next
                    n += 1
                bwd, link, n = [], c.__link_last__, 0
                while link is not None and n < 10000:
                    bwd.append(link)
                    link = link.prev
                    n += 1
                table = c._linqset__table
                return (len(fwd) == c._linkseq__len == len(table) and fwd == bwd[::-1]
                        and all(a is b for a, b in zip(fwd, bwd[::-1]))
                        and (not fwd or (fwd[0].prev is None and fwd[-1].next is None))
                        and all(table.get(l.value) is l for l in fwd)
                        and [l.value for l in fwd] == bounded(c))
            ok = len(c._seq_) == len(c._set_) and set(c._seq_) == c._set_
            if self.kind == 'Predicates':
                want = {}
                for p in c._seq_:
                    for r in (*p.refs, p):
                        want[r] = p
                ok = ok and want == dict(c._lookup)
            return ok
        except Exception:
            return False

    def snapshot(self, c):
        try:
            return self._snapshot(c)
        except Exception as e:         # only in states already broken by an earlier defect
            return ('broken', type(e).__name__)

    def _snapshot(self, c):
        return (list(map(self.back, bounded(c))), len(c), [self.val(v) in c for v in self.universe],
                self.internals(c))

    def obs(self, c):
        try:
            return self._obs(c)
        except Exception as e:         # only in states already broken by an earlier defect
            return [['broken', type(e).__name__], [-1], [], [], []]

    def _obs(self, c):
        res = [list(map(self.back, bounded(c))), [len(c)], [int(self.val(v) in c) for v in self.universe]]
        idx = []
        for v in self.universe:
            try:
                idx.append(8 + c.index(self.val(v)))
            except Exception as e:
                idx.append(exn_code(e))
        res.append(idx)
        gets = []
        for i in self.gidx:
            try:
                gets.append(8 + self.back(c[i]))
            except Exception as e:
                gets.append(exn_code(e))
        res.append(gets)
        if self.pred:
            got = []
            for v in self.universe:
                p = self.val(v)
                for ref in (p.spec, p.ident, p.bicoords, p):
                    try:
                        got.append(1 + self.back(c.get(ref)))
                    except KeyError:
                        got.append(0)
            res.append(got)
        return res

    def apply(self, c, op):
        """Execute one operation; returns the container to continue with."""
        k = op[0]
        v = self.val
        if k == 'append':
            c.append(v(op[1]))
        elif k == 'add':
            c.add(v(op[1]))
        elif k == 'insert':
            c.insert(op[1], v(op[2]))
        elif k == 'remove':
            c.remove(v(op[1]))
        elif k == 'discard':
            c.discard(v(op[1]))
        elif k == 'delidx':
            del c[op[1]]
        elif k == 'pop':
            c.pop(op[1])
        elif k == 'delslice':
            del c[slice(op[1], op[2], op[3])]
        elif k == 'setidx':
            c[op[1]] = v(op[2])
        elif k == 'setslice':
            c[slice(op[1], op[2], op[3])] = [v(x) for x in op[4]]
        elif k == 'sort':
            c.sort(reverse=bool(op[1]))
        elif k == 'reverse':
            c.reverse()
        elif k == 'clear':
            c.clear()
        elif k == 'copy':
            return c.copy()
        elif k == 'extend':
            c.extend([v(x) for x in op[1]])
        elif k == 'update':
            c.update([v(x) for x in op[1]])
        elif k == 'isub':
            c -= [v(x) for x in op[1]]
        elif k == 'iand':
            c &= [v(x) for x in op[1]]
        elif k == 'ixor':
            c ^= [v(x) for x in op[1]]
        elif k == 'wedge':
            c.wedge(v(op[1]), v(op[2]), op[3])
        else:
            raise RuntimeError('unknown op ' + k)
        return c


def run_seq(ad, seq, trace):
    c = ad.new()
    out = []
    orig = None
    last = None
    for op in seq:
        single = op[0] in SINGLE
        before = ad.snapshot(c) if single else None
        code = 0
        arm()
        try:
            c2 = ad.apply(c, op)
        except Exception as e:
            code = exn_code(e)
            c2 = c
        noop_ok = True
        if single and code != 0:
            noop_ok = ad.snapshot(c) == before
        if op[0] == 'copy' and code == 0 and c2 is not c:
            orig = (c, ad.snapshot(c))
        elif op[0] == 'copy' and code == 0:
            orig = None
            noop_ok = noop_ok and False      # copy returned the same object
        c = c2
        alias_ok = True
        if orig is not None and op[0] != 'copy':
            alias_ok = ad.snapshot(orig[0]) == orig[1]
        arm()
        last = [code, ad.obs(c) if trace else None, noop_ok, alias_ok, ad.rep_ok(c)]
        if trace:
            out.append(last)
    if trace:
        return out
    if last is None:
        return [0, ad.obs(c), True, True, True]
    arm()
    last[1] = ad.obs(c)
    return last


def main():
    req = json.load(sys.stdin)
    signal.signal(signal.SIGALRM, _alarm)
    ad = Adapter(req['kind'], req['universe'], req['gidx'])
    if req.get('mode') == 'badindex':
        # single-element operations given an index the backing sequence rejects (None, a string, a float, a huge
        # int): they must raise and leave the container - list, length, membership, internals - unchanged
        BAD = {'none': None, 'str': 'x', 'float': 1.5, 'huge': 2 ** 70}
        res = []
        for init, opname, bad, val in req['cases']:
            try:
                c = ad.cls([ad.val(x) for x in init])
                before = ad.snapshot(c)
                exn = None
                try:
                    if opname == 'insert':
                        c.insert(BAD[bad], ad.val(val))
                    elif opname == 'setidx':
                        c[BAD[bad]] = ad.val(val)
                    elif opname == 'delidx':
                        del c[BAD[bad]]
                    elif opname == 'pop':
                        c.pop(BAD[bad])
                    elif opname == 'wedge':
                        c.wedge(ad.val(val), ad.val(init[0]), BAD[bad])
                except Exception as e:  # noqa
                    exn = type(e).__name__
                res.append([exn, ad.snapshot(c) == before, bool(ad.rep_ok(c))])
            except Exception as e:  # noqa
                res.append(['setup:' + type(e).__name__, False, False])
        json.dump(res, sys.stdout, separators=(',', ':'))
        return
    if req.get('mode') == 'keysort':
        # sort(key=..., reverse=...) against the plain list's own sort (stable, ties keep their order)
        KEYS = {'mod2': lambda n: n % 2, 'const': lambda n: 0, 'div2': lambda n: n // 2, 'neg': lambda n: -n}
        res = []
        for elems, kname, rev in req['cases']:
            kf = KEYS[kname]
            try:
                c = ad.cls([ad.val(x) for x in elems])
                c.sort(key=lambda v: kf(ad.back(v)), reverse=bool(rev))
                got = [ad.back(v) for v in c]
                idx = [c.index(ad.val(x)) for x in elems]
            except Exception as e:  # noqa
                got, idx = 'E ' + type(e).__name__, None
            want = sorted(elems, key=kf, reverse=bool(rev))
            res.append([got, want, idx, [want.index(x) for x in elems]])
        json.dump(res, sys.stdout, separators=(',', ':'))
        return
    trace = req.get('mode') == 'trace'
    if 'menu' in req:       # compact form: sequences as tuples of menu indices
        menu = req['menu']
        seqs = ([menu[i] for i in s] for s in req['iseqs'])
    else:
        seqs = req['seqs']
    res = [run_seq(ad, seq, trace) for seq in seqs]
    signal.setitimer(signal.ITIMER_REAL, 0)
    json.dump(res, sys.stdout, separators=(',', ':'))


if __name__ == '__main__':
    main()
